//! C31 — dynamic-array spills are exact and never stale.
//!  (A) tie: `set_cells_with_result` (dynamic branch) + `evaluate_cell`'s clearing + the anchor
//!      pass of `evaluate`, and `prepare_cell_for_user_input` (through `set_user_input`), against
//!      the extracted model (Eval/Spill.v) on small exhaustive configurations: anchor position
//!      (interior, grid corners and edges) x previous extent x result size 1..3 x 1..3 x one
//!      blocking cell of every kind at every place of the neighbourhood.
//!  (B) oracle: after every evaluation in seeded histories (vh_hist operations + a pool of
//!      spill-rich inputs, typing into / blocking / unblocking spill areas, structural edits,
//!      cut/paste, undo/redo) the invariant `spill_exact_b` / `spill_full_b` is evaluated on the
//!      implementation's `model.workbook`, by the extracted predicate (case lines `inv ...`) and by
//!      a Rust re-implementation of it (the observation); plus "a typed input changes no other
//!      user content".
const LAST_ROW: i32 = 1_048_576;
const LAST_COLUMN: i32 = 16_384;
use ironcalc_base::expressions::token::Error;
use ironcalc_base::types::*;
use ironcalc_base::Model;
use serde_json::json;
use std::collections::{BTreeMap, HashMap};
use std::panic::{catch_unwind, AssertUnwindSafe};
use vh_common::*;
use vh_hist::driver::fresh;
use vh_hist::*;

// ---- wire -------------------------------------------------------------------------------------
fn fv_code(v: &FormulaValue) -> i64 {
    match v {
        FormulaValue::Number(n) if n.fract() == 0.0 && n.abs() < 1e6 => *n as i64,
        FormulaValue::Error { ei: Error::SPILL, .. } => -1,
        FormulaValue::Error { ei: Error::CALC, .. } => -2,
        FormulaValue::Unevaluated => -3,
        _ => -9,
    }
}
fn sv_code(v: &SpillValue) -> i64 {
    match v {
        SpillValue::Number(n) if n.fract() == 0.0 && n.abs() < 1e6 => *n as i64,
        SpillValue::Error(Error::SPILL) => -1,
        SpillValue::Error(Error::CALC) => -2,
        _ => -9,
    }
}
fn cell_wire(r: i32, c: i32, cell: &Cell, values: bool) -> String {
    let s = cell.get_style();
    match cell {
        Cell::EmptyCell { .. } => format!("{r} {c} {s} E"),
        Cell::BooleanCell { .. } | Cell::NumberCell { .. } | Cell::ErrorCell { .. } | Cell::SharedString { .. } => format!("{r} {c} {s} V"),
        Cell::CellFormula { f, .. } => format!("{r} {c} {s} F {f}"),
        Cell::ArrayFormula { f, r: (w, h), kind: ArrayKind::Dynamic, v, .. } => format!("{r} {c} {s} D {f} {w} {h} {}", if values { fv_code(v) } else { 0 }),
        Cell::ArrayFormula { f, r: (w, h), kind: ArrayKind::Cse, .. } => format!("{r} {c} {s} C {f} {w} {h}"),
        Cell::SpillCell { a, v, .. } => format!("{r} {c} {s} S {} {} {}", a.0, a.1, if values { sv_code(v) } else { 0 }),
    }
}
fn sorted_cells(ws: &Worksheet) -> Vec<(i32, i32, &Cell)> {
    let mut v: Vec<(i32, i32, &Cell)> = vec![];
    for (r, row) in &ws.sheet_data { for (c, cell) in row { v.push((*r, *c, cell)); } }
    v.sort_by_key(|x| (x.0, x.1));
    v
}
fn sheet_wire(ws: &Worksheet, values: bool) -> String {
    let cells = sorted_cells(ws);
    let mut out = format!("{}", cells.len());
    for (r, c, cell) in cells { out.push(' '); out.push_str(&cell_wire(r, c, cell, values)); }
    out
}
fn dflt_wire(ws: &Worksheet) -> String {
    let mut out = format!("{}", ws.rows.len());
    for r in &ws.rows { out.push_str(&format!(" {} {} {}", r.r, b(r.custom_format), r.s)); }
    out.push_str(&format!(" {}", ws.cols.len()));
    for c in &ws.cols { out.push_str(&format!(" {} {} {}", c.min, c.max, c.style.unwrap_or(0))); }
    out
}

// ---- the predicate, re-implemented ------------------------------------------------------------
fn ext_of(ws: &Worksheet, r: i32, c: i32) -> Option<(i64, i64)> {
    match ws.sheet_data.get(&r).and_then(|m| m.get(&c)) { Some(Cell::ArrayFormula { r: (w, h), .. }) => Some((*w as i64, *h as i64)), _ => None }
}
fn in_rect(a: (i32, i32), w: i64, h: i64, p: (i32, i32)) -> bool {
    let (ar, ac, pr, pc) = (a.0 as i64, a.1 as i64, p.0 as i64, p.1 as i64);
    ar <= pr && pr < ar + h && ac <= pc && pc < ac + w
}
/// (exact, full, first failing clause)
fn spill_bits(ws: &Worksheet) -> (bool, bool, String) {
    let cells = sorted_cells(ws);
    let mut exact = true;
    let mut why = String::new();
    let mut anchors: Vec<((i32, i32), i64, i64)> = vec![];
    for (r, c, cell) in &cells {
        match cell {
            Cell::SpillCell { a, .. } => {
                let ok = match ext_of(ws, a.0, a.1) { Some((w, h)) => in_rect(*a, w, h, (*r, *c)) && (*r, *c) != *a, None => false };
                if !ok && exact { exact = false; why = if ext_of(ws, a.0, a.1).is_none() { "spill-without-anchor".into() } else { "spill-outside-extent".into() }; }
            }
            Cell::ArrayFormula { r: (w, h), .. } => anchors.push(((*r, *c), *w as i64, *h as i64)),
            _ => {}
        }
    }
    for (a, w, h) in &anchors {
        let ok = *w >= 1 && *h >= 1 && a.0 >= 1 && a.0 <= LAST_ROW && a.1 >= 1 && a.1 <= LAST_COLUMN
            && a.0 as i64 + h - 1 <= LAST_ROW as i64 && a.1 as i64 + w - 1 <= LAST_COLUMN as i64;
        if !ok && exact { exact = false; why = "extent-off-grid".into(); }
    }
    for (i, (a1, w1, h1)) in anchors.iter().enumerate() {
        for (a2, w2, h2) in anchors.iter().skip(i + 1) {
            let disj = a1.0 as i64 + h1 <= a2.0 as i64 || a2.0 as i64 + h2 <= a1.0 as i64 || a1.1 as i64 + w1 <= a2.1 as i64 || a2.1 as i64 + w2 <= a1.1 as i64;
            if !disj && exact { exact = false; why = "extents-overlap".into(); }
        }
    }
    let mut full = true;
    for (a, w, h) in &anchors {
        if *w > 64 || *h > 64 || *w < 0 || *h < 0 { continue; } // never produced by the generators
        for rr in 0..*h { for cc in 0..*w {
            let q = (a.0 + rr as i32, a.1 + cc as i32);
            if q == *a { continue; }
            let own = matches!(ws.sheet_data.get(&q.0).and_then(|m| m.get(&q.1)), Some(Cell::SpillCell { a: x, .. }) if x == a);
            if !own { full = false; if why.is_empty() { why = "extent-not-full".into(); } }
        } }
    }
    (exact, full, why)
}

// ---- (A) exhaustive tie -----------------------------------------------------------------------
#[derive(Clone, Copy, PartialEq, Debug)]
enum Blk { None, Empty, Num, Text, Formula, Dyn12, Dyn21, Cse }
const BLKS: &[Blk] = &[Blk::Empty, Blk::Num, Blk::Text, Blk::Formula, Blk::Dyn12, Blk::Dyn21, Blk::Cse];
const PR: i32 = 8; const PC1: i32 = 8; const PC2: i32 = 9; // parameter cells $H$8, $I$8

fn on_grid(r: i64, c: i64) -> bool { r >= 1 && r <= LAST_ROW as i64 && c >= 1 && c <= LAST_COLUMN as i64 }

struct TieStats { cases: u64, spilled: u64, blocked: u64, oob: u64, inputs: u64 }

#[allow(clippy::too_many_arguments)]
fn tie_config(cs: &mut Cases, st: &mut TieStats, samples: &mut Vec<String>, anchor: (i32, i32), prev: Option<(i32, i32)>, size: (i32, i32), blk: Blk, off: (i32, i32), styled: bool) {
    let mut m = Model::new_empty("t", "en", "UTC", "en").unwrap();
    let (ar, ac) = anchor;
    let mut dyns: HashMap<(i32, i32), Option<(i32, i32)>> = HashMap::new(); // None = follows the parameters
    if styled {
        let mut sty = m.get_style_for_cell(0, 1, 1).unwrap();
        sty.font.b = true;
        if ac < LAST_COLUMN { let _ = m.set_column_style(0, ac + 1, &sty); }
        sty.font.i = true;
        if ar < LAST_ROW { let _ = m.set_row_style(0, ar + 1, &sty); }
    }
    let (h0, w0) = prev.unwrap_or((1, 1));
    m.set_user_input(0, PR, PC1, format!("{h0}")).unwrap();
    m.set_user_input(0, PR, PC2, format!("{w0}")).unwrap();
    m.set_user_input(0, ar, ac, "=SEQUENCE($H$8,$I$8)".to_string()).unwrap();
    dyns.insert((ar, ac), None);
    if prev.is_some() { m.evaluate(); }
    // the blocking cell
    let (br, bc) = (ar as i64 + off.0 as i64, ac as i64 + off.1 as i64);
    if blk != Blk::None {
        if !on_grid(br, bc) || (br as i32, bc as i32) == (PR, PC1) || (br as i32, bc as i32) == (PR, PC2) { return; }
        let (br, bc) = (br as i32, bc as i32);
        match blk {
            Blk::Empty => { let mut sty = m.get_style_for_cell(0, br, bc).unwrap(); sty.font.u = true; if m.set_cell_style(0, br, bc, &sty).is_err() { return; } }
            Blk::Num => {
                // also a tie of prepare_cell_for_user_input + the number path of set_user_input
                let p0 = format!("in {} {} {br} {bc}", dflt_wire(&m.workbook.worksheets[0]), sheet_wire(&m.workbook.worksheets[0], true));
                let r = m.set_user_input(0, br, bc, "7".to_string());
                let obs = match r { Ok(()) => format!("ok {}", sheet_wire(&m.workbook.worksheets[0], true)), Err(_) => "err".to_string() };
                // the model keeps values of dynamic anchors; the reset ones are Unevaluated (-3), the others 0 on both sides
                cs.case(&p0, &obs);
                st.inputs += 1;
                if r.is_err() { return; }
            }
            Blk::Text => { if m.set_user_input(0, br, bc, "x".to_string()).is_err() { return; } }
            Blk::Formula => { if m.set_user_input(0, br, bc, "=1+1".to_string()).is_err() { return; } }
            Blk::Dyn12 => { if m.set_user_input(0, br, bc, "=SEQUENCE(1,2)".to_string()).is_err() { return; } dyns.insert((br, bc), Some((1, 2))); }
            Blk::Dyn21 => { if m.set_user_input(0, br, bc, "=SEQUENCE(2,1)".to_string()).is_err() { return; } dyns.insert((br, bc), Some((2, 1))); }
            Blk::Cse => { if m.set_user_array_formula(0, br, bc, 1, 1, "=5").is_err() { return; } }
            Blk::None => {}
        }
    }
    m.set_user_input(0, PR, PC1, format!("{}", size.0)).unwrap();
    m.set_user_input(0, PR, PC2, format!("{}", size.1)).unwrap();
    let ws = &m.workbook.worksheets[0];
    // the dynamic anchors present now, in the order collect_spill_cells visits them
    let mut anchors: Vec<(i32, i32, i32, i32)> = vec![];
    for (r, c, cell) in sorted_cells(ws) {
        if let Cell::ArrayFormula { kind: ArrayKind::Dynamic, .. } = cell {
            let (h, w) = match dyns.get(&(r, c)) { Some(None) => size, Some(Some(x)) => *x, None => return };
            anchors.push((r, c, h, w));
        }
    }
    let mut input = format!("ev {} {} {}", dflt_wire(ws), sheet_wire(ws, false), anchors.len());
    for (r, c, h, w) in &anchors { input.push_str(&format!(" {r} {c} {h} {w}")); }
    m.evaluate();
    let ws = &m.workbook.worksheets[0];
    cs.case(&input, &format!("ok {}", sheet_wire(ws, true)));
    st.cases += 1;
    match ws.sheet_data.get(&ar).and_then(|x| x.get(&ac)) {
        Some(Cell::ArrayFormula { v: FormulaValue::Error { ei: Error::SPILL, m: msg, .. }, .. }) => { if msg.contains("bounds") { st.oob += 1 } else { st.blocked += 1 } }
        Some(Cell::ArrayFormula { .. }) => st.spilled += 1,
        _ => {}
    }
    if samples.len() < 6 && blk != Blk::None && st.cases % 97 == 0 { samples.push(format!("anchor {anchor:?} prev {prev:?} size {size:?} blocker {blk:?} at offset {off:?}")); }
}

fn run_tie(cs: &mut Cases, thorough: bool, seed: u64) -> (TieStats, Vec<String>) {
    let mut st = TieStats { cases: 0, spilled: 0, blocked: 0, oob: 0, inputs: 0 };
    let mut samples = vec![];
    let all_anchors: Vec<(i32, i32)> = vec![(2, 2), (LAST_ROW - 1, LAST_COLUMN - 1), (1, 1), (LAST_ROW, LAST_COLUMN), (LAST_ROW - 1, 2), (2, LAST_COLUMN - 1), (LAST_ROW - 2, LAST_COLUMN), (20, 3)];
    let all_prevs: Vec<Option<(i32, i32)>> = vec![None, Some((3, 3)), Some((1, 2)), Some((2, 1)), Some((2, 3))];
    // quick: the interior anchor and one corner always; the other anchors / previous extents rotate with the seed
    let mut rng = Rng::new(seed ^ 0xC31A);
    let anchors: Vec<(i32, i32)> = if thorough { all_anchors.clone() } else { vec![all_anchors[0], all_anchors[1 + rng.below(7) as usize]] };
    let prevs: Vec<Option<(i32, i32)>> = if thorough { all_prevs.clone() } else { vec![None, Some((3, 3)), all_prevs[2 + rng.below(3) as usize]] };
    for &anchor in &anchors {
        for &prev in &prevs {
            for h in 1..=3 { for w in 1..=3 {
                tie_config(cs, &mut st, &mut samples, anchor, prev, (h, w), Blk::None, (0, 0), false);
                tie_config(cs, &mut st, &mut samples, anchor, prev, (h, w), Blk::None, (0, 0), true);
                for &blk in BLKS {
                    for dr in -1..=3 { for dc in -1..=3 {
                        if (dr, dc) == (0, 0) { continue; }
                        // cells before the anchor matter only when they are dynamic anchors spilling into the block
                        if (dr < 0 || dc < 0) && !matches!(blk, Blk::Dyn12 | Blk::Dyn21 | Blk::Num) { continue; }
                        let styled = thorough && (dr + dc) % 2 == 0;
                        tie_config(cs, &mut st, &mut samples, anchor, prev, (h, w), blk, (dr, dc), styled);
                    } }
                }
            } }
        }
    }
    (st, samples)
}

// ---- (B) histories ----------------------------------------------------------------------------
const SPILL_POOL: &[&str] = &[
    "=SEQUENCE(2)", "=SEQUENCE(2,2)", "=SEQUENCE(1,3)", "=SEQUENCE(A1)", "=SEQUENCE(A1,B1)", "=SEQUENCE(3,A2)", "=SEQUENCE(A1)*2",
    "=A1:B2", "=A1:A3*2", "=C1:C3", "=B1:D1", "={1,2;3,4}", "={1;2;3}", "=FILTER(A1:A5,A1:A5>1)", "=FILTER(A1:B4,A1:A4>A2)",
    "=SORT(A1:A4)", "=UNIQUE(A1:A5)", "=IF(A1>1,SEQUENCE(3),SEQUENCE(1,3))", "=SEQUENCE(2)+B1:C1", "=A1:A2&\"x\"", "=SEQUENCE(B2,2)",
    "=C3:D4", "=SEQUENCE(1048576)", "=SEQUENCE(2,16384)", "=D1:D3+SEQUENCE(3)", "=SEQUENCE(0)", "=SEQUENCE(A1,A1)",
];
const VALUE_POOL: &[&str] = &["1", "2", "3", "5", "", "x", "0", "4", "=1+1", "TRUE", "", "2", "3"];

fn small_rc(rng: &mut Rng) -> (i32, i32) { (rng.range(1, 7) as i32, rng.range(1, 5) as i32) }
fn small_area(rng: &mut Rng, sheet: u32) -> AreaS { let (r, c) = small_rc(rng); AreaS { sheet, row: r, col: c, w: rng.range(1, 3) as i32, h: rng.range(1, 3) as i32 } }

fn gen_c31_op(rng: &mut Rng, ctx: &GenCtx) -> Op {
    let ns = ctx.nsheets.max(1);
    let sheet = if rng.chance(4, 5) { 0 } else { rng.below(ns as u64) as u32 };
    let (row, col) = small_rc(rng);
    match rng.below(100) {
        0..=23 => Op::Input { sheet, row, col, text: rng.pick(SPILL_POOL).to_string() },
        24..=45 => Op::Input { sheet, row, col, text: rng.pick(VALUE_POOL).to_string() },
        46..=50 => Op::ClearContents(small_area(rng, sheet)),
        51..=53 => Op::ClearAll(small_area(rng, sheet)),
        54..=55 => Op::InsertRows { sheet, at: row, n: rng.range(1, 2) as i32 },
        56..=57 => Op::InsertCols { sheet, at: col, n: 1 },
        58..=59 => Op::DeleteRows { sheet, at: row, n: rng.range(1, 2) as i32 },
        60..=61 => Op::DeleteCols { sheet, at: col, n: 1 },
        62..=63 => Op::MoveRows { sheet, at: row, n: 1, delta: rng.range(-2, 2) as i32 },
        64..=65 => Op::MoveCols { sheet, at: col, n: 1, delta: rng.range(-2, 2) as i32 },
        66..=70 => { let (r, c) = small_rc(rng); Op::CopyPaste { src: small_area(rng, sheet), dst_sheet: sheet, dst_row: r, dst_col: c, cut: rng.chance(1, 2) } }
        71..=72 => Op::ArrayFormula { sheet, row, col, w: rng.range(1, 2) as i32, h: rng.range(1, 3) as i32, text: rng.pick(&["=A1:A3*2", "={1,2;3,4}", "=B1:B2", "=SEQUENCE(2,2)"]).to_string() },
        73 => if rng.chance(1, 2) { Op::AutoFillRows { area: small_area(rng, sheet), to: rng.range(2, 9) as i32 } } else { Op::AutoFillCols { area: small_area(rng, sheet), to: rng.range(2, 7) as i32 } },
        74..=83 => Op::Undo,
        84..=88 => Op::Redo,
        _ => gen_op(rng, ctx, true),
    }
}

fn kind_letter(c: Option<&Cell>) -> char {
    match c {
        None => '-', Some(Cell::EmptyCell { .. }) => 'E', Some(Cell::CellFormula { .. }) => 'F', Some(Cell::SpillCell { .. }) => 'S',
        Some(Cell::ArrayFormula { kind: ArrayKind::Dynamic, .. }) => 'D', Some(Cell::ArrayFormula { kind: ArrayKind::Cse, .. }) => 'C', Some(_) => 'V',
    }
}
fn user_content(m: &Model, sheet: u32) -> BTreeMap<(i32, i32), char> {
    let mut out = BTreeMap::new();
    if let Some(ws) = m.workbook.worksheets.get(sheet as usize) {
        for (r, c, cell) in sorted_cells(ws) { let k = kind_letter(Some(cell)); if k == 'V' || k == 'F' { out.insert((r, c), k); } }
    }
    out
}

fn op_group(op: &Op) -> &'static str {
    match kind(op) {
        "insert_rows" | "insert_columns" | "delete_rows" | "delete_columns" | "move_rows" | "move_columns" => "structural",
        "copy_paste" | "cut_paste" | "paste_csv" => "paste",
        "auto_fill_rows" | "auto_fill_columns" => "auto_fill",
        k => k,
    }
}

/// histories that contain CSE arrays: undo / redo are one family each
fn cse_family(ctx: &str) -> String {
    if ctx.starts_with("undo") { "undo".into() } else if ctx.starts_with("redo") { "redo".into() } else { ctx_family(ctx) }
}
fn why_family(why: &str) -> &'static str {
    match why { "spill-without-anchor" | "spill-outside-extent" => "stale-spill", "extents-overlap" | "extent-off-grid" => "extent-conflict", _ => "extent-not-full" }
}
/// undo(x) / redo(x) / failed:x -> the family of x
fn ctx_family(ctx: &str) -> String {
    let inner = ctx.trim_start_matches("failed:");
    let inner = if let Some(i) = inner.find('(') { &inner[i + 1..inner.len() - 1] } else { inner };
    let fam = match inner {
        "array_formula" => "entry", "structural" => "structural", "paste" | "auto_fill" => "paste",
        "clear_all" | "clear_contents" | "input" => "edit", _ => "other",
    };
    if ctx.starts_with("undo") { format!("undo-{fam}") } else if ctx.starts_with("redo") { format!("redo-{fam}") } else { fam.to_string() }
}

/// runs a fixed scenario on a fresh UserModel (with an empty first sheet) and returns the first failing clause
fn scenario(ops: &[Op], show: bool) -> Option<String> {
    let mut m = if matches!(ops.first(), Some(Op::Redo)) { fresh() } else { ironcalc_base::UserModel::new_empty("w", "en", "UTC", "en").unwrap() };
    for op in ops {
        let r = apply_op(&mut m, op);
        m.evaluate();
        if show { println!("  {:?} -> {:?}\n     {}", op, r.is_ok(), sheet_wire(&m.get_model().workbook.worksheets[0], true)); }
    }
    let (e, f, why) = spill_bits(&m.get_model().workbook.worksheets[0]);
    if e && f { None } else { Some(why) }
}
fn inp(row: i32, col: i32, t: &str) -> Op { Op::Input { sheet: 0, row, col, text: t.to_string() } }
fn ar(row: i32, col: i32, w: i32, h: i32) -> AreaS { AreaS { sheet: 0, row, col, w, h } }

fn witnesses() -> Vec<(&'static str, &'static str, Vec<Op>)> {
    let af = |row: i32, col: i32, w: i32, h: i32, t: &str| Op::ArrayFormula { sheet: 0, row, col, w, h, text: t.to_string() };
    vec![
        // undo of a paste that overwrote two dynamic anchors brings back two of their spill cells but not the anchors
        ("stale-spill:undo-paste", "paste over dynamic anchors, undo", vec![Op::Redo, inp(6, 1, "=C3:D4"), Op::MoveRows { sheet: 0, at: 6, n: 1, delta: 1 }, inp(2, 4, "={1;2;3}"), Op::ClearAll(ar(2, 2, 2, 2)),
            inp(3, 3, "=SEQUENCE(A1)*2"), Op::CopyPaste { src: ar(7, 1, 3, 3), dst_sheet: 0, dst_row: 2, dst_col: 3, cut: false }, Op::Undo]),
        // a failing undo leaves the sheet half restored
        ("stale-spill:undo-other", "undo that returns Err half way", vec![Op::Redo, Op::MoveRows { sheet: 1, at: 6, n: 1, delta: 1 }, Op::InsertCols { sheet: 0, at: 4, n: 1 }, Op::Undo, inp(5, 5, "=A1:B2"), Op::ClearAll(ar(4, 1, 1, 2)),
            inp(7, 3, "x"), inp(1, 2, "1"), Op::DeleteRows { sheet: 0, at: 3, n: 2 }, inp(6, 3, "=A1:A3*2"), inp(2, 2, ""), inp(6, 3, "=FILTER(A1:B4,A1:A4>A2)"), inp(5, 2, "2"),
            inp(3, 3, "=FILTER(A1:B4,A1:A4>A2)"), Op::RangeStyle { area: ar(10, 3, 3, 3), path: "fill.bg_color".into(), value: "#FFFFFF".into() }, inp(3, 4, "=SEQUENCE(A1)"), inp(3, 2, "0"), Op::Undo,
            Op::CopyPaste { src: ar(4, 4, 3, 2), dst_sheet: 0, dst_row: 3, dst_col: 4, cut: true }, Op::Redo, inp(3, 3, "=SEQUENCE(2,16384)"), Op::Undo, Op::Undo]),
        // set_user_array_formula writes its placeholders over a dynamic anchor without clearing that anchor's spill cells
        ("cse-history:entry", "CSE array entered over a dynamic anchor", vec![inp(5, 4, "=SEQUENCE(3)"), af(3, 3, 2, 3, "=SEQUENCE(2,2)")]),
        // structural edits move a CSE array by re-entering it; the source anchor is removed afterwards — together with the new placeholder
        ("cse-history:structural", "delete a column left of a CSE array", vec![af(7, 2, 2, 1, "=SEQUENCE(2,2)"), Op::DeleteCols { sheet: 0, at: 1, n: 1 }]),
        ("cse-history:undo", "insert a column left of a CSE array, undo", vec![af(7, 2, 2, 1, "=SEQUENCE(2,2)"), Op::InsertCols { sheet: 0, at: 1, n: 1 }, Op::Undo]),
    ]
}

// ---- (C) a reader array and an anchor: every geometric relation between input range and spill block ----
fn col_letters(c: i32) -> String { ((b'A' + (c - 1) as u8) as char).to_string() }
fn num_at(ws: &Worksheet, r: i32, c: i32) -> Option<f64> {
    match ws.sheet_data.get(&r).and_then(|m| m.get(&c)) {
        Some(Cell::ArrayFormula { v: FormulaValue::Number(n), .. }) | Some(Cell::CellFormula { v: FormulaValue::Number(n), .. }) => Some(*n),
        Some(Cell::SpillCell { v: SpillValue::Number(n), .. }) => Some(*n),
        Some(Cell::NumberCell { v, .. }) => Some(*v),
        _ => None,
    }
}
/// the values every dynamic anchor and spill cell shows (position -> bits / kind), to compare two evaluations
fn array_values(ws: &Worksheet) -> Vec<String> {
    sorted_cells(ws).into_iter().filter_map(|(r, c, cell)| match cell {
        Cell::ArrayFormula { v, r: ext, .. } => Some(format!("{r},{c}:A{ext:?}:{v:?}")),
        Cell::SpillCell { v, a, .. } => Some(format!("{r},{c}:S{a:?}:{v:?}")),
        _ => None,
    }).collect()
}

/// anchor =SEQUENCE(3,3) at E5 (block E5:G7); reader at A1 (before it in evaluation order) or A10 (after it);
/// the reader's input range is every rectangle up to 3x3 inside D4:H8 (one ring around the block).
/// Expected values are computed here from the geometry, not taken from the engine.
fn run_geometry(or: &mut Oracle, thorough: bool) -> (u64, u64) {
    let (br, bc, n) = (5i32, 5i32, 3i32);
    let block = |r: i32, c: i32| -> f64 { if r >= br && r < br + n && c >= bc && c < bc + n { ((r - br) * n + (c - bc) + 1) as f64 } else { 0.0 } };
    let (mut scen, mut touching) = (0u64, 0u64);
    for r1 in 4..=8 { for r2 in r1..=(r1 + 2).min(8) { for c1 in 4..=8 { for c2 in c1..=(c1 + 2).min(8) {
        let range = format!("{}{}:{}{}", col_letters(c1), r1, col_letters(c2), r2);
        let overlaps = r1 <= br + n - 1 && r2 >= br && c1 <= bc + n - 1 && c2 >= bc;
        for form in 0..2 {
            // form 0: the range itself times two (same shape as the range); form 1: a 2x1 array scaled by the sum of the range
            let text = if form == 0 { format!("={range}*2") } else { format!("=SEQUENCE(2)*SUM({range})") };
            let (eh, ew) = if form == 0 { (r2 - r1 + 1, c2 - c1 + 1) } else { (2, 1) };
            let sum: f64 = (r1..=r2).flat_map(|r| (c1..=c2).map(move |c| (r, c))).map(|(r, c)| block(r, c)).sum();
            let expect = |i: i32, j: i32| -> f64 { if form == 0 { 2.0 * block(r1 + i, c1 + j) } else { (i + 1) as f64 * sum } };
            for reader_row in [1i32, 10] {
                // 0: Model, everything entered (reader first), one evaluate; 1: same, anchor entered first;
                // 2: UserModel (evaluates after each input), reader first; 3: UserModel, anchor first
                for mode in 0..4 {
                    if !thorough && mode == 1 && form == 1 { continue; }
                    let inputs: Vec<(i32, i32, String)> = if mode % 2 == 0 { vec![(reader_row, 1, text.clone()), (br, bc, "=SEQUENCE(3,3)".to_string())] }
                        else { vec![(br, bc, "=SEQUENCE(3,3)".to_string()), (reader_row, 1, text.clone())] };
                    scen += 1; if overlaps { touching += 1; }
                    or.checked += 1;
                    let mut model_holder;
                    let mut user_holder;
                    let model: &mut Model = if mode < 2 {
                        model_holder = Model::new_empty("g", "en", "UTC", "en").unwrap();
                        for (r, c, t) in &inputs { model_holder.set_user_input(0, *r, *c, t.clone()).unwrap(); }
                        model_holder.evaluate();
                        &mut model_holder
                    } else {
                        user_holder = ironcalc_base::UserModel::new_empty("g", "en", "UTC", "en").unwrap();
                        for (r, c, t) in &inputs { user_holder.set_user_input(0, *r, *c, t).unwrap(); }
                        model_holder = Model::from_bytes(&user_holder.to_bytes(), "en").unwrap();
                        // from_bytes keeps the stored values: this is the state the user sees
                        &mut model_holder
                    };
                    let input = json!({"reader": format!("A{reader_row} {text}"), "anchor": "E5 =SEQUENCE(3,3)", "entered": if mode % 2 == 0 { "reader first" } else { "anchor first" }, "api": if mode < 2 { "Model: all inputs, one evaluate" } else { "UserModel: evaluate after each input" }});
                    let where_ = if reader_row == 1 { "reader-before-anchor" } else { "reader-after-anchor" };
                    // 1. the anchor's block
                    let ws = &model.workbook.worksheets[0];
                    let mut bad: Option<String> = None;
                    for r in br..br + n { for c in bc..bc + n { if num_at(ws, r, c) != Some(block(r, c)) && bad.is_none() { bad = Some(format!("anchor block cell ({r},{c}) shows {:?}, expected {}", num_at(ws, r, c), block(r, c))); } } }
                    // 2. the reader's block: every element of its CURRENT result
                    for i in 0..eh { for j in 0..ew { let got = num_at(ws, reader_row + i, 1 + j); if got != Some(expect(i, j)) && bad.is_none() { bad = Some(format!("reader cell ({},{}) shows {:?}, expected {}", reader_row + i, 1 + j, got, expect(i, j))); } } }
                    let (e, f, why) = spill_bits(ws);
                    if (!e || !f) && bad.is_none() { bad = Some(why); }
                    if let Some(d) = bad { or.fail(&format!("spill-value-wrong:{where_}"), input.clone(), d); continue; }
                    // 3. nothing is stale: a second evaluation changes no array value
                    let before = array_values(ws);
                    model.evaluate();
                    let after = array_values(&model.workbook.worksheets[0]);
                    if before != after { or.fail(&format!("stale-until-reevaluated:{where_}"), input, format!("a second evaluate changes array values: {:?} -> {:?}", before.iter().zip(after.iter()).find(|(x, y)| x != y), ())); }
                }
            }
        }
    } } } }
    (scen, touching)
}

fn main() {
    let a = Args::parse();
    if a.extra.first().map(|x| x == "probe").unwrap_or(false) {
        for (name, what, ops) in witnesses() { println!("{name} ({what})"); let r = scenario(&ops, a.extra.len() > 1); println!("  => {r:?}"); }
        return;
    }
    let mut cs = Cases::new(&a.out, "c31");
    let mut or = Oracle::default();
    // (A)
    let (tst, mut samples) = run_tie(&mut cs, a.thorough, a.seed);
    let tie_cases = cs.n;
    // the witnesses of the known findings, replayed on every run
    for (class, what, ops) in witnesses() {
        or.checked += 1;
        if let Some(why) = scenario(&ops, false) {
            or.fail(class, json!({"witness": what, "history": ops_json(&ops)}), format!("{what}: {why}"));
        }
    }
    // (C)
    let (geo_scen, geo_touching) = run_geometry(&mut or, a.thorough);
    // (B)
    let mut rng = Rng::new(a.seed ^ 0xC31);
    let (nh, maxl) = if a.thorough { (1500u64, 40i64) } else { (150u64, 30i64) };
    let mut kinds: BTreeMap<String, u64> = BTreeMap::new();
    let (mut steps, mut states, mut with_dyn, mut with_spill, mut blocked_states) = (0u64, 0u64, 0u64, 0u64, 0u64);
    for hno in 0..nh {
        let mut m = fresh();
        let len = rng.range(8, maxl);
        // half of the histories never enter a CSE array formula: there every failure is about dynamic arrays alone
        let allow_cse = hno % 2 == 1;
        let mut ops_done: Vec<Op> = vec![];
        // stack of the groups of recorded operations, to name what an undo undoes
        let mut done_stack: Vec<&'static str> = vec![];
        let mut undone_stack: Vec<&'static str> = vec![];
        'hist: for _ in 0..len {
            let mut op = gen_c31_op(&mut rng, &ctx_of(&m));
            if !allow_cse { while matches!(op, Op::ArrayFormula { .. }) { op = gen_c31_op(&mut rng, &ctx_of(&m)); } }
            *kinds.entry(kind(&op).to_string()).or_insert(0) += 1;
            let before = if let Op::Input { sheet, .. } = &op { Some(user_content(m.get_model(), *sheet)) } else { None };
            let d0 = m.verif_history_depths();
            ops_done.push(op.clone());
            let r = catch_unwind(AssertUnwindSafe(|| apply_op(&mut m, &op)));
            let ok = match r {
                Err(_) => { or.fail(&format!("panic:{}", op_group(&op)), json!({"history": ops_json(&ops_done)}), format!("{} panicked", kind(&op))); break 'hist; }
                Ok(Err(_)) => false,
                Ok(Ok(())) => true,
            };
            let d1 = m.verif_history_depths();
            let ctx: String = match &op {
                Op::Undo => { if ok { let g = done_stack.pop().unwrap_or("?"); undone_stack.push(g); format!("undo({g})") } else { "undo(-)".into() } }
                Op::Redo => { if ok { let g = undone_stack.pop().unwrap_or("?"); done_stack.push(g); format!("redo({g})") } else { "redo(-)".into() } }
                o => { if d1.0 > d0.0 { for _ in d0.0..d1.0 { done_stack.push(op_group(o)); } undone_stack.clear(); } if ok { op_group(o).to_string() } else { format!("failed:{}", op_group(o)) } }
            };
            if catch_unwind(AssertUnwindSafe(|| m.evaluate())).is_err() {
                or.fail(&format!("panic:evaluate:{ctx}"), json!({"history": ops_json(&ops_done)}), "evaluate panicked".into()); break 'hist;
            }
            steps += 1;
            let model = m.get_model();
            for (si, ws) in model.workbook.worksheets.iter().enumerate() {
                let ncells: usize = ws.sheet_data.values().map(|r| r.len()).sum();
                if ncells > 400 { continue; } // full-column spills: the invariant is checked by the Rust side only
                let (e, f, why) = spill_bits(ws);
                cs.case(&format!("inv {}", sheet_wire(ws, false)), &format!("{} {}", b(e), b(f)));
                states += 1;
                or.checked += 1;
                let cells = sorted_cells(ws);
                if cells.iter().any(|x| kind_letter(Some(x.2)) == 'D') { with_dyn += 1; }
                if cells.iter().any(|x| kind_letter(Some(x.2)) == 'S') { with_spill += 1; }
                if cells.iter().any(|x| matches!(x.2, Cell::ArrayFormula { v: FormulaValue::Error { ei: Error::SPILL, .. }, .. })) { blocked_states += 1; }
                if !e || !f {
                    let class = if allow_cse { format!("cse-history:{}", cse_family(&ctx)) } else { format!("{}:{}", why_family(&why), ctx_family(&ctx)) };
                    or.fail(&class, json!({"history": ops_json(&ops_done), "sheet": si, "state": sheet_wire(ws, true)}), format!("after {ctx} and evaluate: {why} on sheet {si}"));
                    break 'hist; // the broken state would echo through the rest of the history
                }
            }
            // big sheets (not dumped): Rust predicate only
            for (si, ws) in model.workbook.worksheets.iter().enumerate() {
                let ncells: usize = ws.sheet_data.values().map(|r| r.len()).sum();
                if ncells <= 400 { continue; }
                let (e, _f, why) = spill_bits(ws);
                or.checked += 1;
                let class = if allow_cse { format!("cse-history:{}", cse_family(&ctx)) } else { format!("{}:{}", why_family(&why), ctx_family(&ctx)) };
                if !e { or.fail(&class, json!({"history": ops_json(&ops_done), "sheet": si}), format!("after {ctx} and evaluate: {why} on sheet {si} (large sheet)")); break 'hist; }
            }
            // nothing is stale: a second evaluation changes no array value (histories without CSE arrays)
            if !allow_cse {
                let before: Vec<Vec<String>> = m.get_model().workbook.worksheets.iter().map(array_values).collect();
                if catch_unwind(AssertUnwindSafe(|| m.evaluate())).is_err() { break 'hist; }
                let after: Vec<Vec<String>> = m.get_model().workbook.worksheets.iter().map(array_values).collect();
                or.checked += 1;
                if before != after {
                    let d = before.iter().flatten().zip(after.iter().flatten()).find(|(x, y)| x != y).map(|(x, y)| format!("{x} -> {y}")).unwrap_or_else(|| "cells appeared or vanished".into());
                    or.fail(&format!("stale-until-reevaluated:{}", ctx_family(&ctx)), json!({"history": ops_json(&ops_done)}), format!("after {ctx}: a second evaluate changes array values: {d}"));
                    break 'hist;
                }
            }
            let model = m.get_model();
            // a typed input changes no other user content of its sheet
            if let (Some(bef), Op::Input { sheet, row, col, .. }) = (&before, &op) {
                let aft = user_content(model, *sheet);
                or.checked += 1;
                for (p, k) in bef {
                    if *p == (*row, *col) { continue; }
                    if aft.get(p) != Some(k) {
                        let now = kind_letter(model.workbook.worksheets.get(*sheet as usize).and_then(|w| w.sheet_data.get(&p.0)).and_then(|r| r.get(&p.1)));
                        or.fail(&format!("user-content-overwritten:{k}->{now}:{ctx}"), json!({"history": ops_json(&ops_done), "cell": [p.0, p.1]}), format!("typing into ({row},{col}) turned the {k} cell at {p:?} into {now}"));
                        break 'hist;
                    }
                }
            }
        }
        if hno < 3 { samples.push(format!("{:?}", ops_done.iter().take(5).collect::<Vec<_>>())); }
    }
    let total = cs.n;
    cs.finish(json!({
        "oracle_failures": or.failures, "oracle_checked": or.checked, "oracle_failures_per_class": or.per_class,
        "distribution": {"tie_cases": tie_cases, "tie_eval": tst.cases, "tie_input": tst.inputs, "geometry_scenarios": geo_scen, "geometry_range_touches_block": geo_touching, "tie_spilled": tst.spilled, "tie_blocked": tst.blocked, "tie_out_of_bounds": tst.oob,
                         "histories": nh, "steps": steps, "states_checked": states, "states_with_dynamic_anchor": with_dyn, "states_with_spill_cells": with_spill, "states_with_spill_error": blocked_states, "op_kinds": kinds},
        "samples": samples, "distinct_nontrivial": tst.spilled + tst.blocked + tst.oob + with_dyn, "total_cases": total,
    }));
}
