//! C11 — text inputs never crash the engine: implementation side.
//!
//! TIE (lexer cursor model, coq/theories/Syntax/LexerSafe.v): for every generated string, in A1
//! and R1C1 mode, with '.' and ',' as decimal separator: token kinds and cursor positions of
//! `Lexer::next_token` until EOF (`get_position` after every token) -> cases/c11.{in,impl}.
//! SEARCH (fuzz style, NOT proof): the same strings (and format codes x numbers) through the
//! parser, printers, parse_at_cursor at every cursor, cycle_reference at every (start, end),
//! get_tokens, format_number, Model::set_user_input in every language/locale, all under
//! catch_unwind; evaluation in a CHILD process under `ulimit -v` (F26 aborts the process).
//! The same binary built with `--profile checked` (overflow checks + debug assertions) runs the
//! search streams again (`search-only`).
use std::collections::{BTreeMap, HashMap, HashSet};
use std::sync::Mutex;

use ironcalc_base::expressions::lexer::util::{get_tokens, get_tokens_with_locale};
use ironcalc_base::expressions::lexer::{Lexer, LexerMode};
use ironcalc_base::expressions::parser::stringify::{to_english_string, to_rc_format};
use ironcalc_base::expressions::parser::{Node, Parser};
use ironcalc_base::expressions::token::TokenType;
use ironcalc_base::expressions::types::CellReferenceRC;
use ironcalc_base::formatter::format::format_number;
use ironcalc_base::language::get_language;
use ironcalc_base::locale::{get_locale, get_supported_locales};
use ironcalc_base::Model;
use serde_json::json;
use vh_common::*;

static LAST_PANIC: Mutex<Option<(String, u32, String)>> = Mutex::new(None);

fn install_hook() {
    std::panic::set_hook(Box::new(|info| {
        let loc = info.location().map(|l| (l.file().to_string(), l.line())).unwrap_or(("?".into(), 0));
        let msg = if let Some(s) = info.payload().downcast_ref::<&str>() {
            s.to_string()
        } else if let Some(s) = info.payload().downcast_ref::<String>() {
            s.clone()
        } else {
            "?".to_string()
        };
        if let Ok(mut g) = LAST_PANIC.lock() {
            *g = Some((loc.0, loc.1, msg));
        }
    }));
}

/// class of a panic = file + text of the source line (stable under line shifts)
fn panic_class() -> (String, String) {
    let p = LAST_PANIC.lock().ok().and_then(|mut g| g.take());
    let (file, line, msg) = p.unwrap_or(("?".into(), 0, "?".into()));
    let short = file.rsplit("/src/").next().unwrap_or(&file).to_string();
    let path = if file.starts_with('/') { file.clone() } else { format!("/repo/{file}") };
    let mut text = String::new();
    if file.contains("base/src") || file.contains("xlsx/src") {
        if let Ok(src) = std::fs::read_to_string(&path) {
            if let Some(l) = src.lines().nth(line.saturating_sub(1) as usize) {
                text = l.trim().to_string();
            }
        }
    } else {
        text = msg.chars().take(60).collect();
    }
    (format!("panic@{short}: {text}"), format!("{file}:{line}: {msg}"))
}

fn guarded<T>(f: impl FnOnce() -> T + std::panic::UnwindSafe) -> Result<T, (String, String)> {
    match std::panic::catch_unwind(f) {
        Ok(v) => Ok(v),
        Err(_) => Err(panic_class()),
    }
}

// ---- token kinds shared with LexerSafe.v --------------------------------------------------------
fn kind(t: &TokenType) -> i64 {
    match t {
        TokenType::Illegal(_) => 0,
        TokenType::EOF => 1,
        TokenType::Ident(_) => 2,
        TokenType::String(_) => 3,
        TokenType::Number(_) => 4,
        TokenType::Boolean(_) => 5,
        TokenType::Error(_) => 6,
        TokenType::Compare(_) => 7,
        TokenType::Addition(_) => 8,
        TokenType::Product(_) => 9,
        TokenType::Power => 10,
        TokenType::LeftParenthesis => 11,
        TokenType::RightParenthesis => 12,
        TokenType::Colon => 13,
        TokenType::Semicolon => 14,
        TokenType::LeftBracket => 15,
        TokenType::RightBracket => 16,
        TokenType::LeftBrace => 17,
        TokenType::RightBrace => 18,
        TokenType::Comma => 19,
        TokenType::Bang => 20,
        TokenType::Percent => 21,
        TokenType::And => 22,
        TokenType::At => 23,
        TokenType::Spill => 24,
        TokenType::Backslash => 25,
        TokenType::Reference { .. } => 26,
        TokenType::Range { .. } => 27,
        TokenType::StructuredReference { .. } => 28,
    }
}

/// tokens of `s`: "kind:pos kind:pos ... end" (pos = get_position after the token)
fn lex_obs(s: &str, a1: bool, locale: &'static ironcalc_base::locale::Locale, language: &'static ironcalc_base::language::Language) -> (String, bool) {
    let n = s.chars().count() as i32;
    let r = guarded(|| {
        let mut lx = Lexer::new(s, if a1 { LexerMode::A1 } else { LexerMode::R1C1 }, locale, language);
        let mut out = vec![];
        let mut over = false;
        for _ in 0..(n + 3) {
            let t = lx.next_token();
            let p = lx.get_position();
            if p > n {
                over = true;
            }
            out.push(format!("{}:{}", kind(&t), p));
            if t == TokenType::EOF {
                return (out.join(","), over, true);
            }
        }
        (out.join(","), over, false)
    });
    match r {
        Ok((o, over, ended)) => (if ended { format!("ok {o}") } else { format!("loop {o}") }, over),
        Err(_) => ("panic".to_string(), false),
    }
}

/// per-case character table from the Rust standard library: code.cls.nupper.upper... per distinct char
fn char_table(s: &str) -> String {
    let mut seen: Vec<char> = vec![];
    let mut out: Vec<String> = vec![];
    let mut work: Vec<char> = s.chars().collect();
    let mut i = 0;
    while i < work.len() {
        let c = work[i];
        i += 1;
        if seen.contains(&c) {
            continue;
        }
        seen.push(c);
        let cls = (c.is_alphabetic() as u32) | ((c.is_alphanumeric() as u32) << 1) | ((c.is_whitespace() as u32) << 2);
        let up: Vec<char> = c.to_uppercase().collect();
        let mut e = format!("{}.{}.{}", c as u32, cls, up.len());
        for u in &up {
            e.push_str(&format!(".{}", *u as u32));
            work.push(*u); // the table is closed under to_uppercase
        }
        out.push(e);
    }
    if out.is_empty() { "-".to_string() } else { out.join(".") }
}

// ---- generators -------------------------------------------------------------------------------------
pub const FRAGMENTS: &[&str] = &[
    "A1", "$A$1", "B2:C3", "A:A", "1:1", "XFD1048576", "XFE1", "A1048577", "1048577", "R[", "R[1]C[2]", "R1C1", "RC", "R[-1]C", "C", "R",
    "Sheet1!", "'My Sheet'!", "'", "''", "\"", "\"a\"\"b\"", "#", "#REF!", "#N/A", "#DIV/0!", "#VALUE!", "#NAME?", "#SPILL!", "[", "]", "{", "}",
    "(", ")", ",", ";", ":", "!", "$", "%", "&", "^", "<", ">", "<=", "<>", "=", "+", "-", "*", "/", "@", "\\", ".", "1", "12.5", "1e5", "1E+", "1e-3", ".5", "0",
    "SUM", "SUM(", "IF(", "TRUE", "FALSE", "true", "Table1[", "[#This Row]", "[#All]", "#Totals]", "[[Col]]", "[Col", "x_1", "_", "a.b",
    " ", "\t", "\n", "\u{a0}", "é", "ß", "٣", "中", "😀", "Ⅻ", "²", "ı", "ſ", "İ",
];

fn random_string(rng: &mut Rng) -> String {
    let n = 1 + rng.below(8);
    let mut s = String::new();
    for _ in 0..n {
        if rng.chance(1, 6) {
            let c = match rng.below(4) {
                0 => char::from_u32(32 + rng.below(95) as u32).unwrap(),
                1 => char::from_u32(rng.below(0x300) as u32).unwrap_or('x'),
                2 => char::from_u32(0x4e00 + rng.below(100) as u32).unwrap_or('x'),
                _ => char::from_u32(0x1F600 + rng.below(40) as u32).unwrap_or('x'),
            };
            s.push(c);
        } else {
            s.push_str(rng.clone_pick(FRAGMENTS));
        }
    }
    s
}

const VALID_FORMULAS: &[&str] = &[
    "A1+B2*3", "SUM(A1:B3)", "IF(A1>0,\"yes\",\"no\")", "Sheet1!A1", "'My Sheet'!$B$2:$C$3", "-A1^2%", "{1,2;3,4}", "A1&\" \"&B1", "SUM(A:A)+SUM(1:3)",
    "Table1[[#This Row],[Col]]", "Table1[Col]", "Table1[#Totals]", "LAMBDA(x,x+1)(2)", "LET(a,1,a*2)", "A1:INDEX(B:B,3)", "#REF!+1", "1.5e3*2", "NOT(TRUE)", "A1#", "@A1:A3",
    "R[1]C[-1]+R1C1", "R[1]C:R[2]C[3]", "RC", "SUM(R[-3]C:R[-1]C)",
];
const VALID_FORMATS: &[&str] = &[
    "General", "0", "0.00", "#,##0", "#,##0.00", "0%", "0.00E+00", "# ?/?", "dd/mm/yyyy", "yyyy-mm-dd hh:mm:ss", "h:mm AM/PM", "[$-409]d-mmm-yy", "[Red]0.0;[Blue]-0.0;0;@",
    "\"x\"0", "0\" units\"", "_(* #,##0_);_(* (#,##0);_(* \"-\"_);_(@_)", "[>100]0;[<0]-0;0", "mmmm d, yyyy", "0.0??", "???.???", "@", "#", "00000", "0.0E-0", "[h]:mm", "mm:ss.0",
];
const FORMAT_FRAGS: &[&str] = &[
    "0", "#", "?", ".", ",", "%", "E+", "E-", "e+", "/", "\"", "\\", "_", "*", "@", "[", "]", "[Red]", "[$", "[$-", "[>", "[<=", ";", "d", "m", "y", "h", "s", "AM/PM", "A/P",
    "General", " ", "-", "(", ")", "é", "😀", "0.", ".0", "[h]", "[Color", "[Color57]", "1", "9", "E", "e", "\u{0}",
];
const NUMBERS: &[f64] = &[
    0.0, -0.0, 1.0, -1.0, 0.5, 1234.5678, -1234.5678, 1e-10, 1e15, 1e16, 1e21, 1e300, -1e300, 1e-300, 5e-324, 1.7976931348623157e308, 0.1, 0.999999999, 9.995, 99999.5,
    2958465.0, 2958466.0, 44927.5, -44927.0, 60.0, 61.0, 0.99999999999, 123456789012345680.0, f64::NAN, f64::INFINITY, f64::NEG_INFINITY,
];

fn mutate(rng: &mut Rng, s: &str, frags: &[&str]) -> String {
    let mut c: Vec<char> = s.chars().collect();
    for _ in 0..=rng.below(3) {
        match rng.below(5) {
            0 if !c.is_empty() => {
                let i = rng.below(c.len() as u64) as usize;
                c.remove(i);
            }
            1 => {
                let i = rng.below(c.len() as u64 + 1) as usize;
                let f: Vec<char> = rng.pick(frags).chars().collect();
                c.splice(i..i, f);
            }
            2 if !c.is_empty() => {
                let i = rng.below(c.len() as u64) as usize;
                c.truncate(i);
            }
            3 if c.len() > 1 => {
                let i = rng.below(c.len() as u64) as usize;
                let j = rng.below(c.len() as u64) as usize;
                c.swap(i, j);
            }
            _ if !c.is_empty() => {
                let i = rng.below(c.len() as u64) as usize;
                let x = c[i];
                c.insert(i, x);
            }
            _ => {}
        }
    }
    c.into_iter().collect()
}

/// does the formula contain a range of more than 10^7 cells (the F26 class predicate)?
fn has_huge_range(node: &Node) -> bool {
    let mut found = false;
    fn walk(n: &Node, found: &mut bool) {
        match n {
            Node::RangeKind { row1, column1, row2, column2, absolute_row1, absolute_column1, absolute_row2, absolute_column2, .. } => {
                // stored relative to the context cell A1 = (1,1)
                let r1 = if *absolute_row1 { *row1 } else { *row1 + 1 } as i64;
                let c1 = if *absolute_column1 { *column1 } else { *column1 + 1 } as i64;
                let r2 = if *absolute_row2 { *row2 } else { *row2 + 1 } as i64;
                let c2 = if *absolute_column2 { *column2 } else { *column2 + 1 } as i64;
                if ((r2 - r1).abs() + 1) * ((c2 - c1).abs() + 1) > 10_000_000 {
                    *found = true;
                }
            }
            Node::OpRangeKind { left, right } | Node::OpConcatenateKind { left, right } => { walk(left, found); walk(right, found); }
            Node::OpSumKind { left, right, .. } | Node::OpProductKind { left, right, .. } | Node::CompareKind { left, right, .. } => { walk(left, found); walk(right, found); }
            Node::OpPowerKind { left, right } => { walk(left, found); walk(right, found); }
            Node::FunctionKind { args, .. } | Node::NamedFunctionKind { args, .. } => { for a in args { walk(a, found); } }
            Node::UnaryKind { right, .. } => walk(right, found),
            Node::ImplicitIntersection { child, .. } => walk(child, found),
            _ => {}
        }
    }
    walk(node, &mut found);
    found
}

struct Search {
    or: Oracle,
    counts: BTreeMap<String, u64>,
    prefix: String,
}
impl Search {
    fn fail(&mut self, stream: &str, cls: (String, String), input: serde_json::Value) {
        let class = format!("{}{}", self.prefix, cls.0);
        self.or.fail(&class, json!({"stream": stream, "input": input}), cls.1);
    }
    fn tick(&mut self, stream: &str) {
        *self.counts.entry(stream.to_string()).or_insert(0) += 1;
        self.or.checked += 1;
    }
}

fn ctx() -> CellReferenceRC {
    CellReferenceRC { sheet: "Sheet1".to_string(), row: 1, column: 1 }
}

fn search_formula(se: &mut Search, s: &str, parsers: &mut [(String, Parser<'static>)], deep: bool) {
    let n = s.chars().count();
    // parser + printers, every language
    for (lang, p) in parsers.iter_mut() {
        se.tick("parse+print");
        let r = guarded(std::panic::AssertUnwindSafe(|| {
            let node = p.parse(s, &ctx());
            let _ = to_rc_format(&node);
            let _ = to_english_string(&node, &ctx());
        }));
        if let Err(c) = r {
            se.fail("parse+print", c, json!({"formula": s, "language": lang}));
        }
        if !deep {
            break;
        }
    }
    // completion entry point at every cursor
    for cur in 0..=(n + 1) {
        se.tick("parse_at_cursor");
        let p = &mut parsers[0].1;
        let r = guarded(std::panic::AssertUnwindSafe(|| {
            let _ = p.parse_at_cursor(s, cur, &ctx());
        }));
        if let Err(c) = r {
            se.fail("parse_at_cursor", c, json!({"formula": s, "cursor": cur}));
        }
    }
    // marked tokens
    se.tick("get_tokens");
    if let Err(c) = guarded(|| { let _ = get_tokens(s); }) {
        se.fail("get_tokens", c, json!({"formula": s}));
    }
    if deep {
        let de = get_locale("de").unwrap();
        let en = get_language("en").unwrap();
        se.tick("get_tokens");
        if let Err(c) = guarded(|| { let _ = get_tokens_with_locale(s, de, en); }) {
            se.fail("get_tokens(de)", c, json!({"formula": s}));
        }
    }
    // F4 at every (start, end)
    let full = format!("={s}");
    let m = n + 1;
    let loc = get_locale("en").unwrap();
    let lang = get_language("en").unwrap();
    for st in 0..=(m + 1) {
        for en in st..=(m + 1).min(st + if deep { m + 1 } else { 2 }) {
            se.tick("cycle_reference");
            let f = &full;
            let r = guarded(|| {
                let _ = ironcalc_base::expressions::lexer::util::cycle_reference(f, st, en, loc, lang);
            });
            if let Err(c) = r {
                se.fail("cycle_reference", c, json!({"value": full, "start": st, "end": en}));
            }
        }
    }
}

fn search_format(se: &mut Search, fmt: &str, locales: &[&'static ironcalc_base::locale::Locale]) {
    for (li, loc) in locales.iter().enumerate() {
        for &v in NUMBERS {
            se.tick("format_number");
            let r = guarded(|| {
                let _ = format_number(v, fmt, loc);
            });
            if let Err(c) = r {
                se.fail("format_number", c, json!({"format": fmt, "value": format!("{v:e}"), "locale_index": li}));
            }
        }
    }
}

fn main() {
    let a = Args::parse();
    install_hook();
    let (seed, thorough, out) = (a.seed, a.thorough, a.out.as_str());
    let sub = a.extra.first().map(|s| s.as_str()).unwrap_or("");

    // ---- child: evaluate inputs one by one, print the index BEFORE each (so the parent knows who killed us)
    if sub == "eval-child" {
        let inputs: Vec<String> = std::fs::read_to_string(&a.extra[1]).unwrap().lines().map(unwire).collect();
        let from: usize = a.extra[2].parse().unwrap();
        for (i, s) in inputs.iter().enumerate().skip(from) {
            println!("start {i}");
            let r = guarded(|| {
                let mut m = Model::new_empty("m", "en", "UTC", "en").unwrap();
                let _ = m.set_user_input(0, 1, 1, "1".to_string());
                let _ = m.set_user_input(0, 2, 2, s.clone());
                m.evaluate();
                let _ = m.get_formatted_cell_value(0, 2, 2);
            });
            match r {
                Ok(_) => println!("done {i} ok"),
                Err((c, d)) => println!("done {i} panic {c} ## {d}"),
            }
        }
        println!("finished");
        return;
    }

    let search_only = sub == "search-only";
    let prefix = if search_only { "checked-build: " } else { "" };
    let mut rng = Rng::new(seed);
    let mut se = Search { or: Oracle::default(), counts: BTreeMap::new(), prefix: prefix.to_string() };
    let en_loc = get_locale("en").unwrap();
    let de_loc = get_locale("de").unwrap();
    let en_lang = get_language("en").unwrap();
    let languages: Vec<&str> = ["en", "es", "fr", "de", "it"].into_iter().filter(|l| get_language(l).is_ok()).collect();
    let mut locale_ids = get_supported_locales();
    locale_ids.sort();
    let locales: Vec<&'static ironcalc_base::locale::Locale> = locale_ids.iter().filter_map(|l| get_locale(l).ok()).collect();
    let sheets = vec!["Sheet1".to_string(), "My Sheet".to_string()];
    let mut tables = HashMap::new();
    {
        use ironcalc_base::types::{Table, TableColumn, TableStyleInfo};
        tables.insert("Table1".to_string(), Table {
            name: "Table1".into(), display_name: "Table1".into(), sheet_name: "Sheet1".into(), reference: "A1:B3".into(),
            totals_row_count: 0, header_row_count: 1, header_row_dxf_id: None, data_dxf_id: None, totals_row_dxf_id: None,
            columns: vec![TableColumn { id: 1, name: "Col".into(), totals_row_label: None, header_row_dxf_id: None, data_dxf_id: None, totals_row_function: None, totals_row_dxf_id: None }],
            style_info: TableStyleInfo { name: None, show_first_column: false, show_last_column: false, show_row_stripes: true, show_column_stripes: false },
            has_filters: false,
        });
    }
    let mut parsers: Vec<(String, Parser<'static>)> = languages.iter().map(|l| {
        (l.to_string(), Parser::new(sheets.clone(), vec![], tables.clone(), en_loc, get_language(l).unwrap()))
    }).collect();

    // ---- the strings -------------------------------------------------------------------------------
    let mut strings: Vec<String> = vec![];
    let mut seen: HashSet<String> = HashSet::new();
    let mut push = |s: String, v: &mut Vec<String>| {
        if s.chars().count() <= 60 && seen.insert(s.clone()) {
            v.push(s);
        }
    };
    push(String::new(), &mut strings);
    for f in FRAGMENTS {
        push(f.to_string(), &mut strings);
    }
    // every ordered pair of fragments (exhaustive), triples sampled
    for x in FRAGMENTS {
        for y in FRAGMENTS {
            push(format!("{x}{y}"), &mut strings);
        }
    }
    for f in VALID_FORMULAS {
        push(f.to_string(), &mut strings);
        // every prefix and every single deletion
        let c: Vec<char> = f.chars().collect();
        for i in 0..c.len() {
            push(c[..i].iter().collect(), &mut strings);
            let mut d = c.clone();
            d.remove(i);
            push(d.into_iter().collect(), &mut strings);
        }
    }
    for w in ["A:XFD", "SUM:ER", "Table1[abc", "T[", "T[[", "T[[#All],[", "T['", "T[[a]:[b", "1:", "3:A2", "'a'", "'a'!", "'a''b'!A1", "'", "#", "R[1", "R[1]C[", "R1C1P", "1.", "1.e5", "1e", ",5", "1,5"] {
        push(w.to_string(), &mut strings);
    }
    let n_rand = if thorough { 250_000 } else { 12_000 };
    for _ in 0..n_rand {
        let s = if rng.chance(1, 2) { random_string(&mut rng) } else { let b = rng.clone_pick(VALID_FORMULAS); mutate(&mut rng, b, FRAGMENTS) };
        push(s, &mut strings);
    }

    // ---- TIE: lexer tokens and positions ------------------------------------------------------------
    let mut cs = Cases::new(out, if search_only { "c11_checked" } else { "c11" });
    // language data the model is parametrised by (translator: dumped from the built code, first case line)
    {
        let e = &en_lang.errors;
        let names = [&e.r#ref, &e.name, &e.value, &e.div, &e.na, &e.num, &e.error, &e.nimpl, &e.spill, &e.calc, &e.null, &e.circ];
        let mut l = format!("lang {} {}", wire(&en_lang.booleans.r#true), wire(&en_lang.booleans.r#false));
        for n in names {
            l.push(' ');
            l.push_str(&wire(n));
        }
        cs.case(&l, "lang");
    }
    let mut lex_counts: BTreeMap<String, u64> = BTreeMap::new();
    let mut over_len = 0u64;
    let mut samples: Vec<String> = vec![];
    for s in &strings {
        for (mode, a1) in [("a1", true), ("rc", false)] {
            for (dec, loc) in [(46, en_loc), (44, de_loc)] {
                let (o, over) = lex_obs(s, a1, loc, en_lang);
                cs.case(&format!("lex {mode} {dec} {} {}", wire(s), char_table(s)), &o);
                let k = o.split(' ').next().unwrap_or("?").to_string();
                *lex_counts.entry(k.clone()).or_insert(0) += 1;
                se.or.checked += 1;
                if k == "panic" {
                    let c = panic_class();
                    se.fail("lexer", c, json!({"text": s, "mode": mode, "decimal": dec}));
                } else if k == "loop" {
                    se.or.fail(&format!("{prefix}hang: lexer does not reach EOF"), json!({"text": s, "mode": mode}), o.clone());
                }
                if over {
                    over_len += 1;
                    if over_len <= 3 {
                        samples.push(format!("position beyond len: {s:?} ({mode}) -> {o}"));
                    }
                    se.or.fail(&format!("{prefix}lexer position beyond the end of the input (unterminated '[' column reference)"), json!({"text": s, "mode": mode}), o.clone());
                }
                if samples.len() < 8 && s.len() > 6 && rng.chance(1, 400) {
                    samples.push(format!("{s:?} ({mode},{dec}) -> {o}"));
                }
            }
        }
    }

    // ---- SEARCH streams --------------------------------------------------------------------------------
    let budget = std::time::Duration::from_secs(if thorough { 200 } else { 55 });
    let t0 = std::time::Instant::now();
    for (i, s) in strings.iter().enumerate() {
        if t0.elapsed() > budget {
            break;
        }
        search_formula(&mut se, s, &mut parsers, i % 8 == 0 || i < 3000);
    }
    // format codes x numbers x locales
    let mut formats: Vec<String> = VALID_FORMATS.iter().map(|s| s.to_string()).collect();
    for x in FORMAT_FRAGS {
        formats.push(x.to_string());
        for y in FORMAT_FRAGS {
            formats.push(format!("{x}{y}"));
        }
    }
    for f in VALID_FORMATS {
        let c: Vec<char> = f.chars().collect();
        for i in 0..c.len() {
            formats.push(c[..i].iter().collect());
        }
    }
    let n_fmt = if thorough { 60_000 } else { 3_000 };
    for _ in 0..n_fmt {
        let f = if rng.chance(1, 2) {
            { let b = rng.clone_pick(VALID_FORMATS); mutate(&mut rng, b, FORMAT_FRAGS) }
        } else {
            (0..1 + rng.below(6)).map(|_| rng.clone_pick(FORMAT_FRAGS)).collect::<String>()
        };
        formats.push(f);
    }
    let some_locales: Vec<&'static ironcalc_base::locale::Locale> = vec![en_loc, de_loc];
    let t1 = std::time::Instant::now();
    let fbudget = std::time::Duration::from_secs(if thorough { 100 } else { 30 });
    for (i, f) in formats.iter().enumerate() {
        if t1.elapsed() > fbudget {
            break;
        }
        if i % 50 == 0 { search_format(&mut se, f, &locales) } else { search_format(&mut se, f, &some_locales) }
    }
    // cell input on a Model in every language x a rotating locale (no evaluation in-process)
    let t2 = std::time::Instant::now();
    let ibudget = std::time::Duration::from_secs(if thorough { 80 } else { 25 });
    let mut models: Vec<(String, Model)> = vec![];
    for (i, lang) in languages.iter().enumerate() {
        for (j, loc) in locale_ids.iter().enumerate() {
            if (i + j) % 3 == 0 || *loc == "en" || *loc == "de" {
                if let Ok(m) = Model::new_empty("m", loc, "UTC", lang) {
                    models.push((format!("{lang}/{loc}"), m));
                }
            }
        }
    }
    let mut inputs: Vec<String> = strings.iter().map(|s| format!("={s}")).collect();
    inputs.extend(strings.iter().cloned());
    for (i, s) in inputs.iter().enumerate() {
        if t2.elapsed() > ibudget {
            break;
        }
        let k = if i < 2000 { models.len() } else { 1 };
        for q in 0..k {
            let mi = (i + q) % models.len();
            se.tick("set_user_input");
            let (name, m) = &mut models[mi];
            let r = guarded(std::panic::AssertUnwindSafe(|| {
                let _ = m.set_user_input(0, 2, 2, s.clone());
                let _ = m.get_localized_cell_content(0, 2, 2);
            }));
            if let Err(c) = r {
                let nm = name.clone();
                se.fail("set_user_input", c, json!({"input": s, "language/locale": nm}));
                if let Ok(fresh) = Model::new_empty("m", "en", "UTC", "en") {
                    models[mi].1 = fresh;
                }
            }
        }
    }

    // ---- evaluation in a child process under a memory limit ----------------------------------------------
    let mut eval_stats: BTreeMap<String, u64> = BTreeMap::new();
    if !search_only {
        // formerly aborting inputs of F26 (now guarded by the code) first; the arithmetic form that still aborts LAST
        let mut ev: Vec<String> = vec!["=A:XFD".into(), "=SUM:ER".into(), "=SUM(A:XFD)".into(), "=1:1048576".into()];
        let n_ev = if thorough { 8_000 } else { 1_500 };
        for s in strings.iter().filter(|s| s.len() > 1).take(n_ev) {
            ev.push(format!("={s}"));
        }
        ev.push("=C:XFD+1".into());
        let path = format!("{out}/c11_eval.txt");
        std::fs::write(&path, ev.iter().map(|s| wire(s)).collect::<Vec<_>>().join("\n")).unwrap();
        let exe = std::env::current_exe().unwrap();
        let mut from = 0usize;
        let mut restarts = 0;
        while from < ev.len() && restarts < 60 {
            let cmd = format!("ulimit -v 600000; exec timeout 120 '{}' 1 quick '{}' eval-child '{}' {}", exe.display(), out, path, from);
            let o = std::process::Command::new("sh").arg("-c").arg(&cmd).output();
            let Ok(o) = o else { break };
            let text = String::from_utf8_lossy(&o.stdout).to_string();
            let mut last_start: Option<usize> = None;
            let mut finished = false;
            for l in text.lines() {
                if let Some(r) = l.strip_prefix("start ") {
                    last_start = r.parse().ok();
                } else if let Some(r) = l.strip_prefix("done ") {
                    let mut it = r.splitn(3, ' ');
                    let idx: usize = it.next().unwrap_or("0").parse().unwrap_or(0);
                    let st = it.next().unwrap_or("");
                    se.tick("evaluate(child)");
                    *eval_stats.entry(st.to_string()).or_insert(0) += 1;
                    if st == "panic" {
                        let rest = it.next().unwrap_or("");
                        let mut sp = rest.splitn(2, " ## ");
                        let c = sp.next().unwrap_or("panic").to_string();
                        let d = sp.next().unwrap_or("").to_string();
                        se.fail("evaluate(child)", (c, d), json!({"input": ev[idx]}));
                    }
                    last_start = None;
                } else if l == "finished" {
                    finished = true;
                }
            }
            if finished {
                break;
            }
            // the child died (abort / OOM / timeout) while evaluating `last_start`
            let Some(k) = last_start else { break };
            se.tick("evaluate(child)");
            *eval_stats.entry("abort".to_string()).or_insert(0) += 1;
            let body: String = ev[k].chars().skip(1).collect();
            let huge = guarded(std::panic::AssertUnwindSafe(|| has_huge_range(&parsers[0].1.parse(&body, &ctx())))).unwrap_or(false);
            let class = if huge { "abort: full-sheet range materialised as array" } else { "abort: evaluation kills the process (no huge range in the formula)" };
            se.or.fail(class, json!({"stream": "evaluate(child)", "input": ev[k]}), format!("child exit {:?} under ulimit -v 600000 / timeout 120", o.status.code()));
            from = k + 1;
            restarts += 1;
        }
    }

    let distinct = strings.len();
    let per_class = se.or.per_class.clone();
    cs.finish(json!({
        "strings": distinct,
        "lexer_cases": strings.len() * 4,
        "lexer_outcomes": lex_counts,
        "lexer_position_beyond_len": over_len,
        "search_counts": se.counts,
        "eval_child": eval_stats,
        "languages": languages,
        "locales": locale_ids,
        "formats": formats.len(),
        "distinct_nontrivial": distinct,
        "samples": samples,
        "oracle_checked": se.or.checked,
        "oracle_failures": se.or.failures,
        "oracle_failures_per_class": per_class,
        "build": if search_only { "checked (overflow-checks, debug-assertions)" } else { "release" },
    }));
}

trait ClonePick {
    fn clone_pick<'a>(&mut self, v: &'a [&'a str]) -> &'a str;
}
impl ClonePick for Rng {
    fn clone_pick<'a>(&mut self, v: &'a [&'a str]) -> &'a str {
        v[self.below(v.len() as u64) as usize]
    }
}
