//! (c) the end-to-end oracle on a real Model: the value of a formula typed fully parenthesised
//! must be the value after to_bytes/from_bytes, and the value after re-typing what the cell displays.
use crate::gen::*;
use crate::nodeio::*;
use crate::{ctx, parse_form, Form, CTX_COL, CTX_ROW, LANGS, LOCALES};
use ironcalc_base::expressions::parser::stringify::to_english_string;
use ironcalc_base::expressions::parser::Node;
use ironcalc_base::expressions::token::OpUnary;
use ironcalc_base::language::get_language;
use ironcalc_base::Model;
use serde_json::json;
use vh_common::*;

/// every operator node wrapped in its own parentheses; leaves spelled by the implementation
pub fn full_paren(n: &Node) -> String {
    use Node::*;
    let args_s = |args: &Vec<Node>| args.iter().map(full_paren).collect::<Vec<_>>().join(",");
    match n {
        OpRangeKind { left, right } => format!("(({}):({}))", full_paren(left), full_paren(right)),
        OpConcatenateKind { left, right } => format!("({}&{})", full_paren(left), full_paren(right)),
        OpSumKind { kind, left, right } => format!("({}{}{})", full_paren(left), kind, full_paren(right)),
        OpProductKind { kind, left, right } => format!("({}{}{})", full_paren(left), kind, full_paren(right)),
        OpPowerKind { left, right } => format!("({}^{})", full_paren(left), full_paren(right)),
        CompareKind { kind, left, right } => format!("({}{}{})", full_paren(left), kind, full_paren(right)),
        UnaryKind { kind: OpUnary::Minus, right } => format!("(-{})", full_paren(right)),
        UnaryKind { kind: OpUnary::Percentage, right } => format!("({}%)", full_paren(right)),
        ImplicitIntersection { child, .. } => format!("(@{})", full_paren(child)),
        SpillRangeOperator { child } => format!("({}#)", full_paren(child)),
        FunctionKind { kind, args } => format!("{}({})", kind.to_localized_name(get_language("en").unwrap()), args_s(args)),
        NamedFunctionKind { name, args, .. } => format!("{}({})", name, args_s(args)),
        LambdaDefKind { parameters, body } => {
            let mut parts: Vec<String> = parameters.iter().map(|p| {
                let (name, _, opt) = named_variable_fields(&format!("{p:?}"));
                if opt { format!("[{name}]") } else { name }
            }).collect();
            parts.push(full_paren(body));
            format!("LAMBDA({})", parts.join(","))
        }
        LambdaCallKind { lambda, args } => format!("{}({})", full_paren(lambda), args_s(args)),
        EmptyArgKind => String::new(),
        leaf => to_english_string(leaf, &ctx()),
    }
}

fn new_model() -> Model<'static> {
    let mut m = Model::new_empty("model", "en", "UTC", "en").unwrap();
    m.add_sheet("Second Sheet").unwrap();
    m.add_sheet("Third").unwrap();
    for (r, c, v) in [(1, 1, "1"), (2, 1, "2"), (3, 1, "3"), (1, 2, "10"), (2, 2, "20"), (3, 2, "30"), (4, 4, "7")] {
        m.set_user_input(0, r, c, v.to_string()).unwrap();
    }
    for r in 1..=3 { m.set_user_input(1, r, 1, format!("{}", 100 * r)).unwrap(); }
    m.new_defined_name("MyName", None, "Sheet1!$A$1").unwrap();
    m.evaluate();
    m
}

fn value(m: &Model) -> String {
    let v = m.get_cell_value_by_index(0, CTX_ROW, CTX_COL);
    let f = m.get_formatted_cell_value(0, CTX_ROW, CTX_COL);
    let bits = match &v { Ok(ironcalc_base::cell::CellValue::Number(x)) => format!("{:016x}", x.to_bits()), _ => String::new() };
    format!("{:?} {:?} {}", v, f, bits)
}

/// Sanity condition of the class `associative_float_rounding`: both values are of the same kind
/// (number / text / boolean). The decisive condition is checked by the caller: the new value is
/// EXACTLY the value of the re-associated tree typed as such — and the structural oracle checks that
/// the re-associated tree is what the printed text parses to. Since + and & are associative, a
/// difference between the two trees can only come from rounding (cancellation included:
/// 0.5%+(1-1) = 0.005 but (0.5%+1)-1 = 0.004999999999999893).
fn approx_same(a: &str, b: &str) -> bool {
    let kind = |v: &str| -> String { v.split('(').take(2).collect::<Vec<_>>().join("(") };
    kind(a) == kind(b)
}

fn eval_text(m: &mut Model, text: &str) -> String {
    if m.set_user_input(0, CTX_ROW, CTX_COL, text.to_string()).is_err() { return "INPUT-REJECTED".into(); }
    m.evaluate();
    value(m)
}

pub struct Stats { pub checked: u64, pub skipped_not_image: u64, pub value_failures: u64 }

fn one(base: &[u8], e: &Node, or: &mut Oracle, fns: &Fns, st: &mut Stats, k: u64) {
    // a fresh workbook for every tree: what a cell held before can change how the next input
    // evaluates (a cell that held a number kept evaluating "=1&2+3+4" to the number 19)
    let mut fresh = match Model::from_bytes(base, "en") { Ok(m) => m, Err(_) => return };
    let m = &mut fresh;
    let text = full_paren(e);
    // precondition: the tree is what the parser makes of the fully parenthesised text
    if parse_form(&text, Form::En) != *e { st.skipped_not_image += 1; return; }
    let r = std::panic::catch_unwind(std::panic::AssertUnwindSafe(|| {
        let v0 = eval_text(m, &format!("={text}"));
        let shown = m.get_localized_cell_content(0, CTX_ROW, CTX_COL).unwrap_or_default();
        // save and reload
        let bytes = m.to_bytes();
        let v_reload = match Model::from_bytes(&bytes, "en") {
            Ok(mut m2) => { m2.evaluate(); value(&m2) }
            Err(err) => format!("from_bytes failed: {err}"),
        };
        // re-type what the cell displays
        let v_retype = eval_text(m, &shown);
        // ... and what it displays in another language / locale (rotating)
        let (loc, lang) = (LOCALES[(k % 6) as usize], LANGS[((k / 6) % 5) as usize]);
        let _ = eval_text(m, &format!("={text}"));
        m.set_locale(loc).ok(); m.set_language(lang).ok();
        let shown_loc = m.get_localized_cell_content(0, CTX_ROW, CTX_COL).unwrap_or_default();
        let v_loc = eval_text(m, &shown_loc);
        m.set_locale("en").ok(); m.set_language("en").ok();
        m.evaluate();
        let v_loc_en = value(m);
        (v0, shown, v_reload, v_retype, shown_loc, v_loc, v_loc_en, loc, lang)
    }));
    st.checked += 1;
    or.checked += 1;
    match r {
        Err(_) => or.fail("e2e_panic", json!({"formula": text}), format!("panic while evaluating ={text}")),
        Ok((v0, shown, v_reload, v_retype, shown_loc, _v_loc, v_loc_en, loc, lang)) => {
            let mut pairs = vec![];
            bad_pairs(e, false, &mut pairs);
            let has_assoc = !pairs.is_empty();
            // what the re-associated tree evaluates to when typed as such (tightness of the class below)
            let v_reassoc = if has_assoc {
                match Model::from_bytes(base, "en") { Ok(mut m3) => eval_text(&mut m3, &format!("={}", full_paren(&reassoc(e)))), Err(_) => String::new() }
            } else { String::new() };
            let mut report = |what: &str, form: Form, got: &str, shown: &str| {
                st.value_failures += 1;
                // floating-point addition is associative only up to rounding: a tree with one of the three
                // pairs the printer leaves bare may change in the last bits — accepted as its own class only if
                // the new value is exactly the value of the re-associated tree and differs from the old one by
                // rounding only
                if has_assoc && got == v_reassoc && approx_same(got, &v0) {
                    or.fail("associative_float_rounding", json!({"typed": format!("={text}"), "displayed": shown, "value_before": v0, "value_after": got, "after": what}),
                        format!("floating-point rounding after {what}: ={text} is {v0}; displayed/stored as {shown} (re-associated) it is {got}"));
                    return;
                }
                // a value change is never excused by an associative pair
                for class in crate::classify_pub(e, form, false).into_iter().map(|c| c.replace("roundtrip_mismatch", "value_changed")) {
                    or.fail(&class, json!({"typed": format!("={text}"), "displayed": shown, "value_before": v0, "value_after": got, "after": what, "tree": dump_s(e, fns)}),
                        format!("value changed after {what}: ={text} is {v0}; it is displayed/stored as {shown} which is {got}"));
                }
            };
            if v_reload != v0 { report("to_bytes/from_bytes", Form::Rc, &v_reload, &crate::print_form(e, Form::Rc)); }
            if v_retype != v0 { report("re-typing the displayed text", Form::En, &v_retype, &shown); }
            if v_loc_en != v0 {
                let f = Form::Loc(LOCALES.iter().position(|l| *l == loc).unwrap(), LANGS.iter().position(|l| *l == lang).unwrap());
                report(&format!("re-typing the text displayed in locale {loc} / language {lang}"), f, &v_loc_en, &shown_loc);
            }
        }
    }
}

fn evaluable(e: &Node) -> bool {
    // nothing that allocates by the row or column, nothing user-defined that cannot evaluate anyway
    !contains(e, &|n| matches!(n, Node::RangeKind { absolute_row1: true, row1: 1, row2, .. } if *row2 > 1000)
        || matches!(n, Node::RangeKind { absolute_column1: true, column1: 1, column2, .. } if *column2 > 1000)
        || matches!(n, Node::WrongReferenceKind { .. } | Node::WrongRangeKind { .. } | Node::ParseErrorKind { .. }))
}

pub fn run(g: &Gen, rng: &mut Rng, or: &mut Oracle, thorough: bool, fns: &Fns, triples: &[Node], pairs: &[Node]) -> serde_json::Value {
    let base = new_model().to_bytes();
    let m = base.as_slice();
    let mut st = Stats { checked: 0, skipped_not_image: 0, value_failures: 0 };
    let mut k = 0u64;
    let step = if thorough { 1 } else { 3 };
    for (i, e) in triples.iter().enumerate() { if i % step == 0 && evaluable(e) { k += 1; one(m, e, or, fns, &mut st, k); } }
    for e in pairs.iter() { if evaluable(e) { k += 1; one(m, e, or, fns, &mut st, k); } }
    // floating-point addition is not associative in the last bit: deterministic witnesses
    for e in [add(num(0.1), add(num(0.2), num(0.3))), cat(add(num(0.1), sub(num(0.7), num(0.2))), Node::StringKind(String::new())), cmp(ironcalc_base::expressions::token::OpCompare::Equal, add(num(0.1), add(num(0.2), num(0.3))), num(0.6))] {
        k += 1;
        one(m, &e, or, fns, &mut st, k);
    }
    let n = if thorough { 40_000 } else { 1_500 };
    for i in 0..n {
        let e = g.random(rng, 2 + (i % 5) as u32, true);
        k += 1;
        one(m, &e, or, fns, &mut st, k);
    }
    json!({"checked": st.checked, "skipped_not_parser_image": st.skipped_not_image, "value_failures": st.value_failures})
}

pub fn probe_value(args: &[String]) {
    let mut m = new_model();
    for f in args {
        let v = eval_text(&mut m, f);
        let shown = m.get_localized_cell_content(0, CTX_ROW, CTX_COL).unwrap_or_default();
        println!("{f} -> {v}   displayed {shown}");
    }
}
