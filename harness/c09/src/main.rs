//! C09 — printing a formula and parsing it back: implementation side of the correspondence
//! (print -> lex -> parse of generated syntax trees in every text form) and the property oracle
//! (structure after print/parse; value after reload and after re-typing, on a real Model).
mod nodeio;
mod gen;
mod e2e;
use gen::*;
use nodeio::*;
use vh_common::*;

use ironcalc_base::expressions::lexer::LexerMode;
use ironcalc_base::expressions::parser::static_analysis::remove_redundant_implicit_intersection;
use ironcalc_base::expressions::parser::stringify::{to_english_string, to_excel_string, to_localized_string, to_rc_format};
use ironcalc_base::expressions::parser::{Node, Parser};
use ironcalc_base::expressions::types::CellReferenceRC;
use ironcalc_base::language::{get_language, Language};
use ironcalc_base::locale::{get_locale, Locale};
use serde_json::json;
use std::collections::{BTreeMap, HashMap, HashSet};

pub const LANGS: [&str; 5] = ["en", "es", "fr", "de", "it"];
pub const LOCALES: [&str; 6] = ["en", "en-GB", "de", "es", "fr", "it"];
pub const CTX_ROW: i32 = 3;
pub const CTX_COL: i32 = 3;

pub fn sheets() -> Vec<String> { vec!["Sheet1".to_string(), "Second Sheet".to_string(), "Third".to_string()] }
pub fn defined_names() -> Vec<(String, Option<u32>, String)> {
    vec![("MyName".to_string(), None, "Sheet1!$A$1".to_string()), ("local_n".to_string(), Some(0), "Sheet1!$B$2:$B$3".to_string()),
         // names that start like an R1C1 / A1 reference
         ("R2C2_sum".to_string(), None, "Sheet1!$B$1".to_string()), ("RC_loc".to_string(), Some(0), "Sheet1!$B$2".to_string()), ("A1_name".to_string(), None, "Sheet1!$B$3".to_string())]
}
/// the formula's cell: (CTX_ROW, CTX_COL) except while the boundary ranges are generated
static CUR_ROW: std::sync::atomic::AtomicI32 = std::sync::atomic::AtomicI32::new(CTX_ROW);
static CUR_COL: std::sync::atomic::AtomicI32 = std::sync::atomic::AtomicI32::new(CTX_COL);
pub fn set_ctx(row: i32, col: i32) {
    CUR_ROW.store(row, std::sync::atomic::Ordering::Relaxed);
    CUR_COL.store(col, std::sync::atomic::Ordering::Relaxed);
}
pub fn cur_ctx() -> (i32, i32) { (CUR_ROW.load(std::sync::atomic::Ordering::Relaxed), CUR_COL.load(std::sync::atomic::Ordering::Relaxed)) }
pub fn ctx() -> CellReferenceRC { let (row, column) = cur_ctx(); CellReferenceRC { sheet: "Sheet1".to_string(), row, column } }

#[derive(Clone, Copy, PartialEq, Eq, Debug)]
pub enum Form { Rc, En, Xl, Loc(usize, usize) } // Loc(locale index, language index)
impl Form {
    pub fn name(&self) -> String {
        match self { Form::Rc => "rc".into(), Form::En => "en".into(), Form::Xl => "xl".into(), Form::Loc(l, g) => format!("loc:{}:{}", LOCALES[*l], LANGS[*g]) }
    }
    pub fn locale(&self) -> &'static Locale { get_locale(match self { Form::Loc(l, _) => LOCALES[*l], _ => "en" }).unwrap() }
    pub fn language(&self) -> &'static Language { get_language(match self { Form::Loc(_, g) => LANGS[*g], _ => "en" }).unwrap() }
    pub fn dot(&self) -> bool { self.locale().numbers.symbols.decimal == "." }
    pub fn lang_name(&self) -> &'static str { match self { Form::Loc(_, g) => LANGS[*g], _ => "en" } }
}

pub fn print_form(n: &Node, form: Form) -> String {
    match form {
        Form::Rc => to_rc_format(n),
        Form::En => to_english_string(n, &ctx()),
        Form::Xl => to_excel_string(n, &ctx()),
        Form::Loc(..) => to_localized_string(n, &ctx(), form.locale(), form.language()),
    }
}
pub fn parse_form(s: &str, form: Form) -> Node {
    let mut p = Parser::new(sheets(), defined_names(), HashMap::new(), form.locale(), form.language());
    if form == Form::Rc { p.set_lexer_mode(LexerMode::R1C1); }
    p.parse(s, &ctx())
}
fn normalise_xl(n: &Node) -> Node { let mut c = n.clone(); remove_redundant_implicit_intersection(&mut c, true); c }

/// class of a round-trip failure, computed from the tree alone. `assoc_explains` = the re-parsed
/// tree is exactly the left-nested re-association of the original (the three pairs the printer
/// leaves bare on purpose): then, and only then, the classes are `paren_dropped_associative:*`.
pub fn classify_pub(e: &Node, form: Form, assoc_explains: bool) -> Vec<String> { classify(e, form, assoc_explains) }
fn classify(e: &Node, form: Form, assoc_explains: bool) -> Vec<String> {
    let xlsx = form == Form::Xl;
    if assoc_explains {
        let mut pairs = vec![];
        bad_pairs(e, xlsx, &mut pairs);
        if !pairs.is_empty() {
            let mut seen = HashSet::new();
            return pairs.into_iter().filter(|p| seen.insert(p.clone())).map(|p| format!("paren_dropped_associative:{p}")).collect();
        }
    }
    if let Some(g) = glue_class(e, form == Form::Rc) { return vec![format!("lexer_glue:{g}")]; }
    // (F01 `error_nimpl_spelling` is repaired by commit 4a681a0: `#N/IMPL!` is an ordinary error literal now)
    if form.lang_name() != "en" && contains(e, &|n| matches!(n, Node::ErrorKind(_)) || array_has_error(n, false)) {
        return vec!["error_not_localized".to_string()];
    }
    if !form.dot() && contains(e, &|n| matches!(n, Node::ArrayKind(rows) if rows.len() > 1)) {
        return vec!["array_row_separator".to_string()];
    }
    if contains(e, &|n| matches!(n, Node::FunctionKind { kind, .. } if form.language().functions.lookup(&kind.to_localized_name(form.language())).as_ref() != Some(kind))) {
        return vec!["function_name_not_unique".to_string()];
    }
    if contains(e, &|n| matches!(n, Node::NamedFunctionKind { name, .. } if name.to_lowercase() != *name)) {
        return vec!["named_function_lowercased".to_string()];
    }
    vec![format!("roundtrip_mismatch:{}", match form { Form::Loc(..) => "loc".to_string(), f => f.name() })]
}

fn range_fields(e: &Node) -> Option<(i32, i32, bool, bool, i32, i32, bool, bool)> {
    match e {
        Node::RangeKind { row1, column1, absolute_row1, absolute_column1, row2, column2, absolute_row2, absolute_column2, .. }
        | Node::WrongRangeKind { row1, column1, absolute_row1, absolute_column1, row2, column2, absolute_row2, absolute_column2, .. } =>
            Some((*row1, *column1, *absolute_row1, *absolute_column1, *row2, *column2, *absolute_row2, *absolute_column2)),
        Node::FunctionKind { args, .. } if args.len() == 1 => range_fields(&args[0]),
        _ => None,
    }
}
/// a range the A1 parser can return from the cell (crow, ccol): both corners on the grid, in order,
/// and not the whole sheet ($A$1:$XFD$1048576 prints as a bare ":", finding C22-F43)
fn range_in_a1_image(e: &Node, crow: i32, ccol: i32) -> bool {
    let (r1, c1, ar1, ac1, r2, c2, ar2, ac2) = match range_fields(e) { Some(x) => x, None => return false };
    let pos = |v: i32, a: bool, c: i32| if a { v as i64 } else { v as i64 + c as i64 };
    let (pr1, pr2, pc1, pc2) = (pos(r1, ar1, crow), pos(r2, ar2, crow), pos(c1, ac1, ccol), pos(c2, ac2, ccol));
    let whole_sheet = ar1 && ar2 && ac1 && ac2 && r1 == 1 && c1 == 1 && r2 == 1048576 && c2 == 16384;
    pr1 >= 1 && pr2 <= 1048576 && pr1 <= pr2 && pc1 >= 1 && pc2 <= 16384 && pc1 <= pc2 && !whole_sheet
}
/// the "FR" case: does the implementation's English A1 text omit the row numbers / the column letters?
fn full_range_case(e: &Node) -> Option<(String, String)> {
    let (r1, c1, ar1, ac1, r2, c2, ar2, ac2) = range_fields(e)?;
    if !matches!(e, Node::RangeKind { .. } | Node::WrongRangeKind { .. }) { return None; }
    let text = print_form(e, Form::En);
    if text.contains('#') { return None; }
    let body = match text.rfind('!') { Some(i) => &text[i + 1..], None => &text[..] };
    let left = body.split(':').next().unwrap_or("");
    let rows_omitted = !left.chars().any(|ch| ch.is_ascii_digit());
    let cols_omitted = !left.chars().any(|ch| ch.is_ascii_alphabetic());
    Some((format!("FR {r1} {c1} {} {} {r2} {c2} {} {}", b(ar1), b(ac1), b(ar2), b(ac2)), format!("{} {}", b(rows_omitted), b(cols_omitted))))
}

/// a colon operator whose operands the lexer would merge even inside parentheses: "(A1:B2)"
fn glue_class_any(e: &Node) -> bool {
    contains(e, &|n| matches!(n, Node::OpRangeKind { left, right } if matches!(**left, Node::ReferenceKind { .. } | Node::WrongReferenceKind { .. } | Node::NumberKind(_))
        && matches!(**right, Node::ReferenceKind { .. } | Node::WrongReferenceKind { .. } | Node::NumberKind(_))))
}

/// "2:0.5" — a number, a colon and a number with a decimal point: the lexer reads "2:0" and ".5"
fn num_colon_num(e: &Node) -> bool {
    contains(e, &|n| matches!(n, Node::OpRangeKind { left, right } if matches!(rightmost(left), Node::NumberKind(_)) && matches!(leftmost(right), Node::NumberKind(x) if x.fract() != 0.0 || *x < 1.0 || *x > 1048576.0)))
}

/// the same on the printed text: digit ':' digits followed by a decimal separator or an exponent,
/// or a row number outside 1..=1048576
fn num_colon_num_text(s: &str) -> bool {
    let c: Vec<char> = s.chars().collect();
    for i in 1..c.len() {
        if c[i] == ':' && c[i - 1].is_ascii_digit() {
            let mut j = i + 1;
            let mut v: u64 = 0;
            while j < c.len() && c[j].is_ascii_digit() { v = (v * 10 + c[j] as u64 - 48).min(9_999_999); j += 1; }
            if j > i + 1 && (v == 0 || v > 1048576 || (j < c.len() && matches!(c[j], '.' | ',' | 'e' | 'E'))) { return true; }
        }
    }
    false
}

pub struct Run<'a> {
    pub cs: Cases,
    pub or: Oracle,
    pub fns: &'a Fns,
    pub dist: BTreeMap<String, u64>,
    pub samples: Vec<String>,
    pub distinct: HashSet<String>,
    pub tie_cases: u64,
}

impl<'a> Run<'a> {
    /// one tree in one text form: the correspondence case and the structural oracle
    pub fn one(&mut self, e: &Node, form: Form, origin: &str) {
        let fns = self.fns;
        let s = print_form(e, form);
        let rc = form == Form::Rc;
        let toks = tokens(&s, rc, form.locale(), form.language());
        let back = parse_form(&s, form);
        let d = dump_s(e, fns);
        *self.dist.entry(format!("{origin}/{}", match form { Form::Loc(..) => "loc".to_string(), f => f.name() })).or_insert(0) += 1;
        if self.distinct.len() < 2_000_000 { self.distinct.insert(format!("{} {}", form.name(), s)); }
        if self.samples.len() < 12 && self.cs.n % 997 == 3 { self.samples.push(format!("{} {} => {}", form.name(), d, s)); }
        // ---- correspondence: model print (+ lexer glue) = lex(impl print); model parse = impl parse
        let tie = match form {
            Form::Xl => normalise_xl(e) == *e && !contains(e, &|n| matches!(n, Node::LambdaDefKind { .. }) || is_let(n)),
            // the debris a non-English lexer makes of an English error name depends on the characters
            // that follow it: only the oracle looks at those (class error_not_localized)
            Form::Loc(..) if form.lang_name() != "en" => !contains(e, &|n| matches!(n, Node::ErrorKind(_)) || array_has_error(n, false)),
            _ => true,
        } && !(form != Form::Rc && num_colon_num_text(&s));
        if tie {
            let mut pairs = vec![];
            bad_pairs(e, form == Form::Xl, &mut pairs);
            let (formname, lang) = match form { Form::Rc => ("rc", "en"), Form::En => ("a1", "en"), Form::Xl => ("xl", "en"), Form::Loc(_, g) => ("a1", LANGS[g]) };
            self.cs.case(
                &format!("C {} {} {} {} {} {}", formname, b(form.dot()), lang, cur_ctx().0, cur_ctx().1, d),
                &format!("{} | {} | bad={}", toks.join(" "), dump_s(&back, fns), pairs.join(",")),
            );
            self.tie_cases += 1;
        }
        // ---- the parser-image predicate of the model against "parse(fully parenthesised text) = tree"
        if form == Form::En && cur_ctx() == (CTX_ROW, CTX_COL) {
            let glued = glue_class_any(e);
            if !glued {
                self.cs.case(&format!("I {d}"), b(parse_form(&e2e::full_paren(e), Form::En) == *e));
            }
        }
        // ---- oracle: the statement itself on the implementation
        self.or.checked += 1;
        let same = if form == Form::Xl { normalise_xl(&back) == normalise_xl(e) } else { back == *e };
        if !same {
            // is the difference exactly the re-association the printer causes on purpose?
            let re = reassoc(e);
            let assoc = if form == Form::Xl { normalise_xl(&back) == normalise_xl(&re) } else { back == re };
            for class in classify(e, form, assoc) {
                self.or.fail(&class, json!({"form": form.name(), "tree": d, "printed": s, "reparsed": dump_s(&back, fns)}),
                    format!("{} form: tree [{}] prints as {:?} which parses to [{}]", form.name(), d, s, dump_s(&back, fns)));
            }
        }
    }
}

fn tables(cs: &mut Cases, fns: &Fns) {
    for lang in LANGS {
        let g = get_language(lang).unwrap();
        let en_loc = get_locale("en").unwrap();
        for (i, f) in fns.all.iter().enumerate() {
            cs.case(&format!("T fn {lang} {i} {}", wire(&f.to_localized_name(g))), "ok");
        }
        for (i, e) in ERRORS.iter().enumerate() {
            let toks = tokens(&format!("{e}"), false, en_loc, g);
            cs.case(&format!("T err {lang} {i} {}", toks.join(" ")), "ok");
        }
        cs.case(&format!("T bool {lang} {} {}", wire(&g.booleans.r#true.to_uppercase()), wire(&g.booleans.r#false.to_uppercase())), "ok");
    }
    for (i, f) in fns.all.iter().enumerate() {
        cs.case(&format!("T fn xl {i} {}", wire(&f.to_xlsx_string())), "ok");
    }
    cs.case(&format!("T tf {} {}", fns.idx(&ironcalc_base::Function::True), fns.idx(&ironcalc_base::Function::False)), "ok");
    for s in sheets() { cs.case(&format!("T sheet {}", wire(&s)), "ok"); }
    cs.case(&format!("T ctxsheet {}", wire(&ctx().sheet)), "ok");
    for (n, sc, f) in defined_names() {
        cs.case(&format!("T defname {} {} {}", wire(&n), match sc { Some(i) => format!("{i}"), None => "-1".into() }, wire(&f)), "ok");
    }
}

fn probe(args: &[String]) {
    let fns = Fns::new();
    let form = Form::Loc(LOCALES.iter().position(|l| *l == args[0]).unwrap(), LANGS.iter().position(|l| *l == args[1]).unwrap());
    for f in &args[2..] {
        let n = parse_form(f, Form::En);
        println!("formula {f}\n  node  {}", dump_s(&n, &fns));
        for fm in [Form::Rc, Form::En, Form::Xl, form] {
            let s = print_form(&n, fm);
            let m = parse_form(&s, fm);
            println!("  {:10} {s:30} same={} toks [{}]\n       -> {}   class {:?}", fm.name(), m == n,
                tokens(&s, fm == Form::Rc, fm.locale(), fm.language()).join(" "), dump_s(&m, &fns), classify(&n, fm, m == reassoc(&n)));
        }
    }
}

fn main() {
    let raw: Vec<String> = std::env::args().collect();
    if raw.len() >= 2 && raw[1] == "probe" { probe(&raw[2..]); return; }
    if raw.len() >= 2 && raw[1] == "value" { e2e::probe_value(&raw[2..]); return; }
    let a = Args::parse();
    let fns = Fns::new();
    let mut run = Run { cs: Cases::new(&a.out, "c09"), or: Oracle::default(), fns: &fns, dist: BTreeMap::new(), samples: vec![], distinct: HashSet::new(), tie_cases: 0 };
    tables(&mut run.cs, &fns);
    let mut rng = Rng::new(a.seed);
    let g = Gen::new(&fns);

    // rotating (locale, language) pairs: quick takes one pair per tree, thorough all 30
    let all_pairs: Vec<Form> = (0..LOCALES.len()).flat_map(|l| (0..LANGS.len()).map(move |k| Form::Loc(l, k))).collect();
    let mut rot = 0usize;
    let mut forms_for = |thorough: bool, all_loc: bool| -> Vec<Form> {
        let mut v = vec![Form::Rc, Form::En, Form::Xl];
        if thorough && all_loc { v.extend(all_pairs.iter().cloned()); }
        else { let n = if thorough { 6 } else { 1 }; for _ in 0..n { rot = (rot * 7 + 11) % 30; v.push(all_pairs[rot]); rot += 1; } }
        v
    };

    // (a) exhaustive: every parent x position x child kind with representative grandchildren
    let pairs = g.all_pairs();
    for e in &pairs { for f in forms_for(a.thorough, true) { run.one(e, f, "pairs"); } }
    // ... and all operator triples
    let triples = g.all_triples();
    for e in &triples { for f in forms_for(a.thorough, false) { run.one(e, f, "triples"); } }
    // leaves of every kind on their own and as arguments
    let leaves = g.leaf_cases();
    for e in &leaves { for f in forms_for(true, a.thorough) { run.one(e, f, "leaves"); } }
    // range literals on the boundary grid: stored value 1, 2, LAST-1, LAST x absolute / relative for each
    // of row1, column1, row2, column2 (the whole-row / whole-column tests of stringify compare STORED
    // fields), from formula cells at A1, B2, C3 and at the edges of the grid
    let mut fr_seen: HashSet<String> = HashSet::new();
    let mut nbound = 0u64;
    for (crow, ccol) in [(1, 1), (2, 2), (3, 3), (1048576, 16384), (1048575, 16383), (1, 16384), (1048576, 1)] {
        set_ctx(crow, ccol);
        for e in g.boundary_ranges(crow, ccol) {
            nbound += 1;
            for f in [Form::Rc, Form::En, Form::Xl, all_pairs[(nbound % 30) as usize]] {
                if f == Form::Rc || range_in_a1_image(&e, crow, ccol) { run.one(&e, f, "boundary-ranges"); }
            }
            if range_in_a1_image(&e, crow, ccol) {
                if let Some((line, obs)) = full_range_case(&e) { if fr_seen.insert(line.clone()) { run.cs.case(&line, &obs); } }
            }
        }
    }
    set_ctx(CTX_ROW, CTX_COL);
    // (b) random trees to depth 7
    let nrand = if a.thorough { 120_000 } else { 4_000 };
    for i in 0..nrand {
        let depth = 2 + (i % 6) as u32;
        let e = g.random(&mut rng, depth, false);
        for f in forms_for(false, false) { run.one(&e, f, "random"); }
    }
    // F03: literals with more than 15 significant digits
    for x in [0.1 + 0.2, 1.0 / 3.0, 1.0000000000000002, 123456789.12345679, 9007199254740993.0, 1e21, 5e-324, 0.30000000000000004] {
        let e = Node::NumberKind(x);
        run.or.checked += 1;
        let s = print_form(&e, Form::Rc);
        if parse_form(&s, Form::Rc) != e {
            run.or.fail("number_more_than_15_digits", json!({"number": format!("{x:e}"), "printed": s}), format!("the literal {x:e} is stored as {s}"));
        }
    }
    // (c) end-to-end on a real Model
    let e2e_stats = e2e::run(&g, &mut rng, &mut run.or, a.thorough, &fns, &triples, &pairs);

    let Run { cs, or, dist, samples, distinct, tie_cases, .. } = run;
    cs.finish(json!({
        "oracle_checked": or.checked,
        "oracle_failures": or.failures,
        "oracle_failures_per_class": or.per_class,
        "distinct_nontrivial": distinct.len(),
        "distribution": dist,
        "samples": samples,
        "tie_cases": tie_cases,
        "e2e": e2e_stats,
        "pairs": pairs.len(), "triples": triples.len(), "leaves": leaves.len(), "random": nrand, "boundary_ranges": nbound,
    }));
}
