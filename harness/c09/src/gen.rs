//! generators of syntax trees (as real `Node` values) and the tree-level predicates the oracle
//! classes are computed from (an independent transcription of Syntax/Shape.v's table)
use crate::nodeio::*;
use crate::{parse_form, Form};
use ironcalc_base::expressions::parser::{ArrayNode, Node};
use ironcalc_base::expressions::token::{Error, OpCompare, OpProduct, OpSum, OpUnary};
use ironcalc_base::Function;
use vh_common::*;

pub fn kind_name(n: &Node) -> &'static str {
    use Node::*;
    match n {
        BooleanKind(_) => "Bool", NumberKind(_) => "Num", StringKind(_) => "Str",
        ReferenceKind { .. } | WrongReferenceKind { .. } => "Ref", RangeKind { .. } | WrongRangeKind { .. } => "RangeLit",
        OpRangeKind { .. } => "Range", OpConcatenateKind { .. } => "Concat",
        OpSumKind { kind: OpSum::Add, .. } => "Add", OpSumKind { kind: OpSum::Minus, .. } => "Sub",
        OpProductKind { .. } => "Prod", OpPowerKind { .. } => "Pow", FunctionKind { .. } => "Fun",
        LambdaDefKind { .. } => "Lambda", LambdaCallKind { .. } => "LambdaCall", NamedFunctionKind { .. } => "NamedFun",
        ArrayKind(_) => "Array", DefinedNameKind(_) => "DefName", TableNameKind(_) => "Table", NamedVariableKind { .. } => "Var",
        ImplicitIntersection { .. } => "At", SpillRangeOperator { .. } => "Spill", CompareKind { .. } => "Cmp",
        UnaryKind { kind: OpUnary::Minus, .. } => "Neg", UnaryKind { kind: OpUnary::Percentage, .. } => "Pct",
        ErrorKind(_) => "Err", ParseErrorKind { .. } => "ParseError", EmptyArgKind => "Empty",
    }
}

/// the table of Syntax/Shape.v `bad_pair`: since commit 1fc9128 only the three associative cases
/// are printed bare (structure changes, value does not)
pub fn is_bad(_xlsx: bool, p: &str, pos: &str, c: &str) -> bool {
    match (p, pos) {
        ("Concat", "right") => c == "Concat",
        ("Add", "right") => c == "Add" || c == "Sub",
        _ => false,
    }
}

/// what the parser makes of a tree whose associative right operands are printed bare:
/// a+(b+c) -> (a+b)+c, a+(b-c) -> (a+b)-c, a&(b&c) -> (a&b)&c, everywhere
pub fn reassoc(n: &Node) -> Node {
    use Node::*;
    let bx = |x: Node| Box::new(x);
    match n {
        OpSumKind { kind: OpSum::Add, left, right } => {
            let l = reassoc(left);
            match reassoc(right) {
                OpSumKind { kind, left: b, right: c } => OpSumKind { kind, left: bx(reassoc(&OpSumKind { kind: OpSum::Add, left: bx(l), right: b })), right: c },
                r => OpSumKind { kind: OpSum::Add, left: bx(l), right: bx(r) },
            }
        }
        OpConcatenateKind { left, right } => {
            let l = reassoc(left);
            match reassoc(right) {
                OpConcatenateKind { left: b, right: c } => OpConcatenateKind { left: bx(reassoc(&OpConcatenateKind { left: bx(l), right: b })), right: c },
                r => OpConcatenateKind { left: bx(l), right: bx(r) },
            }
        }
        OpSumKind { kind, left, right } => OpSumKind { kind: kind.clone(), left: bx(reassoc(left)), right: bx(reassoc(right)) },
        OpRangeKind { left, right } => OpRangeKind { left: bx(reassoc(left)), right: bx(reassoc(right)) },
        OpProductKind { kind, left, right } => OpProductKind { kind: kind.clone(), left: bx(reassoc(left)), right: bx(reassoc(right)) },
        OpPowerKind { left, right } => OpPowerKind { left: bx(reassoc(left)), right: bx(reassoc(right)) },
        CompareKind { kind, left, right } => CompareKind { kind: kind.clone(), left: bx(reassoc(left)), right: bx(reassoc(right)) },
        UnaryKind { kind, right } => UnaryKind { kind: kind.clone(), right: bx(reassoc(right)) },
        ImplicitIntersection { automatic, child } => ImplicitIntersection { automatic: *automatic, child: bx(reassoc(child)) },
        SpillRangeOperator { child } => SpillRangeOperator { child: bx(reassoc(child)) },
        FunctionKind { kind, args } => FunctionKind { kind: kind.clone(), args: args.iter().map(reassoc).collect() },
        NamedFunctionKind { id, name, args } => NamedFunctionKind { id: *id, name: name.clone(), args: args.iter().map(reassoc).collect() },
        LambdaDefKind { parameters, body } => LambdaDefKind { parameters: parameters.clone(), body: bx(reassoc(body)) },
        LambdaCallKind { lambda, args } => LambdaCallKind { lambda: bx(reassoc(lambda)), args: args.iter().map(reassoc).collect() },
        leaf => leaf.clone(),
    }
}

pub fn children(n: &Node) -> Vec<(&'static str, &Node)> {
    use Node::*;
    match n {
        OpRangeKind { left, right } | OpConcatenateKind { left, right } | OpSumKind { left, right, .. }
        | OpProductKind { left, right, .. } | OpPowerKind { left, right } | CompareKind { left, right, .. } => vec![("left", left), ("right", right)],
        UnaryKind { right, .. } => vec![("only", right)],
        ImplicitIntersection { child, .. } | SpillRangeOperator { child } => vec![("only", child)],
        FunctionKind { args, .. } | NamedFunctionKind { args, .. } => args.iter().map(|a| ("arg", a)).collect(),
        LambdaDefKind { body, .. } => vec![("arg", body)],
        LambdaCallKind { lambda, args } => { let mut v: Vec<(&'static str, &Node)> = vec![("arg", lambda)]; v.extend(args.iter().map(|a| ("arg", a))); v }
        _ => vec![],
    }
}
pub fn bad_pairs(n: &Node, xlsx: bool, out: &mut Vec<String>) {
    let ch = children(n);
    for (pos, c) in &ch {
        if is_bad(xlsx, kind_name(n), pos, kind_name(c)) { out.push(format!("{}<-{}:{}", kind_name(n), kind_name(c), pos)); }
    }
    for (_, c) in &ch { bad_pairs(c, xlsx, out); }
}
pub fn contains(n: &Node, p: &dyn Fn(&Node) -> bool) -> bool { p(n) || children(n).iter().any(|(_, c)| contains(c, p)) }
pub fn array_has_error(n: &Node, nimpl_only: bool) -> bool {
    if let Node::ArrayKind(rows) = n {
        rows.iter().flatten().any(|e| match e { ArrayNode::Error(k) => !nimpl_only || *k == Error::NIMPL, _ => false })
    } else { false }
}
pub fn is_let(n: &Node) -> bool { matches!(n, Node::FunctionKind { kind: Function::Let, .. }) }

pub fn rightmost(n: &Node) -> &Node {
    use Node::*;
    match n {
        OpRangeKind { right, .. } | OpConcatenateKind { right, .. } | OpSumKind { right, .. } | OpProductKind { right, .. }
        | CompareKind { right, .. } => rightmost(right),
        UnaryKind { kind: OpUnary::Minus, right } => rightmost(right),
        ImplicitIntersection { child, .. } => rightmost(child),
        _ => n,
    }
}
pub fn leftmost(n: &Node) -> &Node {
    use Node::*;
    match n {
        OpRangeKind { left, .. } | OpConcatenateKind { left, .. } | CompareKind { left, .. } => leftmost(left),
        UnaryKind { kind: OpUnary::Percentage, right } => leftmost(right),
        SpillRangeOperator { child } => leftmost(child),
        _ => n,
    }
}
/// the colon of an OpRangeKind glued to its neighbours by the lexer (Syntax/Shape.v `glue`)
pub fn glue_class(n: &Node, rc: bool) -> Option<&'static str> {
    if let Node::OpRangeKind { left, right } = n {
        match rightmost(left) {
            Node::NumberKind(_) if !rc => return Some("number_colon"),
            Node::ReferenceKind { sheet_name, absolute_row, absolute_column, .. } | Node::WrongReferenceKind { sheet_name, absolute_row, absolute_column, .. } => {
                if matches!(leftmost(right), Node::ReferenceKind { sheet_name: None, .. } | Node::RangeKind { sheet_name: None, .. }) { return Some("ref_colon_ref"); }
                if sheet_name.is_some() || (!rc && (*absolute_row || *absolute_column)) { return Some("ref_colon_F04"); }
            }
            _ => {}
        }
    }
    children(n).iter().find_map(|(_, c)| glue_class(c, rc))
}

// ---------------------------------------------------------------------------------------------
pub fn num(x: f64) -> Node { Node::NumberKind(x) }
pub fn st(s: &str) -> Node { Node::StringKind(s.to_string()) }
pub fn rref(row: i32, col: i32) -> Node {
    Node::ReferenceKind { sheet_name: None, sheet_index: 0, absolute_row: false, absolute_column: false, row: row - crate::CTX_ROW, column: col - crate::CTX_COL }
}
pub fn aref(row: i32, col: i32) -> Node {
    Node::ReferenceKind { sheet_name: None, sheet_index: 0, absolute_row: true, absolute_column: true, row, column: col }
}
pub fn sref(sheet: &str, idx: u32, row: i32, col: i32) -> Node {
    Node::ReferenceKind { sheet_name: Some(sheet.to_string()), sheet_index: idx, absolute_row: false, absolute_column: false, row: row - crate::CTX_ROW, column: col - crate::CTX_COL }
}
pub fn wref(row: i32, col: i32) -> Node {
    Node::WrongReferenceKind { sheet_name: Some("Ghost".to_string()), absolute_row: false, absolute_column: false, row: row - crate::CTX_ROW, column: col - crate::CTX_COL }
}
pub fn range(r1: i32, c1: i32, r2: i32, c2: i32) -> Node {
    Node::RangeKind { sheet_name: None, sheet_index: 0, absolute_row1: false, absolute_column1: false, row1: r1 - crate::CTX_ROW, column1: c1 - crate::CTX_COL,
        absolute_row2: false, absolute_column2: false, row2: r2 - crate::CTX_ROW, column2: c2 - crate::CTX_COL }
}
pub fn bx(n: Node) -> Box<Node> { Box::new(n) }
pub fn cmp(op: OpCompare, l: Node, r: Node) -> Node { Node::CompareKind { kind: op, left: bx(l), right: bx(r) } }
pub fn cat(l: Node, r: Node) -> Node { Node::OpConcatenateKind { left: bx(l), right: bx(r) } }
pub fn add(l: Node, r: Node) -> Node { Node::OpSumKind { kind: OpSum::Add, left: bx(l), right: bx(r) } }
pub fn sub(l: Node, r: Node) -> Node { Node::OpSumKind { kind: OpSum::Minus, left: bx(l), right: bx(r) } }
pub fn mul(l: Node, r: Node) -> Node { Node::OpProductKind { kind: OpProduct::Times, left: bx(l), right: bx(r) } }
pub fn div(l: Node, r: Node) -> Node { Node::OpProductKind { kind: OpProduct::Divide, left: bx(l), right: bx(r) } }
pub fn pow(l: Node, r: Node) -> Node { Node::OpPowerKind { left: bx(l), right: bx(r) } }
pub fn rng(l: Node, r: Node) -> Node { Node::OpRangeKind { left: bx(l), right: bx(r) } }
pub fn neg(c: Node) -> Node { Node::UnaryKind { kind: OpUnary::Minus, right: bx(c) } }
pub fn pct(c: Node) -> Node { Node::UnaryKind { kind: OpUnary::Percentage, right: bx(c) } }
pub fn at(c: Node) -> Node { Node::ImplicitIntersection { automatic: false, child: bx(c) } }
pub fn spill(c: Node) -> Node { Node::SpillRangeOperator { child: bx(c) } }
pub fn var(name: &str) -> Node { Node::NamedVariableKind { name: name.to_string(), id: None } }

/// binary operator classes: one per grammar level and operator spelling
pub const BINOPS: [&str; 8] = ["lt", "cat", "add", "sub", "mul", "div", "pow", "rng"];
pub fn bin(op: &str, l: Node, r: Node) -> Node {
    match op {
        "lt" => cmp(OpCompare::LessThan, l, r), "eq" => cmp(OpCompare::Equal, l, r), "gt" => cmp(OpCompare::GreaterThan, l, r),
        "le" => cmp(OpCompare::LessOrEqualThan, l, r), "ge" => cmp(OpCompare::GreaterOrEqualThan, l, r), "ne" => cmp(OpCompare::NonEqual, l, r),
        "cat" => cat(l, r), "add" => add(l, r), "sub" => sub(l, r), "mul" => mul(l, r), "div" => div(l, r), "pow" => pow(l, r), "rng" => rng(l, r),
        _ => unreachable!(),
    }
}
pub const UNOPS: [&str; 4] = ["neg", "pct", "at", "spill"];
pub fn un(op: &str, c: Node) -> Node { match op { "neg" => neg(c), "pct" => pct(c), "at" => at(c), "spill" => spill(c), _ => unreachable!() } }

pub struct Gen<'a> { pub fns: &'a Fns }
impl<'a> Gen<'a> {
    pub fn new(fns: &'a Fns) -> Gen<'a> { Gen { fns } }
    pub fn fun(&self, f: Function, args: Vec<Node>) -> Node { Node::FunctionKind { kind: f, args } }
    pub fn named(&self, name: &str, args: Vec<Node>) -> Node { Node::NamedFunctionKind { id: None, name: name.to_string(), args } }
    pub fn lambda(&self, params: &str, body: Node) -> Node {
        // NamedVariable cannot be built outside the crate: take the parameter list from a parsed template
        match parse_form(&format!("LAMBDA({params}{}0)", if params.is_empty() { "" } else { "," }), Form::En) {
            Node::LambdaDefKind { parameters, .. } => Node::LambdaDefKind { parameters, body: bx(body) },
            _ => Node::EmptyArgKind,
        }
    }
    pub fn lambda_call(&self, params: &str, body: Node, args: Vec<Node>) -> Node { Node::LambdaCallKind { lambda: bx(self.lambda(params, body)), args } }
    pub fn array1(&self) -> Node {
        Node::ArrayKind(vec![vec![ArrayNode::Number(1.0), ArrayNode::Number(2.0)], vec![ArrayNode::Number(3.0), ArrayNode::Number(4.5)]])
    }
    pub fn array2(&self) -> Node {
        Node::ArrayKind(vec![vec![ArrayNode::Number(-2.0), ArrayNode::String("a".into()), ArrayNode::Boolean(true), ArrayNode::Boolean(false)]])
    }
    pub fn defname(&self) -> Node { Node::DefinedNameKind(("MyName".to_string(), None, "Sheet1!$A$1".to_string())) }

    /// representatives of every child kind, with representative grandchildren
    pub fn reps(&self, kind: &str) -> Vec<Node> {
        match kind {
            "Bool" => vec![Node::BooleanKind(true)],
            "Num" => vec![num(1.0), num(2.5)],
            "Str" => vec![st("a"), st("q\"\"x")],
            "Ref" => vec![rref(1, 1), aref(2, 2), sref("Second Sheet", 1, 1, 1), wref(1, 1)],
            "RangeLit" => vec![range(1, 1, 2, 2)],
            "Range" => vec![rng(rref(1, 1), var("xvar")), rng(range(1, 1, 2, 2), rref(4, 4))],
            "Concat" => vec![cat(num(1.0), num(2.0)), cat(st("a"), rref(1, 1))],
            "Add" => vec![add(num(1.0), num(2.0)), add(rref(1, 1), num(2.0))],
            "Sub" => vec![sub(num(1.0), num(2.0))],
            "Prod" => vec![mul(num(2.0), num(3.0)), div(num(6.0), num(3.0))],
            "Pow" => vec![pow(num(2.0), num(3.0))],
            "Cmp" => vec![cmp(OpCompare::LessThan, num(1.0), num(2.0)), cmp(OpCompare::Equal, num(1.0), num(2.0)), cmp(OpCompare::NonEqual, rref(1, 1), num(2.0))],
            "Fun" => vec![self.fun(Function::Sum, vec![num(1.0), num(2.0)]), self.fun(Function::If, vec![Node::BooleanKind(true), num(1.0), Node::EmptyArgKind]), self.fun(Function::Concat, vec![st("a"), st("b")])],
            "NamedFun" => vec![self.named("foo", vec![num(1.0)])],
            "Lambda" => vec![self.lambda("x", add(var("x"), num(1.0)))],
            "LambdaCall" => vec![self.lambda_call("x,[y]", add(var("x"), num(1.0)), vec![num(2.0)])],
            "Array" => vec![self.array1(), self.array2()],
            "DefName" => vec![self.defname()],
            "Var" => vec![var("xvar")],
            "At" => vec![at(range(1, 1, 2, 1)), at(rref(1, 1))],
            "Spill" => vec![spill(rref(1, 1))],
            "Neg" => vec![neg(num(1.0)), neg(rref(1, 1))],
            "Pct" => vec![pct(num(1.0))],
            "Err" => vec![Node::ErrorKind(Error::VALUE)],
            "Empty" => vec![Node::EmptyArgKind],
            _ => vec![],
        }
    }
    pub const CHILD_KINDS: [&'static str; 25] = ["Bool", "Num", "Str", "Ref", "RangeLit", "Range", "Concat", "Add", "Sub", "Prod", "Pow", "Cmp", "Fun",
        "NamedFun", "Lambda", "LambdaCall", "Array", "DefName", "Var", "At", "Spill", "Neg", "Pct", "Err", "Empty"];

    /// (a) every parent kind x child position x child kind
    pub fn all_pairs(&self) -> Vec<Node> {
        let mut out = vec![];
        for ck in Self::CHILD_KINDS {
            for c in self.reps(ck) {
                if ck != "Empty" {
                    for op in ["lt", "eq", "ge", "cat", "add", "sub", "mul", "div", "pow"] {
                        out.push(bin(op, c.clone(), num(3.0)));
                        out.push(bin(op, num(3.0), c.clone()));
                        out.push(bin(op, c.clone(), rref(4, 4)));
                    }
                    out.push(rng(c.clone(), rref(4, 4)));
                    out.push(rng(c.clone(), self.fun(Function::Index, vec![range(1, 1, 2, 2), num(1.0), num(1.0)])));
                    out.push(rng(rref(1, 1), c.clone()));
                    for u in UNOPS { out.push(un(u, c.clone())); }
                    out.push(self.lambda("x", c.clone()));
                    out.push(self.lambda("", c.clone()));
                }
                out.push(self.fun(Function::Sum, vec![c.clone(), num(3.0)]));
                out.push(self.fun(Function::Sum, vec![num(3.0), c.clone()]));
                out.push(self.fun(Function::Sum, vec![num(3.0), c.clone(), c.clone()]));
                out.push(self.named("foo", vec![c.clone(), num(3.0)]));
                out.push(self.lambda_call("x", var("x"), vec![c.clone(), num(3.0)]));
                out.push(self.fun(Function::True, vec![c.clone(), c.clone()]));
            }
        }
        out
    }

    /// all operator triples: three operators of the eight classes in the five tree shapes, plus the
    /// unary operators above, below and between the binary ones
    pub fn all_triples(&self) -> Vec<Node> {
        let mut out = vec![];
        let leaf = |op: &str, side: u8, k: f64| -> Node {
            if op == "rng" { if side == 0 { rref(1, k as i32) } else { var(&format!("name{}", k as i32)) } } else { num(k) }
        };
        for o1 in BINOPS { for o2 in BINOPS {
            // two operators, both shapes
            out.push(bin(o2, bin(o1, leaf(o1, 0, 1.0), leaf(o1, 1, 2.0)), leaf(o2, 1, 3.0)));
            out.push(bin(o1, leaf(o1, 0, 1.0), bin(o2, leaf(o2, 0, 2.0), leaf(o2, 1, 3.0))));
            for o3 in BINOPS {
                let (a, b_, c, d) = (1.0, 2.0, 3.0, 4.0);
                out.push(bin(o3, bin(o2, bin(o1, leaf(o1, 0, a), leaf(o1, 1, b_)), leaf(o2, 1, c)), leaf(o3, 1, d)));
                out.push(bin(o3, bin(o1, leaf(o1, 0, a), bin(o2, leaf(o2, 0, b_), leaf(o2, 1, c))), leaf(o3, 1, d)));
                out.push(bin(o2, bin(o1, leaf(o1, 0, a), leaf(o1, 1, b_)), bin(o3, leaf(o3, 0, c), leaf(o3, 1, d))));
                out.push(bin(o1, leaf(o1, 0, a), bin(o3, bin(o2, leaf(o2, 0, b_), leaf(o2, 1, c)), leaf(o3, 1, d))));
                out.push(bin(o1, leaf(o1, 0, a), bin(o2, leaf(o2, 0, b_), bin(o3, leaf(o3, 0, c), leaf(o3, 1, d)))));
            }
        } }
        for u in UNOPS {
            for o in BINOPS {
                out.push(un(u, bin(o, leaf(o, 0, 1.0), leaf(o, 1, 2.0))));
                out.push(bin(o, un(u, leaf(o, 0, 1.0)), leaf(o, 1, 2.0)));
                out.push(bin(o, leaf(o, 0, 1.0), un(u, leaf(o, 1, 2.0))));
                for u2 in UNOPS {
                    out.push(un(u, un(u2, bin(o, leaf(o, 0, 1.0), leaf(o, 1, 2.0)))));
                    out.push(un(u, bin(o, un(u2, leaf(o, 0, 1.0)), leaf(o, 1, 2.0))));
                    out.push(bin(o, un(u, un(u2, leaf(o, 0, 1.0))), un(u2, leaf(o, 1, 2.0))));
                }
            }
            for u2 in UNOPS { for u3 in UNOPS { out.push(un(u, un(u2, un(u3, rref(1, 1))))); out.push(un(u, un(u2, un(u3, num(5.0))))); } }
        }
        out
    }

    /// Range literals whose stored fields lie on the boundary grid {1, 2, LAST-1, LAST} (plus, for
    /// relative coordinates, the offsets that land on those positions from the cell (crow, ccol)):
    ///  * rows: all (value, flag) pairs for row1 and row2, columns ordinary; columns likewise;
    ///  * the sentinel values of the whole-row / whole-column tests (1 and LAST as stored values) in all
    ///    2^4 flag combinations, alone, against the full grid of the other axis, on another sheet and on
    ///    an unknown sheet (WrongRangeKind); each also as the argument of ROWS().
    pub fn boundary_ranges(&self, crow: i32, ccol: i32) -> Vec<Node> {
        const LR: i32 = 1048576;
        const LC: i32 = 16384;
        let axis = |last: i32, c: i32| -> Vec<(i32, bool)> {
            let mut v: Vec<(i32, bool)> = vec![];
            for x in [1, 2, last - 1, last] {
                v.push((x, true));
                v.push((x, false));            // the same number as an OFFSET
                v.push((x - c, false));        // the offset that lands on position x
            }
            v.sort(); v.dedup(); v
        };
        let (rows, cols) = (axis(LR, crow), axis(LC, ccol));
        let mk = |sheet: Option<(&str, Option<u32>)>, r1: (i32, bool), c1: (i32, bool), r2: (i32, bool), c2: (i32, bool)| -> Node {
            match sheet {
                Some((name, None)) => Node::WrongRangeKind { sheet_name: Some(name.to_string()), absolute_row1: r1.1, absolute_column1: c1.1, row1: r1.0, column1: c1.0,
                    absolute_row2: r2.1, absolute_column2: c2.1, row2: r2.0, column2: c2.0 },
                Some((name, Some(i))) => Node::RangeKind { sheet_name: Some(name.to_string()), sheet_index: i, absolute_row1: r1.1, absolute_column1: c1.1, row1: r1.0, column1: c1.0,
                    absolute_row2: r2.1, absolute_column2: c2.1, row2: r2.0, column2: c2.0 },
                None => Node::RangeKind { sheet_name: None, sheet_index: 0, absolute_row1: r1.1, absolute_column1: c1.1, row1: r1.0, column1: c1.0,
                    absolute_row2: r2.1, absolute_column2: c2.1, row2: r2.0, column2: c2.0 },
            }
        };
        // an ordinary pair on the other axis: two relative coordinates next to the cell, on the grid
        let near = |c: i32, last: i32| -> ((i32, bool), (i32, bool)) { if c + 1 <= last { ((0, false), (1, false)) } else { ((-1, false), (0, false)) } };
        let (ordr, ordc) = (near(crow, LR), near(ccol, LC));
        let mut out = vec![];
        for &r1 in &rows { for &r2 in &rows { out.push(mk(None, r1, ordc.0, r2, ordc.1)); } }
        for &c1 in &cols { for &c2 in &cols { out.push(mk(None, ordr.0, c1, ordr.1, c2)); } }
        for f in 0..16u32 {
            let (r1, c1, r2, c2) = ((1, f & 1 != 0), (1, f & 2 != 0), (LR, f & 4 != 0), (LC, f & 8 != 0));
            for sheet in [None, Some(("Second Sheet", Some(1))), Some(("Ghost", None))] { out.push(mk(sheet, r1, c1, r2, c2)); }
            out.push(self.fun(Function::Rows, vec![mk(None, r1, c1, r2, c2)]));
            // sentinel flags on one axis against the whole grid of the other
            if f < 4 {
                let (a, z) = (f & 1 != 0, f & 2 != 0);
                for &c1 in &cols { for &c2 in &cols { out.push(mk(None, (1, a), c1, (LR, z), c2)); } }
                for &r1 in &rows { for &r2 in &rows { out.push(mk(None, r1, (1, a), r2, (LC, z))); } }
            }
        }
        out
    }

    /// leaves of every kind in every spelling class, alone and as function arguments
    pub fn leaf_cases(&self) -> Vec<Node> {
        let mut l: Vec<Node> = vec![Node::BooleanKind(true), Node::BooleanKind(false), num(0.0), num(1.0), num(2.5), num(1e21), num(1.5e-7), num(123456789012345.0),
            st(""), st("a b"), st("q\"\"x"), st("é,;"), rref(1, 1), rref(5, 7), aref(1, 1), aref(1048576, 16384), sref("Sheet1", 0, 2, 2), sref("Second Sheet", 1, 3, 4), sref("Third", 2, 1, 1), wref(2, 2),
            Node::ReferenceKind { sheet_name: None, sheet_index: 0, absolute_row: true, absolute_column: false, row: 7, column: 1 },
            Node::ReferenceKind { sheet_name: None, sheet_index: 0, absolute_row: false, absolute_column: true, row: 1, column: 7 },
            range(1, 1, 2, 2), range(3, 3, 3, 5),
            Node::RangeKind { sheet_name: Some("Second Sheet".into()), sheet_index: 1, absolute_row1: true, absolute_column1: true, row1: 1, column1: 1, absolute_row2: true, absolute_column2: true, row2: 4, column2: 2 },
            Node::RangeKind { sheet_name: None, sheet_index: 0, absolute_row1: true, absolute_column1: false, row1: 1, column1: 0, absolute_row2: true, absolute_column2: false, row2: 1048576, column2: 1 },
            Node::RangeKind { sheet_name: None, sheet_index: 0, absolute_row1: false, absolute_column1: true, row1: 0, column1: 1, absolute_row2: false, absolute_column2: true, row2: 2, column2: 16384 },
            Node::WrongRangeKind { sheet_name: Some("Ghost".into()), absolute_row1: false, absolute_column1: false, row1: 0, column1: 0, absolute_row2: false, absolute_column2: false, row2: 1, column2: 1 },
            self.array1(), self.array2(), Node::ArrayKind(vec![vec![ArrayNode::Error(Error::NA), ArrayNode::Number(1.0)]]), Node::ArrayKind(vec![vec![ArrayNode::Error(Error::NIMPL), ArrayNode::Error(Error::DIV)]]), Node::ArrayKind(vec![vec![ArrayNode::Number(7.0)]]),
            self.defname(), Node::DefinedNameKind(("local_n".into(), Some(0), "Sheet1!$B$2:$B$3".into())), var("x"), var("rate_1"), var("_u.v"),
            self.named("foo", vec![]), self.named("foo", vec![Node::EmptyArgKind, Node::EmptyArgKind]), self.named("Foo", vec![num(1.0)]),
            self.lambda("x,y", mul(var("x"), var("y"))), self.lambda("x,[y]", var("x")), self.lambda("", num(1.0)), self.lambda_call("x", var("x"), vec![]), self.lambda_call("x,y", add(var("x"), var("y")), vec![num(1.0), num(2.0)]),
            self.fun(Function::Let, vec![var("x"), num(1.0), add(var("x"), num(1.0))]),
            self.fun(Function::Sum, vec![]), self.fun(Function::Sum, vec![Node::EmptyArgKind, num(1.0)]), self.fun(Function::Sum, vec![num(1.0), Node::EmptyArgKind]),
            self.fun(Function::Sum, vec![Node::EmptyArgKind, Node::EmptyArgKind, Node::EmptyArgKind]), self.fun(Function::True, vec![]), self.fun(Function::False, vec![]),
            self.fun(Function::Concat, vec![st("a")]), self.fun(Function::Filter, vec![range(1, 1, 2, 2), range(1, 4, 2, 4)]), self.fun(Function::Ifs, vec![Node::BooleanKind(true), num(1.0)]),
            at(range(1, 1, 2, 1)), spill(rref(1, 1)), at(self.defname()),
            // identifiers that START like a reference of the other notation (the stored form is read back in R1C1 mode, the
            // display forms in A1 mode) or like a boolean, in each role: variable, defined name (global / local), LET name,
            // LAMBDA parameter, user function
            var("R2C2_total"), var("R1C1.rate"), var("RC_x"), var("R1C1x"), var("r3c4z"), var("A1_x"), var("XFD1x"), var("TRUE1"), var("FALSE_x"),
            Node::DefinedNameKind(("R2C2_sum".into(), None, "Sheet1!$B$1".into())), Node::DefinedNameKind(("RC_loc".into(), Some(0), "Sheet1!$B$2".into())), Node::DefinedNameKind(("A1_name".into(), None, "Sheet1!$B$3".into())),
            self.fun(Function::Let, vec![var("R1C1.rate"), num(2.0), mul(var("R1C1.rate"), num(3.0))]), self.fun(Function::Let, vec![var("XFD1x"), num(2.0), var("XFD1x")]),
            self.lambda("RC_x,R2C2_total", mul(var("RC_x"), var("R2C2_total"))), self.lambda_call("R1C1x,A1_x", add(var("R1C1x"), var("A1_x")), vec![num(1.0), num(2.0)]),
            self.named("r1c1fn", vec![num(1.0), num(2.0)]), self.named("a1_fn", vec![num(1.0)]),
        ];
        for e in ERRORS.iter() { l.push(Node::ErrorKind(e.clone())); }
        let mut out = vec![];
        for x in l { out.push(self.fun(Function::Sum, vec![x.clone(), x.clone()])); out.push(add(x.clone(), num(1.0))); out.push(x); }
        // every built-in function name: F(1)
        for f in &self.fns.all { if *f != Function::Lambda { out.push(self.fun(f.clone(), vec![num(1.0)])); } }
        out
    }

    fn leaf(&self, r: &mut Rng, evaluable: bool) -> Node {
        match r.below(if evaluable { 8 } else { 16 }) {
            0 | 1 => num([1.0, 2.0, 3.0, 0.5, 10.0, 7.0][r.below(6) as usize]),
            2 => rref(1 + r.below(3) as i32, 1 + r.below(2) as i32),
            3 => aref(1 + r.below(3) as i32, 1 + r.below(2) as i32),
            4 => st(["a", "b", "10", ""][r.below(4) as usize]),
            5 => Node::BooleanKind(r.chance(1, 2)),
            6 => range(1, 1, 1 + r.below(2) as i32, 1 + r.below(2) as i32),
            7 => num(2.0),
            8 => sref("Second Sheet", 1, 1 + r.below(3) as i32, 1),
            9 => var(["xvar", "yvar", "total"][r.below(3) as usize]),
            10 => self.defname(),
            11 => Node::ErrorKind([Error::VALUE, Error::DIV, Error::NA, Error::REF, Error::NIMPL][r.below(5) as usize].clone()),
            12 => self.array1(),
            13 => self.array2(),
            14 => wref(1, 1),
            _ => num(4.0),
        }
    }
    /// (b) random trees; `evaluable` restricts leaves and functions to what a small workbook evaluates
    pub fn random(&self, r: &mut Rng, depth: u32, evaluable: bool) -> Node {
        if depth == 0 || r.chance(1, 8) { return self.leaf(r, evaluable); }
        let d = depth - 1;
        match r.below(if evaluable { 17 } else { 22 }) {
            0 => bin(["lt", "eq", "gt", "le", "ge", "ne"][r.below(6) as usize], self.random(r, d, evaluable), self.random(r, d, evaluable)),
            1 | 2 => cat(self.random(r, d, evaluable), self.random(r, d, evaluable)),
            3 | 4 => add(self.random(r, d, evaluable), self.random(r, d, evaluable)),
            5 | 6 => sub(self.random(r, d, evaluable), self.random(r, d, evaluable)),
            7 => mul(self.random(r, d, evaluable), self.random(r, d, evaluable)),
            8 => div(self.random(r, d, evaluable), self.random(r, d, evaluable)),
            9 => pow(self.random(r, d, evaluable), self.random(r, d, evaluable)),
            10 | 11 => neg(self.random(r, d, evaluable)),
            12 | 13 => pct(self.random(r, d, evaluable)),
            14 => self.fun(Function::Sum, (0..1 + r.below(3)).map(|_| self.random(r, d, evaluable)).collect()),
            15 => self.fun(Function::If, vec![self.random(r, d, evaluable), self.random(r, d, evaluable), self.random(r, d, evaluable)]),
            16 => self.fun(Function::Abs, vec![self.random(r, d, evaluable)]),
            17 => rng(self.random(r, d, false), self.random(r, d, false)),
            18 => at(self.random(r, d, false)),
            19 => spill(self.random(r, d, false)),
            20 => self.named("foo", (0..r.below(3)).map(|_| if r.chance(1, 6) { Node::EmptyArgKind } else { self.random(r, d, false) }).collect::<Vec<_>>()).fix_single_empty(),
            _ => self.lambda_call("x", self.random(r, d, false), vec![self.random(r, d, false)]),
        }
    }
}
trait FixEmpty { fn fix_single_empty(self) -> Node; }
impl FixEmpty for Node {
    // "f()" has no arguments: a single EmptyArg is not a tree the parser returns
    fn fix_single_empty(self) -> Node {
        match self {
            Node::NamedFunctionKind { id, name, args } if args.len() == 1 && args[0] == Node::EmptyArgKind => Node::NamedFunctionKind { id, name, args: vec![] },
            n => n,
        }
    }
}
pub fn _unused(_: &str) -> &'static str { b(true) }
