use ironcalc_base::Model;
use ironcalc_base::types::Cell;
fn show(m: &Model, label: &str) {
    println!("--- {label}");
    let mut cells = m.get_all_cells(); cells.sort_by_key(|c| (c.index, c.row, c.column));
    for c in cells {
        if c.index != 0 || c.column > 5 { continue; }
        let cell = m.workbook.worksheet(0).unwrap().cell(c.row, c.column).unwrap();
        let k = match cell { Cell::ArrayFormula { r, kind, .. } => format!("Array {:?} {:?}", kind, r), Cell::SpillCell { a, .. } => format!("Spill a={:?}", a), Cell::CellFormula { .. } => "Formula".into(), _ => "lit".into() };
        println!("  r{} c{} {} f={:?} v={:?}", c.row, c.column, k, m.get_cell_formula(0, c.row, c.column).unwrap(), m.get_formatted_cell_value(0, c.row, c.column).unwrap());
    }
}
fn base(data_row: i32) -> Model<'static> {
    let mut m = Model::new_empty("m", "en", "UTC", "en").unwrap();
    for r in 0..3 { m.set_user_input(0, data_row + r, 6, format!("{}", r + 1)).unwrap(); m.set_user_input(0, data_row + r, 7, format!("{}", 10 * (r + 1))).unwrap(); }
    m
}
fn main() {
    // reference inside the CSE array must be rewritten: data below the insertion point
    let mut m = base(10);
    m.set_user_array_formula(0, 2, 2, 2, 3, "=$F$10:$G$12*2").unwrap();
    m.evaluate(); show(&m, "CSE B2:C4 = F10:G12*2");
    println!("{:?}", m.insert_rows(0, 8, 1)); m.evaluate(); show(&m, "after insert_rows(0,8,1) (array above, data below)");
    // array moved AND reference rewritten
    let mut m = base(10);
    m.set_user_array_formula(0, 6, 2, 2, 3, "=$F$10:$G$12*2").unwrap();
    m.evaluate();
    println!("{:?}", m.insert_rows(0, 5, 1)); m.evaluate(); show(&m, "after insert_rows(0,5,1) (array and data below)");
    // dynamic array
    let mut m = base(1);
    m.set_user_input(0, 6, 2, "=$F$1:$G$3*2".to_string()).unwrap();
    m.evaluate(); show(&m, "dynamic B6");
    println!("{:?}", m.insert_rows(0, 5, 1)); m.evaluate(); show(&m, "dynamic after insert_rows(0,5,1)");
    println!("{:?}", m.insert_rows(0, 8, 1)); m.evaluate(); show(&m, "dynamic after insert inside the spill (row 8)");
    println!("{:?}", m.delete_rows(0, 2, 2)); m.evaluate(); show(&m, "dynamic after delete rows 2..3");
    // CSE delete / move
    let mut m = base(1);
    m.set_user_array_formula(0, 6, 2, 2, 3, "=$F$1:$G$3*2").unwrap(); m.evaluate();
    println!("{:?}", m.delete_rows(0, 4, 1)); m.evaluate(); show(&m, "CSE after delete row 4");
    println!("{:?}", m.move_rows_action(0, 5, 3, 3)); m.evaluate(); show(&m, "CSE after move rows 5..7 by 3");
    println!("{:?}", m.move_columns_action(0, 2, 2, 2)); m.evaluate(); show(&m, "CSE after move columns B:C by 2");
}
