//! C32 — defined names are stable under edits.
//! Global and sheet-local cell / range / LAMBDA names x all 30 language / locale configurations x
//! every sheet operation and name operation x both file round trips. Oracle: the stored names
//! (viewed in English: workbook.defined_names with the scope as a sheet NAME) and the values of the
//! cells that use them, before the operation vs after it (with the expected effect of the operation
//! applied), and against a twin workbook that performs the same operation in en / en.
//! Tie: the extracted RenameName.rename against the trees update_defined_name leaves behind, and
//! RenameName.name_formula_after_rename against rename_sheet_by_index on name formulas.
#[path = "../../c09/src/nodeio.rs"]
mod nodeio;
#[path = "../../c26/src/treeutil.rs"]
mod treeutil;
#[path = "../../c26/src/fgen.rs"]
mod fgen;
use nodeio::*;
use vh_common::*;

use ironcalc::export::save_xlsx_to_writer;
use ironcalc::import::load_from_xlsx_bytes;
use ironcalc_base::language::get_language;
use ironcalc_base::locale::get_locale;
use ironcalc_base::{Model, UserModel};
use serde_json::json;
use std::collections::{BTreeMap, HashSet};
use std::io::Cursor;
use std::panic::{catch_unwind, AssertUnwindSafe};

pub const LANGS: [&str; 5] = ["en", "de", "es", "fr", "it"];
pub const LOCALES: [&str; 6] = ["en", "en-GB", "de", "es", "fr", "it"];
fn dot(loc: &str) -> bool { get_locale(loc).unwrap().numbers.symbols.decimal == "." }
fn cfg_class(lang: &str, loc: &str) -> &'static str {
    match (lang == "en", dot(loc)) { (true, true) => "en_point", (true, false) => "en_comma", (false, true) => "foreign_point", (false, false) => "foreign_comma" }
}

#[derive(Clone, Copy, Debug, PartialEq, Eq)]
enum OpK { RenameToRcName, RenameRcName, SwitchOnly, RenameOther, RenameMentioned, MoveOther, DeleteOther, NewSheet, RenameCellName, RenameRangeName, RenameLambda, RenameLocal, RenameToUsedIdentifier, Bytes, Xlsx }
const OPS: [OpK; 15] = [OpK::RenameToRcName, OpK::RenameRcName, OpK::SwitchOnly, OpK::RenameOther, OpK::RenameMentioned, OpK::MoveOther, OpK::DeleteOther, OpK::NewSheet, OpK::RenameCellName, OpK::RenameRangeName,
    OpK::RenameLambda, OpK::RenameLocal, OpK::RenameToUsedIdentifier, OpK::Bytes, OpK::Xlsx];

/// the names as stored (English), scope as the sheet's name, sorted
fn names_view(m: &Model) -> Vec<String> {
    let wb = &m.workbook;
    let mut v: Vec<String> = wb.defined_names.iter().map(|d| {
        let scope = match d.sheet_id { None => "global".to_string(), Some(id) => wb.worksheets.iter().find(|w| w.sheet_id == id).map(|w| w.get_name()).unwrap_or(format!("<gone {id}>")) };
        format!("{} @{} = {}", d.name, scope, d.formula)
    }).collect();
    v.sort();
    v
}
/// value of a cell as stored (language independent)
fn value(m: &Model, sheet_name: &str, row: i32, col: i32) -> String {
    use ironcalc_base::types::{Cell, FormulaValue};
    let ws = match m.workbook.worksheets.iter().find(|w| w.get_name() == sheet_name) { Some(w) => w, None => return "no-sheet".into() };
    let fv = |v: &FormulaValue| match v {
        FormulaValue::Number(n) => format!("n:{n}"), FormulaValue::Text(t) => format!("t:{t:?}"), FormulaValue::Boolean(x) => format!("b:{x}"),
        FormulaValue::Error { ei, .. } => format!("e:{ei:?}"), FormulaValue::Unevaluated => "unevaluated".into() };
    match ws.cell(row, col) {
        Some(Cell::CellFormula { v, .. }) | Some(Cell::ArrayFormula { v, .. }) => fv(v),
        Some(Cell::SpillCell { v, .. }) => format!("{v:?}"),
        Some(c) => format!("{c:?}"), None => "none".into(),
    }
}
const USERS: [(usize, i32, &str); 15] = [
    (0, 1, "=G_cell+1"), (0, 2, "=SUM(G_range)"), (0, 3, "=L_cell*2"), (0, 4, "=inc(2)"), (0, 5, "=tot(3)"), (0, 6, "=half(5)"),
    (0, 7, "=SUM(G_range)+inc(G_cell)"), (1, 1, "=L_data+G_cell"), (1, 2, "=g_cell&\"x\""), (0, 8, "=Renamed9+1"),
    // a decimal literal and an argument separator next to a name: what a re-parse in the active locale damages
    (0, 9, "=G_cell+0.5"), (1, 3, "=SUM(G_range,0.5)"),
    // names that START like an R1C1 reference (the stored form is re-read in R1C1 mode) and an A1 twin, global and local
    (0, 10, "=R2C2_total*2"), (0, 11, "=RC_n+A1_x"), (0, 12, "=LET(R1C1x,R2C2_total,R1C1x+r2c2_TOTAL)"),
];
fn values_view(m: &Model, sheets: &[String; 2]) -> Vec<String> {
    USERS.iter().map(|(s, r, f)| format!("{}!E{} {} -> {}", sheets[*s], r, f, value(m, &sheets[*s], *r, 5))).collect()
}

fn build(variant: u64) -> UserModel<'static> {
    let mut um = UserModel::new_empty("names", "en", "UTC", "en").unwrap();
    let _ = um.new_sheet();
    let _ = um.new_sheet();
    let _ = um.rename_sheet(1, "Data");
    let _ = um.rename_sheet(2, "Aux");
    for r in 1..=4 { for c in 1..=3 { let _ = um.set_user_input(0, r, c, &format!("{}", r * 10 + c)); let _ = um.set_user_input(1, r, c, &format!("{}.5", r + c)); let _ = um.set_user_input(2, r, c, &format!("{}", r * c)); } }
    // LAMBDA names with and without the leading '=' (both are accepted and stored as given)
    let lam_tot = match variant % 4 { 0 => "=LAMBDA(x,SUM(x,Data!$A$1))", 1 => "LAMBDA(x,SUM(x,Data!$A$1))", 2 => "LAMBDA(x,x+Data!$A$1)", _ => "=LAMBDA(x,x+Data!$A$1)" };
    let lam_half = if variant % 3 == 0 { "LAMBDA(x,x*0.5)" } else { "=LAMBDA(x,x/2)" };
    for (n, sc, f) in [("G_cell", None, "Sheet1!$A$1"), ("G_range", None, "Data!$B$2:$B$4"), ("L_cell", Some(0u32), "Sheet1!$C$3"), ("L_data", Some(1u32), "Data!$A$1"),
                       ("inc", None, "=LAMBDA(x,x+1)"), ("tot", None, lam_tot), ("half", None, lam_half),
                       ("R2C2_total", None, "Sheet1!$B$2"), ("RC_n", Some(0u32), "Sheet1!$A$2"), ("A1_x", None, "Sheet1!$A$3")] {
        um.new_defined_name(n, sc, f).unwrap();
    }
    for (s, r, f) in USERS { let _ = um.set_user_input(s as u32, r, 5, f); }
    let _ = um.set_user_input(2, 1, 5, "=Aux!A1+1.5");
    // more shapes for the tie of the rename pass (not part of the values view)
    for (i, f) in ["=IF(G_cell>1,SUM(G_range,g_cell),-L_cell)", "=LET(a,G_cell,a+inc(G_CELL))", "=LAMBDA(q,q+G_cell)(1)", "={1,2}+G_cell", "=@G_range", "=G_cell%+G_cell^2",
                   "=G_cell&L_cell&\"G_cell\"", "=SUM(G_range:G_cell)", "=unknownfn(G_cell,,tot(G_cell))", "=G_cell=L_cell", "=-G_cell*(G_cell-1)/G_cell", "=Sheet1!A1+G_cell",
                   // the name as the RIGHT operand of every binary node kind and under a unary one (a pass that
                   // visits one child twice and the other never is invisible when the name is on the left only)
                   "=2^G_cell", "=1-G_cell", "=1/G_cell", "=2*G_cell", "=1&G_cell", "=1<>G_cell", "=-G_cell", "=G_cell%",
                   "=SUM(1,2^(G_cell+1))", "=IF(1,2,G_cell)^L_cell", "=Sheet1!A1:G_cell", "=SUM(G_cell:Sheet1!B2)"].iter().enumerate() {
        let _ = um.set_user_input(0, 1 + i as i32, 6, f);
    }
    um.evaluate();
    um
}

/// applies the operation; returns the expected transformation of the names view / sheet names
fn apply(um: &mut UserModel, op: OpK) -> Result<(), String> {
    let idx = |um: &UserModel, name: &str| um.get_model().workbook.worksheets.iter().position(|w| w.get_name() == name).map(|i| i as u32);
    let shown = |um: &UserModel, name: &str| um.get_defined_name_list().into_iter().find(|(n, _, _)| n == name).map(|(_, s, f)| (s, f));
    match op {
        OpK::SwitchOnly => Ok(()),
        OpK::RenameOther => { let i = idx(um, "Aux").ok_or("no Aux")?; um.rename_sheet(i, "Renamed") }
        OpK::RenameMentioned => { let i = idx(um, "Data").ok_or("no Data")?; um.rename_sheet(i, "Datos") }
        OpK::MoveOther => { let i = idx(um, "Aux").ok_or("no Aux")?; um.move_sheet(i, 0) }
        OpK::DeleteOther => { let i = idx(um, "Aux").ok_or("no Aux")?; um.delete_sheet(i) }
        OpK::NewSheet => um.new_sheet(),
        // the formula is passed as the model shows it in the active configuration (what a UI does)
        OpK::RenameCellName => { let (s, f) = shown(um, "G_cell").ok_or("no G_cell")?; um.update_defined_name("G_cell", s, "Renamed1", s, &f) }
        OpK::RenameRangeName => { let (s, f) = shown(um, "G_range").ok_or("no G_range")?; um.update_defined_name("G_range", s, "Renamed2", s, &f) }
        OpK::RenameLambda => { let (s, f) = shown(um, "tot").ok_or("no tot")?; um.update_defined_name("tot", s, "total", s, &f) }
        OpK::RenameLocal => { let (s, f) = shown(um, "L_cell").ok_or("no L_cell")?; um.update_defined_name("L_cell", s, "Local2", s, &f) }
        OpK::RenameToUsedIdentifier => { let (s, f) = shown(um, "G_cell").ok_or("no G_cell")?; um.update_defined_name("G_cell", s, "Renamed9", s, &f) }
        OpK::RenameToRcName => { let (s, f) = shown(um, "G_cell").ok_or("no G_cell")?; um.update_defined_name("G_cell", s, "R9C9_g", s, &f) }
        OpK::RenameRcName => { let (s, f) = shown(um, "R2C2_total").ok_or("no R2C2_total")?; um.update_defined_name("R2C2_total", s, "R3C3.sum", s, &f) }
        OpK::Bytes | OpK::Xlsx => Ok(()),
    }
}
fn expect_names(before: &[String], op: OpK) -> Vec<String> {
    let mut v: Vec<String> = before.iter().map(|l| match op {
        OpK::RenameMentioned => l.replace("Data!", "Datos!").replace("@Data", "@Datos"),
        OpK::RenameCellName => l.replace("G_cell @", "Renamed1 @"),
        OpK::RenameRangeName => l.replace("G_range @", "Renamed2 @"),
        OpK::RenameLambda => l.replace("tot @", "total @"),
        OpK::RenameLocal => l.replace("L_cell @", "Local2 @"),
        OpK::RenameToUsedIdentifier => l.replace("G_cell @", "Renamed9 @"),
        OpK::RenameToRcName => l.replace("G_cell @", "R9C9_g @"),
        OpK::RenameRcName => l.replace("R2C2_total @", "R3C3.sum @"),
        _ => l.clone(),
    }).collect();
    v.sort();
    v
}
fn expect_value_line(l: &str, op: OpK) -> String {
    // the formula text column of the values view follows a rename; the value does not change
    match op {
        OpK::RenameMentioned => l.replacen("Data!E", "Datos!E", 1),
        _ => l.to_string(),
    }
}

struct Run { cs: Cases, or: Oracle, fns: Fns, dist: BTreeMap<String, u64>, samples: Vec<String>, distinct: HashSet<String>, seen: HashSet<String> }

impl Run {
    fn scenario(&mut self, li: usize, ci: usize, op: OpK, variant: u64) {
        let (lang, loc) = (LANGS[li], LOCALES[ci]);
        *self.dist.entry(format!("{op:?}")).or_insert(0) += 1;
        let replay = json!({"language": lang, "locale": loc, "op": format!("{op:?}"), "variant": variant});
        let mut um = build(variant);
        let mut twin = build(variant);
        let n0 = names_view(um.get_model());
        let sheets0 = ["Sheet1".to_string(), "Data".to_string()];
        let v0 = values_view(um.get_model(), &sheets0);
        self.distinct.insert(format!("{lang}/{loc}/{op:?}/{variant}"));
        // switch
        let _ = um.set_language(lang);
        let _ = um.set_locale(loc);
        self.or.checked += 1;
        if names_view(um.get_model()) != n0 {
            self.or.fail("switch_changes_names", replay.clone(), format!("names {:?} became {:?}", n0, names_view(um.get_model())));
            return;
        }
        // the tie for rename_sheet on name formulas and for the rename pass: trees before
        let trees_before: Vec<(String, String)> = um.get_model().workbook.worksheets.iter().zip(um.get_model().parsed_formulas.iter())
            .flat_map(|(ws, pf)| ws.shared_formulas.iter().cloned().zip(pf.iter().map(|p| dump_s(&p.0, &self.fns))).collect::<Vec<_>>()).collect();
        // the operation, on both
        let r1 = catch_unwind(AssertUnwindSafe(|| apply(&mut um, op)));
        let r2 = catch_unwind(AssertUnwindSafe(|| apply(&mut twin, op)));
        let (r1, r2) = match (r1, r2) { (Ok(a), Ok(b2)) => (a, b2), _ => { self.or.fail("operation_panics", replay, format!("{op:?} panics")); return; } };
        self.or.checked += 1;
        if r1.is_ok() != r2.is_ok() {
            self.or.fail(&format!("outcome_depends_on_language:{}", match op { OpK::RenameToRcName | OpK::RenameRcName | OpK::RenameCellName | OpK::RenameRangeName | OpK::RenameLambda | OpK::RenameLocal | OpK::RenameToUsedIdentifier => "update_defined_name", _ => "sheet_op" }),
                replay, format!("{op:?}: {r1:?} under {lang}/{loc}, {r2:?} in en/en"));
            return;
        }
        if r1.is_err() { return; }
        // file round trips (in the active configuration)
        let mut model_after: Model = match op {
            OpK::Bytes => match Model::from_bytes(&um.to_bytes(), lang) { Ok(m) => m, Err(e) => { self.or.fail("bytes_roundtrip_fails", replay, e); return; } },
            OpK::Xlsx => {
                let bytes = match save_xlsx_to_writer(um.get_model(), Cursor::new(Vec::new())) { Ok(w) => w.into_inner(), Err(e) => { self.or.fail("xlsx_export_fails", replay, format!("{e:?}")); return; } };
                let locs: &'static str = loc;
                match load_from_xlsx_bytes(&bytes, "names", locs, "UTC").map_err(|e| format!("{e:?}")).and_then(|wb| Model::from_workbook(wb, lang)) {
                    Ok(m) => m, Err(e) => { self.or.fail("xlsx_import_fails", replay, e); return; } }
            }
            _ => Model::from_bytes(&um.to_bytes(), lang).unwrap(),
        };
        // back to English, evaluate, observe
        let _ = model_after.set_language("en");
        let _ = model_after.set_locale("en");
        model_after.evaluate();
        twin.evaluate();
        let sheets1 = if op == OpK::RenameMentioned { ["Sheet1".to_string(), "Datos".to_string()] } else { sheets0.clone() };
        // the xlsx writer drops the leading '=' of a name formula (both spellings are accepted everywhere): compared modulo that
        let unify = |v: Vec<String>| -> Vec<String> { if op == OpK::Xlsx { let mut w: Vec<String> = v.into_iter().map(|l| l.replace("= =", "= ")).collect(); w.sort(); w } else { v } };
        let n1 = unify(names_view(&model_after));
        let v1 = values_view(&model_after, &sheets1);
        let nt = names_view(twin.get_model());
        let vt = values_view(twin.get_model(), &sheets1);
        let n_exp = unify(expect_names(&n0, op));
        let v_exp: Vec<String> = v0.iter().map(|l| expect_value_line(l, op)).collect();
        let is_name_op = matches!(op, OpK::RenameToRcName | OpK::RenameRcName | OpK::RenameCellName | OpK::RenameRangeName | OpK::RenameLambda | OpK::RenameLocal | OpK::RenameToUsedIdentifier);
        // values: the formula text column changes with a rename of a name; compare the value part only
        let val_only = |v: &Vec<String>| v.iter().map(|l| l.rsplit(" -> ").next().unwrap_or("").to_string()).collect::<Vec<_>>();
        self.or.checked += 2;
        let names_ok = n1 == n_exp;
        let mut values_ok = val_only(&v1) == val_only(&v_exp);
        let twin_names_ok = nt == n_exp;
        let mut twin_values_ok = val_only(&vt) == val_only(&v_exp);
        // the capture case: =Renamed9+1 was #NAME? and is bound after the rename — expected to change; everything else must not
        let mut capture = false;
        if op == OpK::RenameToUsedIdentifier {
            let idxc = USERS.iter().position(|u| u.2 == "=Renamed9+1").unwrap();
            let (a, b2) = (val_only(&v1), val_only(&v_exp));
            capture = a[idxc] != b2[idxc];
            values_ok = a.iter().zip(b2.iter()).enumerate().all(|(i, (x, y))| i == idxc || x == y);
            twin_values_ok = val_only(&vt).iter().zip(b2.iter()).enumerate().all(|(i, (x, y))| i == idxc || x == y);
        }
        if capture {
            self.or.fail("rename_captures_free_identifier", replay.clone(), format!("=Renamed9+1 was #NAME? before G_cell was renamed to Renamed9 and is {} afterwards", val_only(&v1)[USERS.iter().position(|u| u.2 == "=Renamed9+1").unwrap()]));
        }
        if !names_ok || !values_ok {
            let part = if !names_ok { "names" } else { "values" };
            let language_specific = twin_names_ok && twin_values_ok;
            let eq_name_mentions = n0.iter().any(|l| l.contains("= =") && l.contains("Data!"));
            let class = match (op, language_specific) {
                (OpK::RenameOther | OpK::RenameMentioned, true) => "rename_sheet_reparses_in_active_language".to_string(),
                // a name formula stored with its leading '=' does not parse in rename_sheet_by_index: it is copied, not renamed
                (OpK::RenameMentioned, false) if eq_name_mentions => "rename_sheet_skips_name_formula_with_equals_sign".to_string(),
                // a LAMBDA name is CALLED through a NamedFunctionKind node, which the rename pass does not touch
                (OpK::RenameLambda, false) if part == "values" => "rename_lambda_name_not_propagated".to_string(),
                (_, true) if is_name_op => "rename_name_reparses_in_active_language".to_string(),
                (OpK::Xlsx, _) => format!("xlsx_roundtrip:{part}"),
                (o, true) => format!("{o:?}:{part}:language_specific"),
                (o, false) => format!("{o:?}:{part}"),
            };
            let d: Vec<String> = if !names_ok { n1.iter().filter(|l| !n_exp.contains(l)).take(3).map(|l| format!("got {l}")).chain(n_exp.iter().filter(|l| !n1.contains(l)).take(3).map(|l| format!("expected {l}"))).collect() }
                else { v1.iter().zip(v_exp.iter()).filter(|(a, b2)| a.rsplit(" -> ").next() != b2.rsplit(" -> ").next()).take(3).map(|(a, b2)| format!("{a} (expected {})", b2.rsplit(" -> ").next().unwrap_or(""))).collect() };
            self.or.fail(&class, replay.clone(), format!("{op:?} under {lang}/{loc} ({}): {d:?}", cfg_class(lang, loc)));
        }
        // ---- tie: the rename pass. For every stored formula: tree before, (name, scope, new) -> tree after
        if is_name_op && lang == "en" && dot(loc) {
            let (old, new, scope) = match op { OpK::RenameToRcName => ("G_cell", "R9C9_g", -1), OpK::RenameRcName => ("R2C2_total", "R3C3.sum", -1), OpK::RenameCellName => ("G_cell", "Renamed1", -1), OpK::RenameRangeName => ("G_range", "Renamed2", -1), OpK::RenameLambda => ("tot", "total", -1),
                OpK::RenameLocal => ("L_cell", "Local2", 0), _ => ("G_cell", "Renamed9", -1) };
            let after: Vec<String> = um.get_model().parsed_formulas.iter().flat_map(|pf| pf.iter().map(|p| dump_s(&p.0, &self.fns))).collect();
            if after.len() == trees_before.len() {
                for ((_, before), aft) in trees_before.iter().zip(after.iter()) {
                    // the defined-name leaf carries the formula of the name, which the re-parse refreshes: compare modulo that field
                    // the capture: an identifier spelled like the new name is re-resolved by the re-parse, not by the pass
                    if before.contains(&format!("V {} ", wire(new))) { continue; }
                    let line = format!("R {} {} {} | {}", wire(old), scope, wire(new), before);
                    if self.seen.insert(line.clone()) {
                        self.cs.case(&line, &strip_defname_formula(aft));
                        if self.samples.len() < 10 { self.samples.push(format!("{old}->{new}: {before} => {aft}")); }
                    }
                }
            }
        }
    }
}

impl Run {
    /// the rename pass on random formulas that use the names (tie only)
    fn pool_tie(&mut self, rng: &mut Rng, k: u64) {
        let mut um = build(k);
        let g = fgen::FGen { sheets: vec!["Sheet1".into(), "Data".into()], names: vec!["G_cell".into(), "G_range".into(), "L_cell".into(), "g_cell".into(), "inc(G_cell)".into(), "tot(1)".into(), "G_CELL".into(), "R2C2_total".into(), "RC_n".into(), "A1_x".into()],
            max_row: 8, max_col: 4, long_numbers: false, errors: true, arrays: true, spills: true, upper_user_fn: false };
        // names are a third of the atoms: wrap the generator's formula around name atoms
        for i in 0..24 {
            let f = format!("{}+{}", g.formula(rng), rng.pick(&["G_cell", "SUM(G_range)", "L_cell", "IF(g_cell>1,G_cell,L_cell)", "LAMBDA(q,q+G_cell)(G_cell)"]));
            let _ = catch_unwind(AssertUnwindSafe(|| um.set_user_input(0, 10 + i, 7, &f)));
        }
        let (old, new, scope, fml) = *rng.pick(&[("G_cell", "Renamed1", -1, "Sheet1!$A$1"), ("G_range", "Renamed2", -1, "Data!$B$2:$B$4"), ("L_cell", "Local2", 0, "Sheet1!$C$3"),
            ("R2C2_total", "R3C3.sum", -1, "Sheet1!$B$2"), ("G_cell", "R9C9_g", -1, "Sheet1!$A$1"), ("RC_n", "A1_y", 0, "Sheet1!$A$2")]);
        let sc = if scope < 0 { None } else { Some(scope as u32) };
        let before: Vec<String> = um.get_model().parsed_formulas.iter().flat_map(|pf| pf.iter().map(|p| dump_s(&p.0, &self.fns))).collect();
        // trees the stored text does not bring back unchanged (C09 / C26 classes: associative pairs, lexer glue,
        // long literals, upper-case user functions, #N/IMPL) are changed by the re-parse, not by the pass
        let stable: Vec<bool> = um.get_model().parsed_formulas.iter().flat_map(|pf| pf.iter().map(|p| {
            let t = &p.0;
            treeutil::reassoc(t) == *t && treeutil::glue_class(t, true).is_none() && !treeutil::has_long_number(t)
                && !treeutil::contains(t, &|n| matches!(n, ironcalc_base::expressions::parser::Node::NamedFunctionKind { name, .. } if name.to_lowercase() != *name)
                    || matches!(n, ironcalc_base::expressions::parser::Node::ErrorKind(ironcalc_base::expressions::token::Error::NIMPL)) || matches!(n, ironcalc_base::expressions::parser::Node::ParseErrorKind { .. }))
        })).collect();
        if um.update_defined_name(old, sc, new, sc, fml).is_err() { return; }
        let after: Vec<String> = um.get_model().parsed_formulas.iter().flat_map(|pf| pf.iter().map(|p| dump_s(&p.0, &self.fns))).collect();
        if before.len() != after.len() { return; }
        *self.dist.entry("pool_tie".into()).or_insert(0) += 1;
        for ((b4, aft), ok) in before.iter().zip(after.iter()).zip(stable.iter()) {
            if !ok { continue; }
            let line = format!("R {} {} {} | {}", wire(old), scope, wire(new), b4);
            if self.seen.insert(line.clone()) { self.cs.case(&line, &strip_defname_formula(aft)); }
        }
    }
}


// ---------------------------------------------------------------------------------------------
// one update_defined_name over the full product {name kept, changed} x {scope kept, global->local,
// local->global, local->other local} x {formula kept, changed}
// ---------------------------------------------------------------------------------------------
const RS_SHEETS: [&str; 3] = ["Sheet1", "Data", "Aux"];
/// using cells: (sheet, row, text) in column H — on the name's own sheet and on others; `dup` exists globally AND locally on Sheet1
const RS_CELLS: [(u32, i32, &str); 12] = [
    (0, 1, "=rate2+1"), (0, 2, "=loc1+1"), (0, 3, "=RATE2*2"), (0, 4, "=dup+1"), (0, 5, "=SUM(rate2,loc1,dup)"), (0, 6, "=LET(v,rate2,v+loc1)"),
    (1, 1, "=rate2+1"), (1, 2, "=loc1+1"), (1, 3, "=dup+1"), (1, 4, "=dloc*2+rate2"), (2, 1, "=rate2&dup"), (2, 2, "=loc1"),
];
fn rs_names() -> Vec<(&'static str, Option<u32>, &'static str)> {
    vec![("rate2", None, "Sheet1!$A$1"), ("loc1", Some(0), "Sheet1!$A$2"), ("dup", None, "Sheet1!$B$1"), ("dup", Some(0), "Sheet1!$B$2"), ("dloc", Some(1), "Data!$A$1")]
}
fn rs_build(names: &[(String, Option<u32>, String)], cells: &[(u32, i32, String)]) -> Option<Model<'static>> {
    let mut m = Model::new_empty("rescope", "en", "UTC", "en").ok()?;
    m.new_sheet(); m.new_sheet();
    let _ = m.rename_sheet_by_index(1, "Data"); let _ = m.rename_sheet_by_index(2, "Aux");
    for r in 1..=3 { for c in 1..=2 { for sh in 0..3u32 { let _ = m.set_user_input(sh, r, c, format!("{}", (sh as i32 + 1) * 100 + r * 10 + c)); } } }
    for (n, sc, f) in names { m.new_defined_name(n, *sc, f).ok()?; }
    for (sh, r, t) in cells { let _ = m.set_user_input(*sh, *r, 8, t.clone()); }
    m.evaluate();
    Some(m)
}
fn rs_texts(m: &Model) -> Vec<String> {
    RS_CELLS.iter().map(|(sh, r, _)| {
        let ws = &m.workbook.worksheets[*sh as usize];
        ws.cell(*r, 8).and_then(|c| c.get_formula()).and_then(|f| ws.shared_formulas.get(f as usize).cloned()).unwrap_or_else(|| "<no formula>".into())
    }).collect()
}
fn rs_values(m: &Model) -> Vec<String> { RS_CELLS.iter().map(|(sh, r, _)| value(m, RS_SHEETS[*sh as usize], *r, 8)).collect() }

impl Run {
    fn rescope_product(&mut self) {
        use ironcalc_base::expressions::lexer::LexerMode;
        let _ = LexerMode::A1;
        let base_names: Vec<(String, Option<u32>, String)> = rs_names().into_iter().map(|(n, s, f)| (n.to_string(), s, f.to_string())).collect();
        let base_cells: Vec<(u32, i32, String)> = RS_CELLS.iter().map(|(s, r, t)| (*s, *r, t.to_string())).collect();
        let (en_g, en_l) = (get_language("en").unwrap(), get_locale("en").unwrap());
        // the name operated on: a global one, a local one, the global and the local of a shadowing pair
        for (target, tscope) in [("rate2", None), ("loc1", Some(0u32)), ("dup", None), ("dup", Some(0u32)), ("dloc", Some(1u32))] {
            for new_name in [target, "tax", "TAX_2"] {
                for new_scope in [None, Some(0u32), Some(1u32), Some(2u32)] {
                    for new_formula in ["<same>", "Aux!$A$3"] {
                        *self.dist.entry("rescope_product".into()).or_insert(0) += 1;
                        let mut m = match rs_build(&base_names, &base_cells) { Some(m) => m, None => continue };
                        let old_formula = base_names.iter().find(|(n, s, _)| n == target && *s == tscope).unwrap().2.clone();
                        let fml = if new_formula == "<same>" { old_formula.clone() } else { new_formula.to_string() };
                        let replay = json!({"name": target, "scope": tscope, "new_name": new_name, "new_scope": new_scope, "new_formula": fml});
                        let before_texts = rs_texts(&m);
                        let before_trees: Vec<Option<ironcalc_base::expressions::parser::Node>> = RS_CELLS.iter().map(|(sh, r, _)| {
                            let ws = &m.workbook.worksheets[*sh as usize];
                            ws.cell(*r, 8).and_then(|c| c.get_formula()).map(|f| m.parsed_formulas[*sh as usize][f as usize].0.clone()) }).collect();
                        let env_before = m.workbook.get_defined_names_with_scope();
                        let res = catch_unwind(AssertUnwindSafe(|| m.update_defined_name(target, tscope, new_name, new_scope, &fml)));
                        let res = match res { Ok(r) => r, Err(_) => { self.or.fail("operation_panics", replay, "update_defined_name panics".into()); continue; } };
                        if res.is_err() { continue; }          // the new (name, scope) exists already
                        m.evaluate();
                        let after_texts = rs_texts(&m);
                        // ---- expectation, from the trees before: a formula is rewritten where it resolved to the OLD (name, scope), iff the name changes
                        let name_changed = new_name != target;
                        let mut exp_cells: Vec<(u32, i32, String)> = vec![];
                        let mut ok_texts = true;
                        for (i, (sh, r, typed)) in RS_CELLS.iter().enumerate() {
                            let uses_old = before_trees[i].as_ref().map(|t| treeutil::contains(t, &|n| matches!(n, ironcalc_base::expressions::parser::Node::DefinedNameKind((nm, sc, _)) if nm.to_lowercase() == target.to_lowercase() && *sc == tscope))).unwrap_or(false);
                            // the typed text with the old name replaced where this cell resolved to the old (name, scope)
                            let exp_typed = if name_changed && uses_old { replace_ident(typed, target, new_name) } else { typed.to_string() };
                            exp_cells.push((*sh, *r, exp_typed.clone()));
                            let rewritten = after_texts[i] != before_texts[i];
                            self.or.checked += 1;
                            if rewritten != (name_changed && uses_old) { ok_texts = false; }
                            // tie: the model's update on the stored text before = the stored text after
                            let line = format!("S {} {} {} {} {} 3 {} {} {} {} {} | {}", wire(target), tscope.map(|x| x as i64).unwrap_or(-1), wire(new_name), new_scope.map(|x| x as i64).unwrap_or(-1),
                                wire(RS_SHEETS[*sh as usize]), wire("Sheet1"), wire("Data"), wire("Aux"), env_before.len(),
                                env_before.iter().map(|(n, s, f)| format!("{} {} {}", wire(n), s.map(|x| x as i64).unwrap_or(-1), wire(f))).collect::<Vec<_>>().join(" "),
                                tokens(&before_texts[i], true, en_l, en_g).join(" "));
                            if self.seen.insert(line.clone()) { self.cs.case(&line, &tokens(&after_texts[i], true, en_l, en_g).join(" ")); }
                        }
                        if !ok_texts {
                            let d: Vec<String> = RS_CELLS.iter().enumerate().filter(|(i, _)| after_texts[*i] != before_texts[*i]).map(|(i, c)| format!("{}!H{} {:?} -> {:?}", RS_SHEETS[c.0 as usize], c.1, before_texts[i], after_texts[i])).collect();
                            self.or.fail("rescope_rewrites_wrong_formulas", replay.clone(), format!("update_defined_name({target}@{tscope:?} -> {new_name}@{new_scope:?}): rewritten formulas {d:?}; expected exactly those that resolved to the old (name, scope){}", if name_changed { "" } else { " — none, the name is kept" }));
                            continue;
                        }
                        // ---- the workbook after the update = the workbook built directly in the end state (names, texts, values)
                        let end_names: Vec<(String, Option<u32>, String)> = base_names.iter().map(|(n, s, f)| if n == target && *s == tscope { (new_name.to_string(), new_scope, fml.clone()) } else { (n.clone(), *s, f.clone()) }).collect();
                        if let Some(direct) = rs_build(&end_names, &exp_cells) {
                            self.or.checked += 2;
                            let mut a = names_view(&m); let mut b2 = names_view(&direct); a.sort(); b2.sort();
                            if a != b2 { self.or.fail("rescope_names_differ", replay.clone(), format!("names after the update {a:?}, expected {b2:?}")); continue; }
                            let (va, vb) = (rs_values(&m), rs_values(&direct));
                            if va != vb {
                                let d: Vec<String> = RS_CELLS.iter().enumerate().filter(|(i, _)| va[*i] != vb[*i]).take(3).map(|(i, c)| format!("{}!H{} {}: {} vs built directly {}", RS_SHEETS[c.0 as usize], c.1, after_texts[i], va[i], vb[i])).collect();
                                self.or.fail("rescope_values_differ_from_direct_build", replay.clone(), format!("{d:?}"));
                            }
                        }
                    }
                }
            }
        }
    }
}
/// replaces the identifier `old` (whole word, any case) by `new`
fn replace_ident(text: &str, old: &str, new: &str) -> String {
    let (lt, lo) = (text.to_lowercase(), old.to_lowercase());
    let mut out = String::new();
    let mut i = 0;
    let bytes = lt.as_bytes();
    let is_id = |c: u8| c.is_ascii_alphanumeric() || c == b'_' || c == b'.';
    while i < text.len() {
        if lt[i..].starts_with(&lo) && (i == 0 || !is_id(bytes[i - 1])) && (i + lo.len() >= text.len() || !is_id(bytes[i + lo.len()])) {
            out.push_str(new); i += lo.len();
        } else { out.push(text.as_bytes()[i] as char); i += 1; }
    }
    out
}

/// the dump of a DefinedNameKind is "D <name> <scope> <formula>": blank the formula field
fn strip_defname_formula(d: &str) -> String {
    let t: Vec<&str> = d.split(' ').collect();
    let mut out: Vec<String> = vec![];
    let mut i = 0;
    while i < t.len() {
        if t[i] == "D" && i + 3 < t.len() {
            out.push("D".into()); out.push(t[i + 1].into()); out.push(t[i + 2].into()); out.push("-".into());
            i += 4;
            continue;
        }
        out.push(t[i].to_string());
        i += 1;
    }
    out.join(" ")
}

fn probe(args: &[String]) {
    // probe <lang> <locale> <op index> <variant>
    let li = LANGS.iter().position(|l| *l == args[0]).unwrap();
    let ci = LOCALES.iter().position(|l| *l == args[1]).unwrap();
    let op = OPS[args[2].parse::<usize>().unwrap()];
    let mut um = build(args[3].parse().unwrap());
    println!("before: {:#?}\n{:#?}", names_view(um.get_model()), values_view(um.get_model(), &["Sheet1".into(), "Data".into()]));
    let _ = um.set_language(LANGS[li]);
    let _ = um.set_locale(LOCALES[ci]);
    println!("shown: {:?}", um.get_defined_name_list());
    println!("{op:?} = {:?}", apply(&mut um, op));
    um.evaluate();
    println!("after: {:#?}\n{:#?}", names_view(um.get_model()), values_view(um.get_model(), &["Sheet1".into(), if op == OpK::RenameMentioned { "Datos".into() } else { "Data".into() }]));
}

fn main() {
    let raw: Vec<String> = std::env::args().collect();
    if raw.len() >= 2 && raw[1] == "probe" { probe(&raw[2..]); return; }
    let a = Args::parse();
    let mut run = Run { cs: Cases::new(&a.out, "c32"), or: Oracle::default(), fns: Fns::new(), dist: BTreeMap::new(), samples: vec![], distinct: HashSet::new(), seen: HashSet::new() };
    let mut rng = Rng::new(a.seed);
    let _ = get_language("en");
    // all 30 configurations x all 13 operations; the workbook variant rotates (quick) / all 6 (thorough)
    for li in 0..5 { for ci in 0..6 { for (k, op) in OPS.iter().enumerate() {
        if a.thorough { for variant in 0..6 { run.scenario(li, ci, *op, variant); } }
        else { let variant = (rng.below(6) + (li + ci + k) as u64) % 6; run.scenario(li, ci, *op, variant); }
    } } }
    for k in 0..(if a.thorough { 400 } else { 30 }) { run.pool_tie(&mut rng, k); }
    run.rescope_product();
    let Run { cs, or, dist, samples, distinct, .. } = run;
    cs.finish(json!({
        "oracle_checked": or.checked, "oracle_failures": or.failures, "oracle_failures_per_class": or.per_class,
        "distinct_nontrivial": distinct.len(), "distribution": dist, "samples": samples,
    }));
}
