//! C21 — date serial numbers <-> calendar dates: implementation side of the correspondence and
//! the property oracle.
//!
//! Layers observed on /repo's code:
//!   direct : from_excel_date, date_to_serial_number, format_number(n, "yyyy-mm-dd")
//!   model  : YEAR / MONTH / DAY / WEEKDAY (13 forms) / DATE and typed ISO text through a real
//!            ironcalc_base::Model (set_user_input + evaluate), thousands of cells per workbook
//!
//! Case lines (input -> observation):
//!   s n            -> "y m d ts text" | "err <fmt>"          one serial, direct layer
//!   rs a b         -> hash of the direct tuples of a..=b        (exhaustive: 1..=2958465)
//!   f n            -> the 19 integers of the model layer for serial n
//!   rf a b         -> hash of the model-layer tuples of a..=b   (thorough: every serial)
//!   d y m d        -> num n | errnum | errvalue | panic         DATE(y, m, d), any i32 arguments (panic: never, since 4f81daf)
//!   ts y m d       -> ok n | err                                date_to_serial_number, no range check
//!   iso <wire>     -> num n | other                             text typed into a cell
//! A hash line stands for all its serials; when the runner's hash differs, lib/c21.py calls this
//! binary again in `expand` mode to get the per-serial lines of that range and locate the serial.
//!
//! Test hook: env VH_C21_FAULT=<serial> perturbs the implementation's observation of that one
//! serial (day + 1 / YEAR + 1) to demonstrate that a single wrong date is detected and located.
use chrono::{Datelike, NaiveDate};
use ironcalc_base::cell::CellValue;
use ironcalc_base::formatter::dates::{date_to_serial_number, from_excel_date};
use ironcalc_base::formatter::format::format_number;
use ironcalc_base::locale::{get_locale, Locale};
use ironcalc_base::Model;
use serde_json::json;
use std::panic::{catch_unwind, AssertUnwindSafe};
use vh_common::*;

const MIN: i64 = 1;
const MAX: i64 = 2_958_465;
const MASK: u64 = (1u64 << 62) - 1;
const WTYPES: [i64; 12] = [1, 2, 3, 11, 12, 13, 14, 15, 16, 17, 0, 4];
const RANGE: i64 = 1024;
const BATCH: usize = 2000;
const TERM: i64 = 0x7fff;

fn hstep(h: u64, v: i64) -> u64 {
    h.wrapping_mul(1_000_003).wrapping_add(v as u64).wrapping_add(7) & MASK
}
fn hash_tuples<'a, I: Iterator<Item = &'a Vec<i64>>>(it: I) -> u64 {
    let mut h = 0u64;
    for t in it {
        for &v in t {
            h = hstep(h, v);
        }
        h = hstep(h, TERM);
    }
    h
}

// ---- direct layer -------------------------------------------------------------------------

/// [y, m, d, ts, text code points...] or [-1, fmt...] (fmt = -1 when format_number reports an error)
fn direct_tuple(n: i64, locale: &Locale, fault: Option<i64>) -> Vec<i64> {
    let f = format_number(n as f64, "yyyy-mm-dd", locale);
    let mut t = vec![];
    match from_excel_date(n) {
        Ok(date) => {
            let (y, m, mut d) = (date.year(), date.month(), date.day());
            if fault == Some(n) {
                d += 1;
            }
            t.extend([y as i64, m as i64, d as i64]);
            t.push(match date_to_serial_number(d, m, y) {
                Ok(s) => s as i64,
                Err(_) => -1,
            });
        }
        Err(_) => t.push(-1),
    }
    if f.error.is_some() {
        t.push(-1);
    } else {
        t.extend(f.text.chars().map(|c| c as i64));
    }
    t
}
fn direct_line(t: &[i64]) -> String {
    let txt = |v: &[i64]| -> String {
        if v == [-1] {
            "err".to_string()
        } else if v.is_empty() {
            "-".to_string()
        } else {
            v.iter().map(|x| x.to_string()).collect::<Vec<_>>().join(".")
        }
    };
    if t[0] == -1 {
        format!("err {}", txt(&t[1..]))
    } else {
        let ts = if t[3] < 0 { "err".to_string() } else { t[3].to_string() };
        format!("{} {} {} {} {}", t[0], t[1], t[2], ts, txt(&t[4..]))
    }
}

// ---- model layer --------------------------------------------------------------------------

fn cell_code(v: Result<CellValue, String>) -> i64 {
    match v {
        Ok(CellValue::Number(f)) => {
            if f.fract() == 0.0 && f.abs() < 1e15 { f as i64 } else { -8 }
        }
        Ok(CellValue::String(s)) => match s.as_str() {
            "#NUM!" => -1,
            "#VALUE!" => -2,
            _ => -7,
        },
        Ok(CellValue::None) => -6,
        Ok(CellValue::Boolean(_)) => -5,
        Err(_) => -9,
    }
}

/// the 19 integers of one serial: YEAR MONTH DAY WEEKDAY(n) WEEKDAY(n,t)x12 DATE(Y,M,D) TYPED
/// (DATE and TYPED are 0 for serials outside the supported range); [-3; 19] if evaluation panicked
fn func_batch(serials: &[i64], locale: &Locale, fault: Option<i64>) -> Vec<Vec<i64>> {
    let res = catch_unwind(AssertUnwindSafe(|| {
        let mut model = Model::new_empty("c21", "en", "UTC", "en").unwrap();
        for (i, &n) in serials.iter().enumerate() {
            let r = i as i32 + 1;
            let inr = (MIN..=MAX).contains(&n);
            model.set_user_input(0, r, 1, format!("{n}")).unwrap();
            model.set_user_input(0, r, 2, format!("=YEAR(A{r})")).unwrap();
            model.set_user_input(0, r, 3, format!("=MONTH(A{r})")).unwrap();
            model.set_user_input(0, r, 4, format!("=DAY(A{r})")).unwrap();
            model.set_user_input(0, r, 5, format!("=WEEKDAY(A{r})")).unwrap();
            for (k, t) in WTYPES.iter().enumerate() {
                model.set_user_input(0, r, 6 + k as i32, format!("=WEEKDAY(A{r},{t})")).unwrap();
            }
            if inr {
                model.set_user_input(0, r, 18, format!("=DATE(B{r},C{r},D{r})")).unwrap();
                let text = format_number(n as f64, "yyyy-mm-dd", locale).text;
                model.set_user_input(0, r, 19, text).unwrap();
            }
        }
        model.evaluate();
        let mut out = Vec::with_capacity(serials.len());
        for (i, &n) in serials.iter().enumerate() {
            let r = i as i32 + 1;
            let inr = (MIN..=MAX).contains(&n);
            let mut t: Vec<i64> = (2..=17).map(|c| cell_code(model.get_cell_value_by_index(0, r, c))).collect();
            if inr {
                t.push(cell_code(model.get_cell_value_by_index(0, r, 18)));
                t.push(cell_code(model.get_cell_value_by_index(0, r, 19)));
            } else {
                t.extend([0, 0]);
            }
            if fault == Some(n) {
                t[0] += 1;
            }
            out.push(t);
        }
        out
    }));
    res.unwrap_or_else(|_| serials.iter().map(|_| vec![-3; 19]).collect())
}

fn func_tuples(serials: &[i64], fault: Option<i64>) -> Vec<Vec<i64>> {
    let nthreads = std::thread::available_parallelism().map(|n| n.get()).unwrap_or(4).clamp(1, 12);
    let chunks: Vec<&[i64]> = serials.chunks(BATCH).collect();
    let mut results: Vec<Vec<Vec<i64>>> = vec![vec![]; chunks.len()];
    let next = std::sync::atomic::AtomicUsize::new(0);
    let slots: Vec<std::sync::Mutex<Vec<Vec<i64>>>> = chunks.iter().map(|_| std::sync::Mutex::new(vec![])).collect();
    std::thread::scope(|sc| {
        for _ in 0..nthreads {
            sc.spawn(|| {
                let locale = get_locale("en").unwrap();
                loop {
                    let i = next.fetch_add(1, std::sync::atomic::Ordering::SeqCst);
                    if i >= chunks.len() {
                        break;
                    }
                    let r = func_batch(chunks[i], locale, fault);
                    *slots[i].lock().unwrap() = r;
                }
            });
        }
    });
    for (i, s) in slots.into_iter().enumerate() {
        results[i] = s.into_inner().unwrap();
    }
    results.into_iter().flatten().collect()
}
fn ints_line(t: &[i64]) -> String {
    t.iter().map(|x| x.to_string()).collect::<Vec<_>>().join(" ")
}

/// one DATE(y, m, d) call in its own workbook (a panic is an observation)
fn date_call(y: i64, m: i64, d: i64) -> String {
    let r = catch_unwind(AssertUnwindSafe(|| {
        let mut model = Model::new_empty("c21", "en", "UTC", "en").unwrap();
        model.set_user_input(0, 1, 1, format!("=DATE({y},{m},{d})")).unwrap();
        model.evaluate();
        cell_code(model.get_cell_value_by_index(0, 1, 1))
    }));
    match r {
        Ok(-1) => "errnum".to_string(),
        Ok(-2) => "errvalue".to_string(),
        Ok(v) if v >= 0 => format!("num {v}"),
        Ok(v) => format!("other {v}"),
        Err(_) => "panic".to_string(),
    }
}
fn date_batch(args: &[(i64, i64, i64)]) -> Vec<String> {
    let r = catch_unwind(AssertUnwindSafe(|| {
        let mut model = Model::new_empty("c21", "en", "UTC", "en").unwrap();
        for (i, (y, m, d)) in args.iter().enumerate() {
            model.set_user_input(0, i as i32 + 1, 1, format!("=DATE({y},{m},{d})")).unwrap();
        }
        model.evaluate();
        (0..args.len()).map(|i| cell_code(model.get_cell_value_by_index(0, i as i32 + 1, 1))).collect::<Vec<i64>>()
    }));
    match r {
        Ok(v) => v
            .into_iter()
            .map(|c| match c {
                -1 => "errnum".to_string(),
                -2 => "errvalue".to_string(),
                v if v >= 0 => format!("num {v}"),
                v => format!("other {v}"),
            })
            .collect(),
        Err(_) => args.iter().map(|_| "batchpanic".to_string()).collect(),
    }
}
/// arguments for which chrono leaves its own year range (checked_add_* -> None -> #NUM!); each runs in its own workbook
fn astronomic(m: i64, d: i64) -> bool {
    m.abs() > 3_000_000 || d.abs() > 90_000_000
}

fn typed(texts: &[String]) -> Vec<String> {
    let mut out = vec![];
    for chunk in texts.chunks(BATCH) {
        let mut model = Model::new_empty("c21", "en", "UTC", "en").unwrap();
        for (i, t) in chunk.iter().enumerate() {
            model.set_user_input(0, i as i32 + 1, 1, t.clone()).unwrap();
        }
        model.evaluate();
        for i in 0..chunk.len() {
            let v = model.get_cell_value_by_index(0, i as i32 + 1, 1);
            let fmt = model.get_style_for_cell(0, i as i32 + 1, 1).map(|s| s.num_fmt).unwrap_or_default();
            out.push(match v {
                Ok(CellValue::Number(f)) if f.fract() == 0.0 && fmt.starts_with("yyyy") => format!("num {}", f as i64),
                _ => "other".to_string(),
            });
        }
    }
    out
}

// ---- the selection of serials for the model layer in quick --------------------------------------

fn selected_serials() -> Vec<i64> {
    let mut v: Vec<i64> = vec![];
    v.extend((MIN..=MAX).step_by(97));
    v.extend(MIN..=800);
    v.extend(MAX - 400..=MAX);
    for y in 1900..=9999 {
        for m in 1..=12u32 {
            let first = NaiveDate::from_ymd_opt(y, m, 1).unwrap().num_days_from_ce() as i64 - 693_594;
            v.extend([first - 1, first]);
        }
        let feb28 = NaiveDate::from_ymd_opt(y, 2, 28).unwrap().num_days_from_ce() as i64 - 693_594;
        v.extend([feb28 - 1, feb28, feb28 + 1, feb28 + 2]);
    }
    v.retain(|n| (MIN..=MAX).contains(n));
    v.sort();
    v.dedup();
    v
}

fn main() {
    let a = Args::parse();
    let locale = get_locale("en").unwrap();
    let fault: Option<i64> = std::env::var("VH_C21_FAULT").ok().and_then(|s| s.parse().ok());

    // ---- expand mode: vh_c21 <seed> <tier> <out> expand (rs|rf) a b [...] -> cases/c21x.* ------
    if a.extra.first().map(|s| s.as_str()) == Some("expand") {
        let mut cs = Cases::new(&a.out, "c21x");
        let mut i = 1;
        while i + 2 < a.extra.len() {
            let (kind, lo, hi) = (a.extra[i].as_str(), a.extra[i + 1].parse::<i64>().unwrap(), a.extra[i + 2].parse::<i64>().unwrap());
            let serials: Vec<i64> = (lo..=hi).collect();
            if kind == "rs" {
                for &n in &serials {
                    cs.case(&format!("s {n}"), &direct_line(&direct_tuple(n, locale, fault)));
                }
            } else {
                for (n, t) in serials.iter().zip(func_tuples(&serials, fault)) {
                    cs.case(&format!("f {n}"), &ints_line(&t));
                }
            }
            i += 3;
        }
        cs.finish(json!({"mode": "expand"}));
        return;
    }

    // ---- probe mode: vh_c21 <seed> <tier> <out> probe <input>... : type each input into a cell, print it
    if a.extra.first().map(|s| s.as_str()) == Some("probe") {
        for inp in &a.extra[1..] {
            let r = catch_unwind(AssertUnwindSafe(|| {
                let mut model = Model::new_empty("c21", "en", "UTC", "en").unwrap();
                model.set_user_input(0, 1, 1, inp.clone()).unwrap();
                model.evaluate();
                format!("{:?} shown as {:?} (format {:?})", model.get_cell_value_by_index(0, 1, 1), model.get_formatted_cell_value(0, 1, 1),
                    model.get_style_for_cell(0, 1, 1).map(|s| s.num_fmt))
            }));
            println!("{inp}  ->  {}", r.unwrap_or_else(|_| "PANIC in Model::evaluate".to_string()));
        }
        return;
    }

    let mut rng = Rng::new(a.seed);
    let mut cs = Cases::new(&a.out, "c21");
    let mut or = Oracle::default();
    let mut dist: std::collections::BTreeMap<&str, u64> = Default::default();
    let mut samples: Vec<String> = vec![];

    // ---- direct layer: every serial of the range, hashed per 1024, plus the oracle ---------------
    let mut prev: Option<NaiveDate> = None;
    let mut lo = MIN;
    while lo <= MAX {
        let hi = (lo + RANGE - 1).min(MAX);
        let mut tuples = Vec::with_capacity(RANGE as usize);
        for n in lo..=hi {
            let t = direct_tuple(n, locale, fault);
            // oracle: serial -> date -> serial; next serial = next day; text = the date
            or.checked += 1;
            match from_excel_date(n) {
                Ok(date) => {
                    if t[3] != n {
                        or.fail("serial_roundtrip", json!({"serial": n}), format!("from_excel_date({n}) = {date}, date_to_serial_number gives {}", t[3]));
                    }
                    if let Some(p) = prev {
                        if p.succ_opt() != Some(date) {
                            or.fail("successor", json!({"serial": n}), format!("serial {} is {p} but serial {n} is {date}", n - 1));
                        }
                    }
                    let want = format!("{:04}-{:02}-{:02}", date.year(), date.month(), date.day());
                    let got: String = t[4..].iter().filter_map(|&c| char::from_u32(c as u32)).collect();
                    if got != want && fault != Some(n) {
                        or.fail("format_iso", json!({"serial": n}), format!("format_number({n}, yyyy-mm-dd) = {got:?}, date is {want}"));
                    }
                    prev = Some(date);
                }
                Err(_) => or.fail("in_range_rejected", json!({"serial": n}), format!("from_excel_date({n}) is an error inside the supported range")),
            }
            tuples.push(t);
        }
        cs.case(&format!("rs {lo} {hi}"), &format!("{}", hash_tuples(tuples.iter())));
        lo = hi + 1;
    }
    dist.insert("direct_serials_hashed", (MAX - MIN + 1) as u64);
    // per-serial lines: range ends, the early-1900 region, out-of-range serials
    let mut singles: Vec<i64> = vec![-2_958_465, -693_594, -1, 0, 1, 2, 59, 60, 61, 62, 366, 367, 368, 36_526, 2_958_464, 2_958_465, 2_958_466, 2_958_467, 3_000_000, i32::MAX as i64, i32::MIN as i64, 1i64 << 53, -(1i64 << 53)];
    singles.extend(MIN..=130);
    for _ in 0..2000 {
        singles.push(rng.range(MIN, MAX));
    }
    for _ in 0..300 {
        singles.push(rng.range(-5_000_000, 0));
        singles.push(rng.range(MAX + 1, 10_000_000));
    }
    for &n in &singles {
        // (format_number takes an f64: every n here is exactly representable)
        cs.case(&format!("s {n}"), &direct_line(&direct_tuple(n, locale, fault)));
        *dist.entry("direct_single_lines").or_insert(0) += 1;
    }
    for n in [1i64, 60, 61, 45_000, MAX] {
        samples.push(format!("s {n} -> {}", direct_line(&direct_tuple(n, locale, None))));
    }

    // ---- model layer ---------------------------------------------------------------------------------
    let check_func = |or: &mut Oracle, n: i64, t: &[i64], prevt: Option<&Vec<i64>>| {
        or.checked += 1;
        if t[0] == -3 {
            or.fail("evaluate_panic", json!({"serial": n}), "Model::evaluate panicked on a date formula batch".to_string());
            return;
        }
        if let Ok(date) = from_excel_date(n) {
            if fault != Some(n) && (t[0], t[1], t[2]) != (date.year() as i64, date.month() as i64, date.day() as i64) {
                or.fail("fn_parts", json!({"serial": n}), format!("YEAR/MONTH/DAY({n}) = {}-{}-{}, from_excel_date = {date}", t[0], t[1], t[2]));
            }
            let w1 = t[3];
            let rel = t[4] == w1 && t[5] == (w1 + 5) % 7 + 1 && t[6] == t[5] - 1 && t[7] == t[5] && t[13] == w1
                && (0..7).all(|k| t[7 + k as usize] == (t[5] - 1 + 7 - k) % 7 + 1)
                && t[14] == -2 && t[15] == -1 && (1..=7).contains(&w1);
            if !rel {
                or.fail("weekday_types", json!({"serial": n}), format!("WEEKDAY({n}, types) = {:?}", &t[3..16]));
            }
            if let Some(p) = prevt {
                if p[3] % 7 + 1 != w1 {
                    or.fail("weekday_successor", json!({"serial": n}), format!("WEEKDAY({}) = {}, WEEKDAY({n}) = {w1}", n - 1, p[3]));
                }
            }
            if t[16] != n {
                or.fail("fn_date_roundtrip", json!({"serial": n}), format!("DATE(YEAR,MONTH,DAY of {n}) = {}", t[16]));
            }
            if t[17] != n {
                or.fail("format_type_roundtrip", json!({"serial": n}), format!("yyyy-mm-dd text of {n} typed into a cell gives {}", t[17]));
            }
        }
    };
    if a.thorough {
        // every serial, hashed per 1024; evaluated in slabs of 200 ranges to bound memory
        let mut last: Option<Vec<i64>> = None;
        let mut slab_lo = MIN;
        while slab_lo <= MAX {
            let slab_hi = (slab_lo + 200 * RANGE - 1).min(MAX);
            let serials: Vec<i64> = (slab_lo..=slab_hi).collect();
            let tuples = func_tuples(&serials, fault);
            let mut lo = slab_lo;
            while lo <= slab_hi {
                let hi = (lo + RANGE - 1).min(slab_hi);
                let sl = &tuples[(lo - slab_lo) as usize..=(hi - slab_lo) as usize];
                for (k, t) in sl.iter().enumerate() {
                    let n = lo + k as i64;
                    let prevt = if n > slab_lo { Some(&tuples[(n - slab_lo - 1) as usize]) } else { last.as_ref() };
                    check_func(&mut or, n, t, prevt);
                }
                cs.case(&format!("rf {lo} {hi}"), &format!("{}", hash_tuples(sl.iter())));
                lo = hi + 1;
            }
            last = tuples.last().cloned();
            slab_lo = slab_hi + 1;
        }
        dist.insert("model_layer_serials_hashed", (MAX - MIN + 1) as u64);
    }
    let mut sel = if a.thorough { (MIN..=MAX).step_by(9973).collect::<Vec<i64>>() } else { selected_serials() };
    sel.extend([-1, 0, MAX + 1, MAX + 2, -40_000, 5_000_000]);
    let tuples = func_tuples(&sel, fault);
    for (k, (n, t)) in sel.iter().zip(tuples.iter()).enumerate() {
        let prevt = if k > 0 && sel[k - 1] == n - 1 { Some(&tuples[k - 1]) } else { None };
        check_func(&mut or, *n, t, prevt);
        cs.case(&format!("f {n}"), &ints_line(t));
    }
    dist.insert("model_layer_single_lines", sel.len() as u64);
    samples.push(format!("f 45000 -> {}", ints_line(&func_tuples(&[45_000], None)[0])));
    samples.push(format!("f 0 -> {}", ints_line(&func_tuples(&[0], None)[0])));

    // ---- DATE(y, m, d): normalisation of months and days, error cases, aborts --------------------------
    let mut dargs: Vec<(i64, i64, i64)> = vec![
        (2024, 14, -3), (2024, 2, 30), (2023, 2, 29), (1900, 1, 0), (1900, 1, -1), (1900, 1, 1), (1900, 0, 31), (1900, 0, 32),
        (1899, 12, 31), (1899, 12, 30), (1899, 12, 32), (1899, 13, 1), (1899, 1, 1), (1898, 25, 1), (0, 22_801, 1), (0, 1, 1),
        (-1, 1, 1), (-1, 22_813, 1), (9999, 12, 31), (9999, 12, 32), (9999, 13, 1), (9999, 13, 0), (10_000, 0, 31), (10_000, 1, 0),
        (10_000, -11, 1), (9999, 1, 366), (2002, 42, 42), (2000, 49, 256), (2004, 1, 256), (1900, 2, 29), (1900, 3, 0), (2000, 2, 29),
        (2100, 2, 29), (262_142, 1, 1), (262_143, 1, 1), (300_000, 1, 1), (2_000_000_000, 1, 1), (1900, 97_200, 1), (1900, 97_201, 1),
        (9999, -97_187, 1), (9999, -97_188, 1), (5000, 1, 1_811_000), (5000, 1, 1_812_000), (5000, 1, -1_133_000), (5000, 1, -1_132_000),
        (1900, 1, 2_958_464), (1900, 1, 2_958_465), (9999, 12, -2_958_433), (9999, 12, -2_958_434),
        (2000, 3_000_000, 1), (2000, -3_000_000, 1), (2000, 1, 90_000_000), (2000, 1, -90_000_000),
    ];
    let astro: Vec<(i64, i64, i64)> = vec![
        (2000, 4_000_000, 1), (2000, 1, 100_000_000), (1900, -4_000_000, 1), (9999, 12, -100_000_000),
        (2000, 3_122_000, 1), (2000, 3_121_000, 1), (2000, -3_170_000, 1), (2000, -3_169_000, 1),
        (2000, i32::MAX as i64, 1), (2000, i32::MIN as i64 + 1, 1), (2000, 1, i32::MAX as i64), (2000, 1, i32::MIN as i64 + 1),
        (2000, i32::MIN as i64, 1), (2000, 1, i32::MIN as i64), (2000, i32::MIN as i64, i32::MIN as i64), (9999, i32::MAX as i64, i32::MAX as i64),
        (2000, 1, 95_000_000), (2000, 1, 95_100_000), (2000, 1, -96_400_000), (2000, 1, -96_500_000),
        (1899, 4_000_000, 1), (10_000, 4_000_000, 1), (-5, 4_000_000, 1),
    ];
    let nd = if a.thorough { 200_000 } else { 20_000 };
    for i in 0..nd {
        let y = match i % 5 { 0 => rng.range(1890, 1910), 1 => rng.range(9990, 10_005), 2 => rng.range(-5, 12_000), _ => rng.range(1900, 9999) };
        let m = match i % 3 { 0 => rng.range(1, 12), 1 => rng.range(-40, 60), _ => rng.range(-120_000, 120_000) };
        let d = match i % 4 { 0 => rng.range(1, 31), 1 => rng.range(-40, 400), 2 => rng.range(-3_100_000, 3_100_000), _ => rng.range(28, 32) };
        dargs.push((y, m, d));
    }
    for chunk in dargs.chunks(BATCH) {
        for ((y, m, d), obs) in chunk.iter().zip(date_batch(chunk)) {
            cs.case(&format!("d {y} {m} {d}"), &obs);
            or.checked += 1;
            if obs.contains("panic") {
                or.fail("date_fn_panic", json!({"formula": format!("=DATE({y},{m},{d})")}), "DATE aborted on ordinary arguments".to_string());
            }
        }
    }
    for &(y, m, d) in &astro {
        let obs = date_call(y, m, d);
        cs.case(&format!("d {y} {m} {d}"), &obs);
        or.checked += 1;
        if obs == "panic" {
            // repaired in /repo commit 4f81daf (checked_add_months/days): an abort is an ordinary violation
            or.fail("date_fn_panic", json!({"formula": format!("=DATE({y},{m},{d})")}), format!("Model::evaluate panics on =DATE({y},{m},{d}) (astronomic argument: {})", astronomic(m, d)));
        }
    }
    dist.insert("date_calls", (dargs.len() + astro.len()) as u64);
    samples.push(format!("d 2024 14 -3 -> {}", date_call(2024, 14, -3)));

    // ---- date_to_serial_number directly: invalid dates, years outside the range -----------------------
    let mut tsargs: Vec<(i64, i64, i64)> = vec![
        (1900, 2, 29), (1900, 2, 28), (2000, 2, 29), (2000, 2, 30), (2023, 2, 29), (2024, 2, 29), (2024, 4, 31), (2024, 13, 1), (2024, 0, 1),
        (2024, 1, 0), (2024, 1, 32), (1899, 12, 30), (1899, 12, 31), (1800, 1, 1), (1, 1, 1), (0, 12, 31), (0, 2, 29), (-1, 1, 1), (-400, 2, 29),
        (10_000, 1, 1), (262_142, 12, 31), (262_143, 1, 1), (-262_143, 1, 1), (-262_144, 12, 31), (9999, 12, 31), (100, 2, 29), (400, 2, 29),
    ];
    let nts = if a.thorough { 300_000 } else { 40_000 };
    for i in 0..nts {
        let y = match i % 4 { 0 => rng.range(-262_200, 262_200), 1 => rng.range(-500, 2500), _ => rng.range(1890, 10_010) };
        let m = if i % 7 == 0 { rng.range(0, 14) } else { rng.range(1, 12) };
        let d = if i % 3 == 0 { rng.range(0, 33) } else { rng.range(27, 31) };
        tsargs.push((y, m, d));
    }
    for &(y, m, d) in &tsargs {
        let obs = match date_to_serial_number(d as u32, m as u32, y as i32) {
            Ok(n) => format!("ok {n}"),
            Err(_) => "err".to_string(),
        };
        cs.case(&format!("ts {y} {m} {d}"), &obs);
    }
    dist.insert("date_to_serial_calls", tsargs.len() as u64);

    // ---- typed ISO text ---------------------------------------------------------------------------------
    let mut texts: Vec<String> = ["1899-12-31", "1899-12-30", "1900-01-01", "1900-02-28", "1900-02-29", "1900-03-01", "9999-12-31", "2024-02-29",
        "2023-02-29", "2024-2-9", "2024-02-9", "2024-2-09", "2024-13-01", "2024-00-10", "2024-01-00", "2024-01-32", "2024-001-01", "2024-01-001",
        "1800-01-01", "1000-01-01", "0999-12-31", "0100-01-01", "0099-01-01", "0030-06-15", "0029-06-15", "0000-01-01", "2024-04-31", "2024-12-31"]
        .iter().map(|s| s.to_string()).collect();
    let nt = if a.thorough { 200_000 } else { 30_000 };
    for i in 0..nt {
        let y = match i % 4 { 0 => rng.range(0, 9999), 1 => rng.range(1895, 1905), _ => rng.range(1900, 9999) };
        let m = if i % 11 == 0 { rng.range(0, 14) } else { rng.range(1, 12) };
        let d = if i % 5 == 0 { rng.range(0, 33) } else { rng.range(1, 31) };
        let t = match i % 3 { 0 => format!("{y:04}-{m:02}-{d:02}"), 1 => format!("{y:04}-{m}-{d}"), _ => format!("{y:04}-{m:02}-{d}") };
        texts.push(t);
    }
    for (t, obs) in texts.iter().zip(typed(&texts)) {
        cs.case(&format!("iso {}", wire(t)), &obs);
        // oracle: a typed supported date is stored as the serial of that date and shown as typed
        or.checked += 1;
        let p: Vec<&str> = t.split('-').collect();
        if p[1].len() > 2 || p[2].len() > 2 || p[0].len() != 4 {
            continue;
        }
        if let (Ok(y), Ok(m), Ok(d)) = (p[0].parse::<i32>(), p[1].parse::<u32>(), p[2].parse::<u32>()) {
            if let Some(date) = NaiveDate::from_ymd_opt(y, m, d) {
                let lo = NaiveDate::from_ymd_opt(1899, 12, 31).unwrap();
                let hi = NaiveDate::from_ymd_opt(9999, 12, 31).unwrap();
                if date >= lo && date <= hi {
                    let ok = obs.strip_prefix("num ").and_then(|s| s.parse::<i64>().ok()).and_then(|n| from_excel_date(n).ok()) == Some(date);
                    if !ok {
                        or.fail("typed_iso", json!({"text": t}), format!("typed {t:?} stored as {obs}"));
                    }
                }
            }
        }
    }
    dist.insert("typed_texts", texts.len() as u64);
    samples.push(format!("iso 1899-12-30 -> {}", typed(&["1899-12-30".to_string()])[0]));

    // ---- DATEVALUE on ISO text (oracle only; parse_datevalue_text is not modelled) ------------------------
    {
        let step = if a.thorough { 10 } else { 97 };
        let mut ser: Vec<i64> = (MIN..=MAX).step_by(step).collect();
        ser.extend(MIN..=130);
        ser.push(MAX);
        let mut seen: std::collections::HashMap<i64, String> = Default::default();
        let mut texts: Vec<(String, Option<i64>)> = ser.iter().map(|&n| (format_number(n as f64, "yyyy-mm-dd", locale).text, Some(n))).collect();
        // dates that do not exist in the engine's calendar must not be given a serial
        for t in ["1900-02-29", "1900-02-30", "2023-02-29", "2100-02-29"] {
            texts.push((t.to_string(), None));
        }
        for chunk in texts.chunks(BATCH) {
            let mut model = Model::new_empty("c21", "en", "UTC", "en").unwrap();
            for (i, (t, _)) in chunk.iter().enumerate() {
                model.set_user_input(0, i as i32 + 1, 1, format!("=DATEVALUE(\"{t}\")")).unwrap();
            }
            model.evaluate();
            for (i, (t, want)) in chunk.iter().enumerate() {
                let got = cell_code(model.get_cell_value_by_index(0, i as i32 + 1, 1));
                or.checked += 1;
                match want {
                    Some(n) => {
                        if got != *n {
                            or.fail("datevalue_iso", json!({"text": t}), format!("DATEVALUE({t:?}) = {got}, the text is the yyyy-mm-dd form of serial {n}"));
                        }
                        seen.insert(*n, t.clone());
                    }
                    None => {
                        if got >= 0 {
                            let class = if t == "1900-02-29" && got == 60 { "datevalue_phantom_1900_02_29" } else { "datevalue_nonexistent_date" };
                            let other = seen.get(&got).cloned().unwrap_or_default();
                            or.fail(class, json!({"text": t}), format!("DATEVALUE({t:?}) = {got} although that date does not exist (DATE(1900,2,29) = 61); serial {got} is also DATEVALUE({other:?}): two texts, one serial"));
                        }
                    }
                }
            }
        }
        dist.insert("datevalue_texts", texts.len() as u64);
    }

    let nontrivial = (MAX - MIN + 1) as u64 + if a.thorough { (MAX - MIN + 1) as u64 } else { 0 } + sel.len() as u64;
    cs.finish(json!({
        "oracle_failures": or.failures, "oracle_checked": or.checked, "oracle_failures_per_class": or.per_class,
        "distribution": dist, "samples": samples, "distinct_nontrivial": nontrivial, "exhaustive": true,
        "serials_direct": MAX - MIN + 1, "serials_model_layer": if a.thorough { (MAX - MIN + 1) as usize + sel.len() } else { sel.len() },
        "fault_injected": fault,
    }));
}
