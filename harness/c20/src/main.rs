//! C20 — number formats: implementation side of the correspondence for the token walk of
//! `format_number` (ParsePart::Number branch) and the property oracle.
//!
//! Per case (value, format code, locale):
//!  * the format code is parsed by /repo's own `formatter::parser::Parser`; the section is chosen as
//!    `format_number` chooses it;
//!  * the digit vectors (`int_part`, `fract_part`, `exponent_part`, `is_negative`,
//!    `exponent_is_negative`) are recomputed with the same Rust primitives as format.rs:436-470
//!    (`mirror`) — the float stage is NOT modelled in Coq;
//!  * tie: extracted `place` on (parsed section, digit vectors) must print `format_number(..).text`;
//!  * oracle, three layers, each computed independently of /repo:
//!      L0  the section read off the generator's symbols        == the parser's NumberPart
//!      L2  digits from the 15-significant-digit decimal, rounded half away from zero, by exact
//!          arithmetic on digit strings                          == the mirrored digit vectors
//!      L1  placement by the plain rules on the mirrored digits  == format_number(..).text
//!    and end to end: plain placement of the L2 digits           == format_number(..).text.
use ironcalc_base::formatter::format::format_number;
use ironcalc_base::formatter::lexer::{Lexer, Token};
use ironcalc_base::formatter::parser::{NumberPart, ParsePart, Parser, TextToken};
use ironcalc_base::locale::{get_locale, get_supported_locales, Locale};
use ironcalc_base::number_format::to_precision;
use serde_json::json;
use std::collections::{BTreeMap, HashSet};
use std::panic::{catch_unwind, AssertUnwindSafe};
use vh_common::*;

// ---------------------------------------------------------------- tokens and sections

#[derive(Clone, PartialEq, Debug)]
enum Tk {
    Lit(char),
    Text(String),
    Blank,
    Raw,
    Period,
    Digit(char, i32, u8), // kind, index, 0 integer / 1 decimal / 2 exponent
    Other,
}

#[derive(Clone, PartialEq, Debug)]
struct Sect {
    thousands: bool,
    percent: i32,
    comma: i32,
    dc: i32,
    precision: i32,
    sci: bool,
    sci_minus: bool,
    ec: i32,
    currency: Option<char>,
    toks: Vec<Tk>,
}

fn sect_of_part(p: &NumberPart) -> Sect {
    let toks = p
        .tokens
        .iter()
        .map(|t| match t {
            TextToken::Literal(c) => Tk::Lit(*c),
            TextToken::Text(s) => Tk::Text(s.clone()),
            TextToken::Ghost(_) | TextToken::Spacer(_) => Tk::Blank,
            TextToken::Raw => Tk::Raw,
            TextToken::Period => Tk::Period,
            TextToken::Digit(d) => Tk::Digit(
                d.kind,
                d.index,
                if d.number.is_integer() { 0 } else if d.number.is_decimal() { 1 } else { 2 },
            ),
            _ => Tk::Other,
        })
        .collect();
    Sect {
        thousands: p.use_thousands,
        percent: p.percent,
        comma: p.comma,
        dc: p.digit_count,
        precision: p.precision,
        sci: p.is_scientific,
        sci_minus: p.scientific_minus,
        ec: p.exponent_digit_count,
        currency: p.currency,
        toks,
    }
}

fn wire_toks(toks: &[Tk]) -> String {
    if toks.is_empty() {
        return "-".to_string();
    }
    let v: Vec<String> = toks
        .iter()
        .map(|t| match t {
            Tk::Lit(c) => format!("L{}", *c as u32),
            Tk::Text(s) => format!("T{}", wire(s)),
            Tk::Blank => "B".to_string(),
            Tk::Raw => "R".to_string(),
            Tk::Period => "P".to_string(),
            Tk::Other => "O".to_string(),
            Tk::Digit(k, i, st) => format!("D{}{}:{}", ['i', 'd', 'e'][*st as usize], *k as u32, i),
        })
        .collect();
    v.join(",")
}

// ---------------------------------------------------------------- the parser, tied to Num/FormatParse.v

/// the token stream /repo's format lexer produces for a code (what Parser::parse consumes)
fn lex_tokens(code: &str) -> String {
    let mut lx = Lexer::new(code);
    let mut v: Vec<String> = vec![];
    loop {
        let t = lx.next_token();
        let s = match t {
            Token::EOF => break,
            Token::Zero => "Z".to_string(),
            Token::Sharp => "S".to_string(),
            Token::QuestionMark => "Q".to_string(),
            Token::Comma => "C".to_string(),
            Token::Period => "P".to_string(),
            Token::Percent => "%".to_string(),
            Token::Separator => ";".to_string(),
            Token::Raw => "@".to_string(),
            Token::Scientific => "e".to_string(),
            Token::ScientificMinus => "m".to_string(),
            Token::General => "G".to_string(),
            Token::ILLEGAL => "I".to_string(),
            Token::Literal(c) => format!("L{}", c as u32),
            Token::Text(t) => format!("T{}", wire(&t)),
            Token::Ghost(_) => "g".to_string(),
            Token::Spacer(_) => "s".to_string(),
            Token::Currency(c) => format!("c{}", c as u32),
            Token::Color(_) => "o".to_string(),
            Token::Condition(..) => "n".to_string(),
            Token::Day | Token::DayPadded | Token::DayNameShort | Token::DayName | Token::MonthNameShort | Token::MonthName
            | Token::MonthLetter | Token::YearShort | Token::Year | Token::AMPM => "d".to_string(),
            Token::Month | Token::MonthPadded => "M".to_string(),
            Token::Hour | Token::HourPadded | Token::Second | Token::SecondPadded | Token::ElapsedHour | Token::ElapsedMinute
            | Token::ElapsedSecond | Token::ElapsedHourPadded | Token::ElapsedMinutePadded | Token::ElapsedSecondPadded => "t".to_string(),
        };
        v.push(s);
        if v.len() > 10_000 { break; }
    }
    if v.is_empty() { "-".to_string() } else { v.join(",") }
}

/// canonical dump of Parser::parse()'s result
fn dump_parts(parts: &[ParsePart]) -> String {
    if parts.is_empty() { return "-".to_string(); }
    let v: Vec<String> = parts.iter().map(|p| match p {
        ParsePart::Date(_) => "D".to_string(),
        ParsePart::Error(_) => "E".to_string(),
        ParsePart::General(_) => "G".to_string(),
        ParsePart::Number(n) => {
            let s = sect_of_part(n);
            format!("N{}/{}/{}/{}/{}/{}/{}/{}/{}/{}", b(s.thousands), s.percent, s.comma, s.dc, s.precision, b(s.sci), b(s.sci_minus), s.ec,
                    s.currency.map_or(-1i64, |c| c as i64), wire_toks(&s.toks))
        }
    }).collect();
    v.join("|")
}

fn parser_case(cs: &mut Cases, code: &str) {
    let toks = lex_tokens(code);
    let mut parser = Parser::new(code);
    parser.parse();
    cs.case(&format!("pp {}", toks), &dump_parts(&parser.parts));
}

// ---------------------------------------------------------------- the float stage, mirrored

#[derive(Clone, PartialEq, Debug, Default)]
struct Digits {
    neg: bool,
    ip: String,
    fp: String,
    ep: String,
    eneg: bool,
    raw: String,
    /// the strings the float primitives printed, before the string-level steps modelled in Num/FormatNum.v
    s_int: String,   // format!("{}", int_number)
    int_zero: bool,  // int_number as i64 == 0
    b: String,       // format!("{:.p}", value_abs.fract())
}

/// copy of format.rs:18 get_fract_part
fn get_fract_part(value: f64, precision: i32, int_len: usize) -> Vec<char> {
    let b = format!("{:.1$}", value.fract(), precision as usize).chars().collect::<Vec<char>>();
    let l = b.len() - 1;
    let mut last_non_zero = b.len() - 1;
    for i in 0..l {
        if b[l - i] != '0' {
            last_non_zero = l - i + 1;
            break;
        }
    }
    if last_non_zero < 2 {
        return vec![];
    }
    let max_len = if int_len > 15 { 2_usize } else { 15_usize - int_len + 1 };
    let last_non_zero = usize::min(last_non_zero, max_len + 1);
    b[2..last_non_zero].to_vec()
}

/// format.rs:74-113 — which section formats the value, and the value handed to it
fn select(value: f64, n: usize) -> Option<(usize, f64)> {
    match n {
        1 => Some((0, value)),
        2 => {
            if value >= 0.0 { Some((0, value)) } else { Some((1, -value)) }
        }
        3 | 4 => {
            if value > 0.0 { Some((0, value)) } else if value < 0.0 { Some((1, -value)) } else { Some((2, 0.0)) }
        }
        _ => None,
    }
}

/// format.rs:436-493 with the same primitives
fn mirror(value_in: f64, p: &NumberPart) -> Digits {
    let mut value = value_in;
    value = value * 100.0_f64.powi(p.percent) / (1000.0_f64.powi(p.comma));
    value = to_precision(value, (p.precision as usize) + format!("{}", value.abs().floor()).len());
    let mut value_abs = value.abs();
    let mut exponent_part: Vec<char> = vec![];
    let mut exponent_is_negative = value_abs < 10.0;
    if p.is_scientific {
        if value_abs == 0.0 {
            exponent_part = vec!['0'];
            exponent_is_negative = false;
        } else {
            let exponent = value_abs.log10().floor();
            exponent_part = format!("{}", exponent.abs()).chars().collect();
            value /= 10.0_f64.powf(exponent);
            value = to_precision(value, 15);
            value_abs = value.abs();
        }
    }
    let int_number = if p.precision == 0 { value_abs.round() } else { value_abs.floor() };
    let s_int = format!("{}", int_number);
    let mut int_part: Vec<char> = s_int.chars().collect();
    let int_zero = int_number as i64 == 0;
    if int_zero {
        int_part = vec![];
    }
    let b = format!("{:.1$}", value_abs.fract(), p.precision as usize);
    let fract_part = get_fract_part(value_abs, p.precision, int_part.len());
    let is_negative = value < -(10.0_f64.powf(-(p.precision as f64)));
    Digits {
        neg: is_negative,
        ip: int_part.into_iter().collect(),
        fp: fract_part.into_iter().collect(),
        ep: exponent_part.into_iter().collect(),
        eneg: exponent_is_negative,
        raw: format!("{value}"),
        s_int,
        int_zero,
        b,
    }
}

// ---------------------------------------------------------------- exact decimals on digit strings

/// non-negative decimal 0.d1 d2 d3 ... x 10^pt
#[derive(Clone, Debug)]
struct Dec {
    ds: Vec<u8>,
    pt: i64,
}

impl Dec {
    /// the 15 significant digits the engine works with: format!("{:.14e}")
    fn dec15(v: f64) -> Dec {
        let s = format!("{:.14e}", v.abs());
        let (m, e) = s.split_once('e').unwrap();
        let ds: Vec<u8> = m.bytes().filter(|c| c.is_ascii_digit()).map(|c| c - b'0').collect();
        Dec { ds, pt: e.parse::<i64>().unwrap() + 1 }
    }
    fn is_zero(&self) -> bool { self.ds.iter().all(|d| *d == 0) }
    /// digit with weight 10^-k for k >= 1 (k-th decimal); k <= 0: integer digits (k = 0 is the units digit)
    fn digit(&self, k: i64) -> u8 {
        let i = self.pt + k - 1;
        if i < 0 || i >= self.ds.len() as i64 { 0 } else { self.ds[i as usize] }
    }
    /// number of integer digits (0 when the value is below 1)
    fn int_len(&self) -> i64 {
        if self.is_zero() { return 0; }
        let z = self.ds.iter().position(|d| *d != 0).unwrap() as i64;
        (self.pt - z).max(0)
    }
    /// exactly one half of a unit of the p-th decimal remains after it
    fn is_tie(&self, p: i64) -> bool {
        if self.digit(p + 1) != 5 { return false; }
        let last = self.ds.len() as i64 - self.pt; // last decimal position carrying a stored digit
        ((p + 2)..=last.max(p + 1)).all(|k| self.digit(k) == 0)
    }
    /// round half away from zero to p decimals: (integer digits without leading zeros, p decimals)
    fn round(&self, p: i64) -> (Vec<u8>, Vec<u8>) {
        let il = self.pt.max(0);
        let mut full: Vec<u8> = Vec::new();
        for k in (1 - il)..=p { full.push(self.digit(k)); }
        if self.digit(p + 1) >= 5 {
            let mut i = full.len();
            loop {
                if i == 0 { full.insert(0, 1); break; }
                i -= 1;
                if full[i] == 9 { full[i] = 0; } else { full[i] += 1; break; }
            }
        }
        let cut = full.len() - p as usize;
        let mut ip: Vec<u8> = full[..cut].to_vec();
        while !ip.is_empty() && ip[0] == 0 { ip.remove(0); }
        (ip, full[cut..].to_vec())
    }
    /// round half away from zero to n significant digits
    fn round_sig(&self, n: i64) -> Dec {
        if self.is_zero() { return self.clone(); }
        let z = self.ds.iter().position(|d| *d != 0).unwrap() as i64;
        // significant digit j (1-based) sits at decimal position k = z + j - pt
        let p = z + n - self.pt;
        let (ip, fp) = self.round(p.max(0));
        if p >= 0 {
            let mut ds = ip.clone(); ds.extend(fp);
            Dec { ds, pt: ip.len() as i64 }
        } else {
            // rounding left of the units digit: shift, round to an integer, shift back
            let sh = Dec { ds: self.ds.clone(), pt: self.pt + p };
            let (ip, _) = sh.round(0);
            Dec { pt: ip.len() as i64 - p, ds: ip }
        }
    }
    /// exactly one half of a unit of the n-th significant digit remains after it
    fn is_tie_sig(&self, n: i64) -> bool {
        if self.is_zero() || n < 0 { return false; }
        let i = self.ds.iter().position(|d| *d != 0).unwrap() + n as usize;
        i < self.ds.len() && self.ds[i] == 5 && self.ds[i + 1..].iter().all(|d| *d == 0)
    }
    /// the first n significant digits, the rest dropped (what rounding a half downwards gives)
    fn trunc_sig(&self, n: i64) -> Dec {
        if self.is_zero() || n < 0 { return self.clone(); }
        let i = self.ds.iter().position(|d| *d != 0).unwrap() + n as usize;
        let mut ds = self.ds.clone();
        for d in ds.iter_mut().skip(i) { *d = 0; }
        Dec { ds, pt: self.pt }
    }
    /// mantissa in [1,10) and decimal exponent
    fn normalise(&self) -> (Dec, i64) {
        let z = self.ds.iter().position(|d| *d != 0).unwrap();
        (Dec { ds: self.ds[z..].to_vec(), pt: 1 }, self.pt - z as i64 - 1)
    }
}

fn dstr(v: &[u8]) -> String { v.iter().map(|d| (b'0' + d) as char).collect() }
fn strip_trailing_zeros(mut v: Vec<u8>) -> Vec<u8> { while v.last() == Some(&0) { v.pop(); } v }

/// L2: the digits the statement asks for
struct SpecDigits { d: Digits, x: Dec, mant_carry: bool, e: i64, tie: bool }

fn spec_digits(v: f64, s: &Sect) -> SpecDigits {
    let mut x = Dec::dec15(v);
    x.pt += 2 * s.percent as i64 - 3 * s.comma as i64;
    let p = s.precision as i64;
    let mut d = Digits::default();
    let mut mant_carry = false;
    let mut e = 0i64;
    let tie;
    if s.sci {
        if x.is_zero() {
            d.ep = "0".to_string();
            tie = false;
        } else {
            let (m, e0) = x.normalise();
            tie = m.is_tie(p);
            let (mut ip, mut fp) = m.round(p);
            e = e0;
            if ip.len() == 2 { ip = vec![1]; fp = vec![0; p as usize]; e += 1; mant_carry = true; }
            d.ip = dstr(&ip);
            d.fp = dstr(&strip_trailing_zeros(fp));
            d.ep = format!("{}", e.abs());
            d.eneg = e < 0;
        }
    } else {
        tie = x.is_tie(p);
        let (ip, fp) = x.round(p);
        d.ip = dstr(&ip);
        d.fp = dstr(&strip_trailing_zeros(fp));
    }
    d.neg = v < 0.0 && !(d.ip.is_empty() && d.fp.is_empty());
    SpecDigits { d, x, mant_carry, e, tie }
}

// ---------------------------------------------------------------- L1: placement by the plain rules

struct Loc { group: i32, gsep: String, dsep: String }

fn loc_of(l: &Locale) -> Loc {
    let g = match l.numbers.decimal_formats.standard.as_str() { "#,##0.###" => 1, "#,##,##0.###" => 2, _ => 0 };
    Loc { group: g, gsep: l.numbers.symbols.group.clone(), dsep: l.numbers.symbols.decimal.clone() }
}

/// separator after a position with r positions to the units digit, itself included
fn group_after(s: &Sect, loc: &Loc, r: i64) -> bool {
    s.thousands && match loc.group {
        1 => r > 1 && (r - 1) % 3 == 0,
        2 => r == 3 || (r > 3 && r % 2 == 0),
        _ => false,
    }
}

fn place_simple(s: &Sect, loc: &Loc, d: &Digits) -> String {
    let ip: Vec<char> = d.ip.chars().collect();
    let fp: Vec<char> = d.fp.chars().collect();
    let ep: Vec<char> = d.ep.chars().collect();
    let (ln, dc, le, ec) = (ip.len() as i64, s.dc as i64, ep.len() as i64, s.ec as i64);
    let mut out = String::new();
    if d.neg && dc > 0 { out.push('-'); }
    if let Some(c) = s.currency { out.push(c); }
    for t in &s.toks {
        match t {
            Tk::Lit(c) => out.push(*c),
            Tk::Text(t) => out.push_str(t),
            Tk::Blank => out.push(' '),
            Tk::Raw => out.push_str(&d.raw),
            Tk::Period | Tk::Other => {}
            Tk::Digit(k, i, 0) => {
                let i = *i as i64;
                // the integer part right-aligned on the placeholders; the first one takes the surplus
                let (from, to) = if ln > dc && i == 0 { (0, ln - dc) } else { (ln - dc + i, ln - dc + i) };
                for j in from..=to {
                    if j < 0 {
                        let r = dc - i;
                        match k { '#' => {}, '0' => { out.push('0'); if group_after(s, loc, r) { out.push_str(&loc.gsep); } }
                                  _ => { out.push(' '); if group_after(s, loc, r) { out.push_str(&loc.gsep); } } }
                    } else {
                        out.push(ip[j as usize]);
                        if group_after(s, loc, ln - j) { out.push_str(&loc.gsep); }
                    }
                }
            }
            Tk::Digit(k, i, 1) => {
                if *i == 0 { out.push_str(&loc.dsep); }
                if (*i as usize) < fp.len() { out.push(fp[*i as usize]); }
                else { match k { '0' => out.push('0'), '?' => out.push(' '), _ => {} } }
            }
            Tk::Digit(k, i, _) => {
                let i = *i as i64;
                if i == 0 { out.push_str(if d.eneg { "E-" } else if s.sci_minus { "E" } else { "E+" }); }
                let (from, to) = if le > ec && i == 0 { (0, le - ec) } else { (le - ec + i, le - ec + i) };
                for j in from..=to {
                    if j < 0 { match k { '#' => {}, '?' => out.push(' '), _ => out.push('0') } }
                    else { out.push(ep[j as usize]); }
                }
            }
        }
    }
    out
}

// ---------------------------------------------------------------- format codes from symbols

#[derive(Clone, Copy, PartialEq, Debug)]
enum Sym { Zero, Sharp, Quest, Comma, Period, Percent, EPlus, EMinus, Lit }
const SYMS: [Sym; 9] = [Sym::Zero, Sym::Sharp, Sym::Quest, Sym::Comma, Sym::Period, Sym::Percent, Sym::EPlus, Sym::EMinus, Sym::Lit];
fn is_dig(s: Sym) -> bool { matches!(s, Sym::Zero | Sym::Sharp | Sym::Quest) }

/// the literal pieces: (format text, what it shows)
fn lit_piece(k: usize) -> (&'static str, Tk) {
    match k % 9 {
        0 => ("\"lit\"", Tk::Text("lit".to_string())),
        1 => ("\\x", Tk::Lit('x')),
        2 => ("-", Tk::Lit('-')),
        3 => (" ", Tk::Lit(' ')),
        4 => ("$", Tk::Lit('$')),
        5 => ("_)", Tk::Blank),
        6 => ("*x", Tk::Blank),
        7 => ("\"a\"\"b\"", Tk::Text("a\"b".to_string())),
        _ => ("(", Tk::Lit('(')),
    }
}

/// text of a symbol sequence; literal symbols take successive pieces starting at `lit0`
fn code_of(syms: &[Sym], lit0: usize) -> String {
    let mut out = String::new();
    let mut l = lit0;
    for s in syms {
        match s {
            Sym::Zero => out.push('0'), Sym::Sharp => out.push('#'), Sym::Quest => out.push('?'),
            Sym::Comma => out.push(','), Sym::Period => out.push('.'), Sym::Percent => out.push('%'),
            Sym::EPlus => out.push_str("E+"), Sym::EMinus => out.push_str("E-"),
            Sym::Lit => { out.push_str(lit_piece(l).0); l += 1; }
        }
    }
    out
}

/// L0: the section a format of the stated family denotes, read off its symbols; None = outside the
/// family as the oracle reads it (such codes still go through the tie and the no-panic check).
/// Family: [literals|%]* integer placeholders (one comma between two of them = grouping), commas right
/// after the last integer placeholder (= scaling), optional '.' + decimal placeholders, optional
/// E+/E- directly followed by a contiguous run of exponent placeholders; literals and % anywhere.
fn spec_sect(syms: &[Sym], lit0: usize) -> Option<Sect> {
    let mut s = Sect { thousands: false, percent: 0, comma: 0, dc: 0, precision: 0, sci: false, sci_minus: false, ec: 0, currency: None, toks: vec![] };
    let mut zone = 0u8; // 0 integer, 1 decimal, 2 exponent
    let mut scaled = false; // a scaling comma was seen: no more integer placeholders
    let mut exp_closed = false;
    let mut l = lit0;
    let n = syms.len();
    for (i, sy) in syms.iter().enumerate() {
        let prev = if i > 0 { Some(syms[i - 1]) } else { None };
        let next = if i + 1 < n { Some(syms[i + 1]) } else { None };
        match sy {
            Sym::Zero | Sym::Sharp | Sym::Quest => {
                let k = match sy { Sym::Zero => '0', Sym::Sharp => '#', _ => '?' };
                match zone {
                    0 => { if scaled { return None; } s.toks.push(Tk::Digit(k, s.dc, 0)); s.dc += 1; }
                    1 => { s.toks.push(Tk::Digit(k, s.precision, 1)); s.precision += 1; }
                    _ => { if exp_closed { return None; } s.toks.push(Tk::Digit(k, s.ec, 2)); s.ec += 1; }
                }
            }
            Sym::Comma => {
                if zone != 0 { return None; }
                let pd = prev.map_or(false, is_dig);
                let nd = next.map_or(false, is_dig);
                if pd && nd && !scaled { s.thousands = true; }
                else if (pd || (scaled && prev == Some(Sym::Comma))) && !nd && s.dc > 0 { s.comma += 1; scaled = true; }
                else { return None; }
            }
            Sym::Period => {
                if zone != 0 { return None; }
                zone = 1;
                s.toks.push(Tk::Period);
            }
            Sym::Percent => { s.toks.push(Tk::Lit('%')); s.percent += 1; if zone == 2 { exp_closed = true; } }
            Sym::EPlus | Sym::EMinus => {
                if zone == 2 || s.dc == 0 || !next.map_or(false, is_dig) { return None; }
                zone = 2; s.sci = true; s.sci_minus = *sy == Sym::EMinus;
            }
            Sym::Lit => { s.toks.push(lit_piece(l).1); l += 1; if zone == 2 { exp_closed = true; } }
        }
    }
    Some(s)
}

// ---------------------------------------------------------------- values

fn values(rng: &mut Rng, thorough: bool) -> Vec<f64> {
    let mut v: Vec<f64> = vec![];
    let p = |s: &str| s.parse::<f64>().unwrap();
    // the probes of the design phase and the boundary values of each mirrored branch
    for s in ["0", "1", "5", "9", "10", "25", "15", "2.5", "1234.5", "2.675", "0.125", "0.5", "9.5", "99.5", "999.5", "0.96", "0.996",
              "0.9996", "9996", "99.96", "0.0496", "0.46", "0.006", "0.01", "0.1", "0.05", "0.005", "0.285", "1.005", "1234567.891",
              "12345.6789", "1e100", "1e99", "123", "1234", "12345", "123456", "1234567", "12345678", "1234567890", "0.07", "0.57",
              "999999.5", "999.9996", "0.355", "355", "0.001", "0.00012345", "1.5", "3", "12", "100", "1000", "1e15", "1e16", "1e21", "1e22", "1.7e23"] {
        v.push(p(s));
    }
    // integers near 2^53 and 15/16/17-digit decimals
    for k in -3i64..=3 { v.push((9007199254740992i64 + k) as f64); v.push((4503599627370496i64 + k) as f64); }
    for s in ["999999999999999", "1000000000000001", "123456789012345", "1234567890123456", "12345678901234567", "123456789012345678",
              "0.123456789012345", "0.1234567890123456", "0.12345678901234567", "1.23456789012345", "1.234567890123456", "123456.789012345",
              "1234567.89012345", "99999999999999.5", "999999999999999.5", "9999999999999.95", "0.999999999999999", "0.9999999999999995",
              "0.3333333333333333", "0.6666666666666666", "1999999999999999.8"] {
        v.push(p(s));
    }
    // halves and quarter ties at every precision 0..6
    for prec in 0..=6usize {
        for k in ["0", "1", "2", "7", "12", "99", "1234", "999999"] {
            for tail in ["5", "25", "75", "49", "51", "45", "55", "4999999", "5000001"] {
                // k with the decimal point shifted prec places left, then the tail
                let kk = format!("{:0>width$}", k, width = prec + 1);
                let (a, b) = kk.split_at(kk.len() - prec);
                v.push(p(&format!("{a}.{b}{tail}")));
            }
        }
    }
    // 10^k and its neighbours
    for k in -20..=22i32 {
        let x = p(&format!("1e{k}"));
        v.push(x);
        v.push(f64::from_bits(x.to_bits() + 1));
        v.push(f64::from_bits(x.to_bits() - 1));
    }
    // tiny and huge
    for s in ["5e-324", "1e-320", "2.2250738585072009e-308", "2.2250738585072014e-308", "1e-300", "1e-100", "1e300", "1.7976931348623157e308", "1e308"] {
        v.push(p(s));
    }
    // random decimals with 1..17 significant digits and exponents in [-12, 18]
    let nr = if thorough { 1500 } else { 400 };
    for _ in 0..nr {
        let nd = rng.range(1, 17) as usize;
        let mut m = String::new();
        for i in 0..nd { m.push((b'0' + if i == 0 { rng.range(1, 9) } else { rng.range(0, 9) } as u8) as char); }
        let e = rng.range(-12, 18);
        v.push(p(&format!("{}e{}", m, e - nd as i64 + 1)));
    }
    let mut all = v.clone();
    for x in v { all.push(-x); }
    all
}

// ---------------------------------------------------------------- one case

struct Ctx<'a> {
    cs: Cases,
    or: Oracle,
    dist: BTreeMap<&'static str, u64>,
    seen: HashSet<u64>,
    codes: HashSet<String>,
    locales: Vec<(&'a str, &'static Locale, Loc)>,
    samples: Vec<String>,
}

fn h64(a: &str, b: &str) -> u64 {
    use std::hash::{Hash, Hasher};
    let mut h = std::collections::hash_map::DefaultHasher::new();
    a.hash(&mut h); b.hash(&mut h); h.finish()
}

/// `spec`: one entry per section of the code when every section is in the family (oracle applies)
fn run_case(cx: &mut Ctx, v: f64, code: &str, spec: Option<&[Sect]>, li: usize) {
    let (lname, locale, _) = (cx.locales[li].0, cx.locales[li].1, ());
    let inp = || json!({"value": format!("{:e}", v), "format": code, "locale": lname});
    *cx.dist.entry("cases").or_insert(0) += 1;
    if !cx.codes.contains(code) {
        cx.codes.insert(code.to_string());
        parser_case(&mut cx.cs, code);
        *cx.dist.entry("parser_cases").or_insert(0) += 1;
    }
    // the implementation
    let actual = catch_unwind(AssertUnwindSafe(|| format_number(v, code, locale)));
    let actual = match actual {
        Ok(f) => f,
        Err(_) => {
            cx.or.fail("format_panic", inp(), "format_number panicked".to_string());
            return;
        }
    };
    // the parsed section
    let mut parser = Parser::new(code);
    parser.parse();
    let parts = parser.parts;
    let sel = select(v, parts.len());
    let (pi, val) = match sel {
        Some(x) => x,
        None => { *cx.dist.entry("skipped_sections").or_insert(0) += 1; return; }
    };
    let np = match &parts[pi] {
        ParsePart::Number(p) => p,
        _ => { *cx.dist.entry("skipped_not_number").or_insert(0) += 1; return; }
    };
    if actual.error.is_some() { cx.or.fail("format_error", inp(), format!("error {:?}", actual.error)); return; }
    let sect = sect_of_part(np);
    let md = match catch_unwind(AssertUnwindSafe(|| mirror(val, np))) { Ok(d) => d, Err(_) => { cx.or.fail("format_panic", inp(), "mirror of the float stage panicked".to_string()); return; } };
    let loc = &cx.locales[li].2;
    // ---- tie
    let line = format!(
        "pf {} {} {} {} {} {} {} {} {} {} {} {} {} {} {} {}",
        loc.group, wire(&loc.gsep), wire(&loc.dsep), b(sect.thousands), sect.dc, sect.ec, b(sect.sci_minus),
        sect.currency.map_or(-1i64, |c| c as i64), b(md.neg), wire(&md.s_int), b(md.int_zero), wire(&md.b), wire(&md.ep), b(md.eneg), wire(&md.raw),
        wire_toks(&sect.toks)
    );
    cx.cs.case(&line, &format!("ok {} 1 1", wire(&actual.text)));
    if cx.seen.insert(h64(code, &actual.text)) { *cx.dist.entry("distinct_format_text_pairs").or_insert(0) += 1; }
    if cx.samples.len() < 10 && cx.cs.n % 9973 == 1 { cx.samples.push(format!("{v:e} {code:?} {lname} -> {:?}", actual.text)); }

    // ---- oracle
    if !v.is_finite() { return; }
    cx.or.checked += 1;
    // L1: plain placement of the digits the code computed
    let l1 = place_simple(&sect, loc, &md);
    if l1 != actual.text {
        let ln = md.ip.chars().count() as i32;
        let le = md.ep.chars().count() as i32;
        let q = sect.toks.iter().any(|t| matches!(t, Tk::Digit('?', 0, 1))) && md.fp.is_empty();
        let class = if sect.thousands && ln < sect.dc && loc.group != 0 { "format_group_separator_misplaced" }
            else if le > sect.ec && sect.ec >= 2 { "format_exponent_digits_repeated" }
            else if q { "format_question_mark_drops_decimal_point" }
            else { "format_placement_mismatch" };
        cx.or.fail(class, inp(), format!("digits int={:?} frac={:?} exp={:?}: placed by the plain rules {:?}, shown {:?}", md.ip, md.fp, md.ep, l1, actual.text));
    }
    let spec = match spec { Some(s) if s.len() == parts.len() => &s[pi], _ => { *cx.dist.entry("oracle_placement_only").or_insert(0) += 1; return; } };
    *cx.dist.entry("oracle_full").or_insert(0) += 1;
    // L0: the parser's reading of the code
    let mut use_sect = spec.clone();
    if *spec != sect {
        let lead = code.split(';').nth(pi).map_or(false, |c| { let d = c.find(|ch| ch == '0' || ch == '#' || ch == '?'); let p = c.find('.'); matches!((p, d), (Some(p), Some(d)) if p < d) || (p.is_some() && d.is_none()) });
        let class = if lead { "format_leading_period_literal" } else { "format_parse_mismatch" };
        cx.or.fail(class, inp(), format!("section read as {:?}, expected {:?}", sect, spec));
        use_sect = sect.clone();
    }
    // L2: the digits
    let sd = spec_digits(val, &use_sect);
    let p = use_sect.precision as i64;
    let scaled = val * 100.0_f64.powi(use_sect.percent) / 1000.0_f64.powi(use_sect.comma);
    let overflow = !scaled.is_finite();
    let subnormal = use_sect.sci && val != 0.0 && val.abs() < f64::MIN_POSITIVE;
    let shown_len = if use_sect.sci { 1 + p } else { sd.d.ip.len() as i64 + p };
    let beyond15 = shown_len > 15;
    let scaled_fmt = use_sect.percent != 0 || use_sect.comma != 0;
    // the fraction rounds up into the integer digits (0.96 -> 1.0, 5.99E+16 -> 6.0E+16, 9.996E+3 -> 1.00E+4)
    let carry = if sd.x.is_zero() { false } else if use_sect.sci {
        let m = sd.x.normalise().0;
        sd.mant_carry || (p >= 1 && dstr(&m.ds[..1]) != sd.d.ip)
    } else { p >= 1 && sd.x.int_len() == 0 && sd.d.ip == "1" };
    // the 15-digit decimal is a power of ten the value itself lies just below (log10 rounds up)
    let below_pow10 = use_sect.sci && !sd.x.is_zero() && {
        let m = sd.x.normalise().0;
        m.ds[0] == 1 && m.ds[1..].iter().all(|d| *d == 0) && format!("{:.16e}", val.abs()).starts_with('9')
    };
    // the code first rounds to p + (integer digits of the scaled value) significant digits
    let nsig = p + sd.x.int_len().max(1);
    // ... half-to-even on the binary value: when that first rounding is itself an exact decimal half
    // (0.355 at 2 digits) it may go down (0.35) as well as up (0.36); both are candidates
    let mut pres = vec![sd.x.round_sig(nsig)];
    if sd.x.is_tie_sig(nsig) { pres.push(sd.x.trunc_sig(nsig)); }
    // double rounding: the first rounding leaves an exact half at the displayed place that the value itself does not have
    let double = !sd.x.is_zero() && !sd.tie && pres.iter().any(|pre| {
        if use_sect.sci { !pre.is_zero() && pre.normalise().0.is_tie(p) } else { pre.is_tie(p) }
    });
    let rounding_class = if overflow { Some("format_scaled_value_overflows") }
        else if subnormal { Some("format_subnormal_scientific") }
        else if sd.tie { Some("format_tie_rounds_to_even") }
        else if beyond15 { Some("format_more_than_15_digits") }
        else if scaled_fmt && shown_len == 15 { Some("format_scaling_error_at_15_digits") }
        else if below_pow10 { Some("format_scientific_just_below_power_of_ten") }
        else if carry { Some("format_rounding_carry_lost") }
        else if double { Some("format_double_rounding") }
        else { None };
    let detail = |what: &str| format!("{what}: 15-digit decimal x scale = 0.{}e{}; expected digits {:?}, the code computed {:?}", dstr(&sd.x.ds), sd.x.pt, sd.d, md);
    let digits_equal = sd.d.ip == md.ip && sd.d.fp == md.fp && (!use_sect.sci || sd.d.ep == md.ep);
    if !digits_equal {
        cx.or.fail(rounding_class.unwrap_or("format_digits_mismatch"), inp(), detail("digits"));
    }
    if use_sect.sci && sd.d.eneg != md.eneg {
        let class = if !sd.x.is_zero() && sd.e == 0 { "format_exponent_sign_for_units" } else { rounding_class.unwrap_or("format_exponent_sign_mismatch") };
        cx.or.fail(class, inp(), detail("exponent sign"));
    }
    if sd.d.neg != md.neg {
        // one unit of the last displayed place
        let unit = if p == 0 { sd.d.ip == "1" && sd.d.fp.is_empty() } else { sd.d.ip.is_empty() && sd.d.fp.len() as i64 == p && sd.d.fp.trim_start_matches('0') == "1" };
        let class = if sd.d.neg && unit { "format_sign_dropped_at_unit_magnitude" } else { rounding_class.unwrap_or("format_sign_mismatch") };
        cx.or.fail(class, inp(), detail("sign"));
    }
    // end to end: the statement's text
    let mut want = sd.d.clone();
    want.raw = md.raw.clone();
    let expected = place_simple(&use_sect, loc, &want);
    let all_layers_agree = l1 == actual.text && digits_equal && (!use_sect.sci || sd.d.eneg == md.eneg) && sd.d.neg == md.neg;
    if all_layers_agree && expected != actual.text {
        cx.or.fail("format_mismatch", inp(), format!("expected {:?}, shown {:?}", expected, actual.text));
    }
    if expected == actual.text { *cx.dist.entry("oracle_text_equal").or_insert(0) += 1; }
}

// ---------------------------------------------------------------- main

fn enumerate(len: usize, f: &mut dyn FnMut(&[Sym])) {
    let mut idx = vec![0usize; len];
    let mut syms: Vec<Sym> = vec![SYMS[0]; len];
    loop {
        f(&syms);
        let mut i = len;
        loop {
            if i == 0 { return; }
            i -= 1;
            idx[i] += 1;
            if idx[i] < SYMS.len() { syms[i] = SYMS[idx[i]]; break; }
            idx[i] = 0; syms[i] = SYMS[0];
        }
    }
}

fn main() {
    let a = Args::parse();
    if a.extra.first().map(|s| s.as_str()) == Some("probe") {
        // vh_c20 <seed> <tier> <out> probe <value> <format> [locale]: one case, human readable
        let v: f64 = a.extra[1].parse().unwrap();
        let loc = get_locale(a.extra.get(3).map(|s| s.as_str()).unwrap_or("en")).unwrap();
        match catch_unwind(AssertUnwindSafe(|| format_number(v, &a.extra[2], loc))) {
            Ok(f) => println!("{:?} {:?} -> {:?} error={:?}", v, a.extra[2], f.text, f.error),
            Err(_) => println!("{:?} {:?} -> PANIC", v, a.extra[2]),
        }
        return;
    }
    let thorough = a.thorough;
    let mut rng = Rng::new(a.seed);
    let mut lnames = get_supported_locales();
    lnames.sort();
    let lnames: Vec<&'static str> = lnames.into_iter().map(|s| &*Box::leak(s.into_boxed_str())).collect();
    let locales: Vec<(&str, &'static Locale, Loc)> = lnames.iter().map(|n| { let l = get_locale(n).unwrap(); (*n, l, loc_of(l)) }).collect();
    let nloc = locales.len();
    let mut cx = Ctx { cs: Cases::new(&a.out, "c20"), or: Oracle::default(), dist: BTreeMap::new(), seen: HashSet::new(), codes: HashSet::new(), locales, samples: vec![] };
    let vals = values(&mut rng, thorough);
    let fixed: Vec<f64> = ["0", "-1", "0.5", "1234567.891", "-1234.5", "2.5", "0.96", "1e100", "5"].iter().map(|s| s.parse().unwrap()).collect();

    // 1. the design-phase probes and the built-in number formats, every value, locales rotating
    let corpus = ["0", "0.00", "#,##0", "#,##0.00", "0%", "0.00%", "0.00E+00", "##0.0E+0", "0E+0", "#,###,##0", "0,000", "0,000,000,000", ".00",
                  "?.??", "#.#", "0.0#", "0 \"a\" 0", "$#,##0_);($#,##0)", "#,##0.00_);(#,##0.00)", "0;(0)", "0.00;-0.00;\"zero\"", "0,", "0.0,,",
                  "#,##0.0,", "0.00E-00", "0.0E+000", "#E+#", "?0.0?", "\"x\"0\"y\"0\"z\".0\"w\"0", "0.00E+0;\"neg \"0.0", "[$€]#,##0.00", "0.0E+0.0", "E+0", "0E+", ",0", "0.0,0", "%", "\"only\"", "@", "0@"];
    for code in corpus {
        let sp: Option<Vec<Sect>> = None;
        for (i, v) in vals.iter().enumerate() {
            run_case(&mut cx, *v, code, sp.as_deref(), i % nloc);
            if thorough { run_case(&mut cx, *v, code, sp.as_deref(), (i + 1 + i / nloc) % nloc); }
        }
    }
    cx.dist.insert("corpus_formats", corpus.len() as u64);

    // 2. every symbol sequence up to `all_len` (tie + placement oracle; full oracle when in the family);
    //    family members only up to `fam_len`
    let (all_len, fam_len, k_all, k_fam) = if thorough { (6, 8, 3, 6) } else { (5, 6, 3, 5) };
    let mut n_codes = 0u64;
    let mut n_family = 0u64;
    let mut counter = 0usize;
    for len in 1..=fam_len {
        let mut todo: Vec<Vec<Sym>> = vec![];
        enumerate(len, &mut |syms| {
            let sp = spec_sect(syms, 0);
            if len <= all_len || sp.is_some() { todo.push(syms.to_vec()); }
        });
        // long lengths: keep the work bounded by sampling the family members
        let cap = if thorough { 150_000 } else { 40_000 };
        let stride = (todo.len() / cap).max(1);
        for (j, syms) in todo.iter().enumerate() {
            if len > all_len && stride > 1 && j % stride != (a.seed as usize) % stride { continue; }
            counter += 1;
            let lit0 = counter % 9;
            let code = code_of(syms, lit0);
            let sp = spec_sect(syms, lit0).map(|s| vec![s]);
            n_codes += 1;
            if sp.is_some() { n_family += 1; }
            let k = if sp.is_some() { k_fam } else { k_all };
            for t in 0..k {
                let v = if t < 2 { fixed[(counter + t * 4) % fixed.len()] } else { *rng.pick(&vals) };
                run_case(&mut cx, v, &code, sp.as_deref(), (counter + t) % nloc);
            }
        }
    }
    cx.dist.insert("single_section_codes", n_codes);
    cx.dist.insert("single_section_codes_in_family", n_family);

    // 3. two (and a few three) sections: family members paired
    let mut fam: Vec<Vec<Sym>> = vec![];
    for len in 1..=4 { enumerate(len, &mut |syms| { if spec_sect(syms, 0).is_some() { fam.push(syms.to_vec()); } }); }
    let npairs = if thorough { 60_000 } else { 12_000 };
    for j in 0..npairs {
        let s1 = rng.pick(&fam).clone();
        let s2 = rng.pick(&fam).clone();
        let l1 = rng.below(9) as usize;
        let l2 = rng.below(9) as usize;
        let mut code = format!("{};{}", code_of(&s1, l1), code_of(&s2, l2));
        let mut sp = vec![spec_sect(&s1, l1).unwrap(), spec_sect(&s2, l2).unwrap()];
        if j % 7 == 0 {
            let s3 = rng.pick(&fam).clone();
            let l3 = rng.below(9) as usize;
            code = format!("{};{}", code, code_of(&s3, l3));
            sp.push(spec_sect(&s3, l3).unwrap());
        }
        for t in 0..6 {
            let v = match t { 0 => 0.0, 1 => -0.0, 2 => -(rng.pick(&vals).abs().max(1e-300)), _ => *rng.pick(&vals) };
            run_case(&mut cx, v, &code, Some(&sp), (j + t) % nloc);
        }
    }
    cx.dist.insert("multi_section_codes", npairs as u64);

    // 4. every locale on a block of family formats (thorough: every locale on every value)
    let nblock = if thorough { 3000 } else { 300 };
    for j in 0..nblock {
        let s1 = rng.pick(&fam).clone();
        let l1 = rng.below(9) as usize;
        let code = code_of(&s1, l1);
        let sp = vec![spec_sect(&s1, l1).unwrap()];
        for _ in 0..(if thorough { 12 } else { 4 }) {
            let v = *rng.pick(&vals);
            for li in 0..nloc { run_case(&mut cx, v, &code, Some(&sp), li); }
        }
        let _ = j;
    }

    // 5. the parser model on codes outside the number family too: dates, times, colours, conditions,
    //    currencies, General, text, illegal characters, many sections
    let pieces = ["0", "#", "?", ",", ".", "%", "E+", "E-", ";", "@", "General", "d", "ddd", "m", "mm", "mmm", "h", "hh", "s", "yy", "yyyy",
                  "AM/PM", ":", "[Red]", "[>100]", "[$\u{20ac}-407]", "\"t\"", "_x", "*x", "-", "x", "[h]", "[mm]", "E", "\\", "[Color 5]"];
    let plen = if thorough { 4 } else { 3 };
    let mut n_parser_extra = 0u64;
    for len in 1..=plen {
        let mut idx = vec![0usize; len];
        'outer: loop {
            let code: String = idx.iter().map(|i| pieces[*i]).collect();
            parser_case(&mut cx.cs, &code);
            n_parser_extra += 1;
            let mut i = len;
            loop {
                if i == 0 { break 'outer; }
                i -= 1;
                idx[i] += 1;
                if idx[i] < pieces.len() { break; }
                idx[i] = 0;
            }
        }
    }
    for _ in 0..(if thorough { 300_000 } else { 40_000 }) {
        let len = rng.range(4, 14) as usize;
        let code: String = (0..len).map(|_| *rng.pick(&pieces)).collect();
        parser_case(&mut cx.cs, &code);
        n_parser_extra += 1;
    }
    cx.dist.insert("parser_cases_extended_alphabet", n_parser_extra);

    let Ctx { cs, or, dist, seen, samples, .. } = cx;
    let nontrivial = seen.len() as u64;
    cs.finish(json!({
        "oracle_failures": or.failures, "oracle_checked": or.checked, "oracle_failures_per_class": or.per_class,
        "distribution": dist, "samples": samples, "distinct_nontrivial": nontrivial,
        "values": vals.len(), "locales": lnames,
        "exhaustive": true,
    }));
}
