//! C15 — moving rows or columns is a pure permutation.
//! (a) reference arithmetic: DisplaceData::RowMove/ColumnMove, deltas -4..4, vs Syntax/Displace.v;
//! (b) single and block moves on a real Model: where lines go (`cmap`, `blk`), what stored
//!     references become (`app`, `appb`), UserModel's hidden-line delta (`hid`) vs the model;
//!     property oracle: every cell/link/descriptor at block_move of its place, formulas rewritten,
//!     values kept; and move + opposite move = identity.
use serde_json::json;
use vh_displace_common::book::*;
use vh_displace_common::*;

/// the delta UserModel really uses (inclusive bound when moving down), per the statement of
/// the hidden-line clause; tied to the implementation by the `hid` cases
fn adjusted(hidden: &[i32], i: i32, n: i32, d: i32) -> i32 {
    if d > 0 { d + (i + n..=i + n + d).filter(|x| hidden.contains(x)).count() as i32 }
    else { d - (i + d..i).filter(|x| hidden.contains(x)).count() as i32 }
}

fn main() {
    let a = Args::parse();
    debug_hooks();
    let mut rng = Rng::new(a.seed);
    let mut cs = Cases::new(&a.out, "c15");
    let mut or = Oracle::default();
    let mut st = Stats::default();
    let deltas = [-4, -3, -2, -1, 1, 2, 3, 4];

    arith::window_cases(&mut cs, &mut st, &[K_RMV, K_CMV], &deltas, a.thorough);
    ops::cmap_window(&mut cs, &mut st, &[K_RMV, K_CMV], &deltas);
    ops::app_window(&mut cs, &mut st, &[K_RMV, K_CMV], if a.thorough { &deltas } else { &[-3, -1, 1, 2] }, a.thorough);
    ops::block_cases(&mut cs, &mut st, a.thorough);
    ops::hidden_cases(&mut cs, &mut st, &mut or, a.thorough);

    let mut scratch = Scratch::new();
    let nbooks = if a.thorough { 400 } else { 40 };
    let mut case = 0u64;
    for bi in 0..nbooks {
        let mut bk = gen_book(&mut rng, false);
        // hidden lines for the UserModel entry point
        if bi % 2 == 1 {
            for _ in 0..rng.range(1, 3) { bk.hidden_rows.push(rng.range(1, 12) as i32); bk.hidden_cols.push(rng.range(1, 10) as i32); }
        }
        // all block positions/sizes/offsets of a 9-line window, rotating through the workbooks
        let mut ops_list = vec![];
        for rows in [true, false] {
            for i in 1..=9 {
                for n in 1..=3 {
                    for d in -4..=4 {
                        if d == 0 || i + d < 1 { continue; }
                        if (i * 31 + n * 7 + (d + 4) + bi as i32) % (if a.thorough { 10 } else { 20 }) != 0 { continue; }
                        ops_list.push(if rows { Op::MoveRows(i, n, d) } else { Op::MoveCols(i, n, d) });
                    }
                }
            }
        }
        for op0 in ops_list {
            case += 1;
            let user = case % 2 == 0;
            let mut m = build(&bk);
            let before = dump(&m);
            let flaky = reevaluation_unstable(&mut m, &before);
            if !flaky.is_empty() { st.bump("books_with_values_changing_on_reevaluation"); }
            // UserModel enlarges the delta by the hidden lines of the landing zone
            let op = match (user, op0) {
                (true, Op::MoveRows(i, n, d)) => Op::MoveRows(i, n, adjusted(&bk.hidden_rows, i, n, d)),
                (true, Op::MoveCols(i, n, d)) => Op::MoveCols(i, n, adjusted(&bk.hidden_cols, i, n, d)),
                (_, o) => o,
            };
            let ctx = Ctx { prop: "C15", case, entry: if user { "UserModel" } else { "Model" }, op_text: format!("{:?} (requested {:?})", op, op0), book: &bk, flaky: &flaky };
            let (after, back) = if user {
                let mut u = ironcalc_base::UserModel::from_model(m);
                if let Err(e) = op0.apply_user(&mut u) { st.bump("op_refused"); st.sample(format!("refused {:?}: {e}", op0)); continue; }
                let after = dump(u.get_model());
                let back = match u.undo() { Ok(()) => Some(dump(u.get_model())), Err(_) => None };
                (after, back)
            } else {
                let mut m = m;
                if let Err(e) = op0.apply(&mut m) { st.bump("op_refused"); st.sample(format!("refused {:?}: {e}", op0)); continue; }
                m.evaluate();
                let after = dump(&m);
                let back = match op.inverse().unwrap().apply(&mut m) { Ok(()) => { m.evaluate(); Some(dump(&m)) } Err(_) => None };
                (after, back)
            };
            if splits_dynamic_array(&bk, &op) { st.bump("skipped_op_cuts_a_dynamic_array"); continue; }
            if splits_cse_array(&bk, &op) { or.fail("operation_cutting_a_cse_array_accepted", json!({"op": format!("{:?}", op), "workbook": book_json(&bk)}), "accepted".to_string()); continue; }
            st.bump("oracle_ops");
            check_relocation(&before, &after, &op, &ctx, &mut scratch, &mut or, &mut st);
            // move + opposite move (Model) / undo (UserModel) restores the dump
            match back {
                Some(b2) => {
                    let ctx2 = Ctx { prop: "C15", case, entry: ctx.entry, op_text: format!("{:?} then back", op), book: &bk, flaky: &flaky };
                    st.bump("oracle_roundtrips");
                    check_identity(&before, &b2, &op, &ctx2, &mut scratch, &mut or, &mut st);
                }
                None => or.fail("move_back_refused", json!({"op": format!("{:?}", op)}), "the opposite move / undo was refused".to_string()),
            }
        }
    }
    let distinct = st.distinct.len();
    cs.finish(json!({
        "distribution": st.counts, "samples": st.samples, "distinct_nontrivial": distinct,
        "oracle_checked": or.checked, "oracle_failures": or.failures, "oracle_failures_per_class": or.per_class,
    }));
}
