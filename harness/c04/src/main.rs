//! c04 — see harness/hist/src/driver.rs
fn main() {
    let a = vh_common::Args::parse();
    vh_hist::driver::run_c04(&a);
}
