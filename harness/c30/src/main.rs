//! C30 — styles are stored and read back faithfully.
//! Implementation side of the correspondence (the style pools `workbook.styles` under
//! `Model::set_cell_style` / `set_row_style` / `set_column_style`, i.e. get_style_index_or_create)
//! and the property oracle (read-back, stability of earlier assignments, no sharing).
//!
//! One case line = one history:  h <pools> <pre-existing cell index> <n> <n (target style)>
//!   target: 0 row col | 1 row 0 | 2 col 0
//!   pools : nf k (id code)*  fo k tok*  fi k tok*  bo k tok*  xf k (xf_id nf font fill border apply quote align+1)*
//!   style : align+1 num_fmt fill font border quote
//! Component values are tokens: non-negative = a PartialEq class, negative = a value that is not
//! equal to itself (NaN tint), never equal to anything.
//! Observation: per step the index the target now reads (through get_cell_style_index / the row record /
//! the column descriptor), the index the previous target reads now, a hash of the pools; then the final pools.
use ironcalc_base::number_format::{get_default_num_fmt_id, get_new_num_fmt_index, get_num_fmt};
use ironcalc_base::types::*;
use ironcalc_base::Model;
use serde_json::json;
use std::collections::HashMap;
use vh_common::*;

struct Toks<T> { v: Vec<T>, nan: HashMap<String, i64> }
impl<T: PartialEq + Clone + std::fmt::Debug> Toks<T> {
    fn new() -> Self { Toks { v: vec![], nan: HashMap::new() } }
    fn tok(&mut self, x: &T) -> i64 {
        #[allow(clippy::eq_op)]
        if x != x {
            let n = self.nan.len() as i64;
            return *self.nan.entry(format!("{:?}", x)).or_insert(-(n + 1));
        }
        if let Some(p) = self.v.iter().position(|y| y == x) { return p as i64; }
        self.v.push(x.clone());
        self.v.len() as i64 - 1
    }
}
struct T { fo: Toks<Font>, fi: Toks<Fill>, bo: Toks<Border>, al: Toks<Alignment> }

fn pools_ints(t: &mut T, s: &Styles, out: &mut Vec<i64>) {
    out.push(s.num_fmts.len() as i64);
    for nf in &s.num_fmts { out.push(nf.num_fmt_id as i64); out.push(nf.format_code.chars().count() as i64); for c in nf.format_code.chars() { out.push(c as i64); } }
    out.push(s.fonts.len() as i64); for f in &s.fonts { out.push(t.fo.tok(f)); }
    out.push(s.fills.len() as i64); for f in &s.fills { out.push(t.fi.tok(f)); }
    out.push(s.borders.len() as i64); for f in &s.borders { out.push(t.bo.tok(f)); }
    out.push(s.cell_xfs.len() as i64);
    for x in &s.cell_xfs {
        let apply = (x.apply_number_format as i64) | (x.apply_border as i64) << 1 | (x.apply_alignment as i64) << 2 | (x.apply_protection as i64) << 3 | (x.apply_font as i64) << 4 | (x.apply_fill as i64) << 5;
        out.extend_from_slice(&[x.xf_id as i64, x.num_fmt_id as i64, x.font_id as i64, x.fill_id as i64, x.border_id as i64, apply, x.quote_prefix as i64,
            x.alignment.as_ref().map(|a| t.al.tok(a) + 1).unwrap_or(0)]);
    }
}
fn pools_wire(t: &mut T, s: &Styles) -> String {
    let mut o = format!("nf {}", s.num_fmts.len());
    for nf in &s.num_fmts { o.push_str(&format!(" {} {}", nf.num_fmt_id, wire(&nf.format_code))); }
    o.push_str(&format!(" fo {}", s.fonts.len())); for f in &s.fonts { o.push_str(&format!(" {}", t.fo.tok(f))); }
    o.push_str(&format!(" fi {}", s.fills.len())); for f in &s.fills { o.push_str(&format!(" {}", t.fi.tok(f))); }
    o.push_str(&format!(" bo {}", s.borders.len())); for f in &s.borders { o.push_str(&format!(" {}", t.bo.tok(f))); }
    o.push_str(&format!(" xf {}", s.cell_xfs.len()));
    for x in &s.cell_xfs {
        let apply = (x.apply_number_format as i64) | (x.apply_border as i64) << 1 | (x.apply_alignment as i64) << 2 | (x.apply_protection as i64) << 3 | (x.apply_font as i64) << 4 | (x.apply_fill as i64) << 5;
        o.push_str(&format!(" {} {} {} {} {} {} {} {}", x.xf_id, x.num_fmt_id, x.font_id, x.fill_id, x.border_id, apply, x.quote_prefix as i64, x.alignment.as_ref().map(|a| t.al.tok(a) + 1).unwrap_or(0)));
    }
    o
}
fn style_wire(t: &mut T, s: &Style) -> String {
    format!("{} {} {} {} {} {}", s.alignment.as_ref().map(|a| t.al.tok(a) + 1).unwrap_or(0), wire(&s.num_fmt), t.fi.tok(&s.fill), t.fo.tok(&s.font), t.bo.tok(&s.border), s.quote_prefix as i64)
}
fn hash_ints(v: &[i64], mut h: u64) -> u64 {
    const MASK: u64 = (1u64 << 62) - 1;
    for &x in v { h = (h.wrapping_mul(1_000_003).wrapping_add((x + 1_000_000_007) as u64)) & MASK; }
    h
}

// ---- generators over the full attribute space ------------------------------------------------------
fn color(rng: &mut Rng, nan: bool) -> Color {
    match rng.below(10) {
        0 | 1 | 2 => Color::None,
        3 | 4 => Color::Rgb(rng.pick(&["#FF0000", "#00FF00", "#0000FF", "#000000", "#FFFFFF", "#ff0000", "#F0F0F0"]).to_string()),
        5 => Color::Rgb(format!("#{:06X}", rng.below(1 << 24))),
        6 => Color::Rgb(rng.pick(&["", "red", "#FFF", "FF0000", "#GGGGGG", "#FF0000FF"]).to_string()),
        _ => {
            let tint = if nan && rng.chance(1, 3) { f64::NAN } else { *rng.pick(&[0.0, -0.0, 0.5, -0.25, 1.0, -1.0, 0.1, 0.3999755851924192, 2.0]) };
            Color::Theme(rng.range(-1, 11) as i32, tint)
        }
    }
}
fn border_item(rng: &mut Rng, nan: bool) -> Option<BorderItem> {
    if rng.chance(2, 3) { return None; }
    let st = match rng.below(9) { 0 => BorderStyle::Thin, 1 => BorderStyle::Medium, 2 => BorderStyle::Thick, 3 => BorderStyle::Double, 4 => BorderStyle::Dotted, 5 => BorderStyle::SlantDashDot, 6 => BorderStyle::MediumDashed, 7 => BorderStyle::MediumDashDotDot, _ => BorderStyle::MediumDashDot };
    Some(BorderItem { style: st, color: color(rng, nan) })
}
const CUSTOM_FMTS: &[&str] = &["", "0.000", "#,##0.0", "yyyy-mm-dd", "dd/mm/yyyy", "[$€-2] #,##0.00", "General", "GENERAL", "general ", "0.00;[Red]-0.00", "\"x\"0", "@@", "0.0%", "h:mm:ss.000", "日付 yyyy", "😀0", "0 ", " 0"];
fn gen_style(rng: &mut Rng, builtins: &[String], nan: bool) -> Style {
    let mut s = Style::default();
    if rng.chance(1, 2) {
        let h = match rng.below(8) { 0 => HorizontalAlignment::Center, 1 => HorizontalAlignment::CenterContinuous, 2 => HorizontalAlignment::Distributed, 3 => HorizontalAlignment::Fill, 4 => HorizontalAlignment::General, 5 => HorizontalAlignment::Justify, 6 => HorizontalAlignment::Left, _ => HorizontalAlignment::Right };
        let v = match rng.below(5) { 0 => VerticalAlignment::Bottom, 1 => VerticalAlignment::Center, 2 => VerticalAlignment::Distributed, 3 => VerticalAlignment::Justify, _ => VerticalAlignment::Top };
        s.alignment = Some(Alignment { horizontal: h, vertical: v, wrap_text: rng.chance(1, 2) });
    }
    s.num_fmt = match rng.below(10) {
        0 | 1 | 2 => "general".to_string(),
        3 | 4 | 5 => rng.pick(builtins).clone(),            // custom formats equal to built-in codes, incl. ids 23-36
        6 | 7 | 8 => rng.pick(CUSTOM_FMTS).to_string(),
        _ => { let n = rng.below(6); (0..n).map(|_| *rng.pick(&['0', '#', '.', ',', 'y', 'm', '%', '"', ' ', 'é'])).collect() }
    };
    if rng.chance(1, 2) { s.fill = Fill { color: color(rng, nan) }; }
    if rng.chance(2, 3) {
        s.font = Font { strike: rng.chance(1, 4), u: rng.chance(1, 4), b: rng.chance(1, 3), i: rng.chance(1, 3), sz: *rng.pick(&[8, 10, 11, 12, 12, 14, 0, -1]),
            color: color(rng, nan), name: rng.pick(&["Inter", "Arial", "Calibri", "", "inter"]).to_string(), family: rng.range(0, 3) as i32,
            scheme: match rng.below(3) { 0 => FontScheme::Minor, 1 => FontScheme::Major, _ => FontScheme::None } };
    }
    if rng.chance(1, 3) {
        s.border = Border { diagonal_up: rng.chance(1, 5), diagonal_down: rng.chance(1, 5), left: border_item(rng, nan), right: border_item(rng, nan), top: border_item(rng, nan), bottom: border_item(rng, nan), diagonal: border_item(rng, nan) };
    }
    s.quote_prefix = rng.chance(1, 5);
    s
}

/// equality up to NaN != NaN (a NaN tint is read back as the same NaN)
fn same(a: &Style, b: &Style) -> bool { a == b || format!("{:?}", a) == format!("{:?}", b) }
fn same_opt(a: &Option<Style>, b: &Style) -> bool { a.as_ref().map(|x| same(x, b)).unwrap_or(false) }

#[derive(Clone, Copy, PartialEq, Eq, Hash, Debug)]
enum Target { Cell(i32, i32), Row(i32), Col(i32) }

fn read(m: &Model, t: Target) -> (Option<Style>, i64) {
    match t {
        Target::Cell(r, c) => (m.get_style_for_cell(0, r, c).ok(), m.get_cell_style_index(0, r, c).map(|x| x as i64).unwrap_or(-1)),
        Target::Row(r) => (m.get_row_style(0, r).ok().flatten(), m.workbook.worksheets[0].rows.iter().find(|x| x.r == r).map(|x| x.s as i64).unwrap_or(-1)),
        Target::Col(c) => (m.get_column_style(0, c).ok().flatten(), m.workbook.worksheets[0].get_column_style(c).ok().flatten().map(|x| x as i64).unwrap_or(-1)),
    }
}

/// classes of pools on which the implementation is known to misbehave (predicates on the input)
fn pool_defects(s: &Styles, nb: i32, builtins: &[String]) -> (bool, bool, bool) {
    let shadow = s.num_fmts.iter().any(|nf| nf.num_fmt_id < nb && (nf.num_fmt_id < 0 || builtins[nf.num_fmt_id as usize] != nf.format_code));
    let dangling = s.cell_xfs.iter().any(|x| x.num_fmt_id >= nb && !s.num_fmts.iter().any(|nf| nf.num_fmt_id == x.num_fmt_id));
    let mut ids: Vec<i32> = s.num_fmts.iter().map(|nf| nf.num_fmt_id).collect(); ids.sort(); let n = ids.len(); ids.dedup();
    (shadow, dangling, ids.len() != n)
}

fn main() {
    let a = Args::parse();
    let nb = get_new_num_fmt_index(&[]);
    let builtins: Vec<String> = (0..nb).map(|i| get_num_fmt(i, &[])).collect();
    if a.extra.first().map(|s| s.as_str()) == Some("tables") {
        std::fs::create_dir_all(&a.out).ok();
        std::fs::write(format!("{}/c30.tables.json", a.out), serde_json::to_string_pretty(&json!({"default_num_fmts": builtins})).unwrap()).unwrap();
        return;
    }
    let mut rng = Rng::new(a.seed);
    let mut cs = Cases::new(&a.out, "c30");
    let mut or = Oracle::default();
    let mut t = T { fo: Toks::new(), fi: Toks::new(), bo: Toks::new(), al: Toks::new() };
    let mut samples: Vec<String> = vec![];
    let (mut assignments, mut nan_styles, mut distinct, mut by_kind) = (0u64, 0u64, 0u64, [0u64; 3]);
    let (mut n_wf, mut n_shadow, mut n_dangling, mut n_dup) = (0u64, 0u64, 0u64, 0u64);

    // ---- the built-in table: every code -> id -> the same code; ids 23..36 -----------------------------
    for (i, code) in builtins.iter().enumerate() {
        or.checked += 1;
        match get_default_num_fmt_id(code) {
            Some(j) if &get_num_fmt(j, &[]) == code => {}
            other => or.fail("builtin_format_roundtrip", json!({"id": i, "code": code}), format!("get_default_num_fmt_id = {:?}", other)),
        }
    }

    let nhist = if a.thorough { 1500 } else { 60 };
    for hix in 0..nhist {
        // ---- initial pools ---------------------------------------------------------------------------
        let mut m = Model::new_empty("c30", "en", "UTC", "en").unwrap();
        let kind = if hix < 3 { hix } else if hix < 5 { 2 } else { rng.below(10) };
        let mut triggers: Vec<Style> = vec![];
        let with_nan = rng.chance(1, 6);
        match kind {
            0 | 3 | 4 | 5 => {}                                   // the pools of a new workbook
            1 | 6 | 7 => {                                        // imported-like pools: custom formats with gaps, extra components, named styles
                let st = &mut m.workbook.styles;
                for (id, code) in [(164, "yyyy-mm-dd"), (50, "0.000"), (52, "#,##0.0"), (165, "general "), (51, "0.000")] { if rng.chance(3, 4) { st.num_fmts.push(NumFmt { num_fmt_id: id, format_code: code.to_string() }); } }
                if rng.chance(1, 2) { st.num_fmts.push(NumFmt { num_fmt_id: 14, format_code: builtins[14].clone() }); }   // a built-in id defined with its own code
                for _ in 0..rng.below(4) { let s = gen_style(&mut rng, &builtins, false); st.fonts.push(s.font); st.fills.push(s.fill); st.borders.push(s.border); }
                for k in 0..rng.below(3) { let s = gen_style(&mut rng, &builtins, false); let _ = st.create_named_style(&format!("named{k}"), &s, StyleIncludes::default()); }
                for _ in 0..rng.below(4) { let s = gen_style(&mut rng, &builtins, false); st.create_new_style(&s); }
            }
            2 | 8 => {                                            // pools outside wf_styles: what goes wrong is reported by class
                let st = &mut m.workbook.styles;
                match if (2..5).contains(&hix) { hix - 2 } else { rng.below(3) } {
                    0 => { st.num_fmts.push(NumFmt { num_fmt_id: 14, format_code: "dd/mm/yyyy".to_string() });
                           triggers.push(Style { num_fmt: builtins[14].clone(), ..Default::default() }); }
                    1 => { st.cell_xfs.push(CellXfs { num_fmt_id: nb + rng.below(3) as i32, ..Default::default() });
                           triggers.push(Style { num_fmt: "0.0000".to_string(), ..Default::default() }); }
                    _ => { st.num_fmts.push(NumFmt { num_fmt_id: 60, format_code: "aaa".to_string() }); st.num_fmts.push(NumFmt { num_fmt_id: 60, format_code: "bbb".to_string() });
                           triggers.push(Style { num_fmt: "bbb".to_string(), ..Default::default() }); }
                }
            }
            _ => {                                                // a workbook that already went through a history
                for _ in 0..rng.below(12) { let s = gen_style(&mut rng, &builtins, false); m.workbook.styles.create_new_style(&s); }
            }
        }
        let (shadow, dangling, dup) = pool_defects(&m.workbook.styles, nb, &builtins);
        if shadow { n_shadow += 1 } else if dangling { n_dangling += 1 } else if dup { n_dup += 1 } else { n_wf += 1 }
        // a pre-existing cell that uses the last record of the initial pools (stability is observed on it)
        let pre_idx = m.workbook.styles.cell_xfs.len() as i32 - 1;
        m.workbook.worksheets[0].set_cell_style(1000, 1, pre_idx).unwrap();
        let pre_style = m.get_style_for_cell(0, 1000, 1).ok();

        let init = pools_wire(&mut t, &m.workbook.styles);
        // ---- the history -------------------------------------------------------------------------------
        let n = if a.thorough { rng.range(10, 60) } else { rng.range(20, 50) } as usize;
        let mut pool: Vec<Style> = triggers.clone();
        let mut line = format!("h {} {} {}", init, pre_idx, n);
        let mut prev: Option<Target> = None;
        let mut obs: Vec<String> = vec![];
        let mut last: Vec<(Target, Style)> = vec![];
        for _ in 0..n {
            // re-use an earlier style half of the time (dedup path), sometimes a one-attribute variation
            let s = if !pool.is_empty() && rng.chance(2, 5) { pool[rng.below(pool.len() as u64) as usize].clone() }
                    else if !pool.is_empty() && rng.chance(1, 3) { let mut s = pool[rng.below(pool.len() as u64) as usize].clone(); match rng.below(5) { 0 => s.quote_prefix = !s.quote_prefix, 1 => s.font.b = !s.font.b, 2 => s.num_fmt = rng.pick(&builtins).clone(), 3 => s.alignment = None, _ => s.fill = Fill { color: color(&mut rng, with_nan) } }; s }
                    else { gen_style(&mut rng, &builtins, with_nan) };
            #[allow(clippy::eq_op)]
            if s != s { nan_styles += 1; }
            if !pool.iter().any(|p| same(p, &s)) { pool.push(s.clone()); distinct += 1; }
            let tg = match rng.below(4) { 0 => Target::Row(rng.range(1, 30) as i32), 1 => Target::Col(rng.range(1, 30) as i32), _ => Target::Cell(rng.range(1, 40) as i32, rng.range(1, 20) as i32) };
            by_kind[match tg { Target::Cell(..) => 0, Target::Row(_) => 1, Target::Col(_) => 2 }] += 1;
            line.push_str(&match tg { Target::Cell(r, c) => format!(" 0 {r} {c}"), Target::Row(r) => format!(" 1 {r} 0"), Target::Col(c) => format!(" 2 {c} 0") });
            line.push(' '); line.push_str(&style_wire(&mut t, &s));
            let res = match tg {
                Target::Cell(r, c) => m.set_cell_style(0, r, c, &s),
                Target::Row(r) => m.set_row_style(0, r, &s),
                Target::Col(c) => m.set_column_style(0, c, &s),
            };
            assignments += 1;
            let (back, idx) = read(&m, tg);
            let mut pi = vec![]; pools_ints(&mut t, &m.workbook.styles, &mut pi);
            let pidx = prev.map(|p| read(&m, p).1).unwrap_or(-2);
            prev = Some(tg);
            obs.push(format!("{} {} {}", idx, pidx, hash_ints(&pi, 0)));
            // ---- oracle 1: read-back -------------------------------------------------------------------
            or.checked += 1;
            if res.is_err() || !same_opt(&back, &s) {
                let is_shadowed = m.workbook.styles.num_fmts.iter().any(|nf| nf.num_fmt_id < nb && nf.num_fmt_id >= 0 && builtins[nf.num_fmt_id as usize] == s.num_fmt && nf.format_code != s.num_fmt);
                let is_dup = { let ids: Vec<i32> = m.workbook.styles.num_fmts.iter().filter(|nf| nf.format_code == s.num_fmt).map(|nf| nf.num_fmt_id).collect();
                               ids.first().map(|id| m.workbook.styles.num_fmts.iter().find(|nf| nf.num_fmt_id == *id).map(|nf| nf.format_code != s.num_fmt).unwrap_or(false)).unwrap_or(false) };
                let class = if is_shadowed && back.as_ref().map(|b| b.num_fmt != s.num_fmt).unwrap_or(false) { "numfmt_builtin_id_shadowed_by_workbook_format".to_string() }
                            else if is_dup { "numfmt_duplicate_workbook_id".to_string() }
                            else { format!("readback:{}", match tg { Target::Cell(..) => "cell", Target::Row(_) => "row", Target::Col(_) => "column" }) };
                or.fail(&class, json!({"initial_pools": init, "target": format!("{:?}", tg), "style": serde_json::to_value(&s).unwrap_or(json!(format!("{:?}", s)))}),
                    format!("read back {:?}", back.map(|b| format!("{:?}", b))));
            }
            last.retain(|(x, _)| *x != tg);
            last.push((tg, s));
        }
        // ---- oracle 2: stability — every target still reads the last style assigned to it ------------
        for (tg, s) in &last {
            or.checked += 1;
            let (back, _) = read(&m, *tg);
            if !same_opt(&back, s) {
                or.fail(if shadow { "numfmt_builtin_id_shadowed_by_workbook_format" } else if dup { "numfmt_duplicate_workbook_id" } else { "stability" }, json!({"initial_pools": init, "target": format!("{:?}", tg)}), format!("expected {:?} read {:?}", s, back));
            }
        }
        or.checked += 1;
        let now = m.get_style_for_cell(0, 1000, 1).ok();
        if now != pre_style && !(now.is_some() && pre_style.is_some() && same(now.as_ref().unwrap(), pre_style.as_ref().unwrap())) {
            let class = if dangling { "numfmt_dangling_id_captured_by_new_format" } else { "stability:pre_existing_cell" };
            or.fail(class, json!({"initial_pools": init, "cell": "R1000C1", "index": pre_idx}), format!("a cell styled before the history read {:?} and now reads {:?}", pre_style.map(|s| s.num_fmt), now.map(|s| s.num_fmt)));
        }
        // ---- oracle 3: no sharing — different styles never share an index ------------------------------
        for i in 0..last.len() {
            for j in (i + 1)..last.len() {
                or.checked += 1;
                if !same(&last[i].1, &last[j].1) {
                    let (ia, ib) = (read(&m, last[i].0).1, read(&m, last[j].0).1);
                    if ia == ib { or.fail(if shadow { "numfmt_builtin_id_shadowed_by_workbook_format" } else if dup { "numfmt_duplicate_workbook_id" } else { "sharing" }, json!({"initial_pools": init, "a": format!("{:?}", last[i].0), "b": format!("{:?}", last[j].0)}), format!("both have style index {ia}")); }
                }
            }
        }
        let fin = pools_wire(&mut t, &m.workbook.styles);
        let o = format!("{} | {}", obs.join(" "), fin);
        if samples.len() < 4 { samples.push(format!("{} -> {}", &line[..line.len().min(300)], &o[..o.len().min(200)])); }
        cs.case(&line, &o);
    }
    cs.finish(json!({
        "distribution": {"histories": nhist, "assignments": assignments, "cells": by_kind[0], "rows": by_kind[1], "columns": by_kind[2], "distinct_styles": distinct,
            "styles_with_nan_tint": nan_styles, "initial_pools_well_formed": n_wf, "initial_pools_shadowing_builtin_id": n_shadow, "initial_pools_dangling_id": n_dangling, "initial_pools_duplicate_id": n_dup,
            "builtin_formats": builtins.len(), "font_tokens": t.fo.v.len(), "fill_tokens": t.fi.v.len(), "border_tokens": t.bo.v.len(), "alignment_tokens": t.al.v.len()},
        "assignments": assignments,
        "distinct_nontrivial": distinct,
        "oracle_checked": or.checked,
        "oracle_failures": or.failures,
        "oracle_failures_per_class": or.per_class,
        "samples": samples,
    }));
}
