//! C30 — styles are stored and read back faithfully.
//! Implementation side of the correspondence (the style pools `workbook.styles` under
//! `Model::set_cell_style` / `set_row_style` / `set_column_style`, i.e. get_style_index_or_create)
//! and the property oracle (read-back, stability of earlier assignments, no sharing).
//!
//! One case line = one history:  h <pools> <pre-existing cell index> <n> <n (target style)>
//!   target: 0 row col | 1 row 0 | 2 col 0
//!   pools : nf k (id code)*  fo k tok*  fi k tok*  bo k tok*  xf k (xf_id nf font fill border apply quote align+1)*
//!   style : align+1 num_fmt fill font border quote
//! Component values are tokens: non-negative = a PartialEq class, negative = a value that is not
//! equal to itself (NaN tint), never equal to anything.
//! Observation: per step the index the target now reads (through get_cell_style_index / the row record /
//! the column descriptor), the index the previous target reads now, a hash of the pools; then the final pools.
use ironcalc_base::number_format::{get_default_num_fmt_id, get_new_num_fmt_index, get_num_fmt};
use ironcalc_base::types::*;
use ironcalc_base::Model;
use serde_json::json;
use std::collections::HashMap;
use vh_common::*;

struct Toks<T> { v: Vec<T>, nan: HashMap<String, i64> }
impl<T: PartialEq + Clone + std::fmt::Debug> Toks<T> {
    fn new() -> Self { Toks { v: vec![], nan: HashMap::new() } }
    fn tok(&mut self, x: &T) -> i64 {
        #[allow(clippy::eq_op)]
        if x != x {
            let n = self.nan.len() as i64;
            return *self.nan.entry(format!("{:?}", x)).or_insert(-(n + 1));
        }
        if let Some(p) = self.v.iter().position(|y| y == x) { return p as i64; }
        self.v.push(x.clone());
        self.v.len() as i64 - 1
    }
}
struct T { fo: Toks<Font>, fi: Toks<Fill>, bo: Toks<Border>, al: Toks<Alignment> }

fn pools_ints(t: &mut T, s: &Styles, out: &mut Vec<i64>) {
    out.push(s.num_fmts.len() as i64);
    for nf in &s.num_fmts { out.push(nf.num_fmt_id as i64); out.push(nf.format_code.chars().count() as i64); for c in nf.format_code.chars() { out.push(c as i64); } }
    out.push(s.fonts.len() as i64); for f in &s.fonts { out.push(t.fo.tok(f)); }
    out.push(s.fills.len() as i64); for f in &s.fills { out.push(t.fi.tok(f)); }
    out.push(s.borders.len() as i64); for f in &s.borders { out.push(t.bo.tok(f)); }
    out.push(s.cell_xfs.len() as i64);
    for x in &s.cell_xfs {
        let apply = (x.apply_number_format as i64) | (x.apply_border as i64) << 1 | (x.apply_alignment as i64) << 2 | (x.apply_protection as i64) << 3 | (x.apply_font as i64) << 4 | (x.apply_fill as i64) << 5;
        out.extend_from_slice(&[x.xf_id as i64, x.num_fmt_id as i64, x.font_id as i64, x.fill_id as i64, x.border_id as i64, apply, x.quote_prefix as i64,
            x.alignment.as_ref().map(|a| t.al.tok(a) + 1).unwrap_or(0)]);
    }
}
fn pools_wire(t: &mut T, s: &Styles) -> String {
    let mut o = format!("nf {}", s.num_fmts.len());
    for nf in &s.num_fmts { o.push_str(&format!(" {} {}", nf.num_fmt_id, wire(&nf.format_code))); }
    o.push_str(&format!(" fo {}", s.fonts.len())); for f in &s.fonts { o.push_str(&format!(" {}", t.fo.tok(f))); }
    o.push_str(&format!(" fi {}", s.fills.len())); for f in &s.fills { o.push_str(&format!(" {}", t.fi.tok(f))); }
    o.push_str(&format!(" bo {}", s.borders.len())); for f in &s.borders { o.push_str(&format!(" {}", t.bo.tok(f))); }
    o.push_str(&format!(" xf {}", s.cell_xfs.len()));
    for x in &s.cell_xfs {
        let apply = (x.apply_number_format as i64) | (x.apply_border as i64) << 1 | (x.apply_alignment as i64) << 2 | (x.apply_protection as i64) << 3 | (x.apply_font as i64) << 4 | (x.apply_fill as i64) << 5;
        o.push_str(&format!(" {} {} {} {} {} {} {} {}", x.xf_id, x.num_fmt_id, x.font_id, x.fill_id, x.border_id, apply, x.quote_prefix as i64, x.alignment.as_ref().map(|a| t.al.tok(a) + 1).unwrap_or(0)));
    }
    o
}
fn style_wire(t: &mut T, s: &Style) -> String {
    format!("{} {} {} {} {} {}", s.alignment.as_ref().map(|a| t.al.tok(a) + 1).unwrap_or(0), wire(&s.num_fmt), t.fi.tok(&s.fill), t.fo.tok(&s.font), t.bo.tok(&s.border), s.quote_prefix as i64)
}
fn hash_ints(v: &[i64], mut h: u64) -> u64 {
    const MASK: u64 = (1u64 << 62) - 1;
    for &x in v { h = (h.wrapping_mul(1_000_003).wrapping_add((x + 1_000_000_007) as u64)) & MASK; }
    h
}

// ---- generators over the full attribute space ------------------------------------------------------
fn color(rng: &mut Rng, nan: bool) -> Color {
    match rng.below(10) {
        0 | 1 | 2 => Color::None,
        3 | 4 => Color::Rgb(rng.pick(&["#FF0000", "#00FF00", "#0000FF", "#000000", "#FFFFFF", "#ff0000", "#F0F0F0"]).to_string()),
        5 => Color::Rgb(format!("#{:06X}", rng.below(1 << 24))),
        6 => Color::Rgb(rng.pick(&["", "red", "#FFF", "FF0000", "#GGGGGG", "#FF0000FF"]).to_string()),
        _ => {
            let tint = if nan && rng.chance(1, 3) { f64::NAN } else { *rng.pick(&[0.0, -0.0, 0.5, -0.25, 1.0, -1.0, 0.1, 0.3999755851924192, 2.0]) };
            Color::Theme(rng.range(-1, 11) as i32, tint)
        }
    }
}
fn border_item(rng: &mut Rng, nan: bool) -> Option<BorderItem> {
    if rng.chance(2, 3) { return None; }
    let st = match rng.below(9) { 0 => BorderStyle::Thin, 1 => BorderStyle::Medium, 2 => BorderStyle::Thick, 3 => BorderStyle::Double, 4 => BorderStyle::Dotted, 5 => BorderStyle::SlantDashDot, 6 => BorderStyle::MediumDashed, 7 => BorderStyle::MediumDashDotDot, _ => BorderStyle::MediumDashDot };
    Some(BorderItem { style: st, color: color(rng, nan) })
}
const CUSTOM_FMTS: &[&str] = &["", "0.000", "#,##0.0", "yyyy-mm-dd", "dd/mm/yyyy", "[$€-2] #,##0.00", "General", "GENERAL", "general ", "0.00;[Red]-0.00", "\"x\"0", "@@", "0.0%", "h:mm:ss.000", "日付 yyyy", "😀0", "0 ", " 0"];
fn gen_style(rng: &mut Rng, builtins: &[String], nan: bool) -> Style {
    let mut s = Style::default();
    if rng.chance(1, 2) {
        let h = match rng.below(8) { 0 => HorizontalAlignment::Center, 1 => HorizontalAlignment::CenterContinuous, 2 => HorizontalAlignment::Distributed, 3 => HorizontalAlignment::Fill, 4 => HorizontalAlignment::General, 5 => HorizontalAlignment::Justify, 6 => HorizontalAlignment::Left, _ => HorizontalAlignment::Right };
        let v = match rng.below(5) { 0 => VerticalAlignment::Bottom, 1 => VerticalAlignment::Center, 2 => VerticalAlignment::Distributed, 3 => VerticalAlignment::Justify, _ => VerticalAlignment::Top };
        s.alignment = Some(Alignment { horizontal: h, vertical: v, wrap_text: rng.chance(1, 2) });
    }
    s.num_fmt = match rng.below(10) {
        0 | 1 | 2 => "general".to_string(),
        3 | 4 | 5 => rng.pick(builtins).clone(),            // custom formats equal to built-in codes, incl. ids 23-36
        6 | 7 | 8 => rng.pick(CUSTOM_FMTS).to_string(),
        _ => { let n = rng.below(6); (0..n).map(|_| *rng.pick(&['0', '#', '.', ',', 'y', 'm', '%', '"', ' ', 'é'])).collect() }
    };
    if rng.chance(1, 2) { s.fill = Fill { color: color(rng, nan) }; }
    if rng.chance(2, 3) {
        s.font = Font { strike: rng.chance(1, 4), u: rng.chance(1, 4), b: rng.chance(1, 3), i: rng.chance(1, 3), sz: *rng.pick(&[8, 10, 11, 12, 12, 14, 0, -1]),
            color: color(rng, nan), name: rng.pick(&["Inter", "Arial", "Calibri", "", "inter"]).to_string(), family: rng.range(0, 3) as i32,
            scheme: match rng.below(3) { 0 => FontScheme::Minor, 1 => FontScheme::Major, _ => FontScheme::None } };
    }
    if rng.chance(1, 3) {
        s.border = Border { diagonal_up: rng.chance(1, 5), diagonal_down: rng.chance(1, 5), left: border_item(rng, nan), right: border_item(rng, nan), top: border_item(rng, nan), bottom: border_item(rng, nan), diagonal: border_item(rng, nan) };
    }
    s.quote_prefix = rng.chance(1, 5);
    s
}

/// equality up to NaN != NaN (a NaN tint is read back as the same NaN)
fn same(a: &Style, b: &Style) -> bool { a == b || format!("{:?}", a) == format!("{:?}", b) }
fn same_opt(a: &Option<Style>, b: &Style) -> bool { a.as_ref().map(|x| same(x, b)).unwrap_or(false) }

#[derive(Clone, Copy, PartialEq, Eq, Hash, Debug)]
enum Target { Cell(i32, i32), Row(i32), Col(i32) }

fn read(m: &Model, t: Target) -> (Option<Style>, i64) {
    match t {
        Target::Cell(r, c) => (m.get_style_for_cell(0, r, c).ok(), m.get_cell_style_index(0, r, c).map(|x| x as i64).unwrap_or(-1)),
        Target::Row(r) => (m.get_row_style(0, r).ok().flatten(), m.workbook.worksheets[0].rows.iter().find(|x| x.r == r).map(|x| x.s as i64).unwrap_or(-1)),
        Target::Col(c) => (m.get_column_style(0, c).ok().flatten(), m.workbook.worksheets[0].get_column_style(c).ok().flatten().map(|x| x as i64).unwrap_or(-1)),
    }
}

/// classes of pools on which the implementation is known to misbehave (predicates on the input)
fn pool_defects(s: &Styles, nb: i32, builtins: &[String]) -> (bool, bool, bool) {
    let shadow = s.num_fmts.iter().any(|nf| nf.num_fmt_id < nb && (nf.num_fmt_id < 0 || builtins[nf.num_fmt_id as usize] != nf.format_code));
    let dangling = s.cell_xfs.iter().any(|x| x.num_fmt_id >= nb && !s.num_fmts.iter().any(|nf| nf.num_fmt_id == x.num_fmt_id));
    let mut ids: Vec<i32> = s.num_fmts.iter().map(|nf| nf.num_fmt_id).collect(); ids.sort(); let n = ids.len(); ids.dedup();
    (shadow, dangling, ids.len() != n)
}

// ---- the style layer: every order of row / column attribute operations before a styled read-back ----
// line:  L R C  cells n (r c i)*  rows n (r height cf ch s hidden)*  cols n (min max width custom hidden style+1)*
//        ops n (kind a b)*  probes n (r c)*
// kinds: 0 cell-style r c i (b packs c*10+i) | 1 row style r i | 2 column style c i | 3 row height r h | 4 row hidden r b
//        | 5 delete row style r | 6 column width c w | 7 column hidden c b | 8 delete column style c
// observation per op: ok, then per probe get_cell_style_index and get_cell_style_or_none+1, then
// get_row_style(R)+1 and get_column_style(C)+1
#[derive(Clone, Copy, PartialEq, Debug)]
struct LOp { kind: u8, a: i32, b: i64 }
const LNAME: [&str; 9] = ["set_cell_style", "set_row_style", "set_column_style", "set_row_height", "set_row_hidden", "delete_row_style", "set_column_width", "set_column_hidden", "delete_column_style"];

struct LayerCase<'a> { cells: &'a [(i32, i32, i32)], rows: &'a [Row], cols: &'a [Col], r: i32, c: i32, probes: &'a [(i32, i32)] }

fn layer_styles() -> Vec<Style> {
    let mut s1 = Style::default(); s1.font.b = true;
    let mut s2 = Style::default(); s2.font.i = true; s2.num_fmt = "0.00".to_string();
    vec![Style::default(), s1, s2]
}

fn layer_model(lc: &LayerCase) -> Model<'static> {
    let styles = layer_styles();
    let mut m = Model::new_empty("c30l", "en", "UTC", "en").unwrap();
    for (k, s) in styles.iter().enumerate().skip(1) { assert_eq!(m.workbook.styles.create_new_style(s) as usize, k); }
    // occupied cells: a value typed into the cell, then (when not 0) a style of its own
    for &(r, c, i) in lc.cells {
        m.set_user_input(0, r, c, "x".to_string()).unwrap();
        if i != 0 { m.set_cell_style(0, r, c, &styles[i as usize]).unwrap(); }
    }
    m.workbook.worksheets[0].rows = lc.rows.to_vec();
    m.workbook.worksheets[0].cols = lc.cols.to_vec();
    m
}

fn run_layer(m: &mut Model, pristine: &Worksheet, lc: &LayerCase, ops: &[LOp], cs: &mut Cases, or: &mut Oracle, oracle_on: bool) {
    let styles = layer_styles();
    m.workbook.worksheets[0] = pristine.clone();
    let sidx = |s: &Style| styles.iter().position(|x| x == s).map(|p| p as i64).unwrap_or(-9);
    // reference reading of the property: the last explicit style assignment to the row / column counts
    let mut row_assigned: Option<i64> = lc.rows.iter().find(|x| x.r == lc.r).and_then(|x| if x.custom_format { Some(x.s as i64) } else { None });
    let mut col_assigned: std::collections::HashMap<i32, Option<i64>> = Default::default();
    let col_initial = |c: i32| lc.cols.iter().find(|d| d.min <= c && c <= d.max).and_then(|d| d.style.map(|x| x as i64));
    let mut own: std::collections::HashMap<(i32, i32), i64> = lc.cells.iter().map(|&(r, c, i)| ((r, c), i as i64)).collect();
    let mut line = format!("L {} {} cells {}", lc.r, lc.c, lc.cells.len());
    for &(r, c, i) in lc.cells { line.push_str(&format!(" {r} {c} {i}")); }
    line.push_str(&format!(" rows {}", lc.rows.len()));
    for x in lc.rows { line.push_str(&format!(" {} {} {} {} {} {}", x.r, x.height as i64, x.custom_format as i64, x.custom_height as i64, x.s, x.hidden as i64)); }
    line.push_str(&format!(" cols {}", lc.cols.len()));
    for d in lc.cols { line.push_str(&format!(" {} {} {} {} {} {}", d.min, d.max, d.width as i64, d.custom_width as i64, d.hidden as i64, d.style.map(|x| x + 1).unwrap_or(0))); }
    line.push_str(&format!(" ops {}", ops.len()));
    for o in ops { line.push_str(&format!(" {} {} {}", o.kind, o.a, o.b)); }
    line.push_str(&format!(" probes {}", lc.probes.len()));
    for &(r, c) in lc.probes { line.push_str(&format!(" {r} {c}")); }
    let mut obs: Vec<String> = vec![];
    for (n, o) in ops.iter().enumerate() {
        let res = match o.kind {
            0 => m.set_cell_style(0, o.a, (o.b / 10) as i32, &styles[(o.b % 10) as usize]),
            1 => m.set_row_style(0, o.a, &styles[o.b as usize]),
            2 => m.set_column_style(0, o.a, &styles[o.b as usize]),
            3 => m.set_row_height(0, o.a, o.b as f64),
            4 => m.set_row_hidden(0, o.a, o.b != 0),
            5 => m.delete_row_style(0, o.a),
            6 => m.set_column_width(0, o.a, o.b as f64),
            7 => m.set_column_hidden(0, o.a, o.b != 0),
            _ => m.delete_column_style(0, o.a),
        };
        if res.is_ok() {
            match o.kind {
                0 => { own.insert((o.a, (o.b / 10) as i32), o.b % 10); }
                1 if o.a == lc.r => row_assigned = Some(o.b),
                5 if o.a == lc.r => row_assigned = None,
                2 => { col_assigned.insert(o.a, Some(o.b)); }
                8 => { col_assigned.insert(o.a, None); }
                _ => {}
            }
        }
        obs.push(format!("{}", res.is_ok() as i64));
        for &(r, c) in lc.probes {
            let idx = m.get_cell_style_index(0, r, c).map(|x| x as i64).unwrap_or(-1);
            let cell_own = match m.get_cell_style_or_none(0, r, c) { Ok(Some(s)) => sidx(&s) + 1, Ok(None) => 0, Err(_) => -1 };
            obs.push(format!("{} {}", idx, cell_own));
            if oracle_on && n + 1 == ops.len() {
                // ---- oracle: the style read through the cell getters -----------------------------------
                or.checked += 1;
                let col_style = col_assigned.get(&c).cloned().unwrap_or_else(|| col_initial(c));
                let expect = if let Some(&i) = own.get(&(r, c)) { i }
                             else if r == lc.r && row_assigned.is_some() { row_assigned.unwrap() }
                             else { col_style.unwrap_or(0) };
                let got = m.get_style_for_cell(0, r, c).map(|s| sidx(&s)).unwrap_or(-1);
                let exp_own = own.get(&(r, c)).map(|i| i + 1).unwrap_or(0);
                if got != expect || cell_own != exp_own {
                    let class = if got != expect && own.get(&(r, c)).is_none() && r == lc.r && row_assigned == Some(0) && col_style.unwrap_or(0) != 0 && got == col_style.unwrap_or(0) {
                        "row_default_style_falls_through_to_column_style".to_string()
                    } else { format!("layer:{}:{}", LNAME[o.kind as usize], if own.contains_key(&(r, c)) { "occupied_cell" } else { "empty_cell" }) };
                    or.fail(&class, json!({"case": line, "probe": [r, c]}), format!("get_style_for_cell reads style {got}, expected {expect}; get_cell_style_or_none reads {cell_own}, expected {exp_own}"));
                }
            }
        }
        let raw = match m.get_row_style(0, lc.r) { Ok(Some(s)) => sidx(&s) + 1, Ok(None) => 0, Err(_) => -1 };
        let cst = match m.get_column_style(0, lc.c) { Ok(Some(s)) => sidx(&s) + 1, Ok(None) => 0, Err(_) => -1 };
        obs.push(format!("{} {}", raw, cst));
        if oracle_on && n + 1 == ops.len() {
            or.checked += 1;
            if o.kind == 1 && o.a == lc.r && res.is_ok() && raw != o.b + 1 { or.fail("layer:set_row_style:get_row_style", json!({"case": line}), format!("get_row_style reads {raw}, expected {}", o.b + 1)); }
            if o.kind == 2 && o.a == lc.c && res.is_ok() && cst != o.b + 1 { or.fail("layer:set_column_style:get_column_style", json!({"case": line}), format!("get_column_style reads {cst}, expected {}", o.b + 1)); }
        }
    }
    cs.case(&line, &obs.join(" "));
}

fn layer_sweep(cs: &mut Cases, or: &mut Oracle, thorough: bool) -> u64 {
    let (r, c) = (3, 4);
    let cells = [(3, 2, 0), (3, 5, 2), (9, 4, 0), (9, 6, 1)];
    let probes = [(3, 7), (3, 2), (3, 5), (3, 4), (8, 4), (9, 4), (9, 6), (8, 7)];
    let row_ops = [LOp { kind: 3, a: r, b: 50 }, LOp { kind: 4, a: r, b: 1 }, LOp { kind: 4, a: r, b: 0 }, LOp { kind: 1, a: r, b: 1 }, LOp { kind: 5, a: r, b: 0 }, LOp { kind: 1, a: r, b: 0 }, LOp { kind: 1, a: r, b: 2 }];
    let col_ops = [LOp { kind: 6, a: c, b: 45 }, LOp { kind: 7, a: c, b: 1 }, LOp { kind: 7, a: c, b: 0 }, LOp { kind: 2, a: c, b: 1 }, LOp { kind: 8, a: c, b: 0 }, LOp { kind: 2, a: c, b: 0 }, LOp { kind: 2, a: c, b: 2 }];
    let layouts: Vec<(Vec<Row>, Vec<Col>)> = vec![
        (vec![], vec![]),
        // imported-like: the row carries s without custom_format, the column lies inside a styled 5-column descriptor
        (vec![Row { r: 3, height: 32.0, custom_format: false, custom_height: true, s: 2, hidden: false }],
         vec![Col { min: 2, max: 6, width: 5.0, custom_width: true, hidden: false, style: Some(1) }]),
        // a styled hidden row over a hidden unstyled column
        (vec![Row { r: 3, height: 16.0, custom_format: true, custom_height: false, s: 1, hidden: true }],
         vec![Col { min: 4, max: 4, width: 10.0, custom_width: false, hidden: true, style: None }]),
    ];
    let mut n = 0u64;
    fn rec(depth: usize, alpha: &[LOp], ops: &mut Vec<LOp>, f: &mut dyn FnMut(&[LOp])) {
        if !ops.is_empty() { f(ops); }
        if depth == 0 { return; }
        for &o in alpha { ops.push(o); rec(depth - 1, alpha, ops, f); ops.pop(); }
    }
    for (rows, cols) in &layouts {
        let lc = LayerCase { cells: &cells, rows, cols, r, c, probes: &probes };
        let mut m = layer_model(&lc);
        let pristine = m.workbook.worksheets[0].clone();
        // every sequence of up to 4 (thorough 5) row operations; every one of up to 4 (5) column operations:
        // each sequence is a case and its LAST operation is read back through all getters, so every
        // pair / triple of operations precedes every styled read-back
        let d = if thorough { 5 } else { 4 };
        rec(d, &row_ops, &mut vec![], &mut |ops| { run_layer(&mut m, &pristine, &lc, ops, cs, or, true); n += 1; });
        rec(d, &col_ops, &mut vec![], &mut |ops| { run_layer(&mut m, &pristine, &lc, ops, cs, or, true); n += 1; });
        // rows and columns interleaved, plus a cell of the row / column getting its own style
        let mut mixed: Vec<LOp> = row_ops.iter().chain(col_ops.iter()).cloned().collect();
        mixed.push(LOp { kind: 0, a: 3, b: 71 }); mixed.push(LOp { kind: 0, a: 8, b: 42 });
        rec(if thorough { 4 } else { 3 }, &mixed, &mut vec![], &mut |ops| { run_layer(&mut m, &pristine, &lc, ops, cs, or, true); n += 1; });
    }
    n
}

fn main() {
    let a = Args::parse();
    let nb = get_new_num_fmt_index(&[]);
    let builtins: Vec<String> = (0..nb).map(|i| get_num_fmt(i, &[])).collect();
    if a.extra.first().map(|s| s.as_str()) == Some("tables") {
        std::fs::create_dir_all(&a.out).ok();
        std::fs::write(format!("{}/c30.tables.json", a.out), serde_json::to_string_pretty(&json!({"default_num_fmts": builtins})).unwrap()).unwrap();
        return;
    }
    let mut rng = Rng::new(a.seed);
    let mut cs = Cases::new(&a.out, "c30");
    let mut or = Oracle::default();
    let mut t = T { fo: Toks::new(), fi: Toks::new(), bo: Toks::new(), al: Toks::new() };
    let mut samples: Vec<String> = vec![];
    let (mut assignments, mut nan_styles, mut distinct, mut by_kind) = (0u64, 0u64, 0u64, [0u64; 3]);
    let (mut n_wf, mut n_shadow, mut n_dangling, mut n_dup) = (0u64, 0u64, 0u64, 0u64);

    // ---- the built-in table: every code -> id -> the same code; ids 23..36 -----------------------------
    for (i, code) in builtins.iter().enumerate() {
        or.checked += 1;
        match get_default_num_fmt_id(code) {
            Some(j) if &get_num_fmt(j, &[]) == code => {}
            other => or.fail("builtin_format_roundtrip", json!({"id": i, "code": code}), format!("get_default_num_fmt_id = {:?}", other)),
        }
    }

    let layer_cases = layer_sweep(&mut cs, &mut or, a.thorough);

    let nhist = if a.thorough { 1500 } else { 60 };
    for hix in 0..nhist {
        // ---- initial pools ---------------------------------------------------------------------------
        let mut m = Model::new_empty("c30", "en", "UTC", "en").unwrap();
        let kind = if hix < 3 { hix } else if hix < 5 { 2 } else { rng.below(10) };
        let mut triggers: Vec<Style> = vec![];
        let with_nan = rng.chance(1, 6);
        match kind {
            0 | 3 | 4 | 5 => {}                                   // the pools of a new workbook
            1 | 6 | 7 => {                                        // imported-like pools: custom formats with gaps, extra components, named styles
                let st = &mut m.workbook.styles;
                for (id, code) in [(164, "yyyy-mm-dd"), (50, "0.000"), (52, "#,##0.0"), (165, "general "), (51, "0.000")] { if rng.chance(3, 4) { st.num_fmts.push(NumFmt { num_fmt_id: id, format_code: code.to_string() }); } }
                if rng.chance(1, 2) { st.num_fmts.push(NumFmt { num_fmt_id: 14, format_code: builtins[14].clone() }); }   // a built-in id defined with its own code
                for _ in 0..rng.below(4) { let s = gen_style(&mut rng, &builtins, false); st.fonts.push(s.font); st.fills.push(s.fill); st.borders.push(s.border); }
                for k in 0..rng.below(3) { let s = gen_style(&mut rng, &builtins, false); let _ = st.create_named_style(&format!("named{k}"), &s, StyleIncludes::default()); }
                for _ in 0..rng.below(4) { let s = gen_style(&mut rng, &builtins, false); st.create_new_style(&s); }
            }
            2 | 8 => {                                            // pools outside wf_styles: what goes wrong is reported by class
                let st = &mut m.workbook.styles;
                match if (2..5).contains(&hix) { hix - 2 } else { rng.below(3) } {
                    0 => { st.num_fmts.push(NumFmt { num_fmt_id: 14, format_code: "dd/mm/yyyy".to_string() });
                           triggers.push(Style { num_fmt: builtins[14].clone(), ..Default::default() }); }
                    1 => { st.cell_xfs.push(CellXfs { num_fmt_id: nb + rng.below(3) as i32, ..Default::default() });
                           triggers.push(Style { num_fmt: "0.0000".to_string(), ..Default::default() }); }
                    _ => { st.num_fmts.push(NumFmt { num_fmt_id: 60, format_code: "aaa".to_string() }); st.num_fmts.push(NumFmt { num_fmt_id: 60, format_code: "bbb".to_string() });
                           triggers.push(Style { num_fmt: "bbb".to_string(), ..Default::default() }); }
                }
            }
            _ => {                                                // a workbook that already went through a history
                for _ in 0..rng.below(12) { let s = gen_style(&mut rng, &builtins, false); m.workbook.styles.create_new_style(&s); }
            }
        }
        let (shadow, dangling, dup) = pool_defects(&m.workbook.styles, nb, &builtins);
        if shadow { n_shadow += 1 } else if dangling { n_dangling += 1 } else if dup { n_dup += 1 } else { n_wf += 1 }
        // a pre-existing cell that uses the last record of the initial pools (stability is observed on it)
        let pre_idx = m.workbook.styles.cell_xfs.len() as i32 - 1;
        m.workbook.worksheets[0].set_cell_style(1000, 1, pre_idx).unwrap();
        let pre_style = m.get_style_for_cell(0, 1000, 1).ok();

        let init = pools_wire(&mut t, &m.workbook.styles);
        // ---- the history -------------------------------------------------------------------------------
        let n = if a.thorough { rng.range(10, 60) } else { rng.range(20, 50) } as usize;
        let mut pool: Vec<Style> = triggers.clone();
        let mut line = format!("h {} {} {}", init, pre_idx, n);
        let mut prev: Option<Target> = None;
        let mut obs: Vec<String> = vec![];
        let mut last: Vec<(Target, Style)> = vec![];
        for _ in 0..n {
            // re-use an earlier style half of the time (dedup path), sometimes a one-attribute variation
            let s = if !pool.is_empty() && rng.chance(2, 5) { pool[rng.below(pool.len() as u64) as usize].clone() }
                    else if !pool.is_empty() && rng.chance(1, 3) { let mut s = pool[rng.below(pool.len() as u64) as usize].clone(); match rng.below(5) { 0 => s.quote_prefix = !s.quote_prefix, 1 => s.font.b = !s.font.b, 2 => s.num_fmt = rng.pick(&builtins).clone(), 3 => s.alignment = None, _ => s.fill = Fill { color: color(&mut rng, with_nan) } }; s }
                    else { gen_style(&mut rng, &builtins, with_nan) };
            #[allow(clippy::eq_op)]
            if s != s { nan_styles += 1; }
            if !pool.iter().any(|p| same(p, &s)) { pool.push(s.clone()); distinct += 1; }
            let tg = match rng.below(4) { 0 => Target::Row(rng.range(1, 30) as i32), 1 => Target::Col(rng.range(1, 30) as i32), _ => Target::Cell(rng.range(1, 40) as i32, rng.range(1, 20) as i32) };
            by_kind[match tg { Target::Cell(..) => 0, Target::Row(_) => 1, Target::Col(_) => 2 }] += 1;
            line.push_str(&match tg { Target::Cell(r, c) => format!(" 0 {r} {c}"), Target::Row(r) => format!(" 1 {r} 0"), Target::Col(c) => format!(" 2 {c} 0") });
            line.push(' '); line.push_str(&style_wire(&mut t, &s));
            let res = match tg {
                Target::Cell(r, c) => m.set_cell_style(0, r, c, &s),
                Target::Row(r) => m.set_row_style(0, r, &s),
                Target::Col(c) => m.set_column_style(0, c, &s),
            };
            assignments += 1;
            let (back, idx) = read(&m, tg);
            let mut pi = vec![]; pools_ints(&mut t, &m.workbook.styles, &mut pi);
            let pidx = prev.map(|p| read(&m, p).1).unwrap_or(-2);
            prev = Some(tg);
            obs.push(format!("{} {} {}", idx, pidx, hash_ints(&pi, 0)));
            // ---- oracle 1: read-back -------------------------------------------------------------------
            or.checked += 1;
            if res.is_err() || !same_opt(&back, &s) {
                let is_shadowed = m.workbook.styles.num_fmts.iter().any(|nf| nf.num_fmt_id < nb && nf.num_fmt_id >= 0 && builtins[nf.num_fmt_id as usize] == s.num_fmt && nf.format_code != s.num_fmt);
                let is_dup = { let ids: Vec<i32> = m.workbook.styles.num_fmts.iter().filter(|nf| nf.format_code == s.num_fmt).map(|nf| nf.num_fmt_id).collect();
                               ids.first().map(|id| m.workbook.styles.num_fmts.iter().find(|nf| nf.num_fmt_id == *id).map(|nf| nf.format_code != s.num_fmt).unwrap_or(false)).unwrap_or(false) };
                let class = if is_shadowed && back.as_ref().map(|b| b.num_fmt != s.num_fmt).unwrap_or(false) { "numfmt_builtin_id_shadowed_by_workbook_format".to_string() }
                            else if is_dup { "numfmt_duplicate_workbook_id".to_string() }
                            else { format!("readback:{}", match tg { Target::Cell(..) => "cell", Target::Row(_) => "row", Target::Col(_) => "column" }) };
                or.fail(&class, json!({"initial_pools": init, "target": format!("{:?}", tg), "style": serde_json::to_value(&s).unwrap_or(json!(format!("{:?}", s)))}),
                    format!("read back {:?}", back.map(|b| format!("{:?}", b))));
            }
            last.retain(|(x, _)| *x != tg);
            last.push((tg, s));
        }
        // ---- oracle 2: stability — every target still reads the last style assigned to it ------------
        for (tg, s) in &last {
            or.checked += 1;
            let (back, _) = read(&m, *tg);
            if !same_opt(&back, s) {
                or.fail(if shadow { "numfmt_builtin_id_shadowed_by_workbook_format" } else if dup { "numfmt_duplicate_workbook_id" } else { "stability" }, json!({"initial_pools": init, "target": format!("{:?}", tg)}), format!("expected {:?} read {:?}", s, back));
            }
        }
        or.checked += 1;
        let now = m.get_style_for_cell(0, 1000, 1).ok();
        if now != pre_style && !(now.is_some() && pre_style.is_some() && same(now.as_ref().unwrap(), pre_style.as_ref().unwrap())) {
            let class = if dangling { "numfmt_dangling_id_captured_by_new_format" } else { "stability:pre_existing_cell" };
            or.fail(class, json!({"initial_pools": init, "cell": "R1000C1", "index": pre_idx}), format!("a cell styled before the history read {:?} and now reads {:?}", pre_style.map(|s| s.num_fmt), now.map(|s| s.num_fmt)));
        }
        // ---- oracle 3: no sharing — different styles never share an index ------------------------------
        for i in 0..last.len() {
            for j in (i + 1)..last.len() {
                or.checked += 1;
                if !same(&last[i].1, &last[j].1) {
                    let (ia, ib) = (read(&m, last[i].0).1, read(&m, last[j].0).1);
                    if ia == ib { or.fail(if shadow { "numfmt_builtin_id_shadowed_by_workbook_format" } else if dup { "numfmt_duplicate_workbook_id" } else { "sharing" }, json!({"initial_pools": init, "a": format!("{:?}", last[i].0), "b": format!("{:?}", last[j].0)}), format!("both have style index {ia}")); }
                }
            }
        }
        let fin = pools_wire(&mut t, &m.workbook.styles);
        let o = format!("{} | {}", obs.join(" "), fin);
        if samples.len() < 4 { samples.push(format!("{} -> {}", &line[..line.len().min(300)], &o[..o.len().min(200)])); }
        cs.case(&line, &o);
    }
    cs.finish(json!({
        "distribution": {"layer_order_cases": layer_cases, "histories": nhist, "assignments": assignments, "cells": by_kind[0], "rows": by_kind[1], "columns": by_kind[2], "distinct_styles": distinct,
            "styles_with_nan_tint": nan_styles, "initial_pools_well_formed": n_wf, "initial_pools_shadowing_builtin_id": n_shadow, "initial_pools_dangling_id": n_dangling, "initial_pools_duplicate_id": n_dup,
            "builtin_formats": builtins.len(), "font_tokens": t.fo.v.len(), "fill_tokens": t.fi.v.len(), "border_tokens": t.bo.v.len(), "alignment_tokens": t.al.v.len()},
        "assignments": assignments,
        "distinct_nontrivial": distinct,
        "oracle_checked": or.checked,
        "oracle_failures": or.failures,
        "oracle_failures_per_class": or.per_class,
        "samples": samples,
    }));
}
