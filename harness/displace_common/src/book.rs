//! Workbook pool, canonical dump and the property oracles of C12–C15.
//! The expectations (`Op::map_line`, `expected_formula`) are written from the property
//! statements, independently of the Coq model and of the implementation.
use crate::*;
use ironcalc_base::types::{Cell, Link, Style};
use ironcalc_base::{Model, UserModel};
use serde_json::json;
use std::collections::{BTreeMap, BTreeSet, HashMap};

// ------------------------------------------------------------------------------------------
#[derive(Clone, Copy, Debug, PartialEq)]
pub enum Op {
    InsRows(i32, i32),
    InsCols(i32, i32),
    DelRows(i32, i32),
    DelCols(i32, i32),
    MoveRows(i32, i32, i32),
    MoveCols(i32, i32, i32),
}

impl Op {
    pub fn rowwise(&self) -> bool { matches!(self, Op::InsRows(..) | Op::DelRows(..) | Op::MoveRows(..)) }
    pub fn is_move(&self) -> bool { matches!(self, Op::MoveRows(..) | Op::MoveCols(..)) }
    pub fn last(&self) -> i32 { if self.rowwise() { LAST_ROW } else { LAST_COLUMN } }
    /// where a line goes according to the property statement; None = deleted
    pub fn map_line(&self, x: i32) -> Option<i32> {
        match *self {
            Op::InsRows(at, k) | Op::InsCols(at, k) => Some(if x >= at { x + k } else { x }),
            Op::DelRows(at, k) | Op::DelCols(at, k) => {
                if x < at { Some(x) } else if x < at + k { None } else { Some(x - k) }
            }
            Op::MoveRows(i, n, d) | Op::MoveCols(i, n, d) => Some(
                if x >= i && x < i + n { x + d }
                else if d > 0 && x >= i + n && x < i + n + d { x - n }
                else if d < 0 && x >= i + d && x < i { x + n }
                else { x },
            ),
        }
    }
    pub fn cell_map(&self, p: (i32, i32)) -> Option<(i32, i32)> {
        if self.rowwise() { self.map_line(p.0).map(|r| (r, p.1)) } else { self.map_line(p.1).map(|c| (p.0, c)) }
    }
    /// is the line relocated by re-typing its cells (move_cell / set_user_input)?
    pub fn retyped_line(&self, x: i32) -> bool {
        match *self {
            Op::InsRows(at, _) | Op::InsCols(at, _) => x >= at,
            Op::DelRows(at, k) | Op::DelCols(at, k) => x >= at + k,
            Op::MoveRows(i, n, d) | Op::MoveCols(i, n, d) => self.map_line(x) != Some(x) || (x >= i && x < i + n && d != 0),
        }
    }
    pub fn retyped(&self, p: (i32, i32)) -> bool { self.retyped_line(if self.rowwise() { p.0 } else { p.1 }) }
    /// region of a line for moves: 0 block, 1 band, 2 outside
    fn region(&self, x: i32) -> i32 {
        match *self {
            Op::MoveRows(i, n, d) | Op::MoveCols(i, n, d) => {
                if x >= i && x < i + n { 0 }
                else if (d > 0 && x >= i + n && x < i + n + d) || (d < 0 && x >= i + d && x < i) { 1 }
                else if x < i.min(i + d) { 2 } else { 3 }
            }
            _ => 2,
        }
    }
    pub fn apply(&self, m: &mut Model) -> Result<(), String> {
        match *self {
            Op::InsRows(at, k) => m.insert_rows(0, at, k),
            Op::InsCols(at, k) => m.insert_columns(0, at, k),
            Op::DelRows(at, k) => m.delete_rows(0, at, k),
            Op::DelCols(at, k) => m.delete_columns(0, at, k),
            Op::MoveRows(i, n, d) => m.move_rows_action(0, i, n, d),
            Op::MoveCols(i, n, d) => m.move_columns_action(0, i, n, d),
        }
    }
    pub fn apply_user(&self, u: &mut UserModel) -> Result<(), String> {
        match *self {
            Op::InsRows(at, k) => u.insert_rows(0, at, k),
            Op::InsCols(at, k) => u.insert_columns(0, at, k),
            Op::DelRows(at, k) => u.delete_rows(0, at, k),
            Op::DelCols(at, k) => u.delete_columns(0, at, k),
            Op::MoveRows(i, n, d) => u.move_rows_action(0, i, n, d),
            Op::MoveCols(i, n, d) => u.move_columns_action(0, i, n, d),
        }
    }
    pub fn inverse(&self) -> Option<Op> {
        match *self {
            Op::InsRows(at, k) => Some(Op::DelRows(at, k)),
            Op::InsCols(at, k) => Some(Op::DelCols(at, k)),
            Op::MoveRows(i, n, d) => Some(Op::MoveRows(i + d, n, -d)),
            Op::MoveCols(i, n, d) => Some(Op::MoveCols(i + d, n, -d)),
            _ => None,
        }
    }
}

// ------------------------------------------------------------------------------------------
// formulas the generator writes: a token list it can render itself
#[derive(Clone, Debug)]
pub enum Tok {
    S(&'static str),
    Ref { sh: u32, r: i32, c: i32, ar: bool, ac: bool },
    /// kind 0: A1:B2, kind 1: A:C (all rows), kind 2: 2:5 (all columns)
    Rng { sh: u32, r1: i32, c1: i32, r2: i32, c2: i32, abs: [bool; 4], kind: u8 },
}
#[derive(Clone, Debug)]
pub struct Formula { pub toks: Vec<Tok>, pub pos_dep: bool, pub blank_sens: bool }

fn colname(c: i32) -> String { ironcalc_base::expressions::utils::number_to_column(c).unwrap_or_else(|| "?".to_string()) }
fn a1(r: i32, c: i32, ar: bool, ac: bool) -> String {
    format!("{}{}{}{}", if ac { "$" } else { "" }, colname(c), if ar { "$" } else { "" }, r)
}
fn prefix(sh: u32, home: u32) -> String { if sh != home { format!("Sheet{}!", sh + 1) } else { String::new() } }

pub fn render(f: &Formula, home: u32) -> String {
    let mut s = "=".to_string();
    for t in &f.toks {
        match t {
            Tok::S(x) => s.push_str(x),
            Tok::Ref { sh, r, c, ar, ac } => { s.push_str(&prefix(*sh, home)); s.push_str(&a1(*r, *c, *ar, *ac)); }
            Tok::Rng { sh, r1, c1, r2, c2, abs, kind } => {
                s.push_str(&prefix(*sh, home));
                match kind {
                    0 => s.push_str(&format!("{}:{}", a1(*r1, *c1, abs[0], abs[1]), a1(*r2, *c2, abs[2], abs[3]))),
                    1 => s.push_str(&format!("{}{}:{}{}", if abs[1] { "$" } else { "" }, colname(*c1), if abs[3] { "$" } else { "" }, colname(*c2))),
                    _ => s.push_str(&format!("{}{}:{}{}", if abs[0] { "$" } else { "" }, r1, if abs[2] { "$" } else { "" }, r2)),
                }
            }
        }
    }
    s
}

pub struct Expect { pub text: String, pub has_ref_error: bool, pub row_overflow: bool, pub unspecified: bool, pub reads_deleted: bool }

/// the formula text the property statement asks for after `op` on sheet 0
pub fn expected_formula(f: &Formula, home: u32, op: &Op) -> Expect {
    let mut e = Expect { text: "=".to_string(), has_ref_error: false, row_overflow: false, unspecified: false, reads_deleted: false };
    let rowwise = op.rowwise();
    for t in &f.toks {
        match t {
            Tok::S(x) => e.text.push_str(x),
            Tok::Ref { sh, r, c, ar, ac } => {
                if *sh != 0 { e.text.push_str(&prefix(*sh, home)); e.text.push_str(&a1(*r, *c, *ar, *ac)); continue; }
                match op.cell_map((*r, *c)) {
                    None => { e.text.push_str("#REF!"); e.has_ref_error = true; e.reads_deleted = true; }
                    Some((r2, c2)) => {
                        if r2 > LAST_ROW || c2 > LAST_COLUMN || r2 < 1 || c2 < 1 {
                            e.text.push_str("#REF!"); e.has_ref_error = true;
                            if r2 > LAST_ROW { e.row_overflow = true; }
                        } else {
                            e.text.push_str(&prefix(*sh, home)); e.text.push_str(&a1(r2, c2, *ar, *ac));
                        }
                    }
                }
            }
            Tok::Rng { sh, r1, c1, r2, c2, abs, kind } => {
                if *sh != 0 {
                    let keep = Formula { toks: vec![t.clone()], pos_dep: false, blank_sens: false };
                    e.text.push_str(&render(&keep, home)[1..]); continue;
                }
                // which corners does the operation act on?
                let exempt = (*kind == 1 && rowwise) || (*kind == 2 && !rowwise);
                let (l1, l2) = if rowwise { (*r1, *r2) } else { (*c1, *c2) };
                let (m1, m2) = if exempt { (Some(l1), Some(l2)) } else { (op.map_line(l1), op.map_line(l2)) };
                if exempt {
                    // an all-rows / all-columns range covers the deleted band whatever its other extent
                    if let Op::DelRows(..) | Op::DelCols(..) = *op { e.reads_deleted = true; }
                }
                if !exempt {
                    if op.is_move() && (op.region(l1) != op.region(l2)) { e.unspecified = true; }
                    if let Op::DelRows(at, k) | Op::DelCols(at, k) = *op { if l1 < at + k && l2 >= at { e.reads_deleted = true; } }
                }
                let last = op.last();
                let corner = |m: Option<i32>, other_r: i32, other_c: i32, ar: bool, ac: bool, e: &mut Expect| -> Option<String> {
                    match m {
                        None => { e.has_ref_error = true; None }
                        Some(x) if x > last || x < 1 => { e.has_ref_error = true; if rowwise { e.row_overflow = true; } None }
                        Some(x) => {
                            let (r, c) = if rowwise { (x, other_c) } else { (other_r, x) };
                            Some(match kind {
                                0 => a1(r, c, ar, ac),
                                1 => format!("{}{}", if ac { "$" } else { "" }, colname(c)),
                                _ => format!("{}{}", if ar { "$" } else { "" }, r),
                            })
                        }
                    }
                };
                let s1 = corner(m1, *r1, *c1, abs[0], abs[1], &mut e);
                let s2 = corner(m2, *r2, *c2, abs[2], abs[3], &mut e);
                // the sheet prefix belongs to the first corner
                match s1 { Some(x) => { e.text.push_str(&prefix(*sh, home)); e.text.push_str(&x); } None => e.text.push_str("#REF!") }
                e.text.push(':');
                match s2 { Some(x) => e.text.push_str(&x), None => e.text.push_str("#REF!") }
            }
        }
    }
    e
}

/// the cells of sheet 0 a formula reads directly (ranges clipped to a window)
fn reads(f: &Formula) -> Vec<(u32, i32, i32)> {
    let mut v = vec![];
    for t in &f.toks {
        match t {
            Tok::Ref { sh, r, c, .. } => v.push((*sh, *r, *c)),
            Tok::Rng { sh, r1, c1, r2, c2, kind, .. } => {
                let (ra, rb) = if *kind == 1 { (1, 40) } else { ((*r1).min(*r2), (*r1).max(*r2).min((*r1).min(*r2) + 60)) };
                let (ca, cb) = if *kind == 2 { (1, 40) } else { ((*c1).min(*c2), (*c1).max(*c2).min((*c1).min(*c2) + 60)) };
                for r in ra..=rb { for c in ca..=cb { v.push((*sh, r, c)); } }
            }
            _ => {}
        }
    }
    v
}

// ------------------------------------------------------------------------------------------
// canonical dump
#[derive(Clone, PartialEq, Debug)]
pub struct CellDump { pub kind: &'static str, pub content: String, pub value: String, pub style: String, pub quote_prefix: bool, pub display: String,
                      /// "" for ordinary cells, "cse WxH" / "dynamic WxH" for the anchor of an array formula
                      pub shape: String }
#[derive(Clone, PartialEq, Debug, Default)]
pub struct SheetDump {
    pub cells: BTreeMap<(i32, i32), CellDump>,
    pub links: BTreeMap<(i32, i32), String>,
    pub rows: BTreeMap<i32, String>,
    pub cols: Vec<String>,
}
pub const COLW: i32 = 40;

fn style_str(st: &Style) -> String { serde_json::to_string(st).unwrap_or_default() }

pub fn dump_sheet(m: &Model, sh: u32) -> SheetDump {
    let ws = m.workbook.worksheet(sh).unwrap();
    let mut d = SheetDump::default();
    let language = ironcalc_base::language::get_language("en").unwrap();
    let locale = ironcalc_base::locale::get_locale("en").unwrap();
    for (r, rowd) in &ws.sheet_data {
        for (c, cell) in rowd {
            let style = m.get_style_for_cell(sh, *r, *c).unwrap();
            let display = cell.get_localized_text(&m.workbook.shared_strings, locale, language);
            let (kind, content, value) = match cell {
                Cell::EmptyCell { .. } => ("empty", String::new(), String::new()),
                Cell::BooleanCell { v, .. } => ("bool", v.to_string(), String::new()),
                Cell::NumberCell { v, .. } => ("number", format!("{:016x} {}", v.to_bits(), v), String::new()),
                Cell::ErrorCell { ei, .. } => ("error", format!("{:?}", ei), String::new()),
                Cell::SharedString { si, .. } => ("string", m.workbook.shared_strings[*si as usize].clone(), String::new()),
                Cell::CellFormula { .. } | Cell::ArrayFormula { .. } => (
                    "formula",
                    m.get_cell_formula(sh, *r, *c).unwrap().unwrap_or_default(),
                    format!("{:?}:{}:{}", cell.get_type(), m.get_formatted_cell_value(sh, *r, *c).unwrap_or_default(), display),
                ),
                // a spill cell is described by its place inside its array (offset from the anchor) and its value
                Cell::SpillCell { a, .. } => ("spill", format!("{},{}", *r - a.0, *c - a.1), m.get_formatted_cell_value(sh, *r, *c).unwrap_or_default()),
            };
            let shape = match cell {
                Cell::ArrayFormula { r: (w, h), kind, .. } => format!("{} {}x{}", if *kind == ironcalc_base::types::ArrayKind::Cse { "cse" } else { "dynamic" }, w, h),
                _ => String::new(),
            };
            d.cells.insert((*r, *c), CellDump { kind, content, value, quote_prefix: style.quote_prefix, style: style_str(&style), display, shape });
        }
    }
    for (k, l) in &ws.links {
        d.links.insert(*k, match l {
            Link::External { target, tooltip } => format!("ext {target} {:?}", tooltip),
            Link::Internal { location, tooltip } => format!("int {location} {:?}", tooltip),
        });
    }
    for r in &ws.rows {
        let st = match m.get_row_style(sh, r.r) { Ok(Some(s)) => style_str(&s), Ok(None) => "-".to_string(), Err(e) => format!("badstyle {e}") };
        d.rows.insert(r.r, format!("h={} ch={} cf={} hidden={} style={}", r.height, r.custom_height, r.custom_format, r.hidden, st));
    }
    for c in 1..=COLW {
        let w = ws.get_column_width(c).unwrap_or(-1.0);
        let h = ws.is_column_hidden(c).unwrap_or(false);
        let s = match m.get_column_style(sh, c) { Ok(Some(s)) => style_str(&s), Ok(None) => "-".to_string(), Err(e) => format!("badstyle {e}") };
        d.cols.push(format!("w={w} hidden={h} style={s}"));
    }
    d
}
pub fn dump(m: &Model) -> Vec<SheetDump> { vec![dump_sheet(m, 0), dump_sheet(m, 1)] }

/// formula cells whose value changes when the untouched workbook is merely evaluated once
/// more (an evaluation-order matter, property C07): no edit can be blamed for their changes
pub fn reevaluation_unstable(m: &mut Model, before: &[SheetDump]) -> BTreeSet<(u32, i32, i32)> {
    m.evaluate();
    let again = dump(m);
    let mut out = BTreeSet::new();
    for sh in 0..2usize {
        for (p, c) in &before[sh].cells {
            if again[sh].cells.get(p).map(|x| &x.value) != Some(&c.value) { out.insert((sh as u32, p.0, p.1)); }
        }
    }
    out
}

// ------------------------------------------------------------------------------------------
// the engine's own answer to "what does typing this text produce" (C18's question), on a
// scratch model: the content clause of C12–C15 reduces to it
pub struct Scratch { m: Model<'static>, cache: HashMap<String, (String, bool)> }
impl Scratch {
    pub fn new() -> Scratch { Scratch { m: Model::new_empty("s", "en", "UTC", "en").unwrap(), cache: HashMap::new() } }
    /// (kind+content of the cell typing `text` produces, does it attach a link)
    pub fn retype(&mut self, text: &str) -> (String, bool) {
        if let Some(x) = self.cache.get(text) { return x.clone(); }
        let _ = self.m.set_user_input(0, 1, 1, String::new());
        self.m.workbook.worksheets[0].links.clear();
        let _ = self.m.set_cell_style(0, 1, 1, &Style::default());
        let _ = self.m.set_user_input(0, 1, 1, text.to_string());
        let d = dump_sheet(&self.m, 0);
        let k = d.cells.get(&(1, 1)).map(|c| format!("{} {}", c.kind, c.content)).unwrap_or_else(|| "none".to_string());
        let linked = !d.links.is_empty();
        self.cache.insert(text.to_string(), (k.clone(), linked));
        (k, linked)
    }
    /// is the literal cell reproduced by typing its display text?
    pub fn stable(&mut self, c: &CellDump) -> bool {
        if c.kind == "formula" || c.kind == "empty" || c.kind == "spill" { return true; }   // array anchors are "formula"
        let (k, _) = self.retype(&c.display);
        k == format!("{} {}", c.kind, c.content)
    }
    pub fn autolinks(&mut self, c: &CellDump) -> bool {
        c.kind == "string" && !c.quote_prefix && self.retype(&c.display).1
    }
}

// ------------------------------------------------------------------------------------------
// workbook pool
pub struct Book { pub inputs: Vec<(u32, i32, i32, String)>, pub forms: HashMap<(u32, i32, i32), Formula>,
                  pub styles: Vec<(u32, i32, i32, u8)>, pub links: Vec<(i32, i32, String)>,
                  pub row_attrs: Vec<(i32, u8)>, pub col_attrs: Vec<(i32, i32, u8)>, pub hidden_rows: Vec<i32>, pub hidden_cols: Vec<i32>,
                  pub arrays: Vec<Arr> }

/// an array formula on sheet 0: anchor (r, c), declared/expected extent w x h, CSE or dynamic
#[derive(Clone, Debug)]
pub struct Arr { pub r: i32, pub c: i32, pub w: i32, pub h: i32, pub cse: bool, pub text: String }
impl Book {
    pub fn empty() -> Book { Book { inputs: vec![], forms: HashMap::new(), styles: vec![], links: vec![], row_attrs: vec![], col_attrs: vec![], hidden_rows: vec![], hidden_cols: vec![], arrays: vec![] } }
}
impl Arr {
    pub fn block(&self) -> Vec<(i32, i32)> { let mut v = vec![]; for r in self.r..self.r + self.h { for c in self.c..self.c + self.w { v.push((r, c)); } } v }
}

pub const LITERALS: &[&str] = &[
    "42", "-7.5", "1e3", "0.30000000000000004", "123456789.123456789", "5%", "$3.5", "2024-01-05", "12:30",
    "TRUE", "false", "#N/A", "#DIV/0!", "hello", "a b", "x", "'123", "'=1+1", "'TRUE", "'abc", "'#N/A", "'2024-01-05",
    "'0.5", "http://a.b", "www.example.com", "me@example.com", "https://x.org/p?q=1", "3", "0", "-1", "1.5", "text with 'quote",
];

fn style_variant(v: u8) -> Style {
    let mut s = Style::default();
    match v % 5 {
        0 => s.font.b = true,
        1 => s.num_fmt = "0.00".to_string(),
        2 => s.font.i = true,
        3 => { s.font.b = true; s.num_fmt = "#,##0".to_string(); }
        _ => s.font.u = true,
    }
    s
}

pub fn gen_book(rng: &mut Rng, edge_refs: bool) -> Book {
    let mut bk = Book { inputs: vec![], forms: HashMap::new(), styles: vec![], links: vec![], row_attrs: vec![], col_attrs: vec![], hidden_rows: vec![], hidden_cols: vec![], arrays: vec![] };
    let (h, w) = (10, 8);
    let gen_ref = |rng: &mut Rng, sh: u32, edge: bool| -> Tok {
        let (r, c) = if edge && rng.chance(1, 2) {
            if rng.chance(1, 2) { (LAST_ROW - rng.range(0, 6) as i32, rng.range(1, 9) as i32) } else { (rng.range(1, 12) as i32, LAST_COLUMN - rng.range(0, 6) as i32) }
        } else { (rng.range(1, 12) as i32, rng.range(1, 9) as i32) };
        Tok::Ref { sh, r, c, ar: rng.chance(1, 3), ac: rng.chance(1, 3) }
    };
    let gen_rng = |rng: &mut Rng, sh: u32, full_ok: bool| -> Tok {
        let kind = if !full_ok { 0 } else if rng.chance(1, 5) { 1 } else if rng.chance(1, 5) { 2 } else { 0 };
        let (mut r1, mut r2) = (rng.range(1, 12) as i32, rng.range(1, 12) as i32);
        let (mut c1, mut c2) = (rng.range(1, 9) as i32, rng.range(1, 9) as i32);
        if r1 > r2 { std::mem::swap(&mut r1, &mut r2); }
        if c1 > c2 { std::mem::swap(&mut c1, &mut c2); }
        let mut abs = [rng.chance(1, 3), rng.chance(1, 3), rng.chance(1, 3), rng.chance(1, 3)];
        if kind == 1 { abs[0] = true; abs[2] = true; r1 = 1; r2 = LAST_ROW; }
        if kind == 2 { abs[1] = true; abs[3] = true; c1 = 1; c2 = LAST_COLUMN; }
        Tok::Rng { sh, r1, c1, r2, c2, abs, kind }
    };
    let gen_formula = |rng: &mut Rng, home: u32, edge: bool| -> Formula {
        let other = if rng.chance(1, 4) { 1 - home } else { home };
        let sh = if home == 1 && rng.chance(3, 4) { 0 } else { other };
        match rng.below(9) {
            0 => Formula { toks: vec![gen_ref(rng, sh, edge)], pos_dep: false, blank_sens: false },
            1 => Formula { toks: vec![gen_ref(rng, sh, edge), Tok::S("+"), gen_ref(rng, home, false)], pos_dep: false, blank_sens: false },
            2 | 3 => Formula { toks: vec![Tok::S("SUM("), gen_rng(rng, sh, true), Tok::S(")")], pos_dep: false, blank_sens: false },
            4 => Formula { toks: vec![gen_ref(rng, sh, false), Tok::S("*2+SUM("), gen_rng(rng, sh, false), Tok::S(")")], pos_dep: false, blank_sens: false },
            5 => Formula { toks: vec![Tok::S("ROW()+COLUMN()+"), gen_ref(rng, sh, false)], pos_dep: true, blank_sens: false },
            6 => Formula { toks: vec![Tok::S("COUNTBLANK("), gen_rng(rng, sh, false), Tok::S(")")], pos_dep: false, blank_sens: true },
            7 => Formula { toks: vec![Tok::S("IF("), gen_ref(rng, sh, false), Tok::S(">0,1,2)")], pos_dep: false, blank_sens: false },
            _ => Formula { toks: vec![Tok::S("COUNT("), gen_rng(rng, sh, false), Tok::S(")+COUNTA("), gen_rng(rng, sh, false), Tok::S(")")], pos_dep: false, blank_sens: false },
        }
    };
    for r in 1..=h {
        for c in 1..=w {
            let x = rng.below(100);
            if x < 38 {
                bk.inputs.push((0, r, c, rng.pick(LITERALS).to_string()));
            } else if x < 62 {
                let f = gen_formula(rng, 0, edge_refs);
                bk.inputs.push((0, r, c, render(&f, 0)));
                bk.forms.insert((0, r, c), f);
            }
            if rng.chance(1, 6) { bk.styles.push((0, r, c, rng.below(5) as u8)); }
        }
    }
    for r in 1..=6 {
        for c in 1..=4 {
            let x = rng.below(100);
            if x < 20 { bk.inputs.push((1, r, c, rng.pick(LITERALS).to_string())); }
            else if x < 60 {
                let f = gen_formula(rng, 1, edge_refs);
                bk.inputs.push((1, r, c, render(&f, 1)));
                bk.forms.insert((1, r, c), f);
            }
        }
    }
    // numeric data for the array formulas on the other sheet (never displaced), F1:H3
    for r in 1..=3 { for c in 6..=8 { bk.inputs.push((1, r, c, format!("{}", r * 10 + c))); } }
    // array formulas to the right of the window: non-square CSE arrays (2x3, 3x1, 1x3) and a
    // dynamic array; they read data outside the edited sheet, one in four reads $A$1:.. of it
    let place = |bk: &mut Book, rng: &mut Rng, c: i32, w: i32, h: i32, cse: bool| {
        let r = rng.range(1, 9) as i32;
        let own = rng.chance(1, 4);
        let sh = if own { 0 } else { 1 };
        let (r1, c1) = if own { (1, 1) } else { (1, 6) };
        let f = Formula { toks: vec![Tok::Rng { sh, r1, c1, r2: r1 + h - 1, c2: c1 + w - 1, abs: [true; 4], kind: 0 }, Tok::S(if cse { "*2" } else { "*3" })], pos_dep: false, blank_sens: false };
        let text = render(&f, 0);
        if !cse { bk.inputs.push((0, r, c, text.clone())); }
        bk.forms.insert((0, r, c), f);
        bk.arrays.push(Arr { r, c, w, h, cse, text });
    };
    // (half of the workbooks have no array formula at all: see F48 in notes/C12.md)
    let shapes = [(2, 3), (3, 1), (1, 3)];
    if rng.chance(1, 2) {
        let (w, h) = shapes[rng.below(3) as usize];
        place(&mut bk, rng, 10, w, h, true);
        if rng.chance(1, 2) { let (w, h) = shapes[rng.below(3) as usize]; place(&mut bk, rng, 14, w, h, true); }
        if rng.chance(2, 3) { let (w, h) = shapes[rng.below(3) as usize]; place(&mut bk, rng, 18, w, h, false); }
    }
    // links on cells whose text does not auto-link, and on an empty cell
    for _ in 0..rng.below(4) {
        bk.links.push((rng.range(1, h as i64) as i32, rng.range(1, w as i64) as i32, format!("https://link{}.example", rng.below(9))));
    }
    for _ in 0..rng.below(4) { bk.row_attrs.push((rng.range(1, 12) as i32, rng.below(6) as u8)); }
    for _ in 0..rng.below(4) {
        let a = rng.range(1, 9) as i32;
        bk.col_attrs.push((a, a + rng.range(0, 3) as i32, rng.below(6) as u8));
    }
    bk
}

pub fn build(bk: &Book) -> Model<'static> {
    let mut m = Model::new_empty("m", "en", "UTC", "en").unwrap();
    m.new_sheet();
    // row/column attributes first: typed cells inherit row/column styles like in a real session
    for (r, v) in &bk.row_attrs {
        match v % 3 {
            0 => { let _ = m.set_row_height(0, *r, 30.0 + *v as f64); }
            1 => { let _ = m.set_row_style(0, *r, &style_variant(*v)); }
            _ => { let _ = m.set_row_height(0, *r, 41.5); let _ = m.set_row_style(0, *r, &style_variant(*v)); }
        }
    }
    for (a, z, v) in &bk.col_attrs {
        for c in *a..=*z {
            match v % 3 {
                0 => { let _ = m.set_column_width(0, c, 120.0 + *v as f64); }
                1 => { let _ = m.set_column_style(0, c, &style_variant(*v)); }
                _ => { let _ = m.set_column_width(0, c, 77.0); let _ = m.set_column_style(0, c, &style_variant(*v)); }
            }
        }
    }
    for (sh, r, c, t) in &bk.inputs { m.set_user_input(*sh, *r, *c, t.clone()).unwrap(); }
    for a in &bk.arrays { if a.cse { m.set_user_array_formula(0, a.r, a.c, a.w, a.h, &a.text).unwrap(); } }
    for (sh, r, c, v) in &bk.styles {
        // keep quote_prefix of the cell's current style
        let mut st = style_variant(*v);
        st.quote_prefix = m.get_style_for_cell(*sh, *r, *c).map(|s| s.quote_prefix).unwrap_or(false);
        let _ = m.set_cell_style(*sh, *r, *c, &st);
    }
    for (r, c, t) in &bk.links { let _ = m.set_cell_link(0, *r, *c, Link::External { target: t.clone(), tooltip: None }); }
    for r in &bk.hidden_rows { let _ = m.set_row_hidden(0, *r, true); }
    for c in &bk.hidden_cols { let _ = m.set_column_hidden(0, *c, true); }
    m.evaluate();
    m
}

pub fn book_json(bk: &Book) -> serde_json::Value {
    json!({"inputs": bk.inputs.iter().map(|(s, r, c, t)| json!([s, r, c, t])).collect::<Vec<_>>(),
           "styles": bk.styles.len(), "links": bk.links, "row_attrs": bk.row_attrs, "col_attrs": bk.col_attrs,
           "hidden_rows": bk.hidden_rows, "hidden_cols": bk.hidden_cols,
           "arrays": bk.arrays.iter().map(|a| json!([a.r, a.c, a.w, a.h, a.cse, a.text])).collect::<Vec<_>>()})
}

// ------------------------------------------------------------------------------------------
// oracles
pub struct Ctx<'a> { pub prop: &'a str, pub case: u64, pub entry: &'a str, pub op_text: String, pub book: &'a Book, pub flaky: &'a BTreeSet<(u32, i32, i32)> }
impl Ctx<'_> {
    fn input(&self, extra: serde_json::Value) -> serde_json::Value {
        json!({"case": self.case, "entry": self.entry, "op": self.op_text, "at": extra, "workbook": book_json(self.book)})
    }
}

/// cells of sheet 0 that the operation re-types and that typing does not reproduce (F11 / C18)
fn unstable_cells(before: &[SheetDump], op: &Op, scratch: &mut Scratch) -> (BTreeSet<(i32, i32)>, BTreeSet<(i32, i32)>) {
    let mut unstable = BTreeSet::new();
    let mut autolink = BTreeSet::new();
    for (p, c) in &before[0].cells {
        if !op.retyped(*p) { continue; }
        if !scratch.stable(c) { unstable.insert(*p); }
        if scratch.autolinks(c) { autolink.insert(*p); }
    }
    (unstable, autolink)
}

/// formula cells whose value may legitimately change under `op` (they depend on their position,
/// on blank counts, read a deleted cell, hold a reference that became an error, or hold a range
/// the statement does not cover) — and everything that reads them
fn may_change(bk: &Book, op: &Op) -> BTreeSet<(u32, i32, i32)> {
    let mut t = BTreeSet::new();
    for (k, f) in &bk.forms {
        let e = expected_formula(f, k.0, op);
        if f.pos_dep || f.blank_sens || e.has_ref_error || e.unspecified || e.reads_deleted { t.insert(*k); }
    }
    t
}

/// 0 = reads nothing doubtful, 1 = reads (transitively) a cell that may legitimately change,
/// 2 = reads a re-typed cell that typing does not reproduce
fn taint(bk: &Book, before: &[SheetDump], start: (u32, i32, i32), legit: &BTreeSet<(u32, i32, i32)>, bad: &BTreeSet<(i32, i32)>) -> u8 {
    let mut seen = BTreeSet::new();
    let mut todo = vec![start];
    let mut res = 0;
    while let Some(x) = todo.pop() {
        if !seen.insert(x) { continue; }
        if legit.contains(&x) { return 1; }
        if x.0 == 0 && bad.contains(&(x.1, x.2)) && x != start { res = 2; }
        // 3 = reads (or is) a COUNT-family formula over a blank-forwarding formula (F43)
        if res == 0 && counts_blank_forwarding_cell(bk, before, x) { res = 3; }
        if let Some(f) = bk.forms.get(&x) { for y in reads(f) { todo.push(y); } }
    }
    res
}

/// F43 (an evaluator matter, C07): a formula that is a bare reference to an empty cell yields
/// "blank" when it is evaluated on demand and 0 once cached, so COUNT/COUNTA/COUNTBLANK over it
/// depend on the evaluation order, which any relocation of cells changes
fn counts_blank_forwarding_cell(bk: &Book, before: &[SheetDump], k: (u32, i32, i32)) -> bool {
    let f = match bk.forms.get(&k) { Some(f) => f, None => return false };
    if !f.toks.iter().any(|t| matches!(t, Tok::S(x) if x.contains("COUNT"))) { return false; }
    reads(f).iter().any(|x| match bk.forms.get(x) {
        Some(g) if g.toks.len() == 1 => match &g.toks[0] {
            // (observed both for an empty target and for a target holding a plain number)
            Tok::Ref { .. } => { let _ = before; true }
            _ => false,
        },
        _ => false,
    })
}

/// F45 (evaluator, C07): does `start` read (transitively) a cell that lies on a reference cycle?
/// Which members of / readers of a cycle show #CIRC! depends on the evaluation order.
fn reads_a_cycle(bk: &Book, start: (u32, i32, i32)) -> bool {
    let reach = |from: (u32, i32, i32)| -> BTreeSet<(u32, i32, i32)> {
        let mut seen = BTreeSet::new();
        let mut todo: Vec<(u32, i32, i32)> = bk.forms.get(&from).map(reads).unwrap_or_default();
        while let Some(x) = todo.pop() {
            if !seen.insert(x) { continue; }
            if let Some(f) = bk.forms.get(&x) { for y in reads(f) { todo.push(y); } }
        }
        seen
    };
    let r = reach(start);
    if r.contains(&start) { return true; }
    r.iter().filter(|x| bk.forms.contains_key(x)).any(|x| reach(*x).contains(x))
}
fn circ_class(bk: &Book, k: (u32, i32, i32), v1: &str, v2: &str) -> bool {
    (v1.contains("#CIRC!") != v2.contains("#CIRC!")) && reads_a_cycle(bk, k)
}

fn both_errors(a: &str, b: &str) -> bool { a.starts_with("ErrorValue:") && b.starts_with("ErrorValue:") }

fn literal_class(c: &CellDump, unstable: bool) -> &'static str {
    if unstable && c.kind == "string" && c.quote_prefix { "retyped_quote_prefixed_text_changes_type" }
    else if unstable && c.kind == "number" { "retyped_number_loses_digits_beyond_15" }
    else if unstable { "retyped_cell_not_reproduced" }
    else { "cell_content" }
}

/// F42: move_cell of a style-only cell types "" into its target, and typing "" removes the link
/// found there — a link that belongs to another cell and has not been shifted yet (insert /
/// delete), or the cell's own, already shifted link (band of a move). `q` = original place of
/// the lost link.
fn cleared_by_empty_cell(before: &SheetDump, op: &Op, q: (i32, i32), both_ways: bool) -> bool {
    let line = |p: (i32, i32)| if op.rowwise() { p.0 } else { p.1 };
    let other = |p: (i32, i32)| if op.rowwise() { p.1 } else { p.0 };
    before.cells.iter().any(|(p, c)| {
        if c.kind != "empty" || !op.retyped(*p) || other(*p) != other(q) { return false; }
        match *op {
            Op::InsRows(_, k) | Op::InsCols(_, k) => line(*p) + k == line(q) || (both_ways && line(*p) - k == line(q)),
            Op::DelRows(_, k) | Op::DelCols(_, k) => line(*p) - k == line(q),
            Op::MoveRows(..) | Op::MoveCols(..) => *p == q || (line(*p) - line(q)).abs() == 1,
        }
    })
}

/// how an operation treats the block of an array: every cell moved by the same offset (rigid),
/// every cell deleted, or anything else (split / partly deleted)
#[derive(PartialEq, Debug)]
pub enum BlockFate { Rigid, Deleted, Split }
pub fn block_fate(a: &Arr, op: &Op) -> BlockFate {
    let m: Vec<Option<(i32, i32)>> = a.block().iter().map(|p| op.cell_map(*p)).collect();
    if m.iter().all(|x| x.is_none()) { return BlockFate::Deleted; }
    let first = match (m[0], a.block()[0]) { (Some(q), p) => (q.0 - p.0, q.1 - p.1), _ => return BlockFate::Split };
    if a.block().iter().zip(m.iter()).all(|(p, q)| q.map(|q| (q.0 - p.0, q.1 - p.1)) == Some(first)) { BlockFate::Rigid } else { BlockFate::Split }
}
/// the statement says nothing about an array formula whose block the operation cuts
pub fn splits_dynamic_array(bk: &Book, op: &Op) -> bool { bk.arrays.iter().any(|a| !a.cse && block_fate(a, op) == BlockFate::Split) }
pub fn splits_cse_array(bk: &Book, op: &Op) -> bool { bk.arrays.iter().any(|a| a.cse && block_fate(a, op) == BlockFate::Split) }

/// F46: a CSE array formula one of whose references the operation has to rewrite is written back
/// through update_cell_with_formula and stops being a CSE array. Returns the arrays concerned.
fn cse_rewritten(bk: &Book, op: &Op) -> Vec<Arr> {
    bk.arrays.iter().filter(|a| a.cse && bk.forms.get(&(0, a.r, a.c)).map(|f| expected_formula(f, 0, op).text != a.text).unwrap_or(false)).cloned().collect()
}
/// is `p` (original coordinates) or `p2` (coordinates after the operation) inside the block of one of
/// `arrs`, or within 8 lines right of / below its anchor or the image of its anchor (an array that lost
/// its CSE kind spills again with whatever extent its rewritten range gives and leaves placeholders)?
fn in_blocks(arrs: &[Arr], op: &Op, p: Option<(i32, i32)>, p2: Option<(i32, i32)>) -> bool {
    let near = |a: (i32, i32), x: (i32, i32)| x.0 >= a.0 && x.0 <= a.0 + 8 && x.1 >= a.1 && x.1 <= a.1 + 8;
    arrs.iter().any(|a| {
        let anchors: Vec<(i32, i32)> = std::iter::once((a.r, a.c)).chain(op.cell_map((a.r, a.c))).collect();
        p.map(|x| near((a.r, a.c), x)).unwrap_or(false) || p2.map(|x| anchors.iter().any(|an| near(*an, x))).unwrap_or(false)
    })
}

/// C12 / C13 / C15: every cell, link and descriptor at its mapped place; formulas rewritten as
/// the statement says; qualifying formulas keep their values
#[allow(clippy::too_many_arguments)]
fn check_relocation_inner(before: &[SheetDump], after: &[SheetDump], op: &Op, ctx: &Ctx, scratch: &mut Scratch, or: &mut Oracle, st: &mut Stats) {
    let (unstable, autolink) = unstable_cells(before, op, scratch);
    let bk = ctx.book;
    let mut legit = may_change(bk, op);
    legit.extend(ctx.flaky.iter().cloned());
    if std::env::var("VH_DEBUG").map(|v| v == ctx.case.to_string()).unwrap_or(false) {
        for sh in 0..2usize {
            for (p, c) in &before[sh].cells { eprintln!("BEFORE sheet {sh} {:?}: {} {:?} {:?}", p, c.kind, c.content, c.value); }
            for (p, c) in &after[sh].cells { eprintln!("AFTER  sheet {sh} {:?}: {} {:?} {:?}", p, c.kind, c.content, c.value); }
        }
    }
    let f46 = cse_rewritten(bk, op);
    // dynamic arrays whose range the operation rewrites may legitimately spill differently
    let dyn_changed: Vec<Arr> = bk.arrays.iter().filter(|a| !a.cse && bk.forms.get(&(0, a.r, a.c)).map(|f| expected_formula(f, 0, op).text != a.text).unwrap_or(false)).cloned().collect();
    let dyn_anchor_after = |p2: (i32, i32), c2: &CellDump| -> bool {
        let off: Vec<i32> = c2.content.split(',').filter_map(|x| x.parse().ok()).collect();
        let anchor = if c2.kind == "spill" && off.len() == 2 { (p2.0 - off[0], p2.1 - off[1]) } else { p2 };
        dyn_changed.iter().any(|a| op.cell_map((a.r, a.c)) == Some(anchor))
    };
    for sh in 0..2u32 {
        let (b, a) = (&before[sh as usize], &after[sh as usize]);
        let mut image = BTreeSet::new();
        for (p, c) in &b.cells {
            let p2 = if sh == 0 { match op.cell_map(*p) { Some(x) => x, None => continue } } else { *p };
            image.insert(p2);
            or.checked += 1;
            if sh == 0 && c.kind == "spill" && in_blocks(&dyn_changed, op, Some(*p), None) { st.bump("skipped_cell_of_dynamic_array_with_rewritten_range"); continue; }
            let c2 = match a.cells.get(&p2) {
                Some(x) => x,
                None => {
                    let class = if sh == 0 && in_blocks(&f46, op, Some(*p), Some(p2)) { "cse_array_formula_with_rewritten_reference_loses_its_array" } else { "cell_missing" };
                    or.fail(class, ctx.input(json!([sh, p.0, p.1])), format!("cell {:?} ({} {:?}) not found at {:?}", p, c.kind, c.content, p2)); continue;
                }
            };
            let is_unstable = sh == 0 && unstable.contains(p);
            if c.kind == "formula" {
                if c2.kind != "formula" {
                    or.fail("formula_became_literal", ctx.input(json!([sh, p.0, p.1])), format!("{:?} -> {} {:?}", c.content, c2.kind, c2.content)); continue;
                }
                let in_f46 = sh == 0 && in_blocks(&f46, op, Some(*p), None);
                // the array kind and its declared extent (width x height) travel with the anchor
                if c.shape != c2.shape && sh == 0 && dyn_changed.iter().any(|a| (a.r, a.c) == *p) {
                    st.bump("skipped_extent_of_dynamic_array_with_rewritten_range");
                } else if c.shape != c2.shape {
                    st.bump("array_anchor_checked");
                    or.fail(if in_f46 { "cse_array_formula_with_rewritten_reference_loses_its_array" } else { "array_kind_or_extent" }, ctx.input(json!([sh, p.0, p.1])),
                            format!("array formula {:?} at {:?}: {:?} -> {:?} at {:?}", c.content, p, c.shape, c2.shape, p2));
                    if in_f46 { continue; }
                } else if !c.shape.is_empty() { st.bump("array_anchor_checked"); }
                if let Some(f) = bk.forms.get(&(sh, p.0, p.1)) {
                    let e = expected_formula(f, sh, op);
                    if !e.unspecified {
                        st.bump("formula_text_checked");
                        if c2.content != e.text {
                            let class = if e.row_overflow && !c2.content.contains("#REF!") { "reference_pushed_beyond_last_row_is_not_ref_error" }
                                        else if e.row_overflow { "row_overflow_other" } else { "formula_text" };
                            or.fail(class, ctx.input(json!([sh, p.0, p.1])), format!("formula {:?} at {:?}: expected {:?} at {:?}, found {:?}", c.content, p, e.text, p2, c2.content));
                        }
                        let tn = taint(bk, before, (sh, p.0, p.1), &legit, &unstable);
                        if tn != 1 {
                            st.bump("formula_value_checked");
                            if c.value != c2.value && op.is_move() && both_errors(&c.value, &c2.value) && f.toks.iter().any(|t| matches!(t, Tok::Rng { .. })) {
                                // which error of a range comes first depends on the order of its cells
                                st.bump("skipped_first_error_of_a_permuted_range");
                            } else if c.value != c2.value {
                                let class = if in_f46 { "cse_array_formula_with_rewritten_reference_loses_its_array" } else if tn == 2 { "value_of_formula_reading_a_retyped_unstable_cell" }
                                            else if tn == 3 { "count_over_formula_forwarding_a_blank_depends_on_evaluation_order" }
                                            else if circ_class(bk, (sh, p.0, p.1), &c.value, &c2.value) { "circularity_marking_depends_on_evaluation_order" }
                                            else { "formula_value" };
                                or.fail(class, ctx.input(json!([sh, p.0, p.1])), format!("formula {:?} at {:?}: value {:?} -> {:?}", c.content, p, c.value, c2.value));
                            }
                        }
                    }
                }
            } else if c.kind == "spill" {
                // a cell of an array block: same place inside the (moved) block, same value
                st.bump("array_cell_checked");
                let in_f46 = sh == 0 && in_blocks(&f46, op, Some(*p), None);
                let off: Vec<i32> = c.content.split(',').filter_map(|x| x.parse().ok()).collect();
                let anchor = (sh, p.0 - off.first().copied().unwrap_or(0), p.1 - off.get(1).copied().unwrap_or(0));
                if c2.kind == "spill" && c.content == c2.content && c.style != c2.style && op.retyped(*p) {
                    // only the anchor's style index is copied by move_cell; the other cells of the block are
                    // created anew at the target and take whatever row/column style is there at that moment
                    or.fail("style_of_array_block_cell_not_carried", ctx.input(json!([sh, p.0, p.1])), format!("array cell {:?}: style {} -> {} at {:?} (value {:?} -> {:?})", p, c.style, c2.style, p2, c.value, c2.value));
                    continue;
                }
                if c2.kind != "spill" || c.content != c2.content {
                    or.fail(if in_f46 { "cse_array_formula_with_rewritten_reference_loses_its_array" } else { "array_cell" }, ctx.input(json!([sh, p.0, p.1])),
                            format!("array cell {:?} (offset {} of its anchor, value {:?}) -> {:?} {} {:?}", p, c.content, c.value, p2, c2.kind, c2.content));
                } else if c.value != c2.value {
                    let tn = taint(bk, before, anchor, &legit, &unstable);
                    if tn != 1 {
                        let class = if in_f46 { "cse_array_formula_with_rewritten_reference_loses_its_array" } else if tn == 2 { "value_of_formula_reading_a_retyped_unstable_cell" }
                                    else if tn == 3 { "count_over_formula_forwarding_a_blank_depends_on_evaluation_order" } else { "array_cell_value" };
                        or.fail(class, ctx.input(json!([sh, p.0, p.1])), format!("array cell {:?}: value {:?} -> {:?} at {:?}", p, c.value, c2.value, p2));
                    }
                }
            } else if c.kind != c2.kind || c.content != c2.content {
                or.fail(literal_class(c, is_unstable), ctx.input(json!([sh, p.0, p.1])),
                        format!("cell {:?} {} {:?} (display {:?}, quote_prefix {}) -> {:?} {} {:?}", p, c.kind, c.content, c.display, c.quote_prefix, p2, c2.kind, c2.content));
            }
            if c.style != c2.style {
                let class = if sh == 0 && in_blocks(&f46, op, Some(*p), None) { "cse_array_formula_with_rewritten_reference_loses_its_array" } else { "cell_style" };
                or.fail(class, ctx.input(json!([sh, p.0, p.1])), format!("style of {:?}: {} -> {}", p, c.style, c2.style));
            }
        }
        for (p2, c2) in &a.cells {
            if !image.contains(p2) {
                if sh == 0 && dyn_anchor_after(*p2, c2) { continue; }
                let class = if sh == 0 && in_blocks(&f46, op, None, Some(*p2)) { "cse_array_formula_with_rewritten_reference_loses_its_array" } else { "extra_cell" };
                or.fail(class, ctx.input(json!([sh, p2.0, p2.1])), format!("cell at {:?} ({} {:?}) is the image of no cell", p2, c2.kind, c2.content));
            }
        }
        // links
        let mut limage = BTreeMap::new();
        for (p, l) in &b.links {
            let p2 = if sh == 0 { match op.cell_map(*p) { Some(x) => x, None => continue } } else { *p };
            limage.insert(p2, (*p, l.clone()));
        }
        // an auto-linking re-typed cell in the same column (row operations) / row (column operations)
        let other = |p: (i32, i32)| if op.rowwise() { p.1 } else { p.0 };
        let near_autolink = |p: (i32, i32)| sh == 0 && autolink.iter().any(|q| other(*q) == other(p));
        for (p2, (p, l)) in &limage {
            or.checked += 1;
            if a.links.get(p2) != Some(l) {
                let class = if sh == 0 && a.links.get(p2).is_none() && cleared_by_empty_cell(b, op, *p, false) { "link_cleared_by_retyped_style_only_cell" }
                            else if near_autolink(*p) { "link_of_retyped_autolinking_cell_duplicated" } else { "cell_link" };
                or.fail(class, ctx.input(json!([sh, p.0, p.1])), format!("link {:?} of {:?} expected at {:?}, found {:?}", l, p, p2, a.links.get(p2)));
            }
        }
        for (p2, l2) in &a.links {
            if !limage.contains_key(p2) {
                // the duplicate sits where the moved cell's own link is shifted a second time
                let dup = near_autolink(*p2);
                let class = if dup { "link_of_retyped_autolinking_cell_duplicated" } else { "extra_link" };
                or.fail(class, ctx.input(json!([sh, p2.0, p2.1])), format!("link {:?} at {:?} is the image of no link", l2, p2));
            }
        }
        // descriptors
        if sh == 0 {
            if op.rowwise() {
                for (r, d) in &b.rows {
                    if let Some(r2) = op.map_line(*r) {
                        or.checked += 1;
                        if a.rows.get(&r2) != Some(d) { or.fail("row_descriptor", ctx.input(json!([r])), format!("row {r} {:?} expected at {r2}, found {:?}", d, a.rows.get(&r2))); }
                    }
                }
                if a.cols != b.cols { or.fail("column_descriptor", ctx.input(json!([])), "column attributes changed by a row operation".to_string()); }
            } else {
                for c in 1..=COLW {
                    if let Some(c2) = op.map_line(c) {
                        if c2 >= 1 && c2 <= COLW {
                            or.checked += 1;
                            if a.cols[(c2 - 1) as usize] != b.cols[(c - 1) as usize] {
                                or.fail("column_descriptor", ctx.input(json!([c])), format!("column {c} {:?} expected at {c2}, found {:?}", b.cols[(c - 1) as usize], a.cols[(c2 - 1) as usize]));
                            }
                        }
                    }
                }
                if a.rows != b.rows { or.fail("row_descriptor", ctx.input(json!([])), "row attributes changed by a column operation".to_string()); }
            }
        } else if a.rows != b.rows || a.cols != b.cols {
            or.fail("other_sheet_descriptor", ctx.input(json!([])), "descriptors of the other sheet changed".to_string());
        }
    }
}

/// C14 (and undo of moves): the dump after op + inverse equals the dump before
fn check_identity_inner(before: &[SheetDump], after: &[SheetDump], op: &Op, ctx: &Ctx, scratch: &mut Scratch, or: &mut Oracle, st: &mut Stats) {
    let (unstable, autolink) = unstable_cells(before, op, scratch);
    let bk = ctx.book;
    if std::env::var("VH_DEBUG").map(|v| v == ctx.case.to_string()).unwrap_or(false) {
        for sh in 0..2usize {
            let keys: BTreeSet<_> = before[sh].cells.keys().chain(after[sh].cells.keys()).cloned().collect();
            for p in keys { if before[sh].cells.get(&p) != after[sh].cells.get(&p) { eprintln!("DIFF sheet {sh} {:?}: {:?} -> {:?}", p, before[sh].cells.get(&p), after[sh].cells.get(&p)); } }
        }
        eprintln!("inputs {:?}", bk.inputs);
    }
    let mut legit: BTreeSet<(u32, i32, i32)> = bk.forms.iter().filter(|(k, f)| { let e = expected_formula(f, k.0, op); e.has_ref_error || e.unspecified }).map(|(k, _)| *k).collect();
    legit.extend(ctx.flaky.iter().cloned());
    let f46 = cse_rewritten(bk, op);
    let dyn_changed: Vec<Arr> = bk.arrays.iter().filter(|a| !a.cse && bk.forms.get(&(0, a.r, a.c)).map(|f| expected_formula(f, 0, op).text != a.text).unwrap_or(false)).cloned().collect();
    for sh in 0..2u32 {
        let (b, a) = (&before[sh as usize], &after[sh as usize]);
        let keys: BTreeSet<_> = b.cells.keys().chain(a.cells.keys()).cloned().collect();
        for p in keys {
            or.checked += 1;
            let (c, c2) = (b.cells.get(&p), a.cells.get(&p));
            if c == c2 { continue; }
            // a dynamic array whose range was rewritten spilt with another extent in between; the cells it
            // covered then and no longer covers are left behind as empty cells (spill staleness: C31's subject)
            if sh == 0 && in_blocks(&dyn_changed, op, Some(p), Some(p))
                && c.map(|x| x.kind == "spill" || x.kind == "empty").unwrap_or(true) && c2.map(|x| x.kind == "spill" || x.kind == "empty").unwrap_or(true) {
                st.bump("skipped_cell_near_dynamic_array_with_rewritten_range"); continue;
            }
            if sh == 0 && in_blocks(&f46, op, Some(p), Some(p)) {
                or.fail("cse_array_formula_with_rewritten_reference_loses_its_array", ctx.input(json!([sh, p.0, p.1])), format!("cell {:?}: {:?} -> {:?}", p, c.map(|x| (&x.content, &x.shape, &x.value)), c2.map(|x| (&x.content, &x.shape, &x.value))));
                continue;
            }
            let (c, c2) = match (c, c2) {
                (Some(x), Some(y)) => (x, y),
                _ => { or.fail("cell_set", ctx.input(json!([sh, p.0, p.1])), format!("cell {:?}: {:?} -> {:?}", p, c.map(|x| &x.content), c2.map(|x| &x.content))); continue; }
            };
            let is_unstable = sh == 0 && unstable.contains(&p);
            if c.kind == "formula" && c2.kind == "formula" {
                let overflow = bk.forms.get(&(sh, p.0, p.1)).map(|f| { let e = expected_formula(f, sh, op); e.has_ref_error || e.unspecified }).unwrap_or(false);
                if overflow { st.bump("skipped_pushed_off_grid"); continue; }
                if c.shape != c2.shape {
                    or.fail("array_kind_or_extent", ctx.input(json!([sh, p.0, p.1])), format!("array formula {:?} at {:?}: {:?} -> {:?}", c.content, p, c.shape, c2.shape));
                } else if c.content != c2.content {
                    or.fail("formula_text", ctx.input(json!([sh, p.0, p.1])), format!("formula at {:?}: {:?} -> {:?}", p, c.content, c2.content));
                } else if c.value != c2.value {
                    let tn = taint(bk, before, (sh, p.0, p.1), &legit, &unstable);
                    if tn == 1 { st.bump("skipped_reads_pushed_off_grid"); continue; }
                    let class = if tn == 2 { "value_of_formula_reading_a_retyped_unstable_cell" }
                                else if tn == 3 { "count_over_formula_forwarding_a_blank_depends_on_evaluation_order" }
                                else if circ_class(bk, (sh, p.0, p.1), &c.value, &c2.value) { "circularity_marking_depends_on_evaluation_order" }
                                else { "formula_value" };
                    or.fail(class, ctx.input(json!([sh, p.0, p.1])), format!("formula {:?} at {:?}: value {:?} -> {:?}", c.content, p, c.value, c2.value));
                } else {
                    or.fail("cell_style", ctx.input(json!([sh, p.0, p.1])), format!("formula cell {:?} style {} -> {}", p, c.style, c2.style));
                }
            } else if c.kind == "spill" && c2.kind == "spill" && c.content == c2.content && c.style == c2.style {
                let off: Vec<i32> = c.content.split(',').filter_map(|x| x.parse().ok()).collect();
                let anchor = (sh, p.0 - off.first().copied().unwrap_or(0), p.1 - off.get(1).copied().unwrap_or(0));
                let tn = taint(bk, before, anchor, &legit, &unstable);
                if tn == 1 { continue; }
                let class = if tn == 2 { "value_of_formula_reading_a_retyped_unstable_cell" } else if tn == 3 { "count_over_formula_forwarding_a_blank_depends_on_evaluation_order" } else { "array_cell_value" };
                or.fail(class, ctx.input(json!([sh, p.0, p.1])), format!("array cell {:?}: value {:?} -> {:?}", p, c.value, c2.value));
            } else if c.kind != c2.kind || c.content != c2.content {
                or.fail(literal_class(c, is_unstable), ctx.input(json!([sh, p.0, p.1])),
                        format!("cell {:?} {} {:?} (display {:?}, quote_prefix {}) -> {} {:?}", p, c.kind, c.content, c.display, c.quote_prefix, c2.kind, c2.content));
            } else {
                let class = if c.kind == "spill" && op.retyped(p) { "style_of_array_block_cell_not_carried" } else { "cell_style" };
                or.fail(class, ctx.input(json!([sh, p.0, p.1])), format!("cell {:?} style {} -> {}", p, c.style, c2.style));
            }
        }
        if a.links != b.links {
            let other = |p: (i32, i32)| if op.rowwise() { p.1 } else { p.0 };
            let changed: BTreeSet<(i32, i32)> = b.links.keys().chain(a.links.keys()).filter(|k| a.links.get(k) != b.links.get(k)).cloned().collect();
            for p in changed {
                or.checked += 1;
                let class = if sh == 0 && a.links.get(&p).is_none() && cleared_by_empty_cell(b, op, p, true) { "link_cleared_by_retyped_style_only_cell" }
                            else if sh == 0 && autolink.iter().any(|q| other(*q) == other(p)) { "link_of_retyped_autolinking_cell_duplicated" }
                            else { "cell_link" };
                or.fail(class, ctx.input(json!([sh, p.0, p.1])), format!("link at {:?}: {:?} -> {:?}", p, b.links.get(&p), a.links.get(&p)));
            }
        }
        if a.rows != b.rows { or.fail("row_descriptor", ctx.input(json!([sh])), format!("rows {:?} -> {:?}", b.rows, a.rows)); }
        if a.cols != b.cols {
            let diff: Vec<_> = (0..COLW as usize).filter(|i| a.cols[*i] != b.cols[*i]).map(|i| (i + 1, b.cols[i].clone(), a.cols[i].clone())).collect();
            or.fail("column_descriptor", ctx.input(json!([sh])), format!("columns {:?}", diff));
        }
    }
}


// ------------------------------------------------------------------------------------------
/// classes with a predicate of their own; everything else is "generic"
const SPECIFIC: &[&str] = &[
    "retyped_quote_prefixed_text_changes_type", "retyped_number_loses_digits_beyond_15", "retyped_cell_not_reproduced",
    "value_of_formula_reading_a_retyped_unstable_cell", "link_of_retyped_autolinking_cell_duplicated",
    "link_cleared_by_retyped_style_only_cell", "count_over_formula_forwarding_a_blank_depends_on_evaluation_order",
    "circularity_marking_depends_on_evaluation_order", "reference_pushed_beyond_last_row_is_not_ref_error",
    "cse_array_formula_with_rewritten_reference_loses_its_array", "style_of_array_block_cell_not_carried",
];

/// F48: except for row insertion (rows handled bottom-up, anchor last), the cell-by-cell move
/// relocates an array formula with more than one cell through overlapping / unordered steps:
/// insert_columns / delete_columns walk the rows in HashMap order and move the freshly created
/// placeholders a second time, delete_rows walks top-down into the block it has just written
/// (height > count), move_*_unchecked moves one line of the block at a time. Cells of the block
/// are lost and the doubly moved placeholders clear unrelated cells. Predicate on the input:
/// the operation is not a row insertion and relocates an array formula of more than one cell.
pub fn relocates_multicell_array_unsafely(bk: &Book, op: &Op) -> bool {
    bk.arrays.iter().any(|a| {
        if a.w * a.h <= 1 { return false; }
        let moved = a.block().iter().any(|p| op.cell_map(*p) != Some(*p)) && block_fate(a, op) != BlockFate::Deleted;
        match *op {
            Op::InsRows(..) => false,
            Op::DelRows(_, k) => moved && a.h > k,
            _ => moved,
        }
    })
}

fn remap(tmp: Oracle, or: &mut Oracle, f48: bool) {
    or.checked += tmp.checked;
    for f in tmp.failures {
        let class = f["class"].as_str().unwrap_or("").to_string();
        let class = if f48 && !SPECIFIC.contains(&class.as_str()) { "array_formula_block_corrupted_by_cell_by_cell_relocation".to_string() } else { class };
        or.fail(&class, f["input"].clone(), f["detail"].as_str().unwrap_or("").to_string());
    }
}

/// C12 / C13 / C15 oracle (see check_relocation_inner)
pub fn check_relocation(before: &[SheetDump], after: &[SheetDump], op: &Op, ctx: &Ctx, scratch: &mut Scratch, or: &mut Oracle, st: &mut Stats) {
    let mut tmp = Oracle::default();
    check_relocation_inner(before, after, op, ctx, scratch, &mut tmp, st);
    remap(tmp, or, relocates_multicell_array_unsafely(ctx.book, op));
}
/// C14 / move-and-back oracle (see check_identity_inner); `op` is the first of the two operations
pub fn check_identity(before: &[SheetDump], after: &[SheetDump], op: &Op, ctx: &Ctx, scratch: &mut Scratch, or: &mut Oracle, st: &mut Stats) {
    let mut tmp = Oracle::default();
    check_identity_inner(before, after, op, ctx, scratch, &mut tmp, st);
    let f48 = relocates_multicell_array_unsafely(ctx.book, op) || op.inverse().map(|i| {
        // the second operation acts on the arrays where the first one put them
        let moved = Book { arrays: ctx.book.arrays.iter().filter_map(|a| op.cell_map((a.r, a.c)).map(|(r, c)| Arr { r, c, ..a.clone() })).collect(), ..Book::empty() };
        relocates_multicell_array_unsafely(&moved, &i)
    }).unwrap_or(false);
    remap(tmp, or, f48);
}
