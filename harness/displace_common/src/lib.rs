//! Shared harness code of C12–C15 (structural edits of rows/columns):
//!  * `arith` — reference arithmetic: `to_string_displaced` on hand-built nodes vs the model;
//!  * `ops`   — whole operations on a real `Model`/`UserModel` observed cell by cell
//!              (where cells go, what stored references become, block moves, hidden-line delta);
//!  * `book`  — workbook pool, canonical dump and the property oracles.
pub mod arith;
pub mod book;
pub mod ops;
pub use vh_common::*;

pub const LAST_ROW: i32 = 1_048_576;
pub const LAST_COLUMN: i32 = 16_384;

pub const K_ROW: i32 = 0;
pub const K_COL: i32 = 1;
pub const K_RMV: i32 = 2;
pub const K_CMV: i32 = 3;
pub const K_NONE: i32 = 4;

#[derive(Default)]
pub struct Stats {
    pub counts: std::collections::BTreeMap<String, u64>,
    pub samples: Vec<String>,
    pub distinct: std::collections::HashSet<u64>,
}
impl Stats {
    pub fn bump(&mut self, k: &str) { *self.counts.entry(k.to_string()).or_insert(0) += 1; }
    pub fn add(&mut self, k: &str, n: u64) { *self.counts.entry(k.to_string()).or_insert(0) += n; }
    pub fn sample(&mut self, s: String) { if self.samples.len() < 12 { self.samples.push(s); } }
    pub fn seen(&mut self, s: &str) {
        // FNV-1a: number of distinct observations (non-trivial = distinct outputs)
        let mut h: u64 = 0xcbf29ce484222325;
        for b in s.bytes() { h ^= b as u64; h = h.wrapping_mul(0x100000001b3); }
        self.distinct.insert(h);
    }
}

/// VH_PANIC=1 restores the default panic message (Args::parse silences it)
pub fn debug_hooks() {
    if std::env::var("VH_PANIC").is_ok() { let _ = std::panic::take_hook(); }
}
