//! Reference arithmetic: hand-built `Node::ReferenceKind` / `Node::RangeKind` printed with
//! `to_string_displaced` — exhaustive small windows plus the grid boundaries.
//!
//! case lines (model: Syntax/Displace.v `displace_text`, `displace_range_text`):
//!   ref K ds at delta qr qc sa row col ar ac                       -> text
//!   rng K ds at delta qr qc sa r1 c1 ar1 ac1 r2 c2 ar2 ac2         -> text
//! row/col are the fields as the AST stores them (offsets when relative).
use crate::*;
use ironcalc_base::expressions::parser::stringify::{to_string_displaced, DisplaceData};
use ironcalc_base::expressions::parser::Node;
use ironcalc_base::expressions::types::CellReferenceRC;
use ironcalc_base::language::get_language;
use ironcalc_base::locale::get_locale;

pub fn dd(k: i32, ds: u32, at: i32, delta: i32) -> DisplaceData {
    match k {
        K_ROW => DisplaceData::Row { sheet: ds, row: at, delta },
        K_COL => DisplaceData::Column { sheet: ds, column: at, delta },
        K_RMV => DisplaceData::RowMove { sheet: ds, row: at, delta },
        K_CMV => DisplaceData::ColumnMove { sheet: ds, column: at, delta },
        _ => DisplaceData::None,
    }
}

fn print(node: &Node, qr: i32, qc: i32, d: &DisplaceData) -> String {
    let locale = get_locale("en").unwrap();
    let language = get_language("en").unwrap();
    let ctx = CellReferenceRC { sheet: "Sheet1".to_string(), row: qr, column: qc };
    to_string_displaced(node, &ctx, d, locale, language)
}

#[allow(clippy::too_many_arguments)]
pub fn ref_case(cs: &mut Cases, st: &mut Stats, k: i32, ds: u32, at: i32, delta: i32, qr: i32, qc: i32, sa: u32, tr: i32, tc: i32, ar: bool, ac: bool) {
    let row = if ar { tr } else { tr - qr };
    let col = if ac { tc } else { tc - qc };
    let node = Node::ReferenceKind { sheet_name: None, sheet_index: sa, absolute_row: ar, absolute_column: ac, row, column: col };
    let out = print(&node, qr, qc, &dd(k, ds, at, delta));
    st.seen(&out);
    st.bump("ref");
    cs.case(&format!("ref {k} {ds} {at} {delta} {qr} {qc} {sa} {row} {col} {} {}", b(ar), b(ac)), &wire(&out));
}

#[allow(clippy::too_many_arguments)]
pub fn rng_case(cs: &mut Cases, st: &mut Stats, k: i32, ds: u32, at: i32, delta: i32, qr: i32, qc: i32, sa: u32,
                t1: (i32, i32, bool, bool), t2: (i32, i32, bool, bool)) {
    let f = |t: (i32, i32, bool, bool)| (if t.2 { t.0 } else { t.0 - qr }, if t.3 { t.1 } else { t.1 - qc });
    let (row1, col1) = f(t1);
    let (row2, col2) = f(t2);
    let node = Node::RangeKind {
        sheet_name: None, sheet_index: sa,
        absolute_row1: t1.2, absolute_column1: t1.3, row1, column1: col1,
        absolute_row2: t2.2, absolute_column2: t2.3, row2, column2: col2,
    };
    let out = print(&node, qr, qc, &dd(k, ds, at, delta));
    st.seen(&out);
    st.bump("rng");
    cs.case(&format!("rng {k} {ds} {at} {delta} {qr} {qc} {sa} {row1} {col1} {} {} {row2} {col2} {} {}",
                     b(t1.2), b(t1.3), b(t2.2), b(t2.3)), &wire(&out));
}

/// exhaustive windows for the displacement kinds and deltas of one property
pub fn window_cases(cs: &mut Cases, st: &mut Stats, kinds: &[i32], deltas: &[i32], thorough: bool) {
    let w = 9;
    for &k in kinds {
        let rowwise = k == K_ROW || k == K_RMV;
        // ---- single references: every anchor, target, flag, position, delta, sheet match
        for &delta in deltas {
            for at in -2..=w + 1 {
                for q in 1..=w {
                    for t in 1..=w {
                        for abs in [false, true] {
                            for sa in [0u32, 1] {
                                // the other coordinate rotates through flags/positions
                                let o = 1 + (q + t) % 5;
                                let oabs = (q + t + at) % 2 == 0;
                                if rowwise {
                                    ref_case(cs, st, k, 0, at, delta, q, 3, sa, t, o, abs, oabs);
                                } else {
                                    ref_case(cs, st, k, 0, at, delta, 3, q, sa, o, t, oabs, abs);
                                }
                            }
                        }
                    }
                }
            }
        }
        // ---- ranges: both corners anywhere in the window (also "reversed"), all flags
        let anchors: &[i32] = if thorough { &[1, 2, 5, 8, 9] } else { &[1, 5, 9] };
        for &delta in deltas {
            for at in -1..=w + 1 {
                for &q in anchors {
                    for t1 in 1..=w {
                        for t2 in 1..=w {
                            for f in 0..4 {
                                let (a1, a2) = (f & 1 == 1, f & 2 == 2);
                                let sa = ((t1 + t2 + at) % 4 == 0) as u32;
                                if rowwise {
                                    rng_case(cs, st, k, 0, at, delta, q, 2, sa, (t1, 2, a1, false), (t2, 4, a2, true));
                                } else {
                                    rng_case(cs, st, k, 0, at, delta, 2, q, sa, (2, t1, false, a1), (4, t2, true, a2));
                                }
                            }
                        }
                    }
                }
            }
        }
        // ---- full-row / full-column ranges (A:C, 2:5) and near misses of the exemption
        for &delta in deltas {
            for at in 0..=w + 1 {
                for c1 in 1..=w {
                    for c2 in [c1, (c1 % w) + 1, w] {
                        for (r1, r2, a1, a2) in [
                            (1, LAST_ROW, true, true), (1, LAST_ROW, true, false), (1, LAST_ROW, false, true),
                            (2, LAST_ROW, true, true), (1, LAST_ROW - 1, true, true),
                        ] {
                            // "A:C"-like: all rows
                            rng_case(cs, st, k, 0, at, delta, 4, 4, 0, (r1, c1, a1, c1 % 2 == 0), (r2, c2, a2, c2 % 2 == 1));
                        }
                        for (k1, k2, a1, a2) in [
                            (1, LAST_COLUMN, true, true), (1, LAST_COLUMN, true, false), (1, LAST_COLUMN, false, true),
                            (2, LAST_COLUMN, true, true), (1, LAST_COLUMN - 1, true, true),
                        ] {
                            // "2:5"-like: all columns
                            rng_case(cs, st, k, 0, at, delta, 4, 4, 0, (c1, k1, c1 % 2 == 0, a1), (c2, k2, c2 % 2 == 1, a2));
                        }
                    }
                }
            }
        }
        // ---- the far edges of the grid
        let last = if rowwise { LAST_ROW } else { LAST_COLUMN };
        for &delta in deltas {
            for at in [1, 2, last - 6, last - 3, last - 1, last, last + 1] {
                for t in last - 5..=last {
                    for q in [1, 2, last - 2, last] {
                        for abs in [false, true] {
                            if rowwise {
                                ref_case(cs, st, k, 0, at, delta, q, 2, 0, t, 3, abs, false);
                                rng_case(cs, st, k, 0, at, delta, q, 2, 0, (last - 7, 1, abs, false), (t, 2, abs, true));
                            } else {
                                ref_case(cs, st, k, 0, at, delta, 2, q, 0, 3, t, false, abs);
                                rng_case(cs, st, k, 0, at, delta, 2, q, 0, (1, last - 7, false, abs), (2, t, true, abs));
                            }
                        }
                    }
                }
            }
        }
    }
    // the undisplaced print (what move_cell re-types)
    for q in 1..=w {
        for t in 1..=w {
            for f in 0..4 {
                ref_case(cs, st, K_NONE, 0, 0, 0, q, 10 - q, 0, t, 10 - t, f & 1 == 1, f & 2 == 2);
            }
        }
    }
}
