//! Whole operations on a real Model/UserModel, observed cell by cell.
//!
//! case lines (model functions of Syntax/Displace.v in brackets):
//!   cmap K at delta row col                       -> "some r c" | "none"          [cell_map]
//!   app K at delta same qr qc sa row col ar ac    -> "ref q'r q'c row col ar ac" | "referr" | "unreadable" | "gone"
//!                                                                                  [apply_disp_full]
//!   blk rw i n d x                                -> new line of line x            [iterate_moves]
//!   appb rw i n d same qr qc sa row col ar ac     -> as app, after a block move    [apply_disp_seq (move_disps ..)]
//!   hid last i n d h1.h2...                       -> "ok d'" | "err"               [hidden_adjust + move_valid]
//!   val last at delta                             -> "ok" | "err"                  [edit_valid]
//! The edited sheet is always sheet 0; sheet 1 is "the other sheet".
use crate::*;
use ironcalc_base::expressions::parser::Node;
use ironcalc_base::{Model, UserModel};
use std::collections::HashMap;

pub fn new_model() -> Model<'static> {
    let mut m = Model::new_empty("m", "en", "UTC", "en").unwrap();
    m.new_sheet();
    m
}

/// runs the operation K on sheet 0; Err(_) = the engine refused it
pub fn run_op(m: &mut Model, k: i32, at: i32, delta: i32, n: i32) -> Result<(), String> {
    match k {
        K_ROW => if delta > 0 { m.insert_rows(0, at, delta) } else { m.delete_rows(0, at, -delta) },
        K_COL => if delta > 0 { m.insert_columns(0, at, delta) } else { m.delete_columns(0, at, -delta) },
        K_RMV => m.move_rows_action(0, at, n, delta),
        K_CMV => m.move_columns_action(0, at, n, delta),
        _ => Ok(()),
    }
}

/// where marker cells go
pub fn cmap_batch(cs: &mut Cases, st: &mut Stats, k: i32, at: i32, delta: i32, base: (i32, i32)) {
    let mut m = new_model();
    let w = 9;
    for r in 0..w {
        for c in 0..w {
            m.set_user_input(0, base.0 + r, base.1 + c, format!("{}", r * 100 + c + 1000)).unwrap();
        }
    }
    if run_op(&mut m, k, at, delta, 1).is_err() {
        st.bump("op_refused");
        return;
    }
    let mut found: HashMap<i64, (i32, i32)> = HashMap::new();
    for ci in m.get_all_cells() {
        if ci.index != 0 { continue; }
        if let Ok(v) = m.get_formatted_cell_value(0, ci.row, ci.column) {
            if let Ok(x) = v.parse::<i64>() { found.insert(x, (ci.row, ci.column)); }
        }
    }
    for r in 0..w {
        for c in 0..w {
            let id = (r * 100 + c + 1000) as i64;
            let obs = match found.get(&id) { Some((rr, cc)) => format!("some {rr} {cc}"), None => "none".to_string() };
            st.seen(&obs);
            st.bump("cmap");
            cs.case(&format!("cmap {k} {at} {delta} {} {}", base.0 + r, base.1 + c), &obs);
        }
    }
}

struct Planted { id: i64, qr: i32, qc: i32, sa: u32, row: i32, col: i32, ar: bool, ac: bool }

fn col_name(c: i32) -> String { ironcalc_base::expressions::utils::number_to_column(c).unwrap() }

fn plant(m: &mut Model, fs: u32, planted: &mut Vec<Planted>, qr: i32, qc: i32, sa: u32, tr: i32, tc: i32, ar: bool, ac: bool) {
    let id = planted.len() as i64 + 1;
    let sheet = if sa != fs { format!("Sheet{}!", sa + 1) } else { String::new() };
    let text = format!("={}{}{}{}{}+{}", sheet, if ac { "$" } else { "" }, col_name(tc), if ar { "$" } else { "" }, tr, id);
    m.set_user_input(fs, qr, qc, text).unwrap();
    // the input of the case is the node the parser really stored
    let f = m.workbook.worksheet(fs).unwrap().cell(qr, qc).unwrap().get_formula().unwrap();
    if let Node::OpSumKind { left, .. } = &m.parsed_formulas[fs as usize][f as usize].0 {
        if let Node::ReferenceKind { sheet_index, row, column, absolute_row, absolute_column, .. } = &**left {
            planted.push(Planted { id, qr, qc, sa: *sheet_index, row: *row, col: *column, ar: *absolute_row, ac: *absolute_column });
            return;
        }
    }
    panic!("planted formula did not parse to a reference");
}

fn observe(m: &Model, fs: u32) -> HashMap<i64, String> {
    let mut out = HashMap::new();
    let ws = m.workbook.worksheet(fs).unwrap();
    for (r, rowd) in &ws.sheet_data {
        for (c, cell) in rowd {
            let f = match cell.get_formula() { Some(f) => f, None => continue };
            let text = m.get_cell_formula(fs, *r, *c).unwrap().unwrap_or_default();
            let id: i64 = match text.rsplit('+').next().and_then(|x| x.parse().ok()) { Some(i) => i, None => continue };
            let node = &m.parsed_formulas[fs as usize][f as usize].0;
            let obs = match node {
                Node::OpSumKind { left, .. } => match &**left {
                    Node::ReferenceKind { row, column, absolute_row, absolute_column, .. } =>
                        format!("ref {r} {c} {row} {column} {} {}", b(*absolute_row), b(*absolute_column)),
                    Node::ErrorKind(_) => "referr".to_string(),
                    // "AN1048577": a row above LAST_ROW is not a reference for the lexer, the text becomes a name
                    Node::NamedVariableKind { name, .. } if name.chars().all(|c| c.is_ascii_alphanumeric()) => "unreadable".to_string(),
                    other => format!("other:{:?}", other).replace(' ', "_"),
                },
                Node::ParseErrorKind { .. } => "unreadable".to_string(),
                other => format!("other:{:?}", other).replace(' ', "_"),
            };
            out.insert(id, obs);
        }
    }
    out
}

/// plants formulas `=<ref>+id` for every (anchor line, target line, flag) of a window, runs the
/// operation once and reads every stored reference back from `parsed_formulas`
#[allow(clippy::too_many_arguments)]
pub fn app_batch(cs: &mut Cases, st: &mut Stats, k: i32, at: i32, delta: i32, n: i32, same: bool, sa: u32,
                 anchors: &[i32], targets: &[i32], block: bool) {
    let rowwise = k == K_ROW || k == K_RMV;
    let mut m = new_model();
    let fs: u32 = if same { 0 } else { 1 };
    let mut planted = vec![];
    for &q in anchors {
        let mut j = 0;
        for &t in targets {
            for abs in [false, true] {
                j += 1;
                let oabs = (q + t) % 2 == 0;
                if rowwise {
                    plant(&mut m, fs, &mut planted, q, j, sa, t, 40, abs, oabs);
                } else {
                    plant(&mut m, fs, &mut planted, j, q, sa, 40, t, oabs, abs);
                }
            }
        }
    }
    if run_op(&mut m, k, at, delta, n).is_err() {
        st.bump("op_refused");
        return;
    }
    let obs = observe(&m, fs);
    for p in &planted {
        let o = obs.get(&p.id).cloned().unwrap_or_else(|| "gone".to_string());
        st.seen(&o);
        let line = if block {
            st.bump("appb");
            format!("appb {} {at} {n} {delta} {} {} {} {} {} {} {} {}", b(rowwise), b(same), p.qr, p.qc, p.sa, p.row, p.col, b(p.ar), b(p.ac))
        } else {
            st.bump("app");
            format!("app {k} {at} {delta} {} {} {} {} {} {} {} {}", b(same), p.qr, p.qc, p.sa, p.row, p.col, b(p.ar), b(p.ac))
        };
        cs.case(&line, &o);
    }
}

/// all window positions/deltas for the single-step kinds of one property
pub fn app_window(cs: &mut Cases, st: &mut Stats, kinds: &[i32], deltas: &[i32], thorough: bool) {
    let w: Vec<i32> = (1..=9).collect();
    for &k in kinds {
        let last = if k == K_ROW || k == K_RMV { LAST_ROW } else { LAST_COLUMN };
        for &delta in deltas {
            for at in 0..=10 {
                for same in [true, false] {
                    for sa in [0u32, 1] {
                        if !thorough && !same && sa == 1 && at % 3 != 0 { continue; }
                        app_batch(cs, st, k, at, delta, 1, same, sa, &w, &w, false);
                    }
                }
            }
            // targets at the far edge: pushed off the grid by an insertion, moved across it
            let far: Vec<i32> = (last - 4..=last).collect();
            for at in [1, 3, last - 6, last - 3, last - 1, last] {
                app_batch(cs, st, k, at, delta, 1, true, 0, &[1, 2, 5], &far, false);
                app_batch(cs, st, k, at, delta, 1, false, 0, &[1, 2, 5], &far, false);
            }
        }
    }
}

/// block moves: where lines go and what stored references become
pub fn block_cases(cs: &mut Cases, st: &mut Stats, thorough: bool) {
    let w = 12;
    for rowwise in [true, false] {
        let k = if rowwise { K_RMV } else { K_CMV };
        for i in 1..=9 {
            for n in 1..=4 {
                for d in -4..=4 {
                    if d == 0 { continue; }
                    // -- lines
                    let mut m = new_model();
                    for x in 1..=w {
                        let (r, c) = if rowwise { (x, 2) } else { (2, x) };
                        m.set_user_input(0, r, c, format!("{}", 1000 + x)).unwrap();
                    }
                    if run_op(&mut m, k, i, d, n).is_err() { st.bump("op_refused"); continue; }
                    let mut found = HashMap::new();
                    for ci in m.get_all_cells() {
                        if ci.index != 0 { continue; }
                        if let Ok(x) = m.get_formatted_cell_value(0, ci.row, ci.column).unwrap_or_default().parse::<i32>() {
                            found.insert(x - 1000, if rowwise { ci.row } else { ci.column });
                        }
                    }
                    for x in 1..=w {
                        let o = found.get(&x).map(|v| v.to_string()).unwrap_or_else(|| "none".to_string());
                        st.seen(&o);
                        st.bump("blk");
                        cs.case(&format!("blk {} {i} {n} {d} {x}", b(rowwise)), &o);
                    }
                    // -- references
                    if n >= 2 || thorough {
                        let anchors: Vec<i32> = if thorough { (1..=9).collect() } else { vec![1, 4, 7, 9] };
                        let targets: Vec<i32> = (1..=10).collect();
                        for (same, sa) in [(true, 0u32), (false, 0)] {
                            app_batch(cs, st, k, i, d, n, same, sa, &anchors, &targets, true);
                        }
                    }
                }
            }
        }
        // large coordinates
        let last = if rowwise { LAST_ROW } else { LAST_COLUMN };
        for (i, n, d) in [(last - 5, 2, 3), (last - 5, 2, 4), (last - 1, 1, 1), (last, 1, -3), (last - 2, 3, -2), (1, 2, 3), (3, 2, -2)] {
            let far: Vec<i32> = (last - 6..=last).collect();
            app_batch(cs, st, k, i, d, n, true, 0, &[1, 3], &far, true);
        }
    }
}

/// UserModel: the delta really used when lines of the landing zone are hidden
pub fn hidden_cases(cs: &mut Cases, st: &mut Stats, or: &mut Oracle, thorough: bool) {
    let run = |rowwise: bool, i: i32, n: i32, d: i32, hidden: &[i32], cs: &mut Cases, st: &mut Stats, or: &mut Oracle| {
        let last = if rowwise { LAST_ROW } else { LAST_COLUMN };
        let mut u = UserModel::new_empty("m", "en", "UTC", "en").unwrap();
        let (r, c) = if rowwise { (i, 1) } else { (1, i) };
        u.set_user_input(0, r, c, "777").unwrap();
        for &h in hidden {
            if h < 1 || h > last { continue; }
            // hiding the very last line returns Err after having hidden it (it looks for the next visible line): ignored here
            if rowwise { let _ = u.set_rows_hidden(0, h, h, true); } else { let _ = u.set_columns_hidden(0, h, h, true); }
        }
        let res = if rowwise { u.move_rows_action(0, i, n, d) } else { u.move_columns_action(0, i, n, d) };
        let obs = match res {
            Err(_) => "err".to_string(),
            Ok(()) => {
                let m = u.get_model();
                let mut o = "lost".to_string();
                for ci in m.get_all_cells() {
                    if m.get_formatted_cell_value(0, ci.row, ci.column).unwrap_or_default() == "777" {
                        o = format!("ok {}", if rowwise { ci.row - i } else { ci.column - i });
                    }
                }
                o
            }
        };
        // the finding: a move the Model accepts is refused by the UserModel
        if obs == "err" && d > 0 {
            let mut m = Model::new_empty("m", "en", "UTC", "en").unwrap();
            let ok = if rowwise { m.move_rows_action(0, i, n, d) } else { m.move_columns_action(0, i, n, d) }.is_ok();
            or.checked += 1;
            if ok && hidden.is_empty() {
                let class = if i + n - 1 + d == last { "move_block_to_last_line_rejected_by_usermodel" } else { "usermodel_rejects_move_model_accepts" };
                or.fail(class, serde_json::json!({"rowwise": rowwise, "first": i, "count": n, "delta": d}),
                        format!("UserModel::move_{}_action({i},{n},{d}) = Err although Model::move_{}_action accepts it (no hidden line anywhere)",
                                if rowwise { "rows" } else { "columns" }, if rowwise { "rows" } else { "columns" }));
            }
        }
        st.seen(&obs);
        st.bump("hid");
        let h: Vec<String> = hidden.iter().map(|x| x.to_string()).collect();
        cs.case(&format!("hid {last} {i} {n} {d} {}", if h.is_empty() { "-".to_string() } else { h.join(".") }), &obs);
    };
    let w = 12;
    let mut subsets: Vec<Vec<i32>> = vec![vec![]];
    for a in 1..=w { subsets.push(vec![a]); }
    for a in 1..=w { for b2 in a + 1..=w { subsets.push(vec![a, b2]); } }
    if thorough {
        for a in 1..=w { for b2 in a + 1..=w { for c in b2 + 1..=w { subsets.push(vec![a, b2, c]); } } }
    }
    for rowwise in [true, false] {
        for i in 1..=6 {
            for n in 1..=3 {
                for d in -4..=4 {
                    if d == 0 { continue; }
                    for (si, h) in subsets.iter().enumerate() {
                        if !thorough && h.len() == 2 && (si + i as usize + n as usize) % 3 != 0 { continue; }
                        run(rowwise, i, n, d, h, cs, st, or);
                    }
                }
            }
        }
        let last = if rowwise { LAST_ROW } else { LAST_COLUMN };
        for (i, n, d) in [(last - 1, 1, 1), (last - 3, 2, 2), (last - 3, 2, 1), (last - 4, 1, 2), (last - 4, 2, 3), (last, 1, -2), (last - 2, 2, -3), (2, 1, -1), (2, 1, -2), (1, 2, 1)] {
            for h in [vec![], vec![last], vec![last - 1], vec![last - 2, last], vec![1], vec![1, 2]] {
                run(rowwise, i, n, d, &h, cs, st, or);
            }
        }
    }
}

/// where cells go, every position of the window and the edges, for the kinds of one property
pub fn cmap_window(cs: &mut Cases, st: &mut Stats, kinds: &[i32], deltas: &[i32]) {
    for &k in kinds {
        let rowwise = k == K_ROW || k == K_RMV;
        let last = if rowwise { LAST_ROW } else { LAST_COLUMN };
        for &delta in deltas {
            for at in -1..=11 {
                cmap_batch(cs, st, k, at, delta, (1, 1));
            }
            // a window that ends a few lines before the end of the sheet
            let base = if rowwise { (last - 12, 1) } else { (1, last - 12) };
            for at in [last - 14, last - 12, last - 8, last - 5, last - 4, last - 3, last] {
                cmap_batch(cs, st, k, at, delta, base);
            }
        }
    }
}

/// argument validation of insert (delta > 0) / delete (delta < 0) on a sheet whose only cell is
/// B2, so that the workbook-dependent tests (array formulas, dimension) never fire
pub fn valid_cases(cs: &mut Cases, st: &mut Stats, deltas: &[i32]) {
    for k in [K_ROW, K_COL] {
        let last = if k == K_ROW { LAST_ROW } else { LAST_COLUMN };
        let mut ats: Vec<i32> = (-4..=4).collect();
        ats.extend(last - 8..=last + 3);
        ats.extend([i32::MIN + 1, -last, last * 2, i32::MAX - 8]);
        for &delta in deltas {
            for &at in &ats {
                let mut m = new_model();
                m.set_user_input(0, 2, 2, "1".to_string()).unwrap();
                let obs = if run_op(&mut m, k, at, delta, 1).is_ok() { "ok" } else { "err" };
                st.seen(&format!("val {obs} {}", at.signum()));
                st.bump("val");
                cs.case(&format!("val {last} {at} {delta}"), obs);
            }
        }
    }
}
