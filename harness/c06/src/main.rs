//! C06 — computed values vs the reference evaluator: programs over the core language
//! (bounded-exhaustive at depth <= 2, random at depth 3-5) are entered into a workbook whose
//! cells hold a pool of values of every type; the workbook (parsed formulas included) is
//! dumped for the extracted model BEFORE evaluation, the implementation's values AFTER.
#[path = "dump.rs"]
mod dump;
use ironcalc_base::types::Cell;
use ironcalc_base::Model;
use serde_json::json;
use std::collections::{BTreeMap, BTreeSet};
use vh_common::*;

#[derive(Clone)]
enum Leaf { Num(f64), Str(&'static str), Bool(bool), Err(&'static str), Empty }

fn pool() -> Vec<(Leaf, &'static str)> {
    use Leaf::*;
    vec![
        (Num(0.0), "num"), (Num(1.0), "num"), (Num(-1.0), "num"), (Num(2.5), "num"), (Num(-0.0), "negzero"),
        (Num(100.0), "num"), (Num(0.1), "num"), (Num(1e308), "huge"),
        (Str("1"), "numtext"), (Str("2.5"), "numtext"), (Str(" 3 "), "numtext_spaces"), (Str("1e2"), "numtext"),
        (Str("abc"), "text"), (Str(""), "emptytext"), (Str("TRUE"), "booltext"), (Str("false"), "booltext"),
        (Str("ABC"), "text"), (Str("$5"), "fmttext"), (Str("5%"), "fmttext"), (Str("inf"), "inftext"),
        (Bool(true), "bool"), (Bool(false), "bool"),
        (Err("#DIV/0!"), "error"), (Err("#N/A"), "error"), (Err("#VALUE!"), "error"), (Err("#NUM!"), "error"),
        (Empty, "empty"),
        // case variants of boolean-looking strings (cast_to_bool lowercases before comparing) and
        // number-looking strings with sign / exponent / spaces (cast_number trims, str::parse reads sign and exponent)
        (Str("True"), "booltext_mixed"), (Str("tRuE"), "booltext_mixed"), (Str("true"), "booltext"), (Str("False"), "booltext_mixed"),
        (Str("FALSE"), "booltext"), (Str("fALSe"), "booltext_mixed"), (Str("-2"), "numtext_sign"), (Str("+3"), "numtext_sign"),
        (Str("1E2"), "numtext_exp"), (Str(" 1e2 "), "numtext_spaces"), (Str("-1.5e-1"), "numtext_exp"), (Str(" TRUE"), "booltext_spaces"),
    ]
}
// representatives of each class, used where the full square would be too large
const REPS: [usize; 10] = [3, 4, 8, 12, 13, 20, 23, 26, 28, 33];

fn col_name(c: i32) -> String { ironcalc_base::expressions::utils::number_to_column(c).unwrap() }

const FROW: i32 = 2;      // the formula cell: AD2, with room to spill
const FCOL: i32 = 30;
const HROW: i32 = 40;     // the pool again, as a row

fn place(m: &mut Model, s: u32, r: i32, c: i32, l: &Leaf) {
    match l {
        Leaf::Num(f) => m.update_cell_with_number(s, r, c, *f).unwrap(),
        Leaf::Str(t) => m.update_cell_with_text(s, r, c, t).unwrap(),
        Leaf::Bool(b) => m.update_cell_with_bool(s, r, c, *b).unwrap(),
        Leaf::Err(e) => m.set_user_input(s, r, c, e.to_string()).unwrap(),
        Leaf::Empty => {}
    }
}
fn base(pl: &[(Leaf, &'static str)]) -> Model<'static> {
    let mut m = Model::new_empty("m", "en", "UTC", "en").unwrap();
    for (i, (l, _)) in pl.iter().enumerate() {
        place(&mut m, 0, i as i32 + 1, 1, l);
        place(&mut m, 0, HROW, i as i32 + 1, l);
    }
    m
}
/// the base workbook plus Sheet2 (used area LARGER than Sheet1's: 60 rows, 40 columns) and Sheet3 (smaller: A1:B3),
/// for the full-column / full-row range programs
fn base_multi(pl: &[(Leaf, &'static str)]) -> Model<'static> {
    let mut m = base(pl);
    m.new_sheet(); m.new_sheet();
    let n = pl.len();
    for r in 1..=60 { if r % 7 != 3 { place(&mut m, 1, r, 1, &pl[(r as usize * 5) % n].0); } if r % 3 == 0 { place(&mut m, 1, r, 2, &pl[(r as usize) % 8].0); } }
    for c in 3..=40 { if c % 5 != 1 { place(&mut m, 1, 1, c, &pl[(c as usize * 3) % 8].0); } if c % 4 == 0 { place(&mut m, 1, 2, c, &pl[(c as usize) % n].0); } }
    for (r, c, i) in [(1, 1, 1usize), (2, 1, 3), (3, 1, 5), (1, 2, 8), (3, 2, 20)] { place(&mut m, 2, r, c, &pl[i].0); }
    m
}
fn literal(l: &Leaf) -> Option<String> {
    Some(match l {
        Leaf::Num(f) => if *f == 0.0 && f.is_sign_negative() { return None } else if *f < 0.0 { return None } else { format!("{}", f) },
        Leaf::Str(s) => format!("\"{}\"", s),
        Leaf::Bool(b) => if *b { "TRUE".into() } else { "FALSE".into() },
        Leaf::Err(e) => e.to_string(),
        Leaf::Empty => return None,
    })
}
/// shapes of an operand built from leaf i
fn operand(pl: &[(Leaf, &'static str)], i: usize, shape: usize) -> Option<String> {
    let n = pl.len();
    match shape {
        0 => Some(format!("A{}", i + 1)),                                   // reference
        1 => literal(&pl[i].0),                                             // literal
        2 => Some(format!("A{}:A{}", i + 1, (i + 1) % n + 1).replace(&format!("A{}:A1", n), &format!("A{}:A{}", n, n + 1))), // column range of 2
        3 => Some(format!("{}{}:{}{}", col_name(i as i32 + 1), HROW, col_name(i as i32 + 2), HROW)), // row range of 2
        4 => { let a = literal(&pl[i].0)?; let b = literal(&pl[(i + 5) % n].0).unwrap_or("7".into()); Some(format!("{{{},{}}}", a, b)) } // 1x2 array
        5 => { let a = literal(&pl[i].0)?; let b = literal(&pl[(i + 3) % n].0).unwrap_or("\"z\"".into()); Some(format!("{{{};{}}}", a, b)) } // 2x1 array
        _ => None,
    }
}
const BINOPS: [&str; 12] = ["+", "-", "*", "/", "^", "&", "=", "<>", "<", ">", "<=", ">="];
const FN1: [&str; 15] = ["NOT", "ABS", "LEN", "ISNUMBER", "ISTEXT", "ISBLANK", "SUM", "MIN", "MAX", "COUNT", "COUNTA", "AVERAGE", "AND", "OR", "CONCAT"];
const FN2: [&str; 12] = ["IF", "IFERROR", "ROUND", "SUM", "MIN", "MAX", "COUNT", "COUNTA", "AVERAGE", "AND", "OR", "CONCAT"];

struct Ctx<'a> {
    cs: Cases, pl: Vec<(Leaf, &'static str)>, m: Model<'a>, skipped: BTreeMap<String, u64>, dist: BTreeMap<String, u64>,
    nontrivial: BTreeSet<String>, samples: Vec<String>, strings: BTreeSet<String>, panics: u64, multi: bool,
}
impl<'a> Ctx<'a> {
    fn skip(&mut self, why: &str) { *self.skipped.entry(why.to_string()).or_insert(0) += 1; }
    /// one program: formula text entered as a normal input (cse = None) or as a CSE formula over w x h
    fn program(&mut self, kind: &str, formula: &str, cse: Option<(i32, i32)>) {
        let r = std::panic::catch_unwind(std::panic::AssertUnwindSafe(|| self.program_inner(kind, formula, cse)));
        if r.is_err() { self.panics += 1; self.m = if self.multi { base_multi(&self.pl) } else { base(&self.pl) }; }
    }
    fn program_inner(&mut self, kind: &str, formula: &str, cse: Option<(i32, i32)>) {
        if cse.is_some() { self.m = base(&self.pl); }
        let res = match cse {
            None => self.m.set_user_input(0, FROW, FCOL, formula.to_string()),
            Some((w, h)) => self.m.set_user_array_formula(0, FROW, FCOL, w, h, formula),
        };
        if res.is_err() { self.skip("input_rejected"); return; }
        let wb = match dump::workbook(&self.m, false) { Some(w) => w, None => { self.skip("outside_core_language"); if cse.is_some() { self.m = base(&self.pl); } return; } };
        let order = dump::eval_order(&self.m);
        let mut q = Vec::new();
        for r in FROW..FROW + 3 { for c in FCOL..FCOL + 3 { q.push((0u32, r, c)); } }
        self.m.evaluate();
        let obs: Vec<String> = q.iter().map(|&(s, r, c)| dump::cell_obs(&self.m, s, r, c)).collect();
        let line = format!("ev {} {} {}", dump::cells_str(&order), dump::cells_str(&q), wb);
        self.cs.case(&line, &obs.join(" "));
        *self.dist.entry(kind.to_string()).or_insert(0) += 1;
        if !obs[0].starts_with('x') { self.nontrivial.insert(formula.to_string()); }
        if self.samples.len() < 12 && self.cs.n % 997 == 1 { self.samples.push(format!("{} -> {}", formula, obs.join(" "))); }
        // strings the implementation produced: candidates for the cast table
        for s in 0..1u32 { let _ = s; }
        if cse.is_some() { self.m = base(&self.pl); }
        else {
            // remove the formula (and its spill) again
            let _ = self.m.set_user_input(0, FROW, FCOL, String::new());
        }
    }
}

fn rand_expr(rng: &mut Rng, pl: &[(Leaf, &'static str)], depth: u32) -> String {
    if depth == 0 || rng.chance(1, 6) {
        let i = rng.below(pl.len() as u64) as usize;
        let shape = *rng.pick(&[0usize, 0, 0, 1, 1, 2, 3, 4, 5]);
        return operand(pl, i, shape).unwrap_or_else(|| format!("A{}", i + 1));
    }
    match rng.below(10) {
        0..=3 => { let o = *rng.pick(&BINOPS); format!("({}{}{})", rand_expr(rng, pl, depth - 1), o, rand_expr(rng, pl, depth - 1)) }
        4 => if rng.chance(1, 2) { format!("(-{})", rand_expr(rng, pl, depth - 1)) } else { format!("({}%)", rand_expr(rng, pl, depth - 1)) },
        5 => { let f = *rng.pick(&FN1); format!("{}({})", f, rand_expr(rng, pl, depth - 1)) }
        6 | 7 => { let f = *rng.pick(&FN2); format!("{}({},{})", f, rand_expr(rng, pl, depth - 1), rand_expr(rng, pl, depth - 1)) }
        8 => format!("IF({},{},{})", rand_expr(rng, pl, depth - 1), rand_expr(rng, pl, depth - 1), rand_expr(rng, pl, depth - 1)),
        _ => { let f = *rng.pick(&["SUM", "MIN", "MAX", "COUNT", "COUNTA", "AVERAGE", "AND", "OR", "CONCAT"]);
               format!("{}({},{},{})", f, rand_expr(rng, pl, depth - 1), rand_expr(rng, pl, depth - 1), rand_expr(rng, pl, depth - 1)) }
    }
}

/// cast_number(s) through public paths: trim + str::parse, else what typing `s` into a cell gives
fn cast_number(s: &str) -> Option<f64> {
    if let Ok(f) = s.trim().parse::<f64>() { return Some(f); }
    if s.is_empty() || s.starts_with('=') || s.starts_with('\'') { return None; }
    let mut m = Model::new_empty("c", "en", "UTC", "en").ok()?;
    m.set_user_input(0, 1, 1, s.to_string()).ok()?;
    match m.workbook.worksheets[0].sheet_data.get(&1).and_then(|r| r.get(&1)) {
        Some(Cell::NumberCell { v, .. }) => Some(*v),
        _ => None,
    }
}
fn cast_line(s: &str) -> String {
    let a = cast_number(s).map(dump::bits).unwrap_or("none".into());
    let b = s.parse::<f64>().ok().map(dump::bits).unwrap_or("none".into());
    format!("{} {} {}", wire(s), a, b)
}

fn main() {
    let a = Args::parse();
    if a.extra.first().map(|s| s.as_str()) == Some("casts") {
        // vh_c06 <seed> <tier> <out> casts <file with one wire string per line>: append to c06.casts
        let asked = std::fs::read_to_string(&a.extra[1]).unwrap_or_default();
        let mut out = std::fs::read_to_string(format!("{}/c06.casts", a.out)).unwrap_or_default();
        for w in asked.lines() { if !w.is_empty() { out.push_str(&cast_line(&unwire(w))); out.push('\n'); } }
        std::fs::write(format!("{}/c06.casts", a.out), out).unwrap();
        return;
    }
    let pl = pool();
    let mut cx = Ctx { cs: Cases::new(&a.out, "c06"), m: base(&pl), pl: pl.clone(), skipped: BTreeMap::new(), dist: BTreeMap::new(),
                       nontrivial: BTreeSet::new(), samples: vec![], strings: BTreeSet::new(), panics: 0, multi: false };
    let n = pl.len();
    // ---- bounded-exhaustive, depth <= 2 ----
    // (1) every binary operator x every ordered pair of pool cells (as references)
    for o in BINOPS { for i in 0..n { for j in 0..n {
        cx.program("exh_binop_refs", &format!("=A{}{}A{}", i + 1, o, j + 1), None);
    } } }
    // (2) every binary operator x every ordered pair of class representatives x every pair of operand shapes
    for o in BINOPS { for &i in &REPS { for &j in &REPS { for si in 0..6 { for sj in 0..6 {
        if si == 0 && sj == 0 { continue; }
        if let (Some(x), Some(y)) = (operand(&pl, i, si), operand(&pl, j, sj)) {
            cx.program("exh_binop_shapes", &format!("={}{}{}", x, o, y), None);
        }
    } } } } }
    // (3) unary operators and one-argument functions x every pool cell x every shape
    for i in 0..n { for s in 0..6 { if let Some(x) = operand(&pl, i, s) {
        cx.program("exh_unary", &format!("=-{}", x), None);
        cx.program("exh_unary", &format!("={}%", x), None);
        for f in FN1 { cx.program("exh_fn1", &format!("={}({})", f, x), None); }
    } } }
    // (4) two-argument functions x every ordered pair of pool cells (references)
    for f in FN2 { for i in 0..n { for j in 0..n {
        cx.program("exh_fn2_refs", &format!("={}(A{},A{})", f, i + 1, j + 1), None);
    } } }
    // (5) two-argument functions x class representatives x shapes, incl. an empty argument
    for f in FN2 { for &i in &REPS { for &j in &REPS { for si in 0..6 { for sj in 0..6 {
        if si == 0 && sj == 0 { continue; }
        if let (Some(x), Some(y)) = (operand(&pl, i, si), operand(&pl, j, sj)) {
            cx.program("exh_fn2_shapes", &format!("={}({},{})", f, x, y), None);
        }
    } } } } }
    for f in FN2 { for i in 0..n {
        cx.program("exh_fn2_emptyarg", &format!("={}(A{},)", f, i + 1), None);
        cx.program("exh_fn2_emptyarg", &format!("={}(,A{})", f, i + 1), None);
    } }
    // (6) IF with three arguments: every condition x branches of different classes; wrong arities
    for i in 0..n { for s in 0..6 { if let Some(x) = operand(&pl, i, s) {
        cx.program("exh_if3", &format!("=IF({},A4,A13)", x), None);
        cx.program("exh_if3", &format!("=IF({},A23,A27)", x), None);
        cx.program("exh_if3", &format!("=IF({},A2:A3,{{5,6}})", x), None);
    } } }
    for f in ["IF", "IFERROR", "NOT", "ABS", "ROUND", "LEN", "ISNUMBER", "ISTEXT", "ISBLANK", "SUM", "MIN", "MAX", "COUNT", "COUNTA", "AVERAGE", "AND", "OR", "CONCAT"] {
        cx.program("exh_arity", &format!("={}()", f), None);
        cx.program("exh_arity", &format!("={}(A2)", f), None);
        cx.program("exh_arity", &format!("={}(A2,A3,A4,A5)", f), None);
    }
    // (7) implicit intersection and whole-range results
    for i in 0..n {
        cx.program("exh_range_result", &format!("=A{}:A{}", i + 1, i + 2), None);
        cx.program("exh_implicit", &format!("=@A1:A{}", i + 1), None);
        cx.program("exh_implicit", &format!("=LEN(A1:A{})", i + 1), None);
        cx.program("exh_implicit", &format!("=ROUND(A{}:A{},1)", i + 1, i + 2), None);
    }
    // (8) CSE form of the array-shaped programs (set_user_array_formula over 2x2)
    for o in BINOPS { for &i in &REPS { for &j in &REPS { for (si, sj) in [(2usize, 0usize), (0, 3), (4, 5), (2, 3), (0, 0)] {
        if let (Some(x), Some(y)) = (operand(&pl, i, si), operand(&pl, j, sj)) {
            cx.program("exh_cse", &format!("={}{}{}", x, o, y), Some((2, 2)));
        }
    } } } }
    // (10) every cast x every value kind as a LITERAL: each binary operator and each two-argument function with every pool
    //      value (that has a literal form) in each position, the other operand fixed; logical contexts with three arguments
    for i in 0..n { if let Some(x) = operand(&pl, i, 1) {
        for o in BINOPS { cx.program("exh_literal_casts", &format!("={x}{o}A2"), None); cx.program("exh_literal_casts", &format!("=A4{o}{x}"), None); }
        for f in FN2 { cx.program("exh_literal_casts", &format!("={f}({x},A2)"), None); cx.program("exh_literal_casts", &format!("={f}(A4,{x})"), None); }
        cx.program("exh_literal_casts", &format!("=IF({x},\"t\",\"f\")"), None);
        cx.program("exh_literal_casts", &format!("=AND(TRUE,{x},A21)"), None);
        cx.program("exh_literal_casts", &format!("=OR(FALSE,{x},A22)"), None);
        cx.program("exh_literal_casts", &format!("=NOT({x})&LEN({x})&-{x}"), None);
    } }
    // (9) full-column / full-row ranges as aggregate arguments: same sheet, a LARGER other sheet, a SMALLER other sheet
    cx.multi = true; cx.m = base_multi(&pl);
    for f in ["SUM", "MIN", "MAX", "COUNT", "COUNTA", "AVERAGE", "AND", "OR", "CONCAT"] {
        for r in ["A:A", "40:40", "A:B", "39:40", "Sheet2!A:A", "Sheet2!1:1", "Sheet2!A:B", "Sheet2!1:2", "Sheet2!B:B", "Sheet3!A:A", "Sheet3!1:1", "Sheet3!2:3", "Sheet3!A:B"] {
            cx.program("exh_full_ranges", &format!("={f}({r})"), None);
            cx.program("exh_full_ranges", &format!("={f}({r},A2)"), None);
            cx.program("exh_full_ranges", &format!("={f}(A4,{r})"), None);
        }
    }
    cx.multi = false; cx.m = base(&pl);
    let exhaustive_cases = cx.cs.n;
    // ---- random, depth 3-5 ----
    let mut rng = Rng::new(a.seed);
    let nrand = if a.thorough { 200_000 } else { 3_000 };
    for _ in 0..nrand {
        let d = rng.range(3, 5) as u32;
        let e = rand_expr(&mut rng, &pl, d);
        cx.program("random_depth_3_5", &format!("={}", e), None);
    }
    // the cast table for every pool string (more are added on request of the runner)
    let mut casts = String::new();
    for (l, _) in &pl { if let Leaf::Str(s) = l { casts.push_str(&cast_line(s)); casts.push('\n'); } }
    for s in ["TRUE", "FALSE", "z", "inf", "NaN", "-inf"] { casts.push_str(&cast_line(s)); casts.push('\n'); }
    std::fs::write(format!("{}/c06.casts", a.out), casts).unwrap();
    // ---- documented spreadsheet rules the implementation (and hence the faithful model) departs from ----
    let mut oracle = Oracle::default();
    let witnesses: [(&str, &str, &str, &str); 6] = [
        ("minmax_direct_arg_not_coerced", "=MIN(\"5\",TRUE)", "n3ff0000000000000", "Excel: 1 (direct text \"5\" counts as 5, TRUE as 1)"),
        ("minmax_direct_arg_not_coerced", "=MAX(\"abc\")", "x2", "Excel: #VALUE! (direct text that is not a number)"),
        ("minmax_direct_arg_not_coerced", "=MIN(TRUE)", "n3ff0000000000000", "Excel: 1"),
        ("array_comparison_swallows_error", "=SUM(IF({#N/A,1}=1,1,0))", "x4", "Excel: #N/A ({#N/A,1}=1 is {#N/A,TRUE})"),
        ("count_ignores_array_argument", "=COUNT({1,2})", "n4000000000000000", "Excel: 2"),
        ("concat_rejects_array_argument", "=CONCAT({\"a\",\"b\"})", "s97.98", "Excel: \"ab\""),
    ];
    for (class, f, expected, why) in witnesses {
        let mut m = Model::new_empty("w", "en", "UTC", "en").unwrap();
        if m.set_user_input(0, 1, 1, f.to_string()).is_err() { continue; }
        m.evaluate();
        let got = dump::cell_obs(&m, 0, 1, 1);
        oracle.checked += 1;
        if got != expected { oracle.fail(class, json!({"formula": f}), format!("{} gives {} ; {}", f, got, why)); }
    }
    let (nontrivial, samples, dist, skipped, panics) = (cx.nontrivial.len(), cx.samples.clone(), cx.dist.clone(), cx.skipped.clone(), cx.panics);
    cx.cs.finish(json!({
        "distinct_nontrivial": nontrivial, "samples": samples, "distribution": dist, "skipped": skipped,
        "exhaustive_cases": exhaustive_cases, "random_cases": nrand, "panics": panics,
        "pool": pl.iter().map(|(l, c)| format!("{}:{}", c, match l { Leaf::Num(f) => format!("{}", f), Leaf::Str(s) => format!("{:?}", s), Leaf::Bool(b) => format!("{}", b), Leaf::Err(e) => e.to_string(), Leaf::Empty => "empty".into() })).collect::<Vec<_>>(),
        "oracle_failures": oracle.failures, "oracle_checked": oracle.checked, "oracle_failures_per_class": oracle.per_class,
    }));
}
