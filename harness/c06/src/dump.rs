//! Shared by the C05/C06/C08 harnesses (included with #[path]): the wire form of a workbook
//! for the extracted evaluator model.  The PARSED formula (Node, after the parser's static
//! analysis inserted implicit intersections) is translated structurally into the model's
//! core AST with references resolved against the cell that holds the formula.
//!   cell    := <sheet> <row> <col> <content>
//!   content := e | n <bits> | s <wire> | b <0|1> | x <code> | f <fv> <ast>
//!            | af <dyn> <w> <h> <fv> <ast> | sp <arow> <acol> <sv>
//!   fv      := u | n <bits> | s <wire> | b <0|1> | x <code>
//!   ast     := N <bits> | S <wire> | B <0|1> | X <code> | EA | R <sheet> <row> <col>
//!            | G <sheet> <r1> <c1> <r2> <c2> | A <rows> <cols> <scalar>* | U <m|p> <ast>
//!            | O <a|s|m|d|p> <ast> <ast> | C <ast> <ast> | P <eq|lt|gt|le|ge|ne> <ast> <ast>
//!            | I <ast> | F <name> <nargs> <ast>*
//!   scalar  := n <bits> | s <wire> | b <0|1> | x <code> | e
#![allow(dead_code)]
use ironcalc_base::expressions::parser::{ArrayNode, Node};
use ironcalc_base::expressions::token::{Error, OpCompare, OpProduct, OpSum, OpUnary};
use ironcalc_base::types::{ArrayKind, Cell, FormulaValue, SpillValue};
use ironcalc_base::{Function, Model};
use vh_common::wire;

pub fn bits(f: f64) -> String {
    if f.is_nan() { "NaN".to_string() } else { format!("{:016x}", f.to_bits()) }
}
pub fn err_code(e: &Error) -> u32 {
    match e {
        Error::REF => 0, Error::NAME => 1, Error::VALUE => 2, Error::DIV => 3, Error::NA => 4,
        Error::NUM => 5, Error::ERROR => 6, Error::NIMPL => 7, Error::SPILL => 8, Error::CALC => 9,
        Error::CIRC => 10, Error::NULL => 11,
    }
}
pub fn core_fn(f: &Function) -> Option<&'static str> {
    Some(match f {
        Function::If => "IF", Function::And => "AND", Function::Or => "OR", Function::Not => "NOT",
        Function::Sum => "SUM", Function::Min => "MIN", Function::Max => "MAX", Function::Count => "COUNT",
        Function::Counta => "COUNTA", Function::Average => "AVERAGE", Function::Abs => "ABS",
        Function::Round => "ROUND", Function::Len => "LEN", Function::Concat => "CONCAT",
        Function::Isnumber => "ISNUMBER", Function::Istext => "ISTEXT", Function::Isblank => "ISBLANK",
        Function::Iferror => "IFERROR",
        _ => return None,
    })
}
fn scalar(n: &ArrayNode) -> String {
    match n {
        ArrayNode::Number(f) => format!("n {}", bits(*f)),
        ArrayNode::String(s) => format!("s {}", wire(s)),
        ArrayNode::Boolean(b) => format!("b {}", *b as u8),
        ArrayNode::Error(e) => format!("x {}", err_code(e)),
        ArrayNode::Empty => "e".to_string(),
    }
}
/// per sheet: (max row, max column) over the cells of sheet_data — the used area of the sheet
pub fn sheet_dims(m: &Model) -> Vec<(i32, i32)> {
    m.workbook.worksheets.iter().map(|ws| {
        let mr = ws.sheet_data.keys().copied().max().unwrap_or(1);
        let mc = ws.sheet_data.values().flat_map(|r| r.keys().copied()).max().unwrap_or(1);
        (mr, mc)
    }).collect()
}
/// None: the node is outside the core language.
/// A full-column / full-row range (A:A, 1:1, A:B, 2:3) has its grid-wide meaning; it is accepted only as
/// a direct argument of an aggregate and handed to the model clipped to the used area of the REFERENCED
/// sheet plus a margin of 8 rows/columns (every cell beyond is empty, and aggregates skip empty cells).
pub fn ast(node: &Node, row: i32, col: i32, out: &mut String) -> Option<()> { ast_in(node, row, col, out, &[], false) }
const SPILL_MARGIN: i32 = 8;
pub fn ast_in(node: &Node, row: i32, col: i32, out: &mut String, dims: &[(i32, i32)], in_agg: bool) -> Option<()> {
    use std::fmt::Write;
    match node {
        Node::NumberKind(f) => { let _ = write!(out, " N {}", bits(*f)); }
        Node::StringKind(s) => { let _ = write!(out, " S {}", wire(&s.replace("\"\"", "\""))); }
        Node::BooleanKind(b) => { let _ = write!(out, " B {}", *b as u8); }
        Node::ErrorKind(e) => { let _ = write!(out, " X {}", err_code(e)); }
        Node::EmptyArgKind => out.push_str(" EA"),
        Node::ReferenceKind { sheet_index, absolute_row, absolute_column, row: r, column: c, .. } => {
            let r1 = if *absolute_row { *r } else { *r + row };
            let c1 = if *absolute_column { *c } else { *c + col };
            let _ = write!(out, " R {} {} {}", sheet_index, r1, c1);
        }
        Node::RangeKind { sheet_index, absolute_row1, absolute_column1, row1, column1, absolute_row2, absolute_column2, row2, column2, .. } => {
            let r1 = if *absolute_row1 { *row1 } else { *row1 + row };
            let r2 = if *absolute_row2 { *row2 } else { *row2 + row };
            let c1 = if *absolute_column1 { *column1 } else { *column1 + col };
            let c2 = if *absolute_column2 { *column2 } else { *column2 + col };
            let (mut ra, mut rb, mut ca, mut cb) = (r1.min(r2), r1.max(r2), c1.min(c2), c1.max(c2));
            let (full_rows, full_cols) = (ra == 1 && rb == 1048576, ca == 1 && cb == 16384);
            if full_rows || full_cols {
                let d = dims.get(*sheet_index as usize)?;
                if !in_agg { return None; }
                if full_rows { rb = (d.0 + SPILL_MARGIN).min(1048576); ra = 1; }
                if full_cols { cb = (d.1 + SPILL_MARGIN).min(16384); ca = 1; }
            }
            let _ = write!(out, " G {} {} {} {} {}", sheet_index, ra, ca, rb, cb);
        }
        Node::ArrayKind(a) => {
            let rows = a.len(); let cols = a.first().map_or(0, |r| r.len());
            if a.iter().any(|r| r.len() != cols) { return None; }
            let _ = write!(out, " A {} {}", rows, cols);
            for r in a { for n in r { out.push(' '); out.push_str(&scalar(n)); } }
        }
        Node::UnaryKind { kind, right } => {
            out.push_str(match kind { OpUnary::Minus => " U m", OpUnary::Percentage => " U p" });
            ast_in(right, row, col, out, dims, false)?;
        }
        Node::OpSumKind { kind, left, right } => {
            out.push_str(match kind { OpSum::Add => " O a", OpSum::Minus => " O s" });
            ast_in(left, row, col, out, dims, false)?; ast_in(right, row, col, out, dims, false)?;
        }
        Node::OpProductKind { kind, left, right } => {
            out.push_str(match kind { OpProduct::Times => " O m", OpProduct::Divide => " O d" });
            ast_in(left, row, col, out, dims, false)?; ast_in(right, row, col, out, dims, false)?;
        }
        Node::OpPowerKind { left, right } => { out.push_str(" O p"); ast_in(left, row, col, out, dims, false)?; ast_in(right, row, col, out, dims, false)?; }
        Node::OpConcatenateKind { left, right } => { out.push_str(" C"); ast_in(left, row, col, out, dims, false)?; ast_in(right, row, col, out, dims, false)?; }
        Node::CompareKind { kind, left, right } => {
            out.push_str(match kind {
                OpCompare::Equal => " P eq", OpCompare::LessThan => " P lt", OpCompare::GreaterThan => " P gt",
                OpCompare::LessOrEqualThan => " P le", OpCompare::GreaterOrEqualThan => " P ge", OpCompare::NonEqual => " P ne",
            });
            ast_in(left, row, col, out, dims, false)?; ast_in(right, row, col, out, dims, false)?;
        }
        Node::ImplicitIntersection { child, .. } => {
            if matches!(**child, Node::ImplicitIntersection { .. }) { return None; }
            out.push_str(" I"); ast_in(child, row, col, out, dims, false)?;
        }
        Node::FunctionKind { kind, args } => {
            let name = core_fn(kind)?;
            let _ = write!(out, " F {} {}", name, args.len());
            let agg = matches!(name, "SUM" | "MIN" | "MAX" | "COUNT" | "COUNTA" | "AVERAGE" | "AND" | "OR" | "CONCAT");
            for a in args { ast_in(a, row, col, out, dims, agg)?; }
        }
        _ => return None,
    }
    Some(())
}
fn fv(v: &FormulaValue) -> String {
    match v {
        FormulaValue::Unevaluated => "u".to_string(),
        FormulaValue::Boolean(b) => format!("b {}", *b as u8),
        FormulaValue::Number(f) => format!("n {}", bits(*f)),
        FormulaValue::Text(s) => format!("s {}", wire(s)),
        FormulaValue::Error { ei, .. } => format!("x {}", err_code(ei)),
    }
}
fn sv(v: &SpillValue) -> String {
    match v {
        SpillValue::Boolean(b) => format!("b {}", *b as u8),
        SpillValue::Number(f) => format!("n {}", bits(*f)),
        SpillValue::Text(s) => format!("s {}", wire(s)),
        SpillValue::Error(e) => format!("x {}", err_code(e)),
    }
}
/// every cell of the workbook, sorted by (sheet,row,col)
pub fn all_cells(m: &Model) -> Vec<(u32, i32, i32)> {
    let mut v = Vec::new();
    for (si, ws) in m.workbook.worksheets.iter().enumerate() {
        for (r, rd) in &ws.sheet_data { for c in rd.keys() { v.push((si as u32, *r, *c)); } }
    }
    v.sort();
    v
}
/// the observable value of one cell: e | n bits | s wire | b 0/1 | x code  (one token, no spaces)
pub fn cell_obs(m: &Model, s: u32, r: i32, c: i32) -> String {
    let cell = m.workbook.worksheets[s as usize].sheet_data.get(&r).and_then(|rd| rd.get(&c));
    let tok = |x: String| x.replace(' ', "");
    match cell {
        None | Some(Cell::EmptyCell { .. }) => "e".to_string(),
        Some(Cell::NumberCell { v, .. }) => format!("n{}", bits(*v)),
        Some(Cell::BooleanCell { v, .. }) => format!("b{}", *v as u8),
        Some(Cell::ErrorCell { ei, .. }) => format!("x{}", err_code(ei)),
        Some(Cell::SharedString { si, .. }) => format!("s{}", wire(&m.workbook.shared_strings[*si as usize])),
        Some(Cell::CellFormula { v, .. }) | Some(Cell::ArrayFormula { v, .. }) => tok(fv(v)),
        Some(Cell::SpillCell { v, .. }) => tok(sv(v)),
    }
}
/// the whole workbook for the model: "<ncells> cell*"; None if some formula is outside the core
/// language.  `with_values`: keep the stored values of formula cells (for the consistency predicate).
pub fn workbook(m: &Model, with_values: bool) -> Option<String> {
    use std::fmt::Write;
    let cells = all_cells(m);
    let dims = sheet_dims(m);
    let mut out = format!("{}", cells.len());
    for (s, r, c) in cells {
        let cell = &m.workbook.worksheets[s as usize].sheet_data[&r][&c];
        let _ = write!(out, " {} {} {} ", s, r, c);
        match cell {
            Cell::EmptyCell { .. } => out.push('e'),
            Cell::NumberCell { v, .. } => { let _ = write!(out, "n {}", bits(*v)); }
            Cell::BooleanCell { v, .. } => { let _ = write!(out, "b {}", *v as u8); }
            Cell::ErrorCell { ei, .. } => { let _ = write!(out, "x {}", err_code(ei)); }
            Cell::SharedString { si, .. } => { let _ = write!(out, "s {}", wire(m.workbook.shared_strings.get(*si as usize)?)); }
            Cell::CellFormula { f, v, .. } => {
                let (node, _) = m.parsed_formulas.get(s as usize)?.get(*f as usize)?;
                let _ = write!(out, "f {}", if with_values { fv(v) } else { "u".to_string() });
                ast_in(node, r, c, &mut out, &dims, false)?;
            }
            Cell::ArrayFormula { f, v, r: (w, h), kind, .. } => {
                let (node, _) = m.parsed_formulas.get(s as usize)?.get(*f as usize)?;
                let _ = write!(out, "af {} {} {} {}", matches!(kind, ArrayKind::Dynamic) as u8, w, h, if with_values { fv(v) } else { "u".to_string() });
                ast_in(node, r, c, &mut out, &dims, false)?;
            }
            Cell::SpillCell { a, v, .. } => { let _ = write!(out, "sp {} {} {}", a.0, a.1, sv(v)); }
        }
    }
    Some(out)
}
/// the order Model::evaluate visits cells in when no restart reorders the anchors:
/// dynamic anchors first (sorted), then every cell (sorted)
pub fn eval_order(m: &Model) -> Vec<(u32, i32, i32)> {
    let cells = all_cells(m);
    let mut o: Vec<(u32, i32, i32)> = cells.iter().copied().filter(|&(s, r, c)| {
        matches!(m.workbook.worksheets[s as usize].sheet_data[&r][&c], Cell::ArrayFormula { kind: ArrayKind::Dynamic, .. })
    }).collect();
    o.extend(cells);
    o
}
pub fn cells_str(v: &[(u32, i32, i32)]) -> String {
    let mut out = format!("{}", v.len());
    for (s, r, c) in v { out.push_str(&format!(" {} {} {}", s, r, c)); }
    out
}
