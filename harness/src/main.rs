//! vh — the implementation side of the correspondence: runs /repo's code on generated
//! cases and writes canonicalised observations plus the property-oracle verdicts.
//!   vh <prop> <seed> <tier> <outdir> [extra...]
mod common;
mod c22;

fn main() {
    let args: Vec<String> = std::env::args().collect();
    if args.len() < 5 {
        eprintln!("usage: vh <prop> <seed> <tier> <outdir>");
        std::process::exit(2);
    }
    let prop = args[1].as_str();
    let seed: u64 = args[2].parse().unwrap_or(1);
    let thorough = args[3] == "thorough";
    let out = args[4].as_str();
    let extra: Vec<String> = args[5..].to_vec();
    std::panic::set_hook(Box::new(|_| {}));
    match prop {
        "c22" => c22::run(seed, thorough, out, &extra),
        _ => { eprintln!("unknown property {prop}"); std::process::exit(2); }
    }
}
