//! C05 — every formula value is consistent with its inputs.
//! (i)  correspondence: generated workbooks (DAGs, chains of depth 200, cycles of length 1-5 with
//!      and without error-absorbing functions, cross-sheet references, empty/overflowing results)
//!      are dumped for the extracted store evaluator before evaluation; stored values compared.
//! (ii) the property statement on the implementation's own state: the workbook WITH the values the
//!      implementation stored is dumped (cases/c05o.in); the runner re-evaluates every formula
//!      cell with the model's expression semantics over those stored values (values_consistent_b).
//! (iii) #CIRC! appears only on a cycle or when reading a cell that shows it; cells on a cycle
//!      show #CIRC! (oracle, evaluated here on the implementation's values).
#[path = "../../c06/src/dump.rs"]
mod dump;
#[path = "../../c07/src/gen.rs"]
mod gen;
use ironcalc_base::expressions::parser::Node;
use ironcalc_base::types::Cell;
use ironcalc_base::{Function, Model};
use serde_json::json;
use std::collections::{BTreeMap, BTreeSet, HashMap};
use std::io::Write;
use vh_common::*;

type C = (u32, i32, i32);

fn node_refs(n: &Node, row: i32, col: i32, out: &mut Vec<C>, absorbing: &mut bool) {
    match n {
        Node::ReferenceKind { sheet_index, absolute_row, absolute_column, row: r, column: c, .. } => {
            out.push((*sheet_index, if *absolute_row { *r } else { *r + row }, if *absolute_column { *c } else { *c + col }));
        }
        Node::RangeKind { sheet_index, absolute_row1, absolute_column1, row1, column1, absolute_row2, absolute_column2, row2, column2, .. } => {
            let r1 = if *absolute_row1 { *row1 } else { *row1 + row }; let r2 = if *absolute_row2 { *row2 } else { *row2 + row };
            let c1 = if *absolute_column1 { *column1 } else { *column1 + col }; let c2 = if *absolute_column2 { *column2 } else { *column2 + col };
            if ((r1 - r2).abs() + 1) as i64 * ((c1 - c2).abs() + 1) as i64 <= 2000 {
                for r in r1.min(r2)..=r1.max(r2) { for c in c1.min(c2)..=c1.max(c2) { out.push((*sheet_index, r, c)); } }
            }
        }
        Node::UnaryKind { right, .. } => node_refs(right, row, col, out, absorbing),
        Node::ImplicitIntersection { child, .. } => node_refs(child, row, col, out, absorbing),
        Node::OpSumKind { left, right, .. } | Node::OpProductKind { left, right, .. } | Node::OpPowerKind { left, right }
        | Node::OpConcatenateKind { left, right } | Node::CompareKind { left, right, .. } | Node::OpRangeKind { left, right } => {
            node_refs(left, row, col, out, absorbing); node_refs(right, row, col, out, absorbing);
        }
        Node::FunctionKind { kind, args } => {
            // functions that can turn an error argument into a non-error result (or skip it)
            if matches!(kind, Function::If | Function::Iferror | Function::Isnumber | Function::Istext | Function::Isblank
                | Function::And | Function::Or | Function::Count | Function::Counta | Function::Iserror | Function::Iserr
                | Function::Isna | Function::Ifna | Function::Islogical | Function::Isnontext | Function::Ifs | Function::Choose
                | Function::Switch | Function::Countblank | Function::Type | Function::Rows | Function::Columns | Function::Isref | Function::Isformula) { *absorbing = true; }
            for a in args { node_refs(a, row, col, out, absorbing); }
        }
        _ => {}
    }
}

fn main() {
    let a = Args::parse();
    let mut cs = Cases::new(&a.out, "c05");
    let mut fo = std::io::BufWriter::new(std::fs::File::create(format!("{}/c05o.in", a.out)).unwrap());
    let mut fh = std::io::BufWriter::new(std::fs::File::create(format!("{}/c05o.hint", a.out)).unwrap());
    let mut rng = Rng::new(a.seed);
    let mut oracle = Oracle::default();
    let nwb = if a.thorough { 10_000 } else { 400 };
    let mut dist: BTreeMap<String, u64> = BTreeMap::new();
    let mut not_covered = 0u64; let mut covered = 0u64; let mut nontrivial = 0u64; let mut panics = 0u64; let mut ocases = 0u64;
    let mut samples: Vec<String> = vec![];
    // the design-phase witnesses first, then generated workbooks
    let corpus: Vec<Vec<gen::Input>> = vec![
        vec![(0, 1, 1, "=IFERROR(B1,5)".into()), (0, 1, 2, "=A1+1".into())],
        vec![(0, 1, 1, "=B1&\"x\"".into()), (0, 1, 2, "=C1".into())],
        vec![(0, 1, 1, "=ISNUMBER(B1)".into()), (0, 1, 2, "=1E308*10".into())],
        vec![(0, 1, 1, "=A1".into())],
        vec![(0, 1, 1, "=B1+1".into()), (0, 1, 2, "=A1*2".into()), (0, 1, 3, "=SUM(A1:B1)".into()), (0, 1, 4, "=C1".into())],
        vec![(0, 1, 1, "=IF(TRUE,,1)".into()), (0, 1, 2, "=ISBLANK(A1)".into()), (0, 2, 1, "=ISBLANK(B2)".into()), (0, 2, 2, "=IF(TRUE,,1)".into())],
    ];
    for w in 0..(corpus.len() + nwb) {
        let kind = if w < corpus.len() { 99 } else { (w - corpus.len()) % 6 };
        let inputs: Vec<gen::Input> = if w < corpus.len() { corpus[w].clone() } else { gen::gen_workbook(&mut rng, kind) };
        let kname = if kind == 99 { "corpus" } else { gen::KINDS[kind] };
        let r = std::panic::catch_unwind(std::panic::AssertUnwindSafe(|| {
            let mut m = Model::new_empty("m", "en", "UTC", "en").unwrap();
            m.new_sheet(); m.new_sheet();
            let mut sorted = inputs.clone(); sorted.sort();
            for (s, r, c, t) in &sorted { if m.set_user_input(*s, *r, *c, t.clone()).is_err() { return None; } }
            let wb = dump::workbook(&m, false)?;
            let order = dump::eval_order(&m);
            let cells = dump::all_cells(&m);
            m.evaluate();
            let obs: Vec<String> = cells.iter().map(|&(s, r, c)| dump::cell_obs(&m, s, r, c)).collect();
            let line = format!("ev {} {} {}", dump::cells_str(&order), dump::cells_str(&cells), wb);
            let wbv = dump::workbook(&m, true)?;
            Some((line, obs, wbv, m))
        }));
        match r {
            Err(_) => { panics += 1; }
            Ok(None) => { not_covered += 1; }
            Ok(Some((line, obs, wbv, m))) => {
                covered += 1; *dist.entry(kname.to_string()).or_insert(0) += 1;
                if obs.iter().any(|o| !o.starts_with('x') && !o.starts_with('e')) { nontrivial += 1; }
                cs.case(&line, &obs.join(" "));
                if samples.len() < 10 && w % 41 == 0 { samples.push(format!("{} {:?}", kname, inputs.iter().take(6).collect::<Vec<_>>())); }
                // dependency graph of the formula cells
                let cells = dump::all_cells(&m);
                let mut deps: HashMap<C, Vec<C>> = HashMap::new();
                let mut absorbs: HashMap<C, bool> = HashMap::new();
                for &(s, r, c) in &cells {
                    if let Some(f) = m.workbook.worksheets[s as usize].sheet_data[&r][&c].get_formula() {
                        let (node, _) = &m.parsed_formulas[s as usize][f as usize];
                        let mut v = vec![]; let mut ab = false; node_refs(node, r, c, &mut v, &mut ab);
                        deps.insert((s, r, c), v); absorbs.insert((s, r, c), ab);
                    }
                }
                let reach = |from: C| -> BTreeSet<C> {
                    let mut seen = BTreeSet::new(); let mut todo: Vec<C> = deps.get(&from).cloned().unwrap_or_default();
                    while let Some(x) = todo.pop() { if seen.insert(x) { if let Some(d) = deps.get(&x) { todo.extend(d.iter().copied()); } } }
                    seen
                };
                let fcells: Vec<C> = cells.iter().copied().filter(|c| deps.contains_key(c)).collect();
                let on_cycle: BTreeSet<C> = fcells.iter().copied().filter(|c| reach(*c).contains(c)).collect();
                let shows = |c: &C| dump::cell_obs(&m, c.0, c.1, c.2);
                let mut hints = vec![];
                for c in &fcells {
                    let rc = reach(*c);
                    let cyc = on_cycle.contains(c) || rc.iter().any(|d| on_cycle.contains(d));
                    let direct = &deps[c];
                    let rz = direct.iter().any(|d| deps.contains_key(d) && shows(d) == "n0000000000000000");
                    let rn = direct.iter().any(|d| deps.contains_key(d) && shows(d) == "x5");
                    hints.push(format!("{},{},{}:{}{}{}", c.0, c.1, c.2, cyc as u8, rz as u8, rn as u8));
                    // (iii) #CIRC! only on a cycle or when reading a cell that shows it
                    oracle.checked += 1;
                    let v = shows(c);
                    if v == "x10" && !on_cycle.contains(c) && !direct.iter().any(|d| shows(d) == "x10") {
                        // the raw-vs-stored effect can also hide the #CIRC! a precedent returned
                        let class = if rc.iter().any(|d| on_cycle.contains(d)) { "circ_read_from_absorbed_cycle" } else { "circ_without_cycle" };
                        oracle.fail(class, json!({"inputs": inputs, "cell": c}), format!("cell {:?} shows #CIRC! but is not on a cycle and reads no cell showing #CIRC!", c));
                    }
                    if on_cycle.contains(c) && v != "x10" {
                        let cyc_cells: Vec<C> = on_cycle.iter().copied().filter(|d| reach(*d).contains(c) && rc.contains(d) || d == c).collect();
                        let absorbed = cyc_cells.iter().any(|d| absorbs[d]);
                        let class = if v.starts_with('x') { "cycle_other_error_first" } else if absorbed { "absorbed_cycle" } else { "cycle_without_circ" };
                        oracle.fail(class, json!({"inputs": inputs, "cell": c, "shows": v}), format!("cell {:?} is on a dependency cycle but shows {}", c, v));
                    }
                }
                // (ii) the consistency predicate on the implementation's values
                writeln!(fo, "cons {} {}", dump::cells_str(&fcells), wbv).unwrap();
                writeln!(fh, "{}\t{}", hints.join(" "), serde_json::to_string(&inputs).unwrap()).unwrap();
                ocases += 1;
            }
        }
    }
    fo.flush().unwrap(); fh.flush().unwrap();
    cs.finish(json!({
        "workbooks": covered, "not_covered_outside_core_language": not_covered, "panics": panics,
        "distribution": dist, "distinct_nontrivial": nontrivial, "samples": samples, "consistency_cases": ocases,
        "oracle_checked": oracle.checked, "oracle_failures": oracle.failures, "oracle_failures_per_class": oracle.per_class,
    }));
}
