//! C05 — every formula value is consistent with its inputs.
//! (i)  correspondence: generated workbooks (DAGs, chains of depth 200, cycles of length 1-5 with
//!      and without error-absorbing functions, cross-sheet references, empty/overflowing results)
//!      are dumped for the extracted store evaluator before evaluation; stored values compared.
//! (ii) the property statement on the implementation's own state: the workbook WITH the values the
//!      implementation stored is dumped (cases/c05o.in); the runner re-evaluates every formula
//!      cell with the model's expression semantics over those stored values (values_consistent_b).
//! (iii) #CIRC! appears only on a cycle or when reading a cell that shows it; cells on a cycle
//!      show #CIRC! (oracle, evaluated here on the implementation's values).
#[path = "../../c06/src/dump.rs"]
mod dump;
#[path = "../../c07/src/gen.rs"]
mod gen;
use ironcalc_base::expressions::parser::Node;
use ironcalc_base::types::Cell;
use ironcalc_base::{Function, Model};
use serde_json::json;
use std::collections::{BTreeMap, BTreeSet, HashMap};
use std::io::Write;
use vh_common::*;

type C = (u32, i32, i32);

fn node_refs(n: &Node, row: i32, col: i32, out: &mut Vec<C>, absorbing: &mut bool) {
    match n {
        Node::ReferenceKind { sheet_index, absolute_row, absolute_column, row: r, column: c, .. } => {
            out.push((*sheet_index, if *absolute_row { *r } else { *r + row }, if *absolute_column { *c } else { *c + col }));
        }
        Node::RangeKind { sheet_index, absolute_row1, absolute_column1, row1, column1, absolute_row2, absolute_column2, row2, column2, .. } => {
            let r1 = if *absolute_row1 { *row1 } else { *row1 + row }; let r2 = if *absolute_row2 { *row2 } else { *row2 + row };
            let c1 = if *absolute_column1 { *column1 } else { *column1 + col }; let c2 = if *absolute_column2 { *column2 } else { *column2 + col };
            if ((r1 - r2).abs() + 1) as i64 * ((c1 - c2).abs() + 1) as i64 <= 2000 {
                for r in r1.min(r2)..=r1.max(r2) { for c in c1.min(c2)..=c1.max(c2) { out.push((*sheet_index, r, c)); } }
            }
        }
        Node::UnaryKind { right, .. } => node_refs(right, row, col, out, absorbing),
        Node::ImplicitIntersection { child, .. } => node_refs(child, row, col, out, absorbing),
        Node::OpSumKind { left, right, .. } | Node::OpProductKind { left, right, .. } | Node::OpPowerKind { left, right }
        | Node::OpConcatenateKind { left, right } | Node::CompareKind { left, right, .. } | Node::OpRangeKind { left, right } => {
            node_refs(left, row, col, out, absorbing); node_refs(right, row, col, out, absorbing);
        }
        Node::FunctionKind { kind, args } => {
            // functions that can turn an error argument into a non-error result (or skip it)
            if matches!(kind, Function::If | Function::Iferror | Function::Isnumber | Function::Istext | Function::Isblank
                | Function::And | Function::Or | Function::Count | Function::Counta | Function::Iserror | Function::Iserr
                | Function::Isna | Function::Ifna | Function::Islogical | Function::Isnontext | Function::Ifs | Function::Choose
                | Function::Switch | Function::Countblank | Function::Type | Function::Rows | Function::Columns | Function::Isref | Function::Isformula) { *absorbing = true; }
            for a in args { node_refs(a, row, col, out, absorbing); }
        }
        _ => {}
    }
}

#[derive(Clone, Debug)]
enum Step {
    Enter(u32, i32, i32, String),
    /// set_user_array_formula(sheet,row,col,width,height,text)
    Cse(u32, i32, i32, i32, i32, String),
    Eval,
}
fn steps_json(st: &[Step]) -> serde_json::Value {
    json!(st.iter().map(|s| match s {
        Step::Enter(s, r, c, t) => json!([s, r, c, t]),
        Step::Cse(s, r, c, w, h, t) => json!([s, r, c, format!("CSE {}x{} {}", w, h, t)]),
        Step::Eval => json!("evaluate"),
    }).collect::<Vec<_>>())
}
fn simple(inputs: &[gen::Input]) -> Vec<Step> {
    let mut sorted = inputs.to_vec(); sorted.sort();
    let mut v: Vec<Step> = sorted.into_iter().map(|(s, r, c, t)| Step::Enter(s, r, c, t)).collect();
    v.push(Step::Eval);
    v
}
fn colname(c: i32) -> String { ironcalc_base::expressions::utils::number_to_column(c).unwrap() }

/// full-column / full-row ranges as aggregate arguments, same-sheet and cross-sheet, the referenced
/// sheet's used area larger and smaller than the formula sheet's
fn gen_fullrange(rng: &mut Rng) -> Vec<Step> {
    let mut v: Vec<Step> = vec![];
    let cross = rng.chance(2, 3);
    let (fs, ds): (u32, u32) = if !cross { (0, 0) } else if rng.chance(1, 2) { (0, 1) } else { (1, 0) };
    let vals = ["1", "10", "100", "2.5", "-4", "abc", "TRUE", "7", "0", "1000", "", "5"];
    // the data: a column block A1..B{n} and a row block in rows 1..3 up to column m
    let n = *rng.pick(&[3i32, 3, 6, 14]);
    let mcol = *rng.pick(&[2i32, 3, 9]);
    for r in 1..=n { for c in 1..=2 { let t = *rng.pick(&vals); if !t.is_empty() && (c == 1 || rng.chance(1, 2)) { v.push(Step::Enter(ds, r, c, t.to_string())); } } }
    for r in 1..=3 { for c in 3..=mcol { let t = *rng.pick(&vals); if !t.is_empty() && rng.chance(2, 3) { v.push(Step::Enter(ds, r, c, t.to_string())); } } }
    // the formulas: cross-sheet in row 1 of the formula sheet (so that its used area is ONE row), same-sheet away from the ranges
    let (fr, fc0) = if cross { (1, 1) } else { (n.max(3) + 2, mcol.max(2) + 2) };
    let pre = if cross { format!("Sheet{}!", ds + 1) } else { String::new() };
    let ranges = ["A:A", "1:1", "A:B", "2:3", "B:B", "1:2"];
    let fns = ["SUM", "COUNT", "COUNTA", "MIN", "MAX", "AVERAGE"];
    let k = rng.range(4, 7) as i32;
    for i in 0..k {
        let f = *rng.pick(&fns); let r = *rng.pick(&ranges);
        let text = match rng.below(5) { 0 => format!("={f}({pre}{r},1)"), 1 => format!("={f}({pre}{r})+{f}({pre}A:A)"), _ => format!("={f}({pre}{r})") };
        v.push(Step::Enter(fs, fr, fc0 + i, text));
    }
    // sometimes the formula sheet is the LARGER one
    if cross && rng.chance(1, 3) { v.push(Step::Enter(fs, 30, 12, "9".to_string())); }
    v.push(Step::Eval);
    if rng.chance(1, 2) {
        // grow or shrink the data and evaluate again
        v.push(Step::Enter(ds, n + rng.range(1, 4) as i32, 1, "1000".to_string()));
        v.push(Step::Enter(ds, 1, mcol + rng.range(1, 3) as i32, "500".to_string()));
        v.push(Step::Eval);
    }
    v
}

/// build, evaluate, CHANGE inputs, evaluate again: CSE and dynamic arrays over a block of literals, whose
/// non-anchor cells are read by plain formulas placed BEFORE and AFTER them in sheet order
fn gen_multistep(rng: &mut Rng) -> Vec<Step> {
    let mut v: Vec<Step> = vec![];
    let s = 0u32;
    let lit = |rng: &mut Rng| -> String { rng.pick(&["1", "2", "3", "4", "5", "7", "10", "-2", "0.5", "20"]).to_string() };
    for r in 1..=3 { for c in 1..=2 { v.push(Step::Enter(s, r, c, lit(rng))); } }   // A1:B3
    // arrays at rows 6.. (columns C.. and G..); readers in rows 1-4 (columns D..) = before, rows 12.. = after
    let mut areas: Vec<(i32, i32, i32, i32)> = vec![]; // row, col, w, h
    let n_arr = rng.range(1, 2);
    for k in 0..n_arr {
        let (ar, ac) = (6, 3 + 4 * k as i32);
        let cse = rng.chance(2, 3);
        let (w, h, text): (i32, i32, &str) = *rng.pick(&[
            (2, 2, "=A1:B2*10"), (1, 3, "=A1:A3*B1"), (2, 2, "={1,2;3,4}*A1"), (2, 2, "=A1:B2+B3"), (2, 1, "=A1:B1&\"x\""),
            (1, 3, "=IF(A1:A3>2,A1:A3,0)"), (2, 2, "=ABS(A1:B2)-A3"), (2, 3, "=A1:B3"), (2, 2, "=A1*2"), (1, 2, "=A1:A2/B1:B2"), (2, 2, "=-A2:B3"),
            (2, 2, "=A1:B2*1E308"), (1, 2, "=A1:A2*1E308"), (2, 1, "=10^(A1:B1*200)"),   // elements overflow: stored #NUM! (guard in the array sinks)
        ]);
        if cse { v.push(Step::Cse(s, ar, ac, w, h, text.to_string())); } else { v.push(Step::Enter(s, ar, ac, text.to_string())); }
        areas.push((ar, ac, w, h));
    }
    let mut before_c = 4; let mut after_c = 1;
    for &(ar, ac, w, h) in &areas {
        let nread = rng.range(2, 4);
        for _ in 0..nread {
            // a non-anchor cell of the area (the anchor itself now and then)
            let (dr, dc) = loop { let p = (rng.range(0, h as i64 - 1) as i32, rng.range(0, w as i64 - 1) as i32); if p != (0, 0) || rng.chance(1, 6) || (w == 1 && h == 1) { break p; } };
            let cell = format!("{}{}", colname(ac + dc), ar + dr);
            let area = format!("{}{}:{}{}", colname(ac), ar, colname(ac + w - 1), ar + h - 1);
            let t = match rng.below(8) {
                0 | 1 => format!("={cell}"), 2 => format!("=SUM({cell}:{cell})"), 3 => format!("={cell}&\"|\""), 4 => format!("=SUM({area})"),
                5 => format!("=COUNT({area})"), 6 => format!("={cell}+1"), _ => format!("=IFERROR({cell}*2,-1)"),
            };
            if rng.chance(1, 2) { v.push(Step::Enter(s, rng.range(1, 4) as i32, before_c, t)); before_c += 1; }
            else { v.push(Step::Enter(s, 12 + rng.range(0, 2) as i32, after_c, t)); after_c += 1; }
        }
    }
    v.push(Step::Eval);
    let rounds = rng.range(1, 2);
    for _ in 0..rounds {
        let nch = rng.range(1, 3);
        for _ in 0..nch { v.push(Step::Enter(s, rng.range(1, 3) as i32, rng.range(1, 2) as i32, if rng.chance(1, 8) { "abc".to_string() } else { lit(rng) })); }
        v.push(Step::Eval);
    }
    v
}

fn main() {
    let a = Args::parse();
    let mut cs = Cases::new(&a.out, "c05");
    let mut fo = std::io::BufWriter::new(std::fs::File::create(format!("{}/c05o.in", a.out)).unwrap());
    let mut fh = std::io::BufWriter::new(std::fs::File::create(format!("{}/c05o.hint", a.out)).unwrap());
    let mut rng = Rng::new(a.seed);
    let mut oracle = Oracle::default();
    let nwb = if a.thorough { 10_000 } else { 400 };
    let mut dist: BTreeMap<String, u64> = BTreeMap::new();
    let mut not_covered = 0u64; let mut covered = 0u64; let mut nontrivial = 0u64; let mut panics = 0u64; let mut ocases = 0u64; let mut evals = 0u64;
    let mut samples: Vec<String> = vec![];
    let e = |s: u32, r: i32, c: i32, t: &str| Step::Enter(s, r, c, t.to_string());
    // the design-phase witnesses first, then generated workbooks
    let mut corpus: Vec<Vec<Step>> = vec![
        simple(&[(0, 1, 1, "=IFERROR(B1,5)".into()), (0, 1, 2, "=A1+1".into())]),
        simple(&[(0, 1, 1, "=B1&\"x\"".into()), (0, 1, 2, "=C1".into())]),
        simple(&[(0, 1, 1, "=ISNUMBER(B1)".into()), (0, 1, 2, "=1E308*10".into())]),
        simple(&[(0, 1, 1, "=A1".into())]),
        simple(&[(0, 1, 1, "=B1+1".into()), (0, 1, 2, "=A1*2".into()), (0, 1, 3, "=SUM(A1:B1)".into()), (0, 1, 4, "=C1".into())]),
        simple(&[(0, 1, 1, "=IF(TRUE,,1)".into()), (0, 1, 2, "=ISBLANK(A1)".into()), (0, 2, 1, "=ISBLANK(B2)".into()), (0, 2, 2, "=IF(TRUE,,1)".into())]),
        // whole-column / whole-row sums over another sheet whose used area is larger than the formula sheet's
        vec![e(1, 1, 1, "1"), e(1, 2, 1, "10"), e(1, 3, 1, "100"), e(0, 1, 1, "=SUM(Sheet2!A:A)"), e(0, 1, 2, "=COUNT(Sheet2!A:A)"), e(0, 1, 3, "=MAX(Sheet2!A:B)"), Step::Eval],
        vec![e(1, 1, 1, "1"), e(1, 1, 2, "10"), e(1, 1, 3, "100"), e(0, 1, 1, "=SUM(Sheet2!1:1)"), e(0, 2, 1, "=AVERAGE(Sheet2!1:2)"), Step::Eval],
        vec![e(0, 1, 1, "1"), e(0, 2, 1, "10"), e(0, 3, 1, "100"), e(0, 1, 4, "=SUM(A:A)"), e(0, 5, 4, "=SUM(1:1)"), e(1, 9, 9, "=SUM(Sheet1!A:B)"), Step::Eval],
        // a CSE array evaluated once, a reader EARLIER in sheet order reading a non-anchor cell, an input changes
        vec![e(0, 1, 1, "2"), e(0, 2, 1, "4"), Step::Cse(0, 5, 3, 1, 2, "=A1:A2*1".into()), e(0, 1, 3, "=C6"), e(0, 1, 4, "=SUM(C6:C6)"), e(0, 9, 1, "=C6"), Step::Eval,
             e(0, 2, 1, "20"), Step::Eval],
        vec![e(0, 1, 1, "2"), e(0, 2, 1, "4"), e(0, 5, 3, "=A1:A2*1"), e(0, 1, 3, "=C6"), e(0, 1, 4, "=SUM(C6:C6)"), e(0, 9, 1, "=C6"), Step::Eval,
             e(0, 2, 1, "20"), Step::Eval, e(0, 1, 1, "abc"), Step::Eval],
        // array elements that overflow: the anchor / spill cells store #NUM!; a reader before a CSE anchor triggers its evaluation
        vec![e(0, 1, 1, "=ISNUMBER(C5)"), e(0, 1, 2, "=ISNUMBER(D5)"), e(0, 1, 4, "=IFERROR(C5*0,7)"), Step::Cse(0, 5, 3, 2, 1, "={1E308,1}*10".into()), e(0, 9, 1, "=ISNUMBER(C5)"), Step::Eval, Step::Eval],
        vec![e(0, 1, 1, "=ISNUMBER(C5)"), e(0, 1, 2, "=ISNUMBER(D5)"), e(0, 5, 3, "={1E308,1}*10"), e(0, 9, 1, "=ISNUMBER(C5)"), e(0, 9, 2, "=SUM(C5:D5)"), Step::Eval, Step::Eval],
    ];
    let ncorpus = corpus.len();
    for w in 0..(ncorpus + nwb) {
        // kinds 0-5: the shared generator; 6: full ranges; 7: multi-step with arrays
        let kind = if w < ncorpus { 99 } else { [0usize, 1, 2, 3, 4, 5, 7, 6, 7, 0, 2, 3, 7, 5, 4, 7][(w - ncorpus) % 16] };
        let kind = if kind == 6 && !a.thorough && (w - ncorpus) % 32 != 7 && w > ncorpus + 200 { 7 } else { kind };
        let steps: Vec<Step> = if w < ncorpus { std::mem::take(&mut corpus[w]) } else {
            match kind { 6 => gen_fullrange(&mut rng), 7 => gen_multistep(&mut rng), k => simple(&gen::gen_workbook(&mut rng, k)) } };
        let kname = match kind { 99 => "corpus", 6 => "full_column_row_ranges", 7 => "multistep_arrays", k => gen::KINDS[k] };
        let inputs = steps_json(&steps);
        // every evaluate of the script gives one correspondence case and one consistency case
        let r = std::panic::catch_unwind(std::panic::AssertUnwindSafe(|| {
            let mut m = Model::new_empty("m", "en", "UTC", "en").unwrap();
            m.new_sheet(); m.new_sheet();
            let mut out: Vec<(String, Vec<String>, String, Vec<String>, Vec<serde_json::Value>)> = vec![];
            let mut fresh_cse: Vec<(u32, i32, i32, i32, i32)> = vec![];
            for st in &steps {
                match st {
                    Step::Enter(s, r, c, t) => { if m.set_user_input(*s, *r, *c, t.clone()).is_err() { return None; } }
                    Step::Cse(s, r, c, w, h, t) => { if m.set_user_array_formula(*s, *r, *c, *w, *h, t).is_err() { return None; } fresh_cse.push((*s, *r, *c, *w, *h)); }
                    Step::Eval => {
                        let wb = dump::workbook(&m, true)?;
                        let order = dump::eval_order(&m);
                        m.evaluate();
                        let cells = dump::all_cells(&m);
                        let obs: Vec<String> = cells.iter().map(|&(s, r, c)| dump::cell_obs(&m, s, r, c)).collect();
                        let line = format!("ev {} {} {}", dump::cells_str(&order), dump::cells_str(&cells), wb);
                        let wbv = dump::workbook(&m, true)?;
                        // dependency graph of the formula cells (syntactic)
                        let mut deps: HashMap<C, Vec<C>> = HashMap::new();
                        let mut absorbs: HashMap<C, bool> = HashMap::new();
                        for &(s, r, c) in &cells {
                            if let Some(f) = m.workbook.worksheets[s as usize].sheet_data[&r][&c].get_formula() {
                                let (node, _) = &m.parsed_formulas[s as usize][f as usize];
                                let mut v = vec![]; let mut ab = false; node_refs(node, r, c, &mut v, &mut ab);
                                deps.insert((s, r, c), v); absorbs.insert((s, r, c), ab);
                            }
                        }
                        let reach = |from: C| -> BTreeSet<C> {
                            let mut seen = BTreeSet::new(); let mut todo: Vec<C> = deps.get(&from).cloned().unwrap_or_default();
                            while let Some(x) = todo.pop() { if seen.insert(x) { if let Some(d) = deps.get(&x) { todo.extend(d.iter().copied()); } } }
                            seen
                        };
                        let fcells: Vec<C> = cells.iter().copied().filter(|c| deps.contains_key(c)).collect();
                        let on_cycle: BTreeSet<C> = fcells.iter().copied().filter(|c| reach(*c).contains(c)).collect();
                        let shows = |c: &C| dump::cell_obs(&m, c.0, c.1, c.2);
                        let mut hints = vec![]; let mut fails = vec![];
                        for c in &fcells {
                            let rc = reach(*c);
                            let cyc = on_cycle.contains(c) || rc.iter().any(|d| on_cycle.contains(d));
                            let direct = &deps[c];
                            let rz = direct.iter().any(|d| deps.contains_key(d) && shows(d) == "n0000000000000000");
                            let rn = direct.iter().any(|d| deps.contains_key(d) && shows(d) == "x5");
                            // reads a non-anchor cell of a CSE area entered since the previous evaluate: on that first
                            // evaluate the cell still was the "" placeholder of set_user_array_formula when it was read
                            let pl = direct.iter().any(|d| fresh_cse.iter().any(|&(s, r, c, w, h)| d.0 == s && d.1 >= r && d.1 < r + h && d.2 >= c && d.2 < c + w && (d.1, d.2) != (r, c)));
                            hints.push(format!("{},{},{}:{}{}{}{}", c.0, c.1, c.2, cyc as u8, rz as u8, rn as u8, pl as u8));
                            let v = shows(c);
                            if v == "x10" && !on_cycle.contains(c) && !direct.iter().any(|d| shows(d) == "x10") {
                                let class = if rc.iter().any(|d| on_cycle.contains(d)) { "circ_read_from_absorbed_cycle" } else { "circ_without_cycle" };
                                fails.push(json!([class, c, format!("cell {:?} shows #CIRC! but is not on a cycle and reads no cell showing #CIRC!", c), v]));
                            }
                            if on_cycle.contains(c) && v != "x10" {
                                let cyc_cells: Vec<C> = on_cycle.iter().copied().filter(|d| reach(*d).contains(c) && rc.contains(d) || d == c).collect();
                                let absorbed = cyc_cells.iter().any(|d| absorbs[d]);
                                let class = if v.starts_with('x') { "cycle_other_error_first" } else if absorbed { "absorbed_cycle" } else { "cycle_without_circ" };
                                fails.push(json!([class, c, format!("cell {:?} is on a dependency cycle but shows {}", c, v), v]));
                            }
                        }
                        let cons = format!("cons {} {}", dump::cells_str(&fcells), wbv);
                        out.push((line, obs, cons, hints, fails));
                        fresh_cse.clear();
                    }
                }
            }
            Some(out)
        }));
        match r {
            Err(_) => { panics += 1; }
            Ok(None) => { not_covered += 1; }
            Ok(Some(out)) => {
                covered += 1; *dist.entry(kname.to_string()).or_insert(0) += 1;
                if out.iter().any(|(_, obs, ..)| obs.iter().any(|o| !o.starts_with('x') && !o.starts_with('e'))) { nontrivial += 1; }
                if samples.len() < 12 && (w % 37 == 0 || (kind >= 6 && kind != 99 && samples.len() < 4)) { samples.push(format!("{} {}", kname, serde_json::to_string(&inputs).unwrap().chars().take(400).collect::<String>())); }
                for (line, obs, cons, hints, fails) in out {
                    evals += 1;
                    cs.case(&line, &obs.join(" "));
                    oracle.checked += hints.len() as u64;
                    for f in fails { oracle.fail(f[0].as_str().unwrap(), json!({"inputs": inputs, "cell": f[1], "shows": f[3]}), f[2].as_str().unwrap().to_string()); }
                    writeln!(fo, "{}", cons).unwrap();
                    writeln!(fh, "{}\t{}", hints.join(" "), serde_json::to_string(&inputs).unwrap()).unwrap();
                    ocases += 1;
                }
            }
        }
    }
    fo.flush().unwrap(); fh.flush().unwrap();
    cs.finish(json!({
        "workbooks": covered, "evaluations": evals, "not_covered_outside_core_language": not_covered, "panics": panics,
        "distribution": dist, "distinct_nontrivial": nontrivial, "samples": samples, "consistency_cases": ocases,
        "oracle_checked": oracle.checked, "oracle_failures": oracle.failures, "oracle_failures_per_class": oracle.per_class,
    }));
}
