//! C28 — the selection always points at an existing sheet and cell.
//! Implementation side of the correspondence (UserModel of /repo driven by token histories)
//! and the property oracle (`sel_ok` evaluated on the workbook fields after every step).
//!
//! One history per line:   h <setup tokens> | <op tokens>
//!   setup token  S:<hidden rows>:<row heights>:<hidden cols>:<col widths>:<non-empty cells>
//!                lists are comma separated, `-` is the empty list, pairs are `k=v`, cells `RxC`
//!   op tokens    see `apply`
//! Observation (one line): per step `res,n,sel,vis,row,col,r1,c1,r2,c2,top,left,ww,wh,ud,rd`
//! joined by `;`, then ` # ` and a dump of every sheet.
use ironcalc_base::types::{Color, SheetState, Style};
use ironcalc_base::worksheet::NavigationDirection;
use ironcalc_base::{Model, UserModel};
use serde_json::json;
use std::collections::BTreeMap;
use std::panic::{catch_unwind, AssertUnwindSafe};
use vh_common::*;

const LAST_ROW: i32 = 1_048_576;
const LAST_COLUMN: i32 = 16_384;

#[derive(Clone, Debug, PartialEq)]
struct View {
    row: i32,
    col: i32,
    range: [i32; 4],
    top: i32,
    left: i32,
}

#[derive(Clone, Debug)]
struct Obs {
    n: usize,
    sel: u32,
    vis: String,
    views: Vec<Option<View>>,
    ww: i64,
    wh: i64,
    ud: usize,
    rd: usize,
}

fn observe(um: &UserModel) -> Obs {
    let wb = &um.get_model().workbook;
    let (sel, ww, wh) = match wb.views.get(&0) {
        Some(v) => (v.sheet, v.window_width, v.window_height),
        None => (u32::MAX, 0, 0),
    };
    let mut vis = String::new();
    let mut views = vec![];
    for ws in &wb.worksheets {
        vis.push(if ws.state == SheetState::Visible { '1' } else { '0' });
        views.push(ws.views.get(&0).map(|v| View { row: v.row, col: v.column, range: v.range, top: v.top_row, left: v.left_column }));
    }
    let (ud, rd, _) = um.verif_history_depths();
    Obs { n: wb.worksheets.len(), sel, vis, views, ww, wh, ud, rd }
}

fn grid(r: i32, c: i32) -> bool {
    (1..=LAST_ROW).contains(&r) && (1..=LAST_COLUMN).contains(&c)
}
fn in_hull(v: &View) -> bool {
    let [r1, c1, r2, c2] = v.range;
    r1.min(r2) <= v.row && v.row <= r1.max(r2) && c1.min(c2) <= v.col && v.col <= c1.max(c2)
}
fn view_ok(v: &View) -> bool {
    grid(v.row, v.col) && grid(v.range[0], v.range[1]) && grid(v.range[2], v.range[3]) && in_hull(v)
}
/// the property statement on the implementation's state (every sheet's view, so that the
/// statement is inductive: any sheet can become the selected one)
fn sel_ok(o: &Obs) -> bool {
    (o.sel as usize) < o.n && o.views.iter().all(|v| v.as_ref().map(view_ok).unwrap_or(false))
}

fn step_obs(res: char, o: &Obs) -> String {
    let v = if (o.sel as usize) < o.n { o.views[o.sel as usize].clone() } else { None };
    let vs = match v {
        Some(v) => format!("{},{},{},{},{},{},{},{}", v.row, v.col, v.range[0], v.range[1], v.range[2], v.range[3], v.top, v.left),
        None => "x".to_string(),
    };
    format!("{},{},{},{},{},{},{},{},{}", res, o.n, o.sel, o.vis, vs, o.ww, o.wh, o.ud, o.rd)
}

/// full dump of every sheet: name, visibility, view, canonical geometry
fn dump(um: &UserModel) -> String {
    let wb = &um.get_model().workbook;
    let mut out = vec![];
    for ws in &wb.worksheets {
        let v = ws.views.get(&0);
        let vs = match v {
            Some(v) => format!("{},{},{},{},{},{},{},{}", v.row, v.column, v.range[0], v.range[1], v.range[2], v.range[3], v.top_row, v.left_column),
            None => "x".to_string(),
        };
        // rows: (r, hidden, stored ui height) where not (visible and 25)
        let mut rows: BTreeMap<i32, (bool, i64)> = BTreeMap::new();
        for r in &ws.rows {
            let h = (r.height * ironcalc_base::ROW_HEIGHT_FACTOR).round() as i64;
            rows.insert(r.r, (r.hidden, h));
        }
        let rs: Vec<String> = rows.iter().filter(|(_, (hid, h))| *hid || *h != 25).map(|(r, (hid, h))| format!("{}{}{}", r, if *hid { "h" } else { "v" }, h)).collect();
        // columns: expanded per column (bands are small in generated histories), canonical
        let mut cols: BTreeMap<i32, (bool, i64)> = BTreeMap::new();
        for c in &ws.cols {
            let w = if c.custom_width { (c.width * ironcalc_base::COLUMN_WIDTH_FACTOR).round() as i64 } else { 90 };
            let hi = c.max.min(c.min + 4000);
            for k in c.min..=hi {
                cols.entry(k).or_insert((c.hidden, w));
            }
        }
        let cs: Vec<String> = cols.iter().filter(|(_, (hid, w))| *hid || *w != 90).map(|(c, (hid, w))| format!("{}{}{}", c, if *hid { "h" } else { "v" }, w)).collect();
        let mut cells: Vec<(i32, i32)> = vec![];
        for (r, rd) in &ws.sheet_data {
            for (c, _) in rd {
                if let Ok(false) = ws.is_empty_cell(*r, *c) {
                    cells.push((*r, *c));
                }
            }
        }
        cells.sort();
        let ce: Vec<String> = cells.iter().map(|(r, c)| format!("{}x{}", r, c)).collect();
        out.push(format!(
            "{}/{}/{}/{}/{}/{}",
            wire(&ws.name),
            if ws.state == SheetState::Visible { 1 } else { 0 },
            vs,
            if rs.is_empty() { "-".to_string() } else { rs.join(",") },
            if cs.is_empty() { "-".to_string() } else { cs.join(",") },
            if ce.is_empty() { "-".to_string() } else { ce.join(",") }
        ));
    }
    out.join(" ")
}

fn parse_list(s: &str) -> Vec<&str> {
    if s == "-" || s.is_empty() { vec![] } else { s.split(',').collect() }
}

fn setup(tokens: &[&str]) -> Result<UserModel<'static>, String> {
    let mut model = Model::new_empty("m", "en", "UTC", "en")?;
    for (i, t) in tokens.iter().enumerate() {
        let f: Vec<&str> = t.split(':').collect();
        if f.len() != 6 || f[0] != "S" {
            return Err(format!("bad setup token {t}"));
        }
        let sheet = i as u32;
        if i > 0 {
            model.add_sheet(&format!("Sheet{}", i + 1))?;
        }
        for kv in parse_list(f[2]) {
            let (k, v) = kv.split_once('=').ok_or("kv")?;
            model.set_row_height(sheet, k.parse().map_err(|_| "int")?, v.parse::<i64>().map_err(|_| "int")? as f64)?;
        }
        for r in parse_list(f[1]) {
            model.set_row_hidden(sheet, r.parse().map_err(|_| "int")?, true)?;
        }
        for kv in parse_list(f[4]) {
            let (k, v) = kv.split_once('=').ok_or("kv")?;
            model.set_column_width(sheet, k.parse().map_err(|_| "int")?, v.parse::<i64>().map_err(|_| "int")? as f64)?;
        }
        for c in parse_list(f[3]) {
            model.set_column_hidden(sheet, c.parse().map_err(|_| "int")?, true)?;
        }
        for rc in parse_list(f[5]) {
            let (r, c) = rc.split_once('x').ok_or("cell")?;
            model.set_user_input(sheet, r.parse().map_err(|_| "int")?, c.parse().map_err(|_| "int")?, "7".to_string())?;
        }
    }
    model.evaluate();
    Ok(UserModel::from_model(model))
}

fn ints(f: &[&str]) -> Option<Vec<i64>> {
    f.iter().map(|x| x.parse::<i64>().ok()).collect()
}

/// runs one op token on the implementation; 'o' = Ok, 'e' = Err, 'p' = panic, '?' = bad token
fn apply(um: &mut UserModel, tok: &str) -> char {
    let f: Vec<&str> = tok.split(':').collect();
    let r = catch_unwind(AssertUnwindSafe(|| -> Result<Result<(), String>, ()> {
        let a = if f[0] == "ren" { ints(&f[1..2]) } else if f[0] == "ex" || f[0] == "ne" { Some(vec![]) } else { ints(&f[1..]) };
        let a = match a { Some(a) => a, None => return Err(()) };
        let u = |i: usize| a[i] as u32;
        let g = |i: usize| a[i] as i32;
        Ok(match (f[0], a.len()) {
            ("ss", 1) => um.set_selected_sheet(u(0)),
            ("sc", 2) => um.set_selected_cell(g(0), g(1)),
            ("sr", 4) => um.set_selected_range(g(0), g(1), g(2), g(3)),
            ("ex", 0) => um.on_expand_selected_range(match f[1] { "U" => "ArrowUp", "D" => "ArrowDown", "L" => "ArrowLeft", "R" => "ArrowRight", _ => "Enter" }),
            ("tl", 2) => um.set_top_left_visible_cell(g(0), g(1)),
            ("ww", 1) => { um.set_window_width(a[0] as f64); Ok(()) }
            ("wh", 1) => { um.set_window_height(a[0] as f64); Ok(()) }
            ("ar", 0) => um.on_arrow_right(),
            ("al", 0) => um.on_arrow_left(),
            ("au", 0) => um.on_arrow_up(),
            ("ad", 0) => um.on_arrow_down(),
            ("pd", 0) => um.on_page_down(),
            ("pu", 0) => um.on_page_up(),
            ("as", 2) => um.on_area_selecting(g(0), g(1)),
            ("ne", 0) => um.on_navigate_to_edge_in_direction(match f[1] { "U" => NavigationDirection::Up, "D" => NavigationDirection::Down, "L" => NavigationDirection::Left, _ => NavigationDirection::Right }),
            ("new", 0) => um.new_sheet(),
            ("dup", 1) => um.duplicate_sheet(u(0)),
            ("del", 1) => um.delete_sheet(u(0)),
            ("ren", 1) => um.rename_sheet(u(0), &unwire(f[2])),
            ("mv", 2) => um.move_sheet(u(0), u(1)),
            ("hide", 1) => um.hide_sheet(u(0)),
            ("unhide", 1) => um.unhide_sheet(u(0)),
            ("color", 1) => um.set_sheet_color(u(0), &Color::Rgb("#FF0000".to_string())),
            ("hc", 4) => um.set_columns_hidden(u(0), g(1), g(2), a[3] == 1),
            ("hr", 4) => um.set_rows_hidden(u(0), g(1), g(2), a[3] == 1),
            ("rh", 4) => um.set_rows_height(u(0), g(1), g(2), a[3] as f64),
            ("cw", 4) => um.set_columns_width(u(0), g(1), g(2), a[3] as f64),
            ("ps", 2) => {
                let st: Vec<Vec<Style>> = (0..a[0]).map(|_| (0..a[1]).map(|_| Style::default()).collect()).collect();
                um.on_paste_styles(&st)
            }
            ("undo", 0) => um.undo(),
            ("redo", 0) => um.redo(),
            _ => return Err(()),
        })
    }));
    match r {
        Ok(Ok(Ok(()))) => 'o',
        Ok(Ok(Err(_))) => 'e',
        Ok(Err(())) => '?',
        Err(_) => 'p',
    }
}

/// `get_selected_view` may mask an invalid selected sheet: compare it with the fields
fn selected_view_agrees(um: &UserModel, o: &Obs) -> Option<bool> {
    let r = catch_unwind(AssertUnwindSafe(|| um.get_selected_view()));
    match r {
        Err(_) => None,
        Ok(sv) => {
            if (o.sel as usize) < o.n {
                match &o.views[o.sel as usize] {
                    Some(v) => Some(sv.sheet == o.sel && sv.row == v.row && sv.column == v.col && sv.range == v.range && sv.top_row == v.top && sv.left_column == v.left),
                    None => Some(false),
                }
            } else {
                Some(false)
            }
        }
    }
}

/// tight failure classes: predicate on (state before, op, redo-stack label, state after)
fn classify(pre: &Obs, tok: &str, _redo_top: Option<&String>, post: &Obs) -> String {
    let f: Vec<&str> = tok.split(':').collect();
    let a: Vec<i64> = f[1..].iter().filter_map(|x| x.parse::<i64>().ok()).collect();
    if (post.sel as usize) >= post.n {
        // (the classes of delete_sheet and of redo of DeleteSheet{0} were repaired in /repo:
        // any dangling selected sheet is an ordinary violation now)
        return format!("sel_sheet_invalid_other_{}", f[0]);
    }
    // which view broke
    let sel = pre.sel as usize;
    let (pv, qv) = match (pre.views.get(sel).cloned().flatten(), post.views.get(post.sel as usize).cloned().flatten()) {
        (Some(p), Some(q)) => (p, q),
        _ => return format!("view_missing_{}", f[0]),
    };
    match f[0] {
        "as" if a.len() == 2 && !grid(a[0] as i32, a[1] as i32) && qv.range == [pv.range[0], pv.range[1], a[0] as i32, a[1] as i32] && qv.row == pv.row && qv.col == pv.col => "area_selecting_offgrid".to_string(),
        "as" if a.len() == 2 && grid(a[0] as i32, a[1] as i32) && qv.range == [pv.range[0], pv.range[1], a[0] as i32, a[1] as i32] && qv.row == pv.row && qv.col == pv.col && !in_hull(&qv) && (pv.row != pv.range[0] || pv.col != pv.range[1]) => "area_selecting_cell_not_anchor".to_string(),
        "ps" if qv.row == pv.row && qv.col == pv.col && qv.range[0] == pv.range[0] && qv.range[1] == pv.range[1] && !in_hull(&qv) && grid(qv.range[2], qv.range[3]) && (pv.range[2] < pv.range[0] || pv.range[3] < pv.range[1]) => "paste_styles_reversed_range".to_string(),
        _ => format!("view_invalid_other_{}", f[0]),
    }
}

struct Runner {
    or: Oracle,
    steps: u64,
    masked: u64,
    svpanic: u64,
    res_counts: BTreeMap<String, u64>,
    distinct: std::collections::HashSet<u64>,
}

fn hash_str(s: &str) -> u64 {
    let mut h: u64 = 0xcbf29ce484222325;
    for b in s.bytes() { h ^= b as u64; h = h.wrapping_mul(0x100000001b3); }
    h
}

impl Runner {
    /// runs a whole history; returns the observation line
    fn run(&mut self, setup_toks: &[&str], ops: &[String]) -> String {
        let mut um = match setup(setup_toks) {
            Ok(u) => u,
            Err(e) => return format!("setup-error {e}"),
        };
        let mut out: Vec<String> = vec![];
        let mut undo_lab: Vec<String> = vec![];
        let mut redo_lab: Vec<String> = vec![];
        let mut pre = observe(&um);
        for tok in ops {
            let res = apply(&mut um, tok);
            let post = observe(&um);
            self.steps += 1;
            *self.res_counts.entry(format!("{}:{}", tok.split(':').next().unwrap_or(""), res)).or_insert(0) += 1;
            // shadow labels of the history stacks (only used to name failure classes)
            if tok == "undo" {
                if pre.ud > post.ud { if let Some(l) = undo_lab.pop() { redo_lab.push(l); } }
            } else if tok == "redo" {
                if pre.rd > post.rd { if let Some(l) = redo_lab.pop() { undo_lab.push(l); } }
            } else if post.ud > pre.ud {
                undo_lab.push(tok.clone());
                redo_lab.clear();
            }
            self.or.checked += 1;
            if res == 'p' {
                self.or.fail(&format!("panic_in_{}", tok.split(':').next().unwrap_or("")), json!({"setup": setup_toks, "ops": ops, "at": tok}), "the implementation panicked".to_string());
            }
            let ok_pre = sel_ok(&pre);
            let ok_post = sel_ok(&post);
            if ok_pre && !ok_post {
                let rt = if tok == "redo" { undo_lab.last() } else { None };
                let class = classify(&pre, tok, rt, &post);
                self.or.fail(&class, json!({"setup": setup_toks, "ops": ops, "at_step": out.len(), "op": tok}), format!("before: {} after: {}", step_obs('-', &pre), step_obs(res, &post)));
            }
            match selected_view_agrees(&um, &post) {
                None => self.svpanic += 1,
                Some(false) => self.masked += 1,
                Some(true) => {}
            }
            let so = step_obs(res, &post);
            self.distinct.insert(hash_str(&format!("{}>{}", tok.split(':').next().unwrap_or(""), &so)));
            out.push(so);
            pre = post;
            if res == 'p' { break; }
        }
        format!("{} # {}", out.join(";"), dump(&um))
    }
}

// ---------------------------------------------------------------- generators

fn gen_setup(rng: &mut Rng, nsheets: usize, rich: bool) -> Vec<String> {
    let mut v = vec![];
    for _ in 0..nsheets {
        if !rich || rng.chance(1, 4) {
            v.push("S:-:-:-:-:-".to_string());
            continue;
        }
        let near_r = |rng: &mut Rng| -> i32 {
            match rng.below(3) { 0 => rng.range(1, 12) as i32, 1 => rng.range((LAST_ROW - 8) as i64, LAST_ROW as i64) as i32, _ => rng.range(1, 60) as i32 }
        };
        let near_c = |rng: &mut Rng| -> i32 {
            match rng.below(3) { 0 => rng.range(1, 10) as i32, 1 => rng.range((LAST_COLUMN - 8) as i64, LAST_COLUMN as i64) as i32, _ => rng.range(1, 30) as i32 }
        };
        let mut hr = std::collections::BTreeSet::new();
        for _ in 0..rng.below(3) {
            let s = near_r(rng);
            for k in 0..rng.range(1, 4) as i32 { if s + k <= LAST_ROW { hr.insert(s + k); } }
        }
        let mut hc = std::collections::BTreeSet::new();
        for _ in 0..rng.below(3) {
            let s = near_c(rng);
            for k in 0..rng.range(1, 4) as i32 { if s + k <= LAST_COLUMN { hc.insert(s + k); } }
        }
        let mut rh = BTreeMap::new();
        for _ in 0..rng.below(4) { rh.insert(near_r(rng), *rng.pick(&[0i64, 1, 10, 25, 40, 300, 700])); }
        let mut cw = BTreeMap::new();
        for _ in 0..rng.below(4) { cw.insert(near_c(rng), *rng.pick(&[0i64, 1, 30, 90, 200, 900])); }
        let mut cells = std::collections::BTreeSet::new();
        for _ in 0..rng.below(6) {
            let (r, c) = (near_r(rng), near_c(rng));
            cells.insert((r, c));
            if rng.chance(1, 2) && r < LAST_ROW { cells.insert((r + 1, c)); }
            if rng.chance(1, 2) && c < LAST_COLUMN { cells.insert((r, c + 1)); }
        }
        let j = |v: Vec<String>| if v.is_empty() { "-".to_string() } else { v.join(",") };
        v.push(format!(
            "S:{}:{}:{}:{}:{}",
            j(hr.iter().map(|x| x.to_string()).collect()),
            j(rh.iter().map(|(k, v)| format!("{k}={v}")).collect()),
            j(hc.iter().map(|x| x.to_string()).collect()),
            j(cw.iter().map(|(k, v)| format!("{k}={v}")).collect()),
            j(cells.iter().map(|(r, c)| format!("{r}x{c}")).collect())
        ));
    }
    v
}

fn row_arg(rng: &mut Rng) -> i32 {
    match rng.below(10) {
        0 => *rng.pick(&[0, -1, -5, LAST_ROW + 1, LAST_ROW + 24, 2_000_000]),
        1 | 2 => rng.range((LAST_ROW - 30) as i64, LAST_ROW as i64) as i32,
        3 => LAST_ROW,
        4 => 1,
        _ => rng.range(1, 40) as i32,
    }
}
fn col_arg(rng: &mut Rng) -> i32 {
    match rng.below(10) {
        0 => *rng.pick(&[0, -1, -5, LAST_COLUMN + 1, 20_000]),
        1 | 2 => rng.range((LAST_COLUMN - 12) as i64, LAST_COLUMN as i64) as i32,
        3 => LAST_COLUMN,
        4 => 1,
        _ => rng.range(1, 20) as i32,
    }
}
fn sheet_arg(rng: &mut Rng, n: usize, sel: u32) -> i64 {
    match rng.below(12) {
        0 => n as i64,
        1 => n as i64 + 3,
        2 => sel as i64,
        3 => sel as i64 - 1,
        4 => sel as i64 + 1,
        5 => 0,
        6 => n as i64 - 1,
        _ => rng.below(n as u64) as i64,
    }
    .max(0)
}

const NAMES: &[&str] = &["A", "b", "Sheet2", "sheet3", "SHEET1", "Sheet1 (1)", "", "a/b", "x[1]", "abcdefghijklmnopqrstuvwxyz01234", "abcdefghijklmnopqrstuvwxyz012345", "Data", "Sheet9"];

/// one random op given the implementation's current (n, sel); `flavour` weights the groups
fn gen_op(rng: &mut Rng, o: &Obs, flavour: u64) -> String {
    let n = o.n;
    let sel = o.sel;
    let group = match flavour {
        0 => rng.below(100),              // mixed
        1 => rng.below(45),               // sheet ops + undo/redo
        _ => 40 + rng.below(60),          // navigation heavy
    };
    match group {
        0..=4 => "new".to_string(),
        5..=11 => format!("del:{}", sheet_arg(rng, n, sel)),
        12..=15 => format!("dup:{}", sheet_arg(rng, n, sel)),
        16..=20 => format!("mv:{}:{}", sheet_arg(rng, n, sel), sheet_arg(rng, n, sel)),
        21..=24 => format!("hide:{}", sheet_arg(rng, n, sel)),
        25..=26 => format!("unhide:{}", sheet_arg(rng, n, sel)),
        27..=28 => format!("ren:{}:{}", sheet_arg(rng, n, sel), wire(*rng.pick::<&str>(NAMES))),
        29 => format!("color:{}", sheet_arg(rng, n, sel)),
        30..=35 => "undo".to_string(),
        36..=39 => "redo".to_string(),
        40..=44 => format!("ss:{}", sheet_arg(rng, n, sel)),
        45..=50 => format!("sc:{}:{}", row_arg(rng), col_arg(rng)),
        51..=56 => {
            // ranges: often with the current cell on a corner
            let v = if (sel as usize) < n { o.views[sel as usize].clone() } else { None };
            match (v, rng.below(5)) {
                (Some(v), 0) => format!("sr:{}:{}:{}:{}", v.row, v.col, row_arg(rng), col_arg(rng)),
                (Some(v), 1) => format!("sr:{}:{}:{}:{}", row_arg(rng), col_arg(rng), v.row, v.col),
                (Some(v), 2) => format!("sr:1:{}:{}:{}", v.col, LAST_ROW, col_arg(rng)),
                (Some(v), 3) => format!("sr:{}:1:{}:{}", v.row, row_arg(rng), LAST_COLUMN),
                _ => format!("sr:{}:{}:{}:{}", row_arg(rng), col_arg(rng), row_arg(rng), col_arg(rng)),
            }
        }
        57..=61 => format!("ex:{}", rng.pick(&["U", "D", "L", "R", "X"])),
        62..=64 => format!("tl:{}:{}", row_arg(rng), col_arg(rng)),
        65 => format!("ww:{}", rng.pick(&[0i64, -1, -500, 1, 50, 800, 100000, 2_000_000_000, i64::MAX, i64::MIN])),
        66 => format!("wh:{}", rng.pick(&[0i64, -1, -500, 1, 30, 600, 100000, 30_000_000, i64::MAX, i64::MIN])),
        67..=69 => "ar".to_string(),
        70..=72 => "al".to_string(),
        73..=75 => "au".to_string(),
        76..=78 => "ad".to_string(),
        79..=81 => "pd".to_string(),
        82..=84 => "pu".to_string(),
        85..=88 => format!("as:{}:{}", row_arg(rng), col_arg(rng)),
        89..=92 => format!("ne:{}", rng.pick(&["U", "D", "L", "R"])),
        93..=94 => {
            let c = col_arg(rng).max(-2);
            format!("hc:{}:{}:{}:{}", sheet_arg(rng, n, sel), c, c + rng.range(-1, 3) as i32, rng.below(3).min(1))
        }
        95..=96 => {
            let r = row_arg(rng).max(-2);
            format!("hr:{}:{}:{}:{}", sheet_arg(rng, n, sel), r, r + rng.range(-1, 3) as i32, rng.below(3).min(1))
        }
        97 => {
            let r = row_arg(rng).max(-2);
            format!("rh:{}:{}:{}:{}", sheet_arg(rng, n, sel), r, r + rng.range(-1, 2) as i32, rng.pick(&[-1i64, 0, 5, 25, 100, 650]))
        }
        98 => {
            let c = col_arg(rng).max(-2);
            format!("cw:{}:{}:{}:{}", sheet_arg(rng, n, sel), c, c + rng.range(-1, 2) as i32, rng.pick(&[-1i64, 0, 5, 90, 400, 850]))
        }
        _ => format!("ps:{}:{}", rng.range(1, 3), rng.range(1, 3)),
    }
}

/// ops whose cost in the implementation is proportional to a selected area: skip when large
fn too_costly(o: &Obs, tok: &str) -> bool {
    if tok.starts_with("ps:") {
        if (o.sel as usize) < o.n {
            if let Some(v) = &o.views[o.sel as usize] {
                let f: Vec<i64> = tok.split(':').skip(1).filter_map(|x| x.parse().ok()).collect();
                let h = (v.range[2] as i64).max(v.range[0] as i64 + f[0] - 1) - v.range[0] as i64 + 1;
                let w = (v.range[3] as i64).max(v.range[1] as i64 + f[1] - 1) - v.range[1] as i64 + 1;
                return h * w > 400;
            }
        }
    }
    false
}

/// estimated number of loop iterations the op costs (the extracted model runs the same loops
/// on binary integers, about 4 M iterations per second): the generators keep a budget
fn cost(um: &UserModel, o: &Obs, tok: &str) -> i64 {
    let v = match o.views.get(o.sel as usize).cloned().flatten() { Some(v) => v, None => return 0 };
    let f: Vec<&str> = tok.split(':').collect();
    let lr = LAST_ROW as i64;
    let (row, top, r2) = (v.row as i64, v.top as i64, v.range[2] as i64);
    let scroll = |n: i64, w: i64| -> i64 { n.max(0).min(w.max(0) / 20 + 30) };
    match f[0] {
        "ne" => {
            // the real length of the walk (Worksheet::navigate_to_edge_in_direction is public and pure)
            let d = match f[1] { "U" => NavigationDirection::Up, "D" => NavigationDirection::Down, "L" => NavigationDirection::Left, _ => NavigationDirection::Right };
            let walk = match um.get_model().workbook.worksheet(o.sel).and_then(|ws| ws.navigate_to_edge_in_direction(v.row, v.col, d)) {
                Ok((r, c)) => (r as i64 - row).abs() + (c as i64 - v.col as i64).abs(),
                Err(_) => 0,
            };
            walk + scroll(lr, o.wh)
        }
        "ad" => (row - top).max(0) + 10,
        "ex" => match f[1] { "D" => (r2 - top).max(0) + 10, _ => 500 },
        "pd" => scroll(lr - top, o.wh),
        "pu" => scroll(top, o.wh),
        "as" => {
            let tr: i64 = f[1].parse().unwrap_or(0);
            if tr >= row { 2 * (tr.min(lr + 1) - top).max(0) + if o.wh < 0 { (lr - top).max(0) } else { 0 } + 3000 } else { 3000 }
        }
        _ => 0,
    }
}

const EXH_ALPHABET: &[&str] = &[
    "ss:0", "ss:1", "ss:2", "del:0", "del:1", "del:2", "new", "dup:0", "dup:2", "hide:0", "hide:1", "hide:2", "unhide:0", "mv:0:2", "mv:2:0",
    "mv:1:2", "undo", "redo", "pd", "pu", "as:0:-5", "as:3:3", "sc:1048576:1", "tl:100:1", "sr:5:5:1:1", "ps:1:1", "ad", "ne:U",
];
const EXH_SMALL: &[&str] = &["ss:0", "ss:1", "ss:2", "del:0", "del:1", "del:2", "new", "dup:1", "hide:2", "mv:0:2", "mv:2:1", "undo", "redo"];

fn main() {
    let a = Args::parse();
    // probe / replay mode:  vh_c28 <seed> <tier> <out> probe "<history line>"
    if a.extra.len() >= 2 && a.extra[0] == "probe" {
        let toks: Vec<&str> = a.extra[1].split(' ').collect();
        let bar = toks.iter().position(|x| *x == "|").unwrap_or(0);
        let mut r = Runner { or: Oracle::default(), steps: 0, masked: 0, svpanic: 0, res_counts: BTreeMap::new(), distinct: Default::default() };
        let ops: Vec<String> = toks[bar + 1..].iter().map(|s| s.to_string()).collect();
        let line = r.run(&toks[1..bar], &ops);
        for (i, s) in line.split(" # ").next().unwrap_or("").split(';').enumerate() {
            println!("{:>3} {:<28} {}", i, ops.get(i).cloned().unwrap_or_default(), s);
        }
        println!("# {}", line.split(" # ").nth(1).unwrap_or(""));
        for f in &r.or.failures { println!("ORACLE {}", f); }
        return;
    }
    let (seed, thorough, out) = (a.seed, a.thorough, a.out.as_str());
    let mut rng = Rng::new(seed);
    let mut cs = Cases::new(out, "c28");
    let mut r = Runner { or: Oracle::default(), steps: 0, masked: 0, svpanic: 0, res_counts: BTreeMap::new(), distinct: Default::default() };
    let mut dist: BTreeMap<&str, u64> = BTreeMap::new();
    let mut samples: Vec<String> = vec![];

    let emit = |cs: &mut Cases, r: &mut Runner, setup_v: &[String], ops: &[String], samples: &mut Vec<String>| {
        let st: Vec<&str> = setup_v.iter().map(|s| s.as_str()).collect();
        let obs = r.run(&st, ops);
        // a panic truncates the history on the implementation side: keep the executed prefix
        let executed = obs.split(" # ").next().unwrap_or("").split(';').filter(|x| !x.is_empty()).count();
        let ops_used = &ops[..executed.min(ops.len())];
        let line = format!("h {} | {}", setup_v.join(" "), ops_used.join(" "));
        if samples.len() < 6 { samples.push(line.clone()); }
        cs.case(line.trim_end(), &obs);
    };

    // ---- 1. the witnesses of the known findings (_refuted theorems) and of the repaired ones ----
    let plain3: Vec<String> = vec!["S:-:-:-:-:-".to_string(); 3];
    let plain1: Vec<String> = vec!["S:-:-:-:-:-".to_string(); 1];
    let w = |s: &str| -> Vec<String> { s.split(' ').map(|x| x.to_string()).collect() };
    for (st, ops) in [
        (&plain3, "ss:2 del:0"),
        (&plain1, "new ss:0 del:0 undo ss:1 redo"),
        (&plain1, "sc:1048576:1 pd"),
        (&plain1, "tl:100:1 pu"),
        (&plain1, "as:0:-5"),
        (&plain1, "sc:5:5 sr:1:1:5:5 as:2:2"),
        (&plain1, "sr:5:5:1:1 ps:1:1"),
        (&plain1, "del:0 undo redo new undo undo undo redo redo"),
    ] {
        emit(&mut cs, &mut r, st, &w(ops), &mut samples);
        *dist.entry("witness").or_insert(0) += 1;
    }

    // ---- 2. exhaustive short histories on a 3-sheet workbook ----------------------------------
    let (alpha, maxlen): (&[&str], usize) = if thorough { (EXH_ALPHABET, 3) } else { (EXH_ALPHABET, 2) };
    let mut idx = vec![0usize; 0];
    loop {
        // next sequence in length-lexicographic order
        let mut k = idx.len();
        loop {
            if k == 0 { idx = vec![0; idx.len() + 1]; break; }
            k -= 1;
            if idx[k] + 1 < alpha.len() { idx[k] += 1; for j in k + 1..idx.len() { idx[j] = 0; } break; }
        }
        if idx.len() > maxlen { break; }
        let ops: Vec<String> = idx.iter().map(|i| alpha[*i].to_string()).collect();
        emit(&mut cs, &mut r, &plain3, &ops, &mut samples);
        *dist.entry("exhaustive_len_le_3_alphabet28").or_insert(0) += 1;
    }
    // sheet-structure alphabet, longer: all sequences of length <= 4 (quick: 3)
    let maxlen2 = if thorough { 4 } else { 3 };
    let mut idx = vec![0usize; 0];
    loop {
        let mut k = idx.len();
        loop {
            if k == 0 { idx = vec![0; idx.len() + 1]; break; }
            k -= 1;
            if idx[k] + 1 < EXH_SMALL.len() { idx[k] += 1; for j in k + 1..idx.len() { idx[j] = 0; } break; }
        }
        if idx.len() > maxlen2 { break; }
        if idx.len() <= 2 { continue; }
        let ops: Vec<String> = idx.iter().map(|i| EXH_SMALL[*i].to_string()).collect();
        emit(&mut cs, &mut r, &plain3, &ops, &mut samples);
        *dist.entry("exhaustive_sheet_ops_alphabet13").or_insert(0) += 1;
    }

    // ---- 3. random histories ------------------------------------------------------------------
    let nhist = if thorough { 6000 } else { 400 };
    // loop budget: every history adds its share to the pool; an op that costs more than the pool
    // holds is replaced (ops below 2000 iterations are free)
    let share: i64 = if thorough { 250_000 } else { 300_000 };
    let mut budget: i64 = if thorough { 20_000_000 } else { 10_000_000 };
    let mut substituted = 0u64;
    let mut costly_kept = 0u64;
    for h in 0..nhist {
        let flavour = (h % 3) as u64;
        let ns = 1 + rng.below(4) as usize;
        let rich = flavour != 1 || rng.chance(1, 3);
        let setup_v = gen_setup(&mut rng, ns, rich);
        let len = rng.range(5, if thorough { 60 } else { 40 }) as usize;
        budget += share;
        // ops are chosen adaptively from the implementation's current state: run a scout copy
        let st: Vec<&str> = setup_v.iter().map(|s| s.as_str()).collect();
        let mut scout = match setup(&st) { Ok(u) => u, Err(_) => continue };
        let mut ops: Vec<String> = vec![];
        for _ in 0..len {
            let o = observe(&scout);
            let mut tok = gen_op(&mut rng, &o, flavour);
            if too_costly(&o, &tok) { tok = "al".to_string(); }
            let c = cost(&scout, &o, &tok);
            if c >= 2000 && c > budget {
                // scroll to the selected cell instead (makes the following navigation cheap)
                substituted += 1;
                tok = match o.views.get(o.sel as usize).cloned().flatten() {
                    Some(v) if grid(v.row, v.col) => format!("tl:{}:{}", v.row, v.col),
                    _ => "sc:3:3".to_string(),
                };
            } else if c >= 2000 {
                budget -= c;
                costly_kept += 1;
            }
            let res = apply(&mut scout, &tok);
            ops.push(tok);
            if res == 'p' { break; }
        }
        emit(&mut cs, &mut r, &setup_v, &ops, &mut samples);
        *dist.entry(["random_mixed", "random_sheet_ops", "random_navigation"][flavour as usize]).or_insert(0) += 1;
    }

    let res_counts: BTreeMap<String, u64> = r.res_counts.clone();
    cs.finish(json!({
        "distribution": dist,
        "samples": samples,
        "steps": r.steps,
        "oracle_checked": r.or.checked,
        "oracle_failures": r.or.failures,
        "oracle_failures_per_class": r.or.per_class,
        "distinct_nontrivial": r.distinct.len(),
        "selected_view_disagrees_with_fields": r.masked,
        "selected_view_panics": r.svpanic,
        "op_result_counts": res_counts,
        "costly_ops_substituted": substituted,
        "costly_ops_kept": costly_kept,
        "loop_budget_left": budget,
    }));
}
