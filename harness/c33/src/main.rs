//! C33 — cell-attached metadata (links, conditional-format ranges and rule formulas) follows
//! its cells.
//! Tie (model: Syntax/Metadata.v, Syntax/Displace.v):
//!   lnk K at delta n row col        -> "some r c" | "none"   where a planted link is after the real
//!                                      insert/delete/move on a Model        [link_map, link_block_move]
//!   cfr K at delta n sheet <sqref>  -> range text of a conditional format after the real operation
//!                                      on sheet 0                           [cf_entry (iterated for blocks)]
//!   cff K at delta ar ac row col absr absc -> rule formula "=<ref>" of a conditional format anchored
//!                                      at (ar, ac) after the real operation [displace_text]
//!   cut ar ac ah aw dr dc <sqref>   -> range text after UserModel cut + paste [cf_cut_sqref]
//! Oracle (tie.rs is not used by it): histories on a UserModel, see `oracle`.
use ironcalc_base::cf_types::{CfRule, CfRuleInput};
use ironcalc_base::expressions::types::Area;
use ironcalc_base::types::{Dxf, Link};
use ironcalc_base::{Model, UserModel};
use serde_json::json;
use std::collections::{BTreeMap, BTreeSet};
use vh_displace_common::book::Op;
use vh_displace_common::ops::{new_model, run_op};
use vh_displace_common::*;

fn col_name(c: i32) -> String { ironcalc_base::expressions::utils::number_to_column(c).unwrap_or_else(|| format!("?{c}")) }
fn a1(r: i32, c: i32) -> String { format!("{}{}", col_name(c), r) }
fn link(id: &str) -> Link { Link::External { target: id.to_string(), tooltip: None } }
fn dup_rule() -> CfRuleInput { CfRuleInput::DuplicateValues { format: Dxf::default(), stop_if_true: false } }
fn formula_rule(f: &str) -> CfRuleInput { CfRuleInput::Formula { formula: f.to_string(), format: Dxf::default(), stop_if_true: false } }
fn rule_formula(r: &CfRule) -> String {
    match r { CfRule::Formula { formula, .. } => formula.trim().trim_start_matches('=').to_string(), _ => String::new() }
}

// ------------------------------------------------------------------------------------------
// (i) link key maps
// ------------------------------------------------------------------------------------------
#[allow(clippy::too_many_arguments)]
fn link_batch(cs: &mut Cases, st: &mut Stats, or: &mut Oracle, k: i32, at: i32, delta: i32, n: i32, base: (i32, i32), cells: bool) {
    let rowwise = k == K_ROW || k == K_RMV;
    let (h, w) = if rowwise { (9, 3) } else { (3, 9) };
    let mut m = new_model();
    let mut planted = vec![];
    for r in 0..h {
        for c in 0..w {
            let (row, col) = (base.0 + r, base.1 + c);
            let id = 1000 + r * 100 + c;
            // two thirds of the links sit on a cell with a marker value, the rest on no cell at all
            let has_cell = cells && (r + c) % 3 != 0;
            if has_cell { m.set_user_input(0, row, col, format!("{id}")).unwrap(); }
            m.set_cell_link(0, row, col, link(&format!("t{id}"))).unwrap();
            planted.push((row, col, id, has_cell));
        }
    }
    if run_op(&mut m, k, at, delta, n).is_err() { st.bump("lnk_op_refused"); return; }
    let mut found: BTreeMap<String, Vec<(i32, i32)>> = BTreeMap::new();
    for (&(r, c), l) in m.get_links(0).unwrap() {
        if let Link::External { target, .. } = l { found.entry(target.clone()).or_default().push((r, c)); }
    }
    for (row, col, id, has_cell) in planted {
        let obs = match found.get(&format!("t{id}")) {
            None => "none".to_string(),
            Some(v) if v.len() == 1 => format!("some {} {}", v[0].0, v[0].1),
            Some(v) => format!("dup{}", v.len()),
        };
        st.seen(&obs);
        st.bump("lnk");
        cs.case(&format!("lnk {k} {at} {delta} {n} {row} {col}"), &obs);
        // property level: the link sits on the cell that carries its marker
        if has_cell {
            or.checked += 1;
            if let Some(v) = found.get(&format!("t{id}")) {
                for &(r, c) in v {
                    let content = m.get_localized_cell_content(0, r, c).unwrap_or_default();
                    if content != format!("{id}") {
                        or.fail("link_not_on_its_marker_cell__plain_cells", json!({"k": k, "at": at, "delta": delta, "n": n, "cell": [row, col]}),
                                format!("link t{id} is at {} which holds {:?}", a1(r, c), content));
                    }
                }
            }
        }
    }
}

fn link_cases(cs: &mut Cases, st: &mut Stats, or: &mut Oracle, thorough: bool) {
    for k in [K_ROW, K_COL] {
        let last = if k == K_ROW { LAST_ROW } else { LAST_COLUMN };
        for delta in [1, 2, 4, -1, -2, -4] {
            for at in -1..=11 {
                link_batch(cs, st, or, k, at, delta, 1, (1, 1), true);
                if at % 3 == 0 { link_batch(cs, st, or, k, at, delta, 1, (1, 1), false); }
            }
            // the end of the sheet: links on the last nine lines (no cells for insertions: the
            // engine refuses to push cells off the sheet, links without cells are shifted)
            for at in [last - 9, last - 8, last - 5, last - 1, last, last + 1] {
                let base = if k == K_ROW { (last - 8, 2) } else { (2, last - 8) };
                link_batch(cs, st, or, k, at, delta, 1, base, delta < 0);
            }
        }
    }
    for k in [K_RMV, K_CMV] {
        let last = if k == K_RMV { LAST_ROW } else { LAST_COLUMN };
        let ns: &[i32] = if thorough { &[1, 2, 3, 4] } else { &[1, 2, 3] };
        for &n in ns {
            for i in 1..=9 {
                for d in -8..=10 {
                    if d == 0 || i + d < 1 { continue; }
                    if !thorough && (i + d + n) % 2 == 0 && d.abs() > 3 { continue; }
                    link_batch(cs, st, or, k, i, d, n, (1, 1), true);
                }
            }
            for i in [last - 8, last - 4, last - 1, last] {
                for d in [-7, -2, -1, 1, 2, 4] {
                    let base = if k == K_RMV { (last - 8, 2) } else { (2, last - 8) };
                    link_batch(cs, st, or, k, i, d, n, base, true);
                }
            }
        }
    }
}

// ------------------------------------------------------------------------------------------
// (ii) conditional-format ranges, (iii) rule formulas
// ------------------------------------------------------------------------------------------
fn range_pool(rowwise: bool) -> Vec<String> {
    let mut v = vec![];
    let p = |x: i32, o: i32| if rowwise { a1(x, o) } else { a1(o, x) };
    for x in 1..=9 { v.push(p(x, 2)); }
    for x1 in 1..=9 { for x2 in 1..=9 { v.push(format!("{}:{}", p(x1, 1 + (x1 + x2) % 3), p(x2, 3))); } }
    // $ markers, lower case, reversed corners on both axes
    for s in ["$A$3:B$6", "a3:B6", "c7:a2", "$c$4", "b5:b5", "C2:A8", "A8:C2"] { v.push(s.to_string()); }
    // several parts; parts that do not parse; a first part that does not parse (entry skipped)
    for s in ["A3:A6 C2 D4:E9", "A3:A6  B:B", "B:B A3:A6", "A3:A6:A7 B2", "A0 B3", "XFE1 C3", "A1048577 C4", "1:3 D5", "A3:B D6", "\tA2:B4\u{a0}C5", "A3,A6"] {
        v.push(s.to_string());
    }
    // whole columns / whole rows written corner by corner, and the far edges of the grid
    for s in ["A1:A1048576", "C1:C1048576", "A4:XFD4", "A1:XFD1", "B2:XFD5", "A1048570:B1048576", "XFA1:XFD3", "A1:XFD1048576",
              "B1048575", "XFC2", "XFD1048576", "A1048569:A1048572", "XEZ1:XFB2"] {
        v.push(s.to_string());
    }
    v
}

fn cf_batch(cs: &mut Cases, st: &mut Stats, k: i32, at: i32, delta: i32, n: i32, pool: &[String]) {
    let mut m = new_model();
    let mut planted = vec![];
    for (i, r) in pool.iter().enumerate() {
        // every seventh entry lives on the other sheet: the operation on sheet 0 must not touch it
        let sh = if i % 7 == 3 { 1 } else { 0 };
        if m.add_conditional_formatting(sh, r, dup_rule()).is_ok() { planted.push((sh, r.clone())); } else { st.bump("cfr_range_rejected"); }
    }
    if run_op(&mut m, k, at, delta, n).is_err() { st.bump("cfr_op_refused"); return; }
    let mut idx = [0usize, 0usize];
    for (sh, r) in planted {
        let out = m.workbook.worksheets[sh as usize].conditional_formatting[idx[sh as usize]].range.clone();
        idx[sh as usize] += 1;
        st.seen(&out);
        st.bump(if out == r { "cfr_unchanged" } else { "cfr_changed" });
        cs.case(&format!("cfr {k} {at} {delta} {n} {sh} {}", wire(&r)), &wire(&out));
    }
}

fn cff_batch(cs: &mut Cases, st: &mut Stats, k: i32, at: i32, delta: i32) {
    let mut m = new_model();
    let mut planted = vec![];
    let rowwise = k == K_ROW || k == K_RMV;
    for (ar, ac) in [(2, 2), (9, 5)] {
        for t in 1..=9 {
            for o in [1, 4] {
                for f in 0..4 {
                    let (absr, absc) = (f & 1 == 1, f & 2 == 2);
                    let (tr, tc) = if rowwise { (t, o) } else { (o, t) };
                    let text = format!("={}{}{}{}", if absc { "$" } else { "" }, col_name(tc), if absr { "$" } else { "" }, tr);
                    m.add_conditional_formatting(0, &a1(ar, ac), formula_rule(&text)).unwrap();
                    planted.push((ar, ac, if absr { tr } else { tr - ar }, if absc { tc } else { tc - ac }, absr, absc));
                }
            }
        }
    }
    if run_op(&mut m, k, at, delta, 1).is_err() { st.bump("cff_op_refused"); return; }
    for (i, (ar, ac, row, col, absr, absc)) in planted.into_iter().enumerate() {
        let out = rule_formula(&m.workbook.worksheets[0].conditional_formatting[i].cf_rule);
        st.seen(&out);
        st.bump("cff");
        cs.case(&format!("cff {k} {at} {delta} {ar} {ac} {row} {col} {} {}", b(absr), b(absc)), &wire(&out));
    }
}

fn cf_cases(cs: &mut Cases, st: &mut Stats, thorough: bool) {
    for k in [K_ROW, K_COL] {
        let pool = range_pool(k == K_ROW);
        let last = if k == K_ROW { LAST_ROW } else { LAST_COLUMN };
        for delta in [1, 2, 4, -1, -2, -4] {
            for at in -1..=11 { cf_batch(cs, st, k, at, delta, 1, &pool); cff_batch(cs, st, k, at, delta); }
            for at in [last - 9, last - 7, last - 4, last - 1, last, last + 1] { cf_batch(cs, st, k, at, delta, 1, &pool); }
        }
    }
    for k in [K_RMV, K_CMV] {
        let pool = range_pool(k == K_RMV);
        let last = if k == K_RMV { LAST_ROW } else { LAST_COLUMN };
        let ns: &[i32] = if thorough { &[1, 2, 3] } else { &[1, 2] };
        for &n in ns {
            for i in 1..=9 {
                for d in -8..=10 {
                    if d == 0 || i + d < 1 { continue; }
                    if !thorough && (i + d + n) % 2 == 0 && d.abs() > 2 { continue; }
                    cf_batch(cs, st, k, i, d, n, &pool);
                    if n == 1 { cff_batch(cs, st, k, i, d); }
                }
            }
            for i in [last - 8, last - 4, last - 1, last] {
                for d in [-7, -1, 1, 3] { cf_batch(cs, st, k, i, d, n, &pool); }
            }
        }
    }
}

// ------------------------------------------------------------------------------------------
// (iv) conditional-format ranges under cut + paste (UserModel)
// ------------------------------------------------------------------------------------------
fn paste(u: &mut UserModel, src: (i32, i32, i32, i32), dst: (i32, i32), cut: bool) -> Result<(), String> {
    // src = (row, col, height, width)
    u.set_selected_sheet(0)?;
    u.set_selected_cell(src.0, src.1)?;
    u.set_selected_range(src.0, src.1, src.0 + src.2 - 1, src.1 + src.3 - 1)?;
    let cb = u.copy_to_clipboard()?;
    let v = serde_json::to_value(&cb).map_err(|e| e.to_string())?;
    let data = serde_json::from_value(v["data"].clone()).map_err(|e| e.to_string())?;
    u.set_selected_cell(dst.0, dst.1)?;
    u.set_selected_range(dst.0, dst.1, dst.0, dst.1)?;
    u.paste_from_clipboard(0, (src.0, src.1, src.0 + src.2 - 1, src.1 + src.3 - 1), &data, cut)
}

fn cut_cases(cs: &mut Cases, st: &mut Stats) {
    let mut pool = vec![];
    for r1 in 1..=7 { for r2 in [r1, r1 + 1, r1 + 3] { for c in [1, 3] { pool.push(format!("{}:{}", a1(r1, c), a1(r2, c + 1))); pool.push(a1(r1, c)); } } }
    for s in ["$B$3:c$5", "c5:B3", "B3:C4 F9", "B:B B3", "B3 E:E", "A1:XFD1", "B1:B1048576"] { pool.push(s.to_string()); }
    for src in [(3, 2, 3, 2), (1, 1, 4, 4), (3, 3, 1, 1), (2, 1, 6, 2)] {
        for dst in [(10, 6), (1, 5), (4, 3), (src.0, src.1 + 1), (1048570, 16380)] {
            let mut m = new_model();
            m.set_user_input(0, 20, 20, "1".to_string()).unwrap();
            m.set_user_input(0, src.0, src.1, "7".to_string()).unwrap();
            let mut planted = vec![];
            for r in &pool { if m.add_conditional_formatting(0, r, dup_rule()).is_ok() { planted.push(r.clone()); } }
            let mut u = UserModel::from_model(m);
            u.pause_evaluation();
            if let Err(e) = paste(&mut u, src, dst, true) { st.bump("cut_refused"); st.sample(format!("cut refused: {e}")); continue; }
            for (i, r) in planted.iter().enumerate() {
                let out = u.get_model().workbook.worksheets[0].conditional_formatting[i].range.clone();
                st.seen(&out);
                st.bump("cut");
                cs.case(&format!("cut {} {} {} {} {} {} {}", src.0, src.1, src.2, src.3, dst.0 - src.0, dst.1 - src.1, wire(r)), &wire(&out));
            }
        }
    }
}

// ------------------------------------------------------------------------------------------
// Oracle: histories on a UserModel
// ------------------------------------------------------------------------------------------
#[derive(Clone, Debug)]
enum HOp {
    S(Op),
    ClearContents(i32, i32, i32, i32),
    ClearAll(i32, i32, i32, i32),
    TypeEmpty(i32, i32),
    Cut((i32, i32, i32, i32), (i32, i32)),
    Copy((i32, i32, i32, i32), (i32, i32)),
}

#[derive(Clone, PartialEq, Debug)]
struct Snap {
    cells: BTreeMap<(i32, i32), String>,
    links: BTreeMap<(i32, i32), String>,
    cfs: Vec<(String, String)>,
    planted: BTreeMap<i64, String>,
}

fn snap(u: &UserModel) -> Snap {
    let m = u.get_model();
    let mut cells = BTreeMap::new();
    let mut planted = BTreeMap::new();
    for ci in m.get_all_cells() {
        if ci.index != 0 { continue; }
        let content = u.get_cell_content(0, ci.row, ci.column).unwrap_or_default();
        if let Some(pos) = content.rfind('+') {
            if content.starts_with('=') {
                if let Ok(id) = content[pos + 1..].parse::<i64>() {
                    if id >= 9000 { planted.insert(id, content[1..pos].to_string()); continue; }
                }
            }
        }
        cells.insert((ci.row, ci.column), content);
    }
    let links = m.get_links(0).unwrap().iter().map(|(k, l)| (*k, format!("{:?}", l))).collect();
    let cfs = m.workbook.worksheets[0].conditional_formatting.iter().map(|c| (c.range.clone(), rule_formula(&c.cf_rule))).collect();
    Snap { cells, links, cfs, planted }
}

/// "SUM(A3:A6,C2)" -> "A3:A6 C2"
fn sum_args(t: &str) -> String {
    t.trim_start_matches("SUM(").trim_end_matches(')').replace(',', " ")
}

fn parse_part(p: &str) -> Option<Vec<(i32, i32)>> {
    let mut out = vec![];
    for seg in p.to_uppercase().split(':') {
        let r = ironcalc_base::expressions::utils::parse_reference_a1(seg)?;
        out.push((r.row, r.column));
    }
    Some(out)
}
/// a range text up to the order of its corners ("B13:C8" and "B8:C13" are the same cells)
fn norm_range(sqref: &str) -> Vec<String> {
    sqref.split_whitespace().map(|p| match parse_part(p) {
        Some(c) if c.len() == 1 => a1(c[0].0, c[0].1),
        Some(c) if c.len() == 2 => format!("{}:{}", a1(c[0].0.min(c[1].0), c[0].1.min(c[1].1)), a1(c[0].0.max(c[1].0), c[0].1.max(c[1].1))),
        _ => p.to_uppercase(),
    }).collect()
}
fn corners(sqref: &str) -> Vec<(i32, i32)> { sqref.split_whitespace().filter_map(parse_part).flatten().collect() }

struct Book { cells: Vec<(i32, i32, String)>, bold: Vec<(i32, i32)>, links: Vec<(i32, i32, String)>, cfs: Vec<(String, String)>, big: bool }

fn gen_book(rng: &mut Rng, bi: u64) -> Book {
    let urls = bi % 3 == 1;
    let styles = bi % 3 == 2;
    let big = bi % 4 == 3;
    let mut used = BTreeSet::new();
    let mut cells = vec![];
    let mut i = 0;
    while cells.len() < 20 {
        let p = (rng.range(1, 12) as i32, rng.range(1, 8) as i32);
        if !used.insert(p) { continue; }
        i += 1;
        let content = if urls && rng.chance(1, 5) { format!("http://a.b/{}", 1000 + i) } else if rng.chance(1, 6) { format!("m{}", 1000 + i) } else { format!("{}", 1000 + i) };
        cells.push((p.0, p.1, content));
    }
    let mut bold = vec![];
    if styles {
        while bold.len() < 3 { let p = (rng.range(1, 12) as i32, rng.range(1, 8) as i32); if used.insert(p) { bold.push(p); } }
    }
    let mut links = vec![];
    for (j, (r, c, content)) in cells.iter().enumerate() {
        if j % 2 == 0 && !content.starts_with("http") { links.push((*r, *c, format!("t{}", j))); }
    }
    while links.len() < 12 { let p = (rng.range(1, 12) as i32, rng.range(1, 8) as i32); if used.insert(p) { links.push((p.0, p.1, format!("e{}", links.len()))); } }
    let mut cfs = vec![];
    let rnd_ref = |rng: &mut Rng| format!("{}{}{}{}", if rng.chance(1, 2) { "$" } else { "" }, col_name(rng.range(1, 8) as i32), if rng.chance(1, 2) { "$" } else { "" }, rng.range(1, 12));
    for j in 0..4 {
        let range = match (j + bi) % 4 {
            0 => { let (r, c, _) = &cells[rng.below(20) as usize]; a1(*r, *c) }
            1 | 2 => {
                let (r1, r2) = (rng.range(1, 12) as i32, rng.range(1, 12) as i32);
                let (c1, c2) = (rng.range(1, 8) as i32, rng.range(1, 8) as i32);
                let s = format!("{}:{}", a1(r1.min(r2), c1.min(c2)), a1(r1.max(r2), c1.max(c2)));
                if j == 2 && rng.chance(1, 2) { format!("{s} {}", a1(rng.range(1, 12) as i32, rng.range(1, 8) as i32)) } else { s }
            }
            _ => if big { rng.pick(&["C1:C1048576", "A4:XFD4", "B2:XFD5", "A1:XFD1"]).to_string() } else { format!("{}:{}", a1(2, 2), a1(rng.range(2, 12) as i32, rng.range(2, 8) as i32)) },
        };
        cfs.push((range, format!("ISNUMBER({})", rnd_ref(rng))));
    }
    Book { cells, bold, links, cfs, big }
}

fn build(bk: &Book) -> UserModel<'static> {
    let mut u = UserModel::from_model(new_model());
    if bk.big { u.pause_evaluation(); }
    for (r, c, t) in &bk.cells { u.set_user_input(0, *r, *c, t).unwrap(); }
    for (r, c) in &bk.bold { u.update_range_style(&Area { sheet: 0, row: *r, column: *c, width: 1, height: 1 }, "font.b", "true").unwrap(); }
    for (r, c, t) in &bk.links { u.set_cell_link(0, *r, *c, link(t), None).unwrap(); }
    for (j, (range, f)) in bk.cfs.iter().enumerate() {
        u.add_conditional_formatting(0, range, formula_rule(&format!("={f}"))).unwrap();
        u.set_user_input(0, 60 + j as i32, 30, &format!("=SUM({})+{}", range.replace(' ', ","), 9000 + j)).unwrap();
        u.set_user_input(0, 60 + j as i32, 31, &format!("={f}+{}", 9100 + j)).unwrap();
    }
    u
}

fn in_rect(p: (i32, i32), a: (i32, i32, i32, i32)) -> bool { p.0 >= a.0 && p.0 < a.0 + a.2 && p.1 >= a.1 && p.1 < a.1 + a.3 }

/// where the property statement sends a cell; None = the cell is removed / overwritten
fn expected_map(op: &HOp, p: (i32, i32)) -> Option<(i32, i32)> {
    match op {
        HOp::S(o) => o.cell_map(p),
        HOp::ClearContents(..) | HOp::ClearAll(..) | HOp::TypeEmpty(..) | HOp::Copy(..) => Some(p),
        HOp::Cut(src, dst) => {
            let tgt = (dst.0, dst.1, src.2, src.3);
            if in_rect(p, *src) { Some((p.0 + dst.0 - src.0, p.1 + dst.1 - src.1)) } else if in_rect(p, tgt) { None } else { Some(p) }
        }
    }
}

fn first_line(op: &Op) -> i32 {
    match *op {
        Op::InsRows(at, _) | Op::InsCols(at, _) | Op::DelRows(at, _) | Op::DelCols(at, _) => at,
        Op::MoveRows(i, _, d) | Op::MoveCols(i, _, d) => i.min(i + d),
    }
}

/// root causes present in (state before, operation): predicates on the input only
struct Causes { cf_deleted: bool, cf_off_grid: bool, url_retyped: bool, style_only_retyped: bool, cf_partly_cut: bool, url_pasted: bool, rule_ref_deleted: bool }

fn causes(op: &HOp, before: &Snap, after: Option<&Snap>) -> Causes {
    let mut c = Causes { cf_deleted: false, cf_off_grid: false, url_retyped: false, style_only_retyped: false, cf_partly_cut: false, url_pasted: false, rule_ref_deleted: false };
    // a part that no longer parses was pushed beyond the last row/column by an earlier step
    for (range, _) in &before.cfs { if range.split_whitespace().any(|p| parse_part(p).is_none()) { c.cf_off_grid = true; } }
    match op {
        HOp::S(o) => {
            let line = |p: (i32, i32)| if o.rowwise() { p.0 } else { p.1 };
            let touched = |p: &(i32, i32)| line(*p) >= first_line(o);
            let all_cells = before.cells.iter().chain(after.map(|a| a.cells.iter()).into_iter().flatten());
            for (p, content) in all_cells {
                if !touched(p) { continue; }
                if content.starts_with("http") { c.url_retyped = true; }
                if content.is_empty() { c.style_only_retyped = true; }
            }
            for (_, rule) in &before.cfs {
                let r = rule.trim_start_matches("ISNUMBER(").trim_end_matches(')').replace('$', "");
                if let Some(p) = parse_part(&r) { if p.iter().any(|q| o.cell_map(*q).is_none()) { c.rule_ref_deleted = true; } }
            }
            for (range, _) in &before.cfs {
                for p in corners(range) {
                    match o.cell_map(p) {
                        None => c.cf_deleted = true,
                        Some(q) => if q.1 > LAST_COLUMN || q.0 > LAST_ROW { c.cf_off_grid = true; },
                    }
                }
            }
        }
        HOp::Copy(src, _) => {
            c.url_pasted = before.cells.iter().any(|(p, v)| in_rect(*p, *src) && v.starts_with("http"));
        }
        HOp::Cut(src, _) => {
            c.url_pasted = before.cells.iter().any(|(p, v)| in_rect(*p, *src) && v.starts_with("http"));
            for (range, _) in &before.cfs {
                for part in range.split_whitespace() {
                    if let Some(cs) = parse_part(part) {
                        let inside = cs.iter().filter(|p| in_rect(**p, *src)).count();
                        if inside != 0 && inside != cs.len() { c.cf_partly_cut = true; }
                    }
                }
            }
        }
        _ => {}
    }
    c
}

fn link_cause(c: &Causes) -> &'static str {
    if c.url_pasted { "pasted_autolinking_cell" } else if c.url_retyped { "retyped_autolinking_cell" } else if c.style_only_retyped { "retyped_style_only_cell" } else { "none" }
}
fn cf_cause(c: &Causes) -> &'static str {
    if c.cf_deleted { "cf_range_corner_deleted" } else if c.cf_off_grid { "cf_range_corner_pushed_off_grid" } else if c.cf_partly_cut { "cf_range_partly_in_cut_area" } else if c.rule_ref_deleted { "cf_rule_reference_deleted" } else { "none" }
}

fn diff_maps(a: &BTreeMap<(i32, i32), String>, b: &BTreeMap<(i32, i32), String>) -> String {
    let mut out = vec![];
    for (k, v) in a { if b.get(k) != Some(v) { out.push(format!("-{}:{}", a1(k.0, k.1), v)); } }
    for (k, v) in b { if a.get(k) != Some(v) { out.push(format!("+{}:{}", a1(k.0, k.1), v)); } }
    out.truncate(6);
    out.join(" ")
}

fn apply(u: &mut UserModel, op: &HOp) -> Result<(), String> {
    match op {
        HOp::S(o) => o.apply_user(u),
        HOp::ClearContents(r, c, h, w) => u.range_clear_contents(&Area { sheet: 0, row: *r, column: *c, height: *h, width: *w }),
        HOp::ClearAll(r, c, h, w) => u.range_clear_all(&Area { sheet: 0, row: *r, column: *c, height: *h, width: *w }),
        HOp::TypeEmpty(r, c) => u.set_user_input(0, *r, *c, ""),
        HOp::Cut(src, dst) => paste(u, *src, *dst, true),
        HOp::Copy(src, dst) => paste(u, *src, *dst, false),
    }
}

fn gen_op(rng: &mut Rng, before: &Snap) -> HOp {
    let k = rng.range(1, 3) as i32;
    let some_link = |rng: &mut Rng| { let v: Vec<_> = before.links.keys().copied().collect(); if v.is_empty() { (3, 3) } else { *rng.pick(&v) } };
    match rng.below(16) {
        0 | 1 => HOp::S(Op::InsRows(rng.range(1, 13) as i32, k)),
        2 | 3 => HOp::S(Op::InsCols(rng.range(1, 9) as i32, k)),
        4 | 5 => HOp::S(Op::DelRows(rng.range(1, 13) as i32, k)),
        6 => HOp::S(Op::DelCols(rng.range(1, 9) as i32, k)),
        7 | 8 => { let i = rng.range(1, 12) as i32; let n = rng.range(1, 2) as i32; let mut d = rng.range(-6, 6) as i32; if d == 0 { d = 2; } if i + d < 1 { d = 1; } HOp::S(Op::MoveRows(i, n, d)) }
        9 => { let i = rng.range(1, 8) as i32; let n = rng.range(1, 2) as i32; let mut d = rng.range(-5, 5) as i32; if d == 0 { d = 1; } if i + d < 1 { d = 1; } HOp::S(Op::MoveCols(i, n, d)) }
        10 => { let p = some_link(rng); HOp::ClearContents((p.0 - 1).max(1), p.1, rng.range(1, 3) as i32, rng.range(1, 2) as i32) }
        11 => { let p = some_link(rng); HOp::ClearAll(p.0, (p.1 - 1).max(1), rng.range(1, 2) as i32, rng.range(1, 3) as i32) }
        12 => { let p = some_link(rng); HOp::TypeEmpty(p.0, p.1) }
        13 | 14 => {
            let p = some_link(rng);
            let src = ((p.0 - rng.range(0, 1) as i32).max(1), (p.1 - rng.range(0, 1) as i32).max(1), rng.range(1, 4) as i32, rng.range(1, 3) as i32);
            HOp::Cut(src, (rng.range(1, 12) as i32, rng.range(1, 8) as i32))
        }
        _ => {
            let p = some_link(rng);
            let src = (p.0, p.1, rng.range(1, 3) as i32, rng.range(1, 2) as i32);
            HOp::Copy(src, (rng.range(1, 12) as i32, rng.range(1, 8) as i32))
        }
    }
}

#[allow(clippy::too_many_arguments)]
fn check_step(or: &mut Oracle, st: &mut Stats, bk_json: &serde_json::Value, hist: &[String], op: &HOp, before: &Snap, after: &Snap, c: &Causes) {
    let input = |extra: &str| json!({"book": bk_json, "history": hist, "op": format!("{:?}", op), "note": extra});
    // ---- links: every link present before is attached to the same cell after
    let mut expected: BTreeMap<(i32, i32), String> = BTreeMap::new();
    for (k, l) in &before.links {
        // the cell the link belongs to is found by its marker value when it has a unique one
        let by_marker = before.cells.get(k).filter(|v| !v.is_empty() && before.cells.values().filter(|x| x == v).count() == 1)
            .and_then(|v| { let hits: Vec<_> = after.cells.iter().filter(|(_, x)| *x == v).map(|(p, _)| *p).collect(); if hits.len() == 1 { Some(hits[0]) } else { None } });
        let target = match op {
            HOp::Copy(..) | HOp::ClearContents(..) | HOp::ClearAll(..) | HOp::TypeEmpty(..) => Some(*k),
            _ => match (expected_map(op, *k), by_marker) { (None, _) => None, (Some(_), Some(p)) => Some(p), (Some(p), None) => Some(p) },
        };
        if let Some(t) = target { expected.insert(t, l.clone()); }
    }
    match op {
        HOp::ClearContents(r, cc, h, w) | HOp::ClearAll(r, cc, h, w) => expected.retain(|k, _| !in_rect(*k, (*r, *cc, *h, *w))),
        HOp::TypeEmpty(r, cc) => { expected.remove(&(*r, *cc)); }
        HOp::Copy(src, dst) => {
            for dr in 0..src.2 { for dc in 0..src.3 {
                let (s, t) = ((src.0 + dr, src.1 + dc), (dst.0 + dr, dst.1 + dc));
                match before.links.get(&s) { Some(l) => { expected.insert(t, l.clone()); } None => { expected.remove(&t); } }
            } }
        }
        _ => {}
    }
    or.checked += 1;
    if expected != after.links {
        let symptom = match op {
            HOp::ClearContents(..) | HOp::ClearAll(..) | HOp::TypeEmpty(..) => "clear_does_not_remove_exactly_the_links_of_the_cleared_cells",
            HOp::Cut(..) | HOp::Copy(..) => "links_do_not_follow_cells_under_paste",
            HOp::S(_) => "links_do_not_follow_cells",
        };
        or.fail(&format!("{symptom}__{}", link_cause(c)), input(""), format!("expected vs found: {}", diff_maps(&expected, &after.links)));
    } else { st.bump("oracle_links_ok"); }
    // ---- conditional formats: the range is what a formula reference to the same range became
    if matches!(op, HOp::Copy(..)) {
        or.checked += 1;
        if after.cfs.len() < before.cfs.len() || after.cfs[..before.cfs.len()] != before.cfs[..] {
            or.fail("copy_paste_changes_existing_conditional_formats__none", input(""), format!("{:?} -> {:?}", before.cfs, after.cfs));
        }
        return;
    }
    cf_consistency(or, st, "", &input, before, after, c);
}

/// every conditional format that agreed with its planted formulas in `before` must agree with them in `after`
fn cf_consistency(or: &mut Oracle, st: &mut Stats, prefix: &str, input: &dyn Fn(&str) -> serde_json::Value, before: &Snap, after: &Snap, c: &Causes) {
    for (j, (range, formula)) in after.cfs.iter().enumerate() {
        if j >= before.cfs.len() { break; }
        if let (Some(f0), Some(f)) = (before.planted.get(&(9000 + j as i64)), after.planted.get(&(9000 + j as i64))) {
            if norm_range(&sum_args(f0)) != norm_range(&before.cfs[j].0) { st.bump("oracle_cf_range_skipped_already_diverged"); }
            else {
                or.checked += 1;
                if norm_range(&sum_args(f)) != norm_range(range) {
                    or.fail(&format!("{prefix}cf_range_differs_from_formula_reference__{}", cf_cause(c)), input(&format!("cf #{j} was {}", before.cfs[j].0)),
                            format!("range {:?}, the formula shows {:?}", range, f));
                } else { st.bump("oracle_cf_range_ok"); if *range != before.cfs[j].0 { st.bump("oracle_cf_range_ok_and_changed"); } }
            }
        }
        if let (Some(f0), Some(f)) = (before.planted.get(&(9100 + j as i64)), after.planted.get(&(9100 + j as i64))) {
            if *f0 != before.cfs[j].1 { st.bump("oracle_cf_rule_skipped_already_diverged"); }
            else {
                or.checked += 1;
                if f != formula {
                    or.fail(&format!("{prefix}cf_rule_formula_differs_from_cell_formula__{}", cf_cause(c)), input(&format!("cf #{j} rule was {}", before.cfs[j].1)),
                            format!("rule {:?}, the cell formula shows {:?}", formula, f));
                } else { st.bump("oracle_cf_rule_ok"); if *formula != before.cfs[j].1 { st.bump("oracle_cf_rule_ok_and_changed"); } }
            }
        }
    }
}

fn oracle(rng: &mut Rng, or: &mut Oracle, st: &mut Stats, nbooks: u64, steps: usize) {
    for bi in 0..nbooks {
        let bk = gen_book(rng, bi);
        let bk_json = json!({"cells": bk.cells, "bold": bk.bold, "links": bk.links, "cfs": bk.cfs});
        let mut u = build(&bk);
        let mut hist: Vec<String> = vec![];
        for _ in 0..steps {
            let before = snap(&u);
            let op = gen_op(rng, &before);
            let depth0 = u.verif_history_depths().0;
            if let Err(e) = apply(&mut u, &op) {
                st.bump("oracle_op_refused"); st.sample(format!("refused {:?}: {e}", op));
                // a refused operation must leave links and conditional formats alone
                let s2 = snap(&u);
                or.checked += 1;
                if s2.links != before.links || s2.cfs != before.cfs {
                    or.fail("refused_operation_changes_metadata__none", json!({"book": bk_json, "history": hist, "op": format!("{:?}", op)}), diff_maps(&before.links, &s2.links));
                }
                continue;
            }
            st.bump(&format!("oracle_op_{}", format!("{:?}", op).split('(').next().unwrap_or("")));
            let after = snap(&u);
            let c = causes(&op, &before, Some(&after));
            check_step(or, st, &bk_json, &hist, &op, &before, &after, &c);
            hist.push(format!("{:?}", op));
            // ---- undo restores, redo repeats (only when the call pushed a history entry)
            let pushed = u.verif_history_depths().0 > depth0;
            if pushed && rng.chance(2, 3) {
                let input = json!({"book": bk_json, "history": hist, "undone": format!("{:?}", op)});
                if u.undo().is_ok() {
                    let s2 = snap(&u);
                    or.checked += 2;
                    if s2.links != before.links {
                        let sym = if matches!(op, HOp::ClearContents(..) | HOp::ClearAll(..) | HOp::TypeEmpty(..)) { "undo_of_clear_does_not_restore_links" } else { "undo_does_not_restore_links" };
                        or.fail(&format!("{sym}__{}", link_cause(&c)), input.clone(), diff_maps(&before.links, &s2.links));
                    } else { st.bump("oracle_undo_links_ok"); }
                    // conditional formats: restored whenever the planted cell formulas are restored
                    for j in 0..before.cfs.len().min(s2.cfs.len()) {
                        let same = |id: i64| before.planted.get(&id).is_some() && before.planted.get(&id) == s2.planted.get(&id);
                        if same(9000 + j as i64) && norm_range(&before.cfs[j].0) == norm_range(&sum_args(&before.planted[&(9000 + j as i64)])) {
                            if norm_range(&s2.cfs[j].0) != norm_range(&before.cfs[j].0) {
                                or.fail(&format!("undo_restores_formula_reference_but_not_cf_range__{}", cf_cause(&c)), input.clone(), format!("{:?} -> {:?}", before.cfs[j], s2.cfs[j]));
                            } else { st.bump("oracle_undo_cf_range_ok"); }
                        }
                        if same(9100 + j as i64) && before.cfs[j].1 == before.planted[&(9100 + j as i64)] {
                            if s2.cfs[j].1 != before.cfs[j].1 {
                                or.fail(&format!("undo_restores_cell_formula_but_not_cf_rule_formula__{}", cf_cause(&c)), input.clone(), format!("{:?} -> {:?}", before.cfs[j], s2.cfs[j]));
                            } else { st.bump("oracle_undo_cf_rule_ok"); }
                        }
                    }
                    if s2.cfs.len() != before.cfs.len() {
                        or.fail("undo_does_not_restore_number_of_conditional_formats__none", input.clone(), format!("{} -> {}", before.cfs.len(), s2.cfs.len()));
                    }
                    let clean = s2 == before;
                    if u.redo().is_ok() {
                        let s3 = snap(&u);
                        if clean {
                            or.checked += 2;
                            if s3.links != after.links { or.fail(&format!("redo_differs_links__{}", link_cause(&c)), input.clone(), diff_maps(&after.links, &s3.links)); }
                            if s3.cfs != after.cfs { or.fail(&format!("redo_differs_conditional_formats__{}", cf_cause(&c)), input.clone(), format!("{:?} -> {:?}", after.cfs, s3.cfs)); }
                        }
                    }
                    hist.push("Undo".into()); hist.push("Redo".into());
                }
            }
        }
    }
}

/// copy + paste duplicates the conditional format; its rule formula should be what a cell
/// formula copied along would be
fn copy_rule_scenario(or: &mut Oracle, st: &mut Stats) {
    let mut u = UserModel::from_model(new_model());
    for r in 2..=4 { u.set_user_input(0, r, 1, &format!("{r}")).unwrap(); u.set_user_input(0, r, 2, &format!("=ISNUMBER(A{r})")).unwrap(); }
    u.add_conditional_formatting(0, "B2:B4", formula_rule("=ISNUMBER(A2)")).unwrap();
    if paste(&mut u, (2, 2, 3, 1), (2, 5), false).is_err() { st.bump("copy_scenario_refused"); return; }
    let s = snap(&u);
    or.checked += 1;
    let cell = s.cells.get(&(2, 5)).cloned().unwrap_or_default();
    match s.cfs.get(1) {
        Some((range, f)) => {
            if range != "E2:E4" || format!("={f}") != cell {
                or.fail("copied_cf_rule_formula_not_rebased__relative_reference_in_rule", json!({"cf": "B2:B4 =ISNUMBER(A2)", "copy": "B2:B4 -> E2"}),
                        format!("new conditional format {range} has rule ={f}; the cell formula copied along is {cell}"));
            }
        }
        None => or.fail("copy_paste_does_not_copy_conditional_format__none", json!({"cf": "B2:B4", "copy": "B2:B4 -> E2"}), format!("{:?}", s.cfs)),
    }
}

/// the witnesses of the refutation theorems replayed on the implementation (Model level)
fn witnesses(or: &mut Oracle, st: &mut Stats) {
    for (k, at, delta, range, class) in [
        (K_ROW, 3, -2, "A3:A6", "cf_range_differs_from_formula_reference__cf_range_corner_deleted"),
        (K_COL, 2, 1, "A1:XFD1", "cf_range_differs_from_formula_reference__cf_range_corner_pushed_off_grid"),
    ] {
        let mut m: Model = new_model();
        m.add_conditional_formatting(0, range, dup_rule()).unwrap();
        m.set_user_input(0, 9, 9, format!("=SUM({range})")).unwrap();
        run_op(&mut m, k, at, delta, 1).unwrap();
        let (mut fr, mut fc) = (9, 9);
        if k == K_ROW { fr += delta } else { fc += delta }
        let f = m.get_cell_formula(0, fr, fc).unwrap().unwrap_or_default();
        let out = m.workbook.worksheets[0].conditional_formatting[0].range.clone();
        or.checked += 1;
        st.sample(format!("witness {range}: range {out}, formula {f}"));
        if format!("=SUM({out})") != f {
            or.fail(class, json!({"k": k, "at": at, "delta": delta, "range": range}), format!("range {out:?}, the formula shows {f:?}"));
        }
    }
}

/// F25 seen through undo: the range that was left alone by the deletion is shifted by the
/// re-insertion, so undo does not give the range back
fn undo_delete_scenario(or: &mut Oracle, st: &mut Stats) {
    let mut u = UserModel::from_model(new_model());
    for r in 1..=8 { u.set_user_input(0, r, 1, &format!("{r}")).unwrap(); }
    u.add_conditional_formatting(0, "A3:A6", dup_rule()).unwrap();
    u.delete_rows(0, 3, 2).unwrap();
    let mid = u.get_model().workbook.worksheets[0].conditional_formatting[0].range.clone();
    u.undo().unwrap();
    let out = u.get_model().workbook.worksheets[0].conditional_formatting[0].range.clone();
    or.checked += 1;
    st.sample(format!("undo scenario: A3:A6 -> {mid} -> undo -> {out}"));
    if out != "A3:A6" {
        or.fail("undo_of_delete_does_not_restore_cf_range__cf_range_corner_deleted", json!({"cf": "A3:A6", "op": "delete_rows(0,3,2); undo"}),
                format!("A3:A6 -> {mid} after the deletion -> {out} after undo"));
    }
}

fn main() {
    let a = Args::parse();
    debug_hooks();
    let mut rng = Rng::new(a.seed);
    let mut cs = Cases::new(&a.out, "c33");
    let mut or = Oracle::default();
    let mut st = Stats::default();
    link_cases(&mut cs, &mut st, &mut or, a.thorough);
    cf_cases(&mut cs, &mut st, a.thorough);
    cut_cases(&mut cs, &mut st);
    witnesses(&mut or, &mut st);
    copy_rule_scenario(&mut or, &mut st);
    undo_delete_scenario(&mut or, &mut st);
    let (nbooks, steps) = if a.thorough { (6000, 6) } else { (300, 6) };
    oracle(&mut rng, &mut or, &mut st, nbooks, steps);
    let distinct = st.distinct.len();
    cs.finish(json!({
        "distribution": st.counts, "samples": st.samples, "distinct_nontrivial": distinct,
        "oracle_checked": or.checked, "oracle_failures": or.failures, "oracle_failures_per_class": or.per_class,
    }));
}
