//! C34 — F4 reference cycling (`lexer/util.rs cycle_reference`): implementation side of the
//! correspondence and the property oracle.
//!
//! case line:   cyc <formula> <start> <end> <ntok> (<isref> <tok_start> <tok_end>)*
//!              the token list is what `get_tokens_with_locale` returns for the body (the
//!              lexer is not modelled; the model gets the implementation's token boundaries)
//! observation: ok <text> <start> <end> | err | panic
//! case line:   cls <code point>   -> char::is_whitespace
use ironcalc_base::expressions::lexer::util::{cycle_reference, get_tokens_with_locale};
use ironcalc_base::expressions::parser::{Node, Parser};
use ironcalc_base::expressions::token::TokenType;
use ironcalc_base::expressions::types::CellReferenceRC;
use ironcalc_base::language::{get_language, Language};
use ironcalc_base::locale::{get_locale, Locale};
use serde_json::json;
use std::collections::{BTreeMap, HashMap, HashSet};
use std::fmt::Write as _;
use vh_common::*;

const CTX_ROW: i32 = 5;
const CTX_COL: i32 = 4;
const SHEETS: &[&str] = &["S", "s1", "a b", "x'y", "é", "TRUE"];

struct Env {
    locale: &'static Locale,
    language: &'static Language,
}

#[derive(Clone, Debug)]
struct Tok {
    is_ref: bool,
    is_range: bool,
    start: i32,
    end: i32,
}

fn tokens(env: &Env, body: &str) -> Vec<Tok> {
    get_tokens_with_locale(body, env.locale, env.language)
        .into_iter()
        .map(|m| Tok {
            is_ref: matches!(m.token, TokenType::Reference { .. } | TokenType::Range { .. }),
            is_range: matches!(m.token, TokenType::Range { .. }),
            start: m.start,
            end: m.end,
        })
        .collect()
}

type Cyc = Option<Result<(String, i32, i32), String>>; // None = panic

fn cyc(env: &Env, value: &str, start: usize, end: usize) -> Cyc {
    let r = std::panic::catch_unwind(|| cycle_reference(value, start, end, env.locale, env.language));
    r.ok()
}

fn obs(r: &Cyc) -> String {
    match r {
        None => "panic".to_string(),
        Some(Err(_)) => "err".to_string(),
        Some(Ok((t, s, e))) => format!("ok {} {} {}", wire(t), s, e),
    }
}

// ---------------------------------------------------------------------------------------
// "refers to the same cells": the parsed formula with every reference made absolute and
// the absolute flags dropped
fn norm(n: &Node, out: &mut String) {
    let ar = |abs: bool, r: i32| if abs { r } else { r + CTX_ROW };
    let ac = |abs: bool, c: i32| if abs { c } else { c + CTX_COL };
    match n {
        Node::ReferenceKind { sheet_name, sheet_index, absolute_row, absolute_column, row, column } => {
            let _ = write!(out, "Ref({:?},{},{},{})", sheet_name, sheet_index, ar(*absolute_row, *row), ac(*absolute_column, *column));
        }
        Node::RangeKind { sheet_name, sheet_index, absolute_row1, absolute_column1, row1, column1, absolute_row2, absolute_column2, row2, column2 } => {
            let _ = write!(out, "Range({:?},{},{},{},{},{})", sheet_name, sheet_index,
                ar(*absolute_row1, *row1), ac(*absolute_column1, *column1), ar(*absolute_row2, *row2), ac(*absolute_column2, *column2));
        }
        Node::WrongReferenceKind { sheet_name, absolute_row, absolute_column, row, column } => {
            let _ = write!(out, "WrongRef({:?},{},{})", sheet_name, ar(*absolute_row, *row), ac(*absolute_column, *column));
        }
        Node::WrongRangeKind { sheet_name, absolute_row1, absolute_column1, row1, column1, absolute_row2, absolute_column2, row2, column2 } => {
            let _ = write!(out, "WrongRange({:?},{},{},{},{})", sheet_name,
                ar(*absolute_row1, *row1), ac(*absolute_column1, *column1), ar(*absolute_row2, *row2), ac(*absolute_column2, *column2));
        }
        Node::OpRangeKind { left, right } => bin("OpRange", left, right, out),
        Node::OpConcatenateKind { left, right } => bin("Concat", left, right, out),
        Node::OpSumKind { kind, left, right } => bin(&format!("Sum{:?}", kind), left, right, out),
        Node::OpProductKind { kind, left, right } => bin(&format!("Prod{:?}", kind), left, right, out),
        Node::OpPowerKind { left, right } => bin("Pow", left, right, out),
        Node::CompareKind { kind, left, right } => bin(&format!("Cmp{:?}", kind), left, right, out),
        Node::UnaryKind { kind, right } => {
            let _ = write!(out, "Unary{:?}(", kind);
            norm(right, out);
            out.push(')');
        }
        Node::FunctionKind { kind, args } => list(&format!("Fn{:?}", kind), args, out),
        Node::NamedFunctionKind { id, name, args } => list(&format!("NamedFn{:?}{:?}", id, name), args, out),
        Node::LambdaDefKind { parameters, body } => {
            let _ = write!(out, "Lambda{:?}(", parameters);
            norm(body, out);
            out.push(')');
        }
        Node::LambdaCallKind { lambda, args } => {
            out.push_str("Call(");
            norm(lambda, out);
            list("", args, out);
            out.push(')');
        }
        Node::ImplicitIntersection { automatic, child } => {
            let _ = write!(out, "II{}(", automatic);
            norm(child, out);
            out.push(')');
        }
        Node::SpillRangeOperator { child } => {
            out.push_str("Spill(");
            norm(child, out);
            out.push(')');
        }
        Node::ParseErrorKind { .. } => out.push_str("ParseError"),
        other => {
            let _ = write!(out, "{:?}", other);
        }
    }
}
fn bin(tag: &str, l: &Node, r: &Node, out: &mut String) {
    out.push_str(tag);
    out.push('(');
    norm(l, out);
    out.push(',');
    norm(r, out);
    out.push(')');
}
fn list(tag: &str, args: &[Node], out: &mut String) {
    out.push_str(tag);
    out.push('[');
    for a in args {
        norm(a, out);
        out.push(';');
    }
    out.push(']');
}

/// parser plus a memo of the normal forms already computed (many cases share their texts)
struct P<'a> {
    parser: Parser<'a>,
    cache: HashMap<String, String>,
}

fn same_cells_key(p: &mut P, formula: &str) -> String {
    if let Some(k) = p.cache.get(formula) {
        return k.clone();
    }
    let k = same_cells_key_uncached(&mut p.parser, formula);
    if p.cache.len() > 2_000_000 {
        p.cache.clear();
    }
    p.cache.insert(formula.to_string(), k.clone());
    k
}

fn same_cells_key_uncached(parser: &mut Parser, formula: &str) -> String {
    let body: String = formula.chars().skip(1).collect();
    let ctx = CellReferenceRC { sheet: "S".to_string(), row: CTX_ROW, column: CTX_COL };
    let node = parser.parse(&body, &ctx);
    let mut s = String::new();
    norm(&node, &mut s);
    s
}

fn strip_dollar_upper(s: &str) -> String {
    s.chars().filter(|&c| c != '$').map(|c| c.to_ascii_uppercase()).collect()
}

// ---------------------------------------------------------------------------------------
struct Stats {
    touched_cases: u64,
    multi_touched: u64,
    parse_ok: u64,
    period_checked: u64,
    distinct: HashSet<(u64, usize, usize)>,
}

fn hash64(s: &str) -> u64 {
    let mut h: u64 = 0xcbf29ce484222325;
    for b in s.bytes() {
        h ^= b as u64;
        h = h.wrapping_mul(0x100000001b3);
    }
    h
}

/// the property itself, evaluated on the implementation for one (formula, start, end)
fn oracle(env: &Env, parser: &mut P, or: &mut Oracle, st: &mut Stats, f: &str, start: usize, end: usize, toks: &[Tok], r1: &Cyc) {
    or.checked += 1;
    let chars: Vec<char> = f.chars().collect();
    let n = chars.len();
    let input = json!({"formula": f, "start": start, "end": end});
    let (t1, s1, e1) = match r1 {
        None => {
            or.fail("f4_panic", input, "cycle_reference panicked".to_string());
            return;
        }
        Some(Err(_)) => {
            if start <= n && end <= n {
                or.fail("f4_unexpected_err", input, "Err for in-range cursors".to_string());
            }
            return;
        }
        Some(Ok(x)) => x.clone(),
    };
    if start > n || end > n {
        or.fail("f4_missing_err", input, "no Err although a cursor is out of range".to_string());
        return;
    }
    if chars.first() != Some(&'=') {
        if t1 != f || s1 != start as i32 || e1 != end as i32 {
            or.fail("f4_not_formula_changed", input, format!("non-formula changed to {t1:?} {s1} {e1}"));
        }
        return;
    }
    let (ss, se) = if start <= end { (start, end) } else { (end, start) };
    // tokens touched by the selection, from the statement ("a cursor grazing the edge counts")
    let touched: Vec<&Tok> = toks
        .iter()
        .filter(|t| t.is_ref && (t.start as usize + 1) <= se && ss <= (t.end as usize + 1))
        .collect();
    if touched.is_empty() {
        if t1 != f || s1 != start as i32 || e1 != end as i32 {
            or.fail("f4_untouched_changed", input, format!("no reference touched but result is {t1:?} {s1} {e1}"));
        }
        return;
    }
    st.touched_cases += 1;
    if touched.len() > 1 {
        st.multi_touched += 1;
    }
    st.distinct.insert((hash64(f), touched[0].start as usize, touched.len()));
    // known-defect predicate (F04): a touched *Reference* token directly followed by ':'
    // (the lexer's range-operator fallback `A1:OFFSET(..)`, `A1:name`, `A1:3`)
    let range_op = touched.iter().any(|t| {
        let e = t.end as usize + 1;
        !t.is_range && e < n && chars[e] == ':'
    });
    // a touched reference is juxtaposed with another operand (no operator in between): directly
    // followed / preceded by an identifier character or '$', or by another reference token
    // (`A1$B$2`, `$A1b2`, `A1 B2` — IronCalc has no blank intersection operator). Such text is
    // not a formula; the cursor returned grazes both tokens and dropping a '$' can glue them
    let is_touched = |t: &Tok| (t.start as usize + 1) <= se && ss <= (t.end as usize + 1);
    let glue = |c: char| c.is_alphanumeric() || c == '_' || c == '.' || c == '$' || c == '\'' || c == '(' || c == '!';
    let adjacent = toks.windows(2).any(|w| w[0].is_ref && w[1].is_ref && w[0].end == w[1].start && (is_touched(&w[0]) || is_touched(&w[1])))
        || touched.iter().any(|t| {
            let e = t.end as usize + 1;
            let p = t.start as usize + 1 + chars[t.start as usize + 1..].iter().take_while(|c| c.is_whitespace()).count();
            (e < n && glue(chars[e])) || (p >= 2 && p == t.start as usize + 1 && glue(chars[p - 1]))
        });
    // a touched token with row number zero (`$A$0`, `A$00`): the lexer's '$' path accepts it
    // as a reference, without '$' it is a name
    let row_zero = touched.iter().any(|t| {
        let seg: String = chars[t.start as usize + 1..t.end as usize + 1].iter().collect();
        let refpart = seg.rsplit('!').next().unwrap_or("").to_string();
        refpart.split(':').any(|ep| {
            let d: String = ep.chars().filter(|c| c.is_ascii_digit()).collect();
            !d.is_empty() && d.chars().all(|c| c == '0')
        })
    });
    let cls = |base: &str| -> String {
        if range_op {
            "f4_range_operator_after_abs".to_string()
        } else if adjacent {
            "f4_juxtaposed_operands".to_string()
        } else if row_zero {
            "f4_row_zero_reference".to_string()
        } else {
            base.to_string()
        }
    };
    let r1c: Vec<char> = t1.chars().collect();
    // --- only '$' markers and letter case change, and only inside the touched tokens -------
    let first = touched[0];
    let last = touched[touched.len() - 1];
    let pre = first.start as usize + 1;
    let suf = n - (last.end as usize + 1);
    let mut ok_outside = r1c.len() >= pre + suf && r1c[..pre] == chars[..pre] && r1c[r1c.len() - suf..] == chars[n - suf..];
    if ok_outside {
        // gaps between touched tokens: walk the result token by token; inside a token the
        // result may insert/drop '$' and change case, nothing else
        let mut i = pre; // index in the original
        let mut j = pre; // index in the result
        for (k, t) in touched.iter().enumerate() {
            let te = t.end as usize + 1;
            while i < te {
                if j < r1c.len() && r1c[j] == '$' && chars[i] != '$' { j += 1; continue; }
                if chars[i] == '$' && !(j < r1c.len() && r1c[j] == '$') { i += 1; continue; }
                if j < r1c.len() && r1c[j].to_ascii_uppercase() == chars[i].to_ascii_uppercase() { i += 1; j += 1; } else { ok_outside = false; break; }
            }
            if !ok_outside { break; }
            let gap_end = if k + 1 < touched.len() { touched[k + 1].start as usize + 1 } else { te };
            // a '$' the result put right before the gap belongs to nothing: not allowed
            while i < gap_end {
                if j < r1c.len() && r1c[j] == chars[i] { i += 1; j += 1; } else { ok_outside = false; break; }
            }
            if !ok_outside { break; }
        }
        if ok_outside && j != r1c.len() - suf { ok_outside = false; }
    }
    if !ok_outside || strip_dollar_upper(&t1) != strip_dollar_upper(f) {
        or.fail("f4_outside_changed", input.clone(), format!("{f:?} -> {t1:?}: something other than '$' markers / letter case of the touched references changed"));
    }
    // --- returned cursor ------------------------------------------------------------------
    let expect_end = (r1c.len() - suf) as i32;
    let lead_ws = chars[pre..].iter().take_while(|c| c.is_whitespace()).count();
    let expect_start = if start == end { expect_end } else { (pre + lead_ws) as i32 };
    if s1 != expect_start || e1 != expect_end {
        or.fail("f4_cursor", input.clone(), format!("{f:?} -> {t1:?} cursor ({s1},{e1}), expected ({expect_start},{expect_end})"));
    }
    // --- same cells -------------------------------------------------------------------------
    let k0 = same_cells_key(parser, f);
    let parses = k0 != "ParseError";
    if parses {
        st.parse_ok += 1;
    }
    // --- period: feed the returned cursor back, four presses in total -------------------------
    let mut cur: (String, i32, i32) = (t1.clone(), s1, e1);
    let mut seq = vec![t1.clone()];
    let mut bad = false;
    for step in 1..=4 {
        if parses {
            let k = same_cells_key(parser, &cur.0);
            if k != k0 {
                or.fail(&cls("f4_same_cells"), input.clone(), format!("press {step}: {:?} parses to {k}, the original {f:?} to {k0}", cur.0));
                bad = true;
                break;
            }
        }
        if step == 4 {
            break;
        }
        match cyc(env, &cur.0, cur.1.max(0) as usize, cur.2.max(0) as usize) {
            Some(Ok(x)) => {
                seq.push(x.0.clone());
                cur = x;
            }
            other => {
                or.fail(&cls("f4_period"), input.clone(), format!("press {}: {}", step + 1, obs(&other)));
                bad = true;
                break;
            }
        }
    }
    if bad {
        return;
    }
    st.period_checked += 1;
    // after four presses: the original up to letter case, and exactly the original outside
    // the touched tokens
    let c4: Vec<char> = cur.0.chars().collect();
    let mut same = c4.len() == n && cur.0.to_ascii_uppercase() == f.to_ascii_uppercase();
    if same {
        for i in 0..n {
            let inside = touched.iter().any(|t| (t.start as usize + 1) <= i && i < (t.end as usize + 1));
            if !inside && c4[i] != chars[i] {
                same = false;
            }
        }
    }
    if !same {
        or.fail(&cls("f4_period"), input.clone(), format!("four presses: {f:?} -> {:?}, expected the original up to letter case", seq));
    }
}

// ---------------------------------------------------------------------------------------
// generators
fn cells(cols: &[&str], rows: &[&str]) -> Vec<String> {
    let mut v = vec![];
    for c in cols {
        for r in rows {
            for (dc, dr) in [("", ""), ("$", "$"), ("", "$"), ("$", "")] {
                v.push(format!("{dc}{c}{dr}{r}"));
            }
        }
    }
    v
}

fn refs_full() -> Vec<String> {
    let mut v = vec![];
    let a = cells(&["A"], &["1"]);
    let b2 = cells(&["b"], &["2"]);
    v.extend(a.iter().cloned());
    v.extend(b2.iter().cloned());
    for x in &a {
        for y in &b2 {
            v.push(format!("{x}:{y}"));
        }
    }
    for (l, r) in [("", ""), ("$", "$"), ("", "$"), ("$", "")] {
        v.push(format!("{l}1:{r}3"));
        v.push(format!("{l}A:{r}b"));
        v.push(format!("{l}c:{r}C"));
    }
    v
}

fn refs_small() -> Vec<String> {
    let mut v = cells(&["A"], &["1"]);
    v.extend(["b2", "$b$2"].iter().map(|s| s.to_string()));
    for (l, r) in [("", ""), ("$", "$"), ("", "$"), ("$", "")] {
        v.push(format!("{l}A{r}1:{l}b{r}2"));
    }
    for s in ["1:3", "$1:3", "A:b", "a:$B"] {
        v.push(s.to_string());
    }
    v
}

const PREFIX_FULL: &[&str] = &["", "S!", "s1!", "'a b'!", "'x''y'!", "'S' !", "'é'!", "Z9!", "TRUE!", "'it''s:!'!"];
const PREFIX_SMALL: &[&str] = &["", "S!", "'a b'!", "'x''y'!"];
const OPS: &[&str] = &["+", ",", " ", ":", "", "=", "&", " + "];

fn flen(s: &str) -> usize {
    s.chars().count()
}

fn main() {
    let a = Args::parse();
    let (seed, thorough, out) = (a.seed, a.thorough, a.out.as_str());
    let env = Env { locale: get_locale("en").unwrap(), language: get_language("en").unwrap() };
    let env_de = Env { locale: get_locale("de").unwrap(), language: get_language("en").unwrap() };
    let sheets: Vec<String> = SHEETS.iter().map(|s| s.to_string()).collect();
    let mut parser = P { parser: Parser::new(sheets.clone(), vec![], HashMap::new(), env.locale, env.language), cache: HashMap::new() };
    let mut parser_de = P { parser: Parser::new(sheets, vec![], HashMap::new(), env_de.locale, env_de.language), cache: HashMap::new() };

    // probe mode: vh_c34 1 quick /tmp probe '<formula>' start end
    if a.extra.first().map(|s| s.as_str()) == Some("probe") {
        let f = &a.extra[1];
        let s: usize = a.extra[2].parse().unwrap();
        let e: usize = a.extra[3].parse().unwrap();
        let body: String = f.chars().skip(1).collect();
        println!("tokens {:?}", get_tokens_with_locale(&body, env.locale, env.language));
        let mut cur = (f.clone(), s as i32, e as i32);
        for i in 0..5 {
            println!("{i}: {:?}  parse: {}", cur, same_cells_key(&mut parser, &cur.0));
            match cyc(&env, &cur.0, cur.1 as usize, cur.2 as usize) {
                Some(Ok(x)) => cur = x,
                o => {
                    println!("{}", obs(&o));
                    break;
                }
            }
        }
        return;
    }

    let mut rng = Rng::new(seed);
    let mut cs = Cases::new(out, "c34");
    let mut or = Oracle::default();
    let mut st = Stats { touched_cases: 0, multi_touched: 0, parse_ok: 0, period_checked: 0, distinct: HashSet::new() };
    let mut dist: BTreeMap<String, u64> = BTreeMap::new();
    let mut samples: Vec<String> = vec![];
    let mut chars_seen: HashSet<char> = HashSet::new();

    // ---- the character class the model hard-codes (checked, not assumed) -------------------
    for c in 0u32..0x3100 {
        if let Some(ch) = char::from_u32(c) {
            cs.case(&format!("cls {}", c), b(ch.is_whitespace()));
        }
    }
    for c in [0xD7FFu32, 0xE000, 0xFEFF, 0xFFFD, 0x1F600, 0x10FFFF] {
        let ch = char::from_u32(c).unwrap();
        cs.case(&format!("cls {}", c), b(ch.is_whitespace()));
    }

    let max_len = if thorough { 17 } else { 14 };

    // ---- formula families ---------------------------------------------------------------
    // (name, formulas, keep 1 out of `stride` in quick, in thorough)
    let mut families: Vec<(&str, Vec<String>, u64, u64)> = vec![];

    // one reference/range, the full atom grammar, any length
    let mut one = vec![];
    for bl in ["", " ", "\t\u{a0}"] {
        for p in PREFIX_FULL {
            for r in refs_full() {
                one.push(format!("={bl}{p}{r}"));
            }
        }
    }
    // trailing blanks, lower-case function, endpoints the lexer accepts with odd shapes
    for r in ["A1 ", "A01", "$A$0", "XFD1048576", "$xfd$1048576", "XFE1", "A1048577", "AAAA1", "A1:B", "A:B2", "1:B", "$$1:3", "A$:B", "$A$:$B$", "A1:", ":A1", "A1:B2:C3", "A1::B2", "$1:$3", "a:a", "1:1"] {
        one.push(format!("={r}"));
    }
    families.push(("one_ref", one, 1, 1));

    // two references joined by an operator
    let small = refs_small();
    let mut two = vec![];
    for p1 in PREFIX_SMALL {
        for r1 in &small {
            for op in OPS {
                for p2 in PREFIX_SMALL {
                    for r2 in &small {
                        let f = format!("={p1}{r1}{op}{p2}{r2}");
                        if flen(&f) <= max_len {
                            two.push(f);
                        }
                    }
                }
            }
        }
    }
    families.push(("two_refs", two, 1, 1));

    // three plain cells
    let c3 = {
        let mut v = cells(&["A"], &["1"]);
        v.push("b2".to_string());
        v.push("b$2".to_string());
        v
    };
    let mut three = vec![];
    for r1 in &c3 {
        for o1 in OPS {
            for r2 in &c3 {
                for o2 in OPS {
                    for r3 in &c3 {
                        let f = format!("={r1}{o1}{r2}{o2}{r3}");
                        if flen(&f) <= max_len {
                            three.push(f);
                        }
                    }
                }
            }
        }
    }
    families.push(("three_refs", three, 1, 1));

    // references inside larger formulas: functions, unfinished input, strings, the range
    // operator with a function / a name / a number on the right (F04), structured noise
    let mut ctxs = vec![];
    for r in &small {
        for p in ["", "S!", "'x''y'!"] {
            let x = format!("{p}{r}");
            for t in [
                "=SUM({})", "=sum({}", "=-{}%", "=\"A1\"&{}", "={{1,2}}+{}", "={}:OFFSET(B1,1,1)", "={}:foo", "={}:3", "=OFFSET(B1,1,1):{}",
                "={} :OFFSET(B1,1,1)", "=IF({},b2,$C$3)", "=A1B+{}", "={}.5", "={}#", "=@{}", "=({})", "={}$", "=$Z{}", "=1e{}", "=2{}", "={}(",
                "=#REF!+{}", "={}!A1", "=Table1[x]+{}", "={};{}", "={}:{}:{}",
            ] {
                ctxs.push(t.replace("{{", "{").replace("}}", "}").replace("{}", &x));
            }
        }
    }
    families.push(("in_context", ctxs, 1, 1));

    // fixed witnesses: the F04 formula of Props/C34.v (C34_refuted_range_operator) before and
    // after the first press, the formulas of /repo's own tests, the other recorded findings
    let fixed: Vec<String> = [
        "=A1:OFFSET(B1,1,1)", "=$A$1:OFFSET(B1,1,1)", "=SUM(a1:b2)+C3", "=SUM(A1:B2)+C3", "=A1*2+SIN(B$2)", "=Sheet1!C3:D5",
        "=sum(a1", "=sheet1!d4", "='My Sheet'!A1", "=A1 A$1", "=A1$A1", "=$A$0", "='S' !b2", "=A1+2,5", "=SUMA(A1:B2;VERDADERO)",
    ].iter().map(|s| s.to_string()).collect();
    families.push(("fixed_witnesses", fixed, 1, 1));

    for (name, fs, qs, ts) in families.iter() {
        let stride = if thorough { *ts } else { *qs };
        let off = rng.below(stride);
        let mut nf = 0u64;
        let mut nc = 0u64;
        for (idx, f) in fs.iter().enumerate() {
            if (idx as u64) % stride != off {
                continue;
            }
            nf += 1;
            let n = flen(f);
            let body: String = f.chars().skip(1).collect();
            let toks = tokens(&env, &body);
            chars_seen.extend(f.chars());
            if samples.len() < 12 && idx % 97 == 0 {
                samples.push(format!("{name}: {f}"));
            }
            for s in 0..=n {
                for e in s..=n {
                    emit(&env, &mut parser, &mut cs, &mut or, &mut st, f, s, e, &toks);
                    nc += 1;
                }
            }
        }
        dist.insert(format!("{name}_formulas"), nf);
        dist.insert(format!("{name}_formulas_in_family"), fs.len() as u64);
        dist.insert(format!("{name}_cases"), nc);
    }

    // ---- random longer formulas ---------------------------------------------------------
    let cols = ["A", "b", "Zz", "XFD", "aB", "R", "c"];
    let rows = ["1", "2", "10", "007", "1048576", "65536"];
    let n_rand = if thorough { 60000 } else { 6000 };
    let mut n_rand_cases = 0u64;
    for i in 0..n_rand {
        let mut f = String::from("=");
        let natoms = rng.range(1, 6);
        for k in 0..natoms {
            if k > 0 {
                f.push_str(*rng.pick(&["+", ",", " ", ":", "", "=", "&", " + ", "*(", ")-", "<>", ";", "^", "/SUM(", "% ", ":OFFSET(", ":x "]));
            }
            if rng.chance(1, 5) {
                f.push_str(*rng.pick(&[" ", "  ", "\t", "\u{2003}"]));
            }
            if rng.chance(1, 3) {
                f.push_str(*rng.pick(PREFIX_FULL));
            }
            let ep = |rng: &mut Rng, kind: u64| -> String {
                let dc = if rng.chance(1, 2) { "$" } else { "" };
                let dr = if rng.chance(1, 2) { "$" } else { "" };
                let c = *rng.pick(&cols);
                let r = *rng.pick(&rows);
                match kind {
                    0 => format!("{dc}{c}{dr}{r}"),
                    1 => format!("{dc}{c}"),
                    _ => format!("{dr}{r}"),
                }
            };
            match rng.below(10) {
                0..=3 => f.push_str(&ep(&mut rng, 0)),
                4..=6 => {
                    let (x, y) = (ep(&mut rng, 0), ep(&mut rng, 0));
                    f.push_str(&format!("{x}:{y}"));
                }
                7 => {
                    let (x, y) = (ep(&mut rng, 1), ep(&mut rng, 1));
                    f.push_str(&format!("{x}:{y}"));
                }
                8 => {
                    let (x, y) = (ep(&mut rng, 2), ep(&mut rng, 2));
                    f.push_str(&format!("{x}:{y}"));
                }
                _ => {
                    // mixed / malformed endpoint pair
                    let (k1, k2) = (rng.below(3), rng.below(3));
                    let (x, y) = (ep(&mut rng, k1), ep(&mut rng, k2));
                    f.push_str(&format!("{x}:{y}"));
                }
            }
        }
        if rng.chance(1, 8) {
            f.push_str(*rng.pick(&[")", " ", "+", "\"x", "+1,5", "+2.5e3"]));
        }
        let n = flen(&f);
        let body: String = f.chars().skip(1).collect();
        let de = rng.chance(1, 10);
        let (env_x, parser_x) = if de { (&env_de, &mut parser_de) } else { (&env, &mut parser) };
        let toks = tokens(env_x, &body);
        chars_seen.extend(f.chars());
        if i < 4 {
            samples.push(format!("random: {f}"));
        }
        let reps = if thorough { 24 } else { 16 };
        for _ in 0..reps {
            let (s, e) = match rng.below(12) {
                0 => (rng.below(n as u64 + 1) as usize, n + 1 + rng.below(3) as usize), // out of range -> Err
                1 => {
                    // start > end: the code orders them
                    let x = rng.below(n as u64 + 1) as usize;
                    let y = rng.below(n as u64 + 1) as usize;
                    (x.max(y), x.min(y))
                }
                2..=6 => {
                    let x = rng.below(n as u64 + 1) as usize;
                    (x, x)
                }
                _ => {
                    let x = rng.below(n as u64 + 1) as usize;
                    let y = rng.below(n as u64 + 1) as usize;
                    (x.min(y), x.max(y))
                }
            };
            if de {
                // the German locale only changes the token list (decimal comma); it is passed as extra data
                emit_env(env_x, parser_x, &mut cs, &mut or, &mut st, &f, s, e, &toks);
            } else {
                emit(env_x, parser_x, &mut cs, &mut or, &mut st, &f, s, e, &toks);
            }
            n_rand_cases += 1;
        }
    }
    dist.insert("random_formulas".into(), n_rand as u64);
    dist.insert("random_cases".into(), n_rand_cases);

    // ---- noise: short strings over the alphabet of the grammar, all cursors -----------------
    let alpha: Vec<char> = "=A1$:!' b2S+(".chars().collect();
    let n_noise = if thorough { 40000 } else { 4000 };
    let mut n_noise_cases = 0u64;
    for _ in 0..n_noise {
        let len = rng.range(0, 8) as usize;
        let mut f = String::new();
        if rng.chance(9, 10) {
            f.push('=');
        }
        for _ in 0..len {
            f.push(*rng.pick(&alpha));
        }
        let n = flen(&f);
        let body: String = f.chars().skip(1).collect();
        let toks = if f.starts_with('=') { tokens(&env, &body) } else { vec![] };
        for s in 0..=n + 1 {
            for e in [s, n, (s + 2).min(n + 1), 0] {
                emit(&env, &mut parser, &mut cs, &mut or, &mut st, &f, s, e, &toks);
                n_noise_cases += 1;
            }
        }
    }
    dist.insert("noise_cases".into(), n_noise_cases);

    // every character that ever appears in a formula has its class compared as well
    let mut seen: Vec<char> = chars_seen.into_iter().collect();
    seen.sort();
    for ch in seen {
        cs.case(&format!("cls {}", ch as u32), b(ch.is_whitespace()));
    }

    dist.insert("touched_cases".into(), st.touched_cases);
    dist.insert("touched_more_than_one_token".into(), st.multi_touched);
    dist.insert("touched_and_formula_parses".into(), st.parse_ok);
    dist.insert("period_checked".into(), st.period_checked);
    let nontrivial = st.distinct.len();
    cs.finish(json!({
        "seed": seed, "tier": if thorough { "thorough" } else { "quick" },
        "distribution": dist, "samples": samples, "distinct_nontrivial": nontrivial,
        "oracle_checked": or.checked, "oracle_failures": or.failures, "oracle_failures_per_class": or.per_class,
        "max_len_exhaustive": max_len,
    }));
}

fn emit(env: &Env, parser: &mut P, cs: &mut Cases, or: &mut Oracle, st: &mut Stats, f: &str, s: usize, e: usize, toks: &[Tok]) {
    emit_env(env, parser, cs, or, st, f, s, e, toks)
}

fn emit_env(env: &Env, parser: &mut P, cs: &mut Cases, or: &mut Oracle, st: &mut Stats, f: &str, s: usize, e: usize, toks: &[Tok]) {
    let r = cyc(env, f, s, e);
    let mut line = format!("cyc {} {} {} {}", wire(f), s, e, toks.len());
    for t in toks {
        let _ = write!(line, " {} {} {}", b(t.is_ref), t.start, t.end);
    }
    cs.case(&line, &obs(&r));
    oracle(env, parser, or, st, f, s, e, toks, &r);
}
