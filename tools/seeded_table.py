#!/usr/bin/env python3
"""seeded_table.py — prints the markdown table of DESIGN §16 from seeded/*/meta.json"""
import json,glob,os
rows=[]
for d in sorted(glob.glob(os.path.join(os.path.dirname(os.path.dirname(os.path.abspath(__file__))),'seeded','*'))):
    mp=os.path.join(d,'meta.json')
    if not os.path.exists(mp): continue
    m=json.load(open(mp))
    sid=os.path.basename(d)
    checks=m.get('checks_run',[])
    det="; ".join(("**caught** by %s: %s"%(c['check'].split(' (')[0],c['how']) if c['detected'] else "NOT caught by %s: %s"%(c['check'].split(' (')[0],c['how'])) for c in checks) or "(not run yet)"
    conf=m.get('confirmed_by_maintainer',{})
    rows.append("| %s | %s | %s | %s | %s | %s |"%(sid,m.get('property','?'),(m.get('title') or m.get('what_it_breaks',''))[:110].replace('|','/'),str(m.get('needs_to_manifest',''))[:150].replace('|','/').replace('\n',' '),conf.get('suite_passed_failed','?'),det.replace('|','/').replace('\n',' ')))
print("| id | property | change | needs to manifest | suite with change (passed:failed) | checks |\n|---|---|---|---|---|---|")
print("\n".join(rows))
