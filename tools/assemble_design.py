#!/usr/bin/env python3
"""assemble_design.py — splices the as-built sections into DESIGN.md:
   §10 <- notes/DESIGN_section10.md, §12 <- notes/DESIGN_section12.md,
   §16 <- notes/DESIGN_section16_head.md + the table printed by tools/seeded_table.py.
   Idempotent: every run replaces the text between the section's heading and the next `## N.` heading."""
import os, re, subprocess, sys
root = os.path.dirname(os.path.dirname(os.path.abspath(__file__)))
p = os.path.join(root, "DESIGN.md")
s = open(p).read()

def section_span(s, num):
    m = re.search(r"^## %d\. .*$" % num, s, re.M)
    if not m:
        return None
    n = re.search(r"^## \d+\. ", s[m.end():], re.M)
    end = m.end() + n.start() if n else len(s)
    return m.start(), end

def replace_section(s, num, text, before=None):
    text = text.rstrip() + "\n\n---------------------------------------------------------------------------------------\n\n"
    sp = section_span(s, num)
    if sp:
        return s[:sp[0]] + text + s[sp[1]:]
    sp = section_span(s, before)
    return s[:sp[0]] + text + s[sp[0]:]

s = replace_section(s, 10, open(os.path.join(root, "notes/DESIGN_section10.md")).read())
s = replace_section(s, 12, open(os.path.join(root, "notes/DESIGN_section12.md")).read())
head = open(os.path.join(root, "notes/DESIGN_section16_head.md")).read()
table = subprocess.run([sys.executable, os.path.join(root, "tools/seeded_table.py")], capture_output=True, text=True).stdout
s = replace_section(s, 16, head.rstrip() + "\n\n" + table, before=17)
open(p, "w").write(s)
print("DESIGN.md assembled:", len(s), "bytes")
