#!/usr/bin/env python3
"""record_detection.py <seeded id> <property> <detected yes|no> <text...> — notes in seeded/<id>/meta.json which check caught the change"""
import json,sys,os
sid,prop,det=sys.argv[1:4]; text=" ".join(sys.argv[4:])
p=os.path.join(os.path.dirname(os.path.dirname(os.path.abspath(__file__))),"seeded",sid,"meta.json")
m=json.load(open(p))
m.setdefault("checks_run",[]).append({"check":"./check %s quick (isolated copy, tools/mutant_check.sh)"%prop,"detected":det=="yes","how":text})
json.dump(m,open(p,"w"),indent=1)
