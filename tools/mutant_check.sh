#!/bin/bash
# mutant_check.sh <seeded dir> <Cxx> [tier] — runs ./check Cxx against a seeded change in ISOLATION:
# a private copy of /verif (/tmp/vmut) whose harness points at a private worktree of /repo
# (/tmp/mutrepo, at /repo's HEAD) with the patch applied. Nothing in /repo or /verif changes.
sd="$1"; prop="$2"; tier="${3:-quick}"
set -e
if [ ! -d /tmp/mutrepo ]; then git -C /repo worktree add -q /tmp/mutrepo HEAD; fi
git -C /tmp/mutrepo checkout -q --detach $(git -C /repo rev-parse HEAD) 2>/dev/null || true
git -C /tmp/mutrepo checkout -q -- .
mkdir -p /tmp/vmut
rsync -a --delete --exclude harness/target --exclude .git --exclude cases --exclude replays --exclude evidence --exclude .locks /verif/ /tmp/vmut/
sed -i 's#/repo/#/tmp/mutrepo/#g' /tmp/vmut/harness/Cargo.toml
sed -i 's#"/repo"#"/tmp/mutrepo"#; s#/repo/base#/tmp/mutrepo/base#g' /tmp/vmut/lib/c08.py /tmp/vmut/lib/c23.py
mkdir -p /tmp/vmut/harness/target
set +e
if [ "$sd" != "none" ]; then git -C /tmp/mutrepo apply "$sd/patch.diff" || { echo "PATCH DOES NOT APPLY"; exit 3; }; fi
cd /tmp/vmut && ./check $prop $tier > /tmp/vmut/last_$prop.out 2>&1; rc=$?
git -C /tmp/mutrepo checkout -q -- .
grep -v "^KNOWN" /tmp/vmut/last_$prop.out | cut -c1-400 | head -12
echo "exit=$rc"
