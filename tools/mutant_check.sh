#!/bin/bash
# mutant_check.sh <seeded dir> <Cxx> [tier] — runs ./check Cxx against a seeded change in ISOLATION:
# a private copy of /verif ($V) whose harness points at a private worktree of /repo
# ($R, at /repo's HEAD) with the patch applied. Nothing in /repo or /verif changes.
sd="$1"; prop="$2"; tier="${3:-quick}"
# MUTSLOT=<suffix> gives a second, independent pair of scratch directories (parallel runs)
V=/tmp/vmut$MUTSLOT; R=/tmp/mutrepo$MUTSLOT
set -e
if [ ! -d $R ]; then git -C /repo worktree add -q $R HEAD; fi
git -C $R checkout -q --detach $(git -C /repo rev-parse HEAD) 2>/dev/null || true
git -C $R checkout -q -- .
mkdir -p $V
rsync -a --delete --exclude harness/target --exclude .git --exclude cases --exclude replays --exclude evidence --exclude .locks /verif/ $V/
sed -i "s#/repo/#$R/#g" $V/harness/Cargo.toml
sed -i "s#\"/repo\"#\"$R\"#; s#/repo/base#$R/base#g" $V/lib/c08.py $V/lib/c23.py
mkdir -p $V/harness/target
set +e
if [ "$sd" != "none" ]; then git -C $R apply "$sd/patch.diff" || { echo "PATCH DOES NOT APPLY"; exit 3; }; fi
cd $V && ./check $prop $tier > $V/last_$prop.out 2>&1; rc=$?
git -C $R checkout -q -- .
grep -v "^KNOWN" $V/last_$prop.out | cut -c1-400 | head -12
echo "exit=$rc"
