#!/usr/bin/env python3
"""merge.py — assemble MANIFEST.json from manifest/Cxx.json and known_findings.jsonl from known/Cxx.jsonl.
   usage: tools/merge.py [Cxx ...]   (only the listed properties are (re)merged; default: all present)"""
import json, os, sys, glob
ROOT = os.path.dirname(os.path.dirname(os.path.abspath(__file__)))
os.chdir(ROOT)
m = json.load(open("MANIFEST.json"))
checks = {c["property_id"]: c for c in m["checks"]}
want = [a.upper() for a in sys.argv[1:]]
hold = set(open("manifest/HOLD").read().split()) if os.path.exists("manifest/HOLD") else set()
ready = set(open("manifest/READY").read().split())   # only properties the maintainer has seen pass are claimed
for f in sorted(glob.glob("manifest/C*.json")):
    c = json.load(open(f))
    pid = c["property_id"]
    if want and pid not in want: continue
    checks[pid] = c
for h in hold: checks.pop(h, None)
for k in list(checks):
    if k not in ready: checks.pop(k)
m["checks"] = [checks[k] for k in sorted(checks)]
claimed = sorted(checks)
for e in m.get("engines", []):
    e["serves_properties"] = claimed
old_na = {x["property_id"]: x["reason"] for x in m.get("not_applicable", [])}
m["not_applicable"] = [{"property_id": "C%02d" % i, "reason": ("check being extended/reworked at the moment; not claimed until it passes again" if "C%02d" % i in hold else old_na.get("C%02d" % i, "model and theorems not built in the time available"))}
                       for i in range(1, 35) if "C%02d" % i not in checks]
json.dump(m, open("MANIFEST.json", "w"), indent=1)
# known findings
lines, seen = [], set()
if os.path.exists("known_findings.jsonl"):
    for l in open("known_findings.jsonl"):
        l = l.strip()
        if not l: continue
        r = json.loads(l); k = (r["property"], r["id"])
        if k in seen: continue
        seen.add(k); lines.append(r)
for f in sorted(glob.glob("known/C*.jsonl")):
    for l in open(f):
        l = l.strip()
        if not l: continue
        r = json.loads(l); k = (r["property"], r["id"])
        if want and r["property"] not in want: continue
        if k in seen:
            lines = [r if (x["property"], x["id"]) == k else x for x in lines]; continue
        seen.add(k); lines.append(r)
lines.sort(key=lambda r: (r["property"], r["id"]))
open("known_findings.jsonl", "w").write("".join(json.dumps(r, ensure_ascii=False) + "\n" for r in lines))
print("claimed:", " ".join(claimed)); print("known findings:", len(lines))
