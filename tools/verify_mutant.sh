#!/bin/bash
# verify_mutant.sh <worktree> <mutant dir> — confirms a seeded change in a scratch worktree:
# applies, the demo fails, the whole existing suite passes, and on the clean tree the demo passes.
# prints one JSON line with the verdict.
wt="$1"; md="$2"
cd "$wt" || exit 2
export CARGO_NET_OFFLINE=true
git checkout -q -- . ; rm -rf base/tests/zz_demo.rs xlsx/tests/zz_demo.rs
git apply "$md/patch.diff" || { echo "{\"mutant\":\"$md\",\"applies\":false}"; exit 1; }
# where does the demo go? default base/tests; meta may say xlsx
dst=base/tests; pkg=ironcalc_base
if grep -q '"demo_crate"[^,]*xlsx' "$md/meta.json" 2>/dev/null || grep -q "use ironcalc::" "$md/demo.rs"; then dst=xlsx/tests; pkg=ironcalc; fi
mkdir -p $dst; cp "$md/demo.rs" $dst/zz_demo.rs
cargo test -p $pkg --test zz_demo --offline > "$md/verify_demo_mutant.log" 2>&1; demo_mut=$?
rm -f $dst/zz_demo.rs
cargo test --workspace --no-fail-fast --offline > "$md/verify_suite.log" 2>&1
suite=$(grep 'test result' "$md/verify_suite.log" | awk '{p+=$4; f+=$6} END {print p":"f}')
git checkout -q -- .
cp "$md/demo.rs" $dst/zz_demo.rs
cargo test -p $pkg --test zz_demo --offline > "$md/verify_demo_clean.log" 2>&1; demo_clean=$?
rm -f $dst/zz_demo.rs; rmdir base/tests xlsx/tests 2>/dev/null
echo "{\"mutant\":\"$md\",\"applies\":true,\"demo_with_mutant_exit\":$demo_mut,\"suite_passed_failed\":\"$suite\",\"demo_clean_exit\":$demo_clean}"
