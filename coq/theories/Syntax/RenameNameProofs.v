(* Syntax/RenameNameProofs.v — proofs about Syntax/RenameName.v (C32). *)
From IronCalc Require Import Base.Prelude Codec.RefA1 Syntax.Token Syntax.Ast Syntax.Printer Syntax.Parser Syntax.Shape
  Syntax.FuelProofs Syntax.RenameName.

Section RenameProofs.
  Variable lower : text -> text.
  Variable name : text.
  Variable scope : option Z.
  Variable new_name : text.
  Notation rename := (rename lower name scope new_name).
  Notation hit := (hit lower name scope).

  Lemma map_ext_Forall {A B} (f g : A -> B) l : Forall (fun x => f x = g x) l -> map f l = map g l.
  Proof. induction 1 as [|x l H _ IH]; cbn [map]; [reflexivity|]. rewrite H, IH. reflexivity. Qed.

  (* nothing but the spelling of DefinedNameKind nodes changes *)
  Theorem rename_erase e : erase (rename e) = erase e.
  Proof.
    induction e using ast_rect'; cbn [RenameName.rename erase]; try reflexivity; try congruence.
    - f_equal. rewrite map_map. apply map_ext_Forall. exact H.
    - rewrite IHe. f_equal. rewrite map_map. apply map_ext_Forall. exact H.
    - f_equal. rewrite map_map. apply map_ext_Forall. exact H.
    - destruct (hit n s); reflexivity.
  Qed.

  Definition ren_entry (x : text * option Z * text) : text * option Z * text :=
    let '(n, s, f) := x in if hit n s then (new_name, s, f) else (n, s, f).

  Lemma flat_map_defnames (args : list ast) :
    Forall (fun e => defnames (rename e) = map ren_entry (defnames e)) args ->
    flat_map defnames (map rename args) = map ren_entry (flat_map defnames args).
  Proof.
    induction 1 as [|a l Ha _ IH]; cbn [map flat_map]; [reflexivity|].
    rewrite Ha, IH, map_app. reflexivity.
  Qed.

  (* exactly the matching DefinedNameKind nodes are rewritten, in place *)
  Theorem rename_defnames e : defnames (rename e) = map ren_entry (defnames e).
  Proof.
    induction e using ast_rect'; cbn [RenameName.rename defnames map]; try reflexivity;
      try (rewrite IHe1, IHe2, map_app; reflexivity); try exact IHe.
    - apply flat_map_defnames. exact H.
    - rewrite IHe, flat_map_defnames, map_app by exact H. reflexivity.
    - apply flat_map_defnames. exact H.
    - unfold ren_entry. destruct (hit n s); reflexivity.
  Qed.

  (* a tree without a matching node is returned as it is *)
  Theorem rename_no_hit e :
    forallb (fun x => negb (hit (fst (fst x)) (snd (fst x)))) (defnames e) = true -> rename e = e.
  Proof.
    induction e using ast_rect'; cbn [RenameName.rename defnames]; try reflexivity;
      try (rewrite forallb_app, andb_true_iff; intros [H1 H2]; rewrite (IHe1 H1), (IHe2 H2); reflexivity);
      try (intro H0; rewrite (IHe H0); reflexivity).
    - intro H0. f_equal. rewrite <- (map_id args) at 2. apply map_ext_Forall.
      revert H0. induction H as [|a l Ha _ IH]; cbn [flat_map]; intro H0; constructor.
      + apply Ha. rewrite forallb_app in H0. apply andb_true_iff in H0. tauto.
      + apply IH. rewrite forallb_app in H0. apply andb_true_iff in H0. tauto.
    - rewrite forallb_app, andb_true_iff. intros [H1 H0]. rewrite (IHe H1). f_equal.
      rewrite <- (map_id args) at 2. apply map_ext_Forall.
      revert H0. induction H as [|a l Ha _ IH]; cbn [flat_map]; intro H0; constructor.
      + apply Ha. rewrite forallb_app in H0. apply andb_true_iff in H0. tauto.
      + apply IH. rewrite forallb_app in H0. apply andb_true_iff in H0. tauto.
    - intro H0. f_equal. rewrite <- (map_id args) at 2. apply map_ext_Forall.
      revert H0. induction H as [|a l Ha _ IH]; cbn [flat_map]; intro H0; constructor.
      + apply Ha. rewrite forallb_app in H0. apply andb_true_iff in H0. tauto.
      + apply IH. rewrite forallb_app in H0. apply andb_true_iff in H0. tauto.
    - cbn [forallb fst snd]. rewrite andb_true_r, negb_true_iff. intros ->. reflexivity.
  Qed.

  Theorem rename_kind e : kind_of (rename e) = kind_of e.
  Proof. destruct e; cbn [RenameName.rename kind_of]; try reflexivity. destruct (hit name0 scope0); reflexivity. Qed.
End RenameProofs.

(* ---- values: the table is re-keyed with the same function, so look-ups agree ------------------- *)
Lemma nkey_eqb_eq a b : nkey_eqb a b = true <-> a = b.
Proof.
  destruct a as [sa na], b as [sb nb]. unfold nkey_eqb. cbn [fst snd]. rewrite andb_true_iff, text_eqb_eq.
  split.
  - intros [H1 H2]. subst. f_equal. destruct sa, sb; cbn [opt_z_eqb] in H1; try discriminate; try reflexivity.
    apply Z.eqb_eq in H1. congruence.
  - intro H. injection H as -> ->. split; [|reflexivity]. destruct sb; cbn [opt_z_eqb]; [apply Z.eqb_refl|reflexivity].
Qed.
Lemma nkey_eqb_refl a : nkey_eqb a a = true.
Proof. apply nkey_eqb_eq. reflexivity. Qed.
Lemma nkey_eqb_neq a b : nkey_eqb a b = false <-> a <> b.
Proof. rewrite <- nkey_eqb_eq. destruct (nkey_eqb a b); split; congruence. Qed.

(* if the new key is not in the table (update_defined_name: "Defined name already exists"
   otherwise), looking up a renamed key in the renamed table is looking up the key in the table —
   for every key other than the new one *)
Theorem find_renamed {V} (old new : nkey) (tbl : list (nkey * V)) (k : nkey) :
  find_name new tbl = None -> k <> new ->
  find_name (ren_key old new k) (ren_table old new tbl) = find_name k tbl.
Proof.
  intros Hfresh Hk. induction tbl as [|[k' v] r IH]; cbn [ren_table map find_name fst snd]; [reflexivity|].
  cbn [find_name] in Hfresh. destruct (nkey_eqb new k') eqn:Enk; [discriminate|].
  fold (ren_table old new r). rewrite (IH Hfresh).
  unfold ren_key. destruct (nkey_eqb k old) eqn:E1, (nkey_eqb k' old) eqn:E2.
  - apply nkey_eqb_eq in E1, E2. subst. rewrite !nkey_eqb_refl. reflexivity.
  - apply nkey_eqb_eq in E1. subst k. rewrite Enk.
    destruct (nkey_eqb old k') eqn:E3; [|reflexivity]. apply nkey_eqb_eq in E3. subst k'. rewrite nkey_eqb_refl in E2. discriminate.
  - apply nkey_eqb_eq in E2. subst k'. rewrite E1.
    destruct (nkey_eqb k new) eqn:E3; [|reflexivity]. apply nkey_eqb_eq in E3. contradiction.
  - reflexivity.
Qed.

(* the capture the side condition excludes: a key equal to the NEW name that was absent before
   is found afterwards *)
Lemma capture_witness :
  let old : nkey := (None, [97]) in let new : nkey := (None, [98]) in
  let tbl : list (nkey * Z) := [(old, 1)] in
  find_name new tbl = None /\ find_name (ren_key old new new) (ren_table old new tbl) = Some 1.
Proof. vm_compute. split; reflexivity. Qed.

(* ---- renaming ANOTHER sheet: the stored formula of a name it does not mention ------------------ *)
(* [stored] is the text of a tree [e] in the configuration the loop parses and prints in (English
   since 9f60d5e); [e] is a tree that parser returns, inside the proved part of C09; the renamed
   sheet does not occur in it ([rename_sheet e = e]).  Then rename_sheet_by_index writes back
   exactly the text that was stored. *)
Theorem other_sheet_rename_keeps_formula m nm env rename_sheet e :
  image m nm env e = true -> no_bad (pm_xlsx m) e = true -> lower_stable nm e = true ->
  rename_sheet e = e ->
  name_formula_after_rename m nm env rename_sheet (print m nm e) = print m nm e.
Proof.
  intros Hi Hb Hl Hr. unfold name_formula_after_rename.
  rewrite (roundtrip_parse m nm env e Hi Hb Hl), Hr. reflexivity.
Qed.

(* ---- renaming a NAME: every stored formula is re-read, renamed and re-printed ---------------------
   Whatever the user's locale and language, the new stored text is the stored-form print of the
   renamed tree (C09 in the stored form). *)
Theorem name_rename_in_formula dot_active nm_active nm env lower name scope new_name e :
  image (m_rc_of true) nm env e = true -> no_bad false e = true -> lower_stable nm e = true ->
  formula_after_name_rename dot_active nm_active nm env lower name scope new_name (print (m_rc_of true) nm e)
  = print (m_rc_of true) nm (rename lower name scope new_name e).
Proof.
  intros Hi Hb Hl. unfold formula_after_name_rename. cbn [fst snd].
  rewrite (roundtrip_parse (m_rc_of true) nm env e Hi Hb Hl). reflexivity.
Qed.

(* ---- which scope the pass matches on: the OLD one ------------------------------------------------ *)
Lemma opt_z_eqb_eq a b : opt_z_eqb a b = true <-> a = b.
Proof.
  destruct a, b; cbn [opt_z_eqb]; split; intro H; try discriminate; try reflexivity.
  - apply Z.eqb_eq in H. congruence.
  - injection H as ->. apply Z.eqb_refl.
Qed.

Theorem rename_leaf_scope lower name scope new_name n s f :
  (s = scope -> lower name = lower n -> rename lower name scope new_name (EDefName n s f) = EDefName new_name s f) /\
  (s <> scope -> rename lower name scope new_name (EDefName n s f) = EDefName n s f).
Proof.
  cbn [rename]. unfold hit. split.
  - intros -> ->. rewrite text_eqb_refl. cbn [andb].
    replace (opt_z_eqb scope scope) with true by (symmetry; apply opt_z_eqb_eq; reflexivity). reflexivity.
  - intro Hs. destruct (opt_z_eqb s scope) eqn:E; [apply opt_z_eqb_eq in E; contradiction|].
    rewrite andb_false_r. reflexivity.
Qed.

(* the new scope of the operation does not enter *)
Theorem update_ignores_new_scope nm env lower name scope new_name ns1 ns2 stored :
  update_name_in_formula nm env lower name scope new_name ns1 stored
  = update_name_in_formula nm env lower name scope new_name ns2 stored.
Proof. reflexivity. Qed.

Theorem update_name_in_formula_spec nm env lower name scope new_name new_scope e :
  image (m_rc_of true) nm env e = true -> no_bad false e = true -> lower_stable nm e = true ->
  update_name_in_formula nm env lower name scope new_name new_scope (print (m_rc_of true) nm e)
  = if text_eqb new_name name then print (m_rc_of true) nm e
    else print (m_rc_of true) nm (rename lower name scope new_name e).
Proof.
  intros Hi Hb Hl. unfold update_name_in_formula. destruct (text_eqb new_name name); [reflexivity|].
  apply name_rename_in_formula; assumption.
Qed.
