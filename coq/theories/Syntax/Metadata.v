(* Syntax/Metadata.v — executable models of how cell-attached metadata (hyperlinks and
   conditional-format ranges) is relocated by structural edits (C33).

   Mirrors, with the same comparisons in the same order (base/src/actions.rs):
     * the closures handed to [displace_links] by [insert_columns] (:559), [delete_columns]
       (:659), [insert_rows] (:913), [delete_rows] (:993), [move_column_unchecked] (:1029)
       and [move_row_unchecked] (:1184), together with what the two move functions do to the
       link map around the closure ([moved_links] taken out first, [links.retain] on the
       target line, re-insertion at the target line);
     * [displace_links] itself on an association list;
     * the loops of [Model::move_rows_action]/[move_columns_action] over those single moves;
     * [displace_cf_row], [displace_cf_col] (:30, :67);
     * [displace_cf_sqref_part] and [displace_cf_sqref] (:105, :147) on texts: upper-casing,
       [splitn(2, ':')], [parse_reference_a1] on each segment, all four coordinates must
       survive and both columns must print, otherwise THE ORIGINAL PART IS RETURNED UNCHANGED;
       the [$] markers of the input are dropped;
     * [cf_range_part_update_for_cut] / [cf_sqref_update_for_cut] (base/src/cut_paste.rs:20):
       a part follows a cut only when all its corners lie inside the cut area.
   A rule formula is not modelled here: the code hands it to [to_string_displaced], which is
   [Displace.displace_text] (tied by C12-C15 and again by the C33 harness).
   No proofs in this file (see MetadataProofs.v). *)
From IronCalc Require Import Base.Prelude Base.Dec Codec.Column Codec.RefA1 Syntax.Displace.

(* ---- link key maps: one per call site of displace_links --------------------------------- *)
(* insert_columns: [if c >= column { Some((r, c + column_count)) } else { Some((r, c)) }] *)
Definition link_insert_columns (column count : Z) (k : pos) : option pos :=
  let '(r, c) := k in
  if column <=? c then Some (r, c + count) else Some (r, c).

(* delete_columns: column_start = column, column_end = column + column_count - 1
   [if c < column_start {Some((r, c))} else if c <= column_end {None} else {Some((r, c - column_count))}] *)
Definition link_delete_columns (column count : Z) (k : pos) : option pos :=
  let '(r, c) := k in
  let column_start := column in
  let column_end := column + count - 1 in
  if c <? column_start then Some (r, c)
  else if c <=? column_end then None
  else Some (r, c - count).

(* insert_rows: [if r >= row { Some((r + row_count, c)) } else { Some((r, c)) }] *)
Definition link_insert_rows (row count : Z) (k : pos) : option pos :=
  let '(r, c) := k in
  if row <=? r then Some (r + count, c) else Some (r, c).

(* delete_rows: [if r < row {Some((r, c))} else if r < row + row_count {None} else {Some((r - row_count, c))}] *)
Definition link_delete_rows (row count : Z) (k : pos) : option pos :=
  let '(r, c) := k in
  if r <? row then Some (r, c)
  else if r <? row + count then None
  else Some (r - count, c).

(* move_column_unchecked, the closure: target_column = column + delta
   [if c == column {None} else if delta > 0 && c > column && c <= target_column {Some((r, c - 1))}
    else if delta < 0 && c >= target_column && c < column {Some((r, c + 1))} else {Some((r, c))}] *)
Definition link_move_column_closure (column delta : Z) (k : pos) : option pos :=
  let '(r, c) := k in
  let target_column := column + delta in
  if c =? column then None
  else if (0 <? delta) && (column <? c) && (c <=? target_column) then Some (r, c - 1)
  else if (delta <? 0) && (target_column <=? c) && (c <? column) then Some (r, c + 1)
  else Some (r, c).

(* move_row_unchecked, the closure *)
Definition link_move_row_closure (row delta : Z) (k : pos) : option pos :=
  let '(r, c) := k in
  let target_row := row + delta in
  if r =? row then None
  else if (0 <? delta) && (row <? r) && (r <=? target_row) then Some (r - 1, c)
  else if (delta <? 0) && (target_row <=? r) && (r <? row) then Some (r + 1, c)
  else Some (r, c).

(* where one link key ends after the whole of move_column_unchecked: the links of the moved
   column were copied into [moved_links] before the closure dropped them and are re-inserted
   at (r, target_column); every other link goes through the closure and is then dropped by
   [links.retain(|&(_, c), _| c != target_column)] if it sits on the target column *)
Definition link_move_column (column delta : Z) (k : pos) : option pos :=
  let target_column := column + delta in
  match link_move_column_closure column delta k with
  | None => Some (fst k, target_column)
  | Some k' => if snd k' =? target_column then None else Some k'
  end.

Definition link_move_row (row delta : Z) (k : pos) : option pos :=
  let target_row := row + delta in
  match link_move_row_closure row delta k with
  | None => Some (target_row, snd k)
  | Some k' => if fst k' =? target_row then None else Some k'
  end.

(* the link key map of a displacement, by call site *)
Definition link_map (d : disp) (k : pos) : option pos :=
  match d with
  | DRow _ row delta => if 0 <? delta then link_insert_rows row delta k else link_delete_rows row (- delta) k
  | DCol _ col delta => if 0 <? delta then link_insert_columns col delta k else link_delete_columns col (- delta) k
  | DRowMove _ row delta => link_move_row row delta k
  | DColMove _ col delta => link_move_column col delta k
  | DNone => Some k
  end.

(* ---- the link store ----------------------------------------------------------------------- *)
(* [worksheet.links : HashMap<(i32, i32), Link>] as an association list; a link is its id *)
Definition links := list (pos * Z).

(* [links.into_iter().filter_map(|(key, link)| map(key).map(|key| (key, link))).collect()] —
   collect() into a HashMap keeps one entry per key; the key maps above are injective where
   they are defined (MetadataProofs.link_map_injective), so no two entries collide *)
Fixpoint displace_links (map : pos -> option pos) (l : links) : links :=
  match l with
  | [] => []
  | (k, v) :: l' =>
    match map k with
    | Some k' => (k', v) :: displace_links map l'
    | None => displace_links map l'
    end
  end.

Definition pos_eqb (a b : pos) : bool := (fst a =? fst b) && (snd a =? snd b).

(* [HashMap::insert]: replaces the entry of an existing key *)
Definition links_insert (k : pos) (v : Z) (l : links) : links :=
  (k, v) :: filter (fun e => negb (pos_eqb (fst e) k)) l.

(* move_row_unchecked on the store: moved_links, displace_links, retain, re-insert *)
Definition move_row_links (row delta : Z) (l : links) : links :=
  let target_row := row + delta in
  let moved := filter (fun e => fst (fst e) =? row) l in
  let l1 := displace_links (link_move_row_closure row delta) l in
  let l2 := filter (fun e => negb (fst (fst e) =? target_row)) l1 in
  fold_left (fun acc e => links_insert (target_row, snd (fst e)) (snd e) acc) moved l2.

Definition move_column_links (column delta : Z) (l : links) : links :=
  let target_column := column + delta in
  let moved := filter (fun e => snd (fst e) =? column) l in
  let l1 := displace_links (link_move_column_closure column delta) l in
  let l2 := filter (fun e => negb (snd (fst e) =? target_column)) l1 in
  fold_left (fun acc e => links_insert (fst (fst e), target_column) (snd e) acc) moved l2.

(* ---- block moves: the loops of move_rows_action / move_columns_action ----------------------- *)
Definition obind_pos (o : option pos) (f : pos -> option pos) : option pos :=
  match o with Some p => f p | None => None end.

(* [for r in (row..row + row_count).rev() { move_row_unchecked(r, delta) }] *)
Fixpoint link_iter_last_first (rowwise : bool) (i : Z) (n : nat) (d : Z) (k : option pos) : option pos :=
  match n with
  | O => k
  | S n' =>
    link_iter_last_first rowwise i n' d
      (obind_pos k (if rowwise then link_move_row (i + Z.of_nat n') d else link_move_column (i + Z.of_nat n') d))
  end.

(* [for r in row..row + row_count { move_row_unchecked(r, delta) }] *)
Fixpoint link_iter_first_first (rowwise : bool) (i : Z) (n : nat) (d : Z) (k : option pos) : option pos :=
  match n with
  | O => k
  | S n' =>
    link_iter_first_first rowwise (i + 1) n' d
      (obind_pos k (if rowwise then link_move_row i d else link_move_column i d))
  end.

Definition link_block_move (rowwise : bool) (i : Z) (n : nat) (d : Z) (k : pos) : option pos :=
  if 0 <? d then link_iter_last_first rowwise i n d (Some k)
  else link_iter_first_first rowwise i n d (Some k).

(* ---- conditional-format ranges ---------------------------------------------------------------- *)
(* displace_cf_row: only the Row and RowMove arms of the edited sheet touch a row *)
Definition cf_row (d : disp) (sheet row : Z) : option Z :=
  match d with
  | DRow s dr delta =>
    if s =? sheet then
      if dr <=? row then
        if (delta <? 0) && (row <? dr - delta) then None else Some (row + delta)
      else Some row
    else Some row
  | DRowMove s mr delta =>
    if s =? sheet then
      if row =? mr then Some (row + delta)
      else if (0 <? delta) && (mr <? row) && (row <=? mr + delta) then Some (row - 1)
      else if (delta <? 0) && (row <? mr) && (mr + delta <=? row) then Some (row + 1)
      else Some row
    else Some row
  | _ => Some row
  end.

Definition cf_col (d : disp) (sheet col : Z) : option Z :=
  match d with
  | DCol s dc delta =>
    if s =? sheet then
      if dc <=? col then
        if (delta <? 0) && (col <? dc - delta) then None else Some (col + delta)
      else Some col
    else Some col
  | DColMove s mc delta =>
    if s =? sheet then
      if col =? mc then Some (col + delta)
      else if (0 <? delta) && (mc <? col) && (col <=? mc + delta) then Some (col - 1)
      else if (delta <? 0) && (col <? mc) && (mc + delta <=? col) then Some (col + 1)
      else Some col
    else Some col
  | _ => Some col
  end.

Definition cf_corner (d : disp) (sheet : Z) (p : pos) : option pos :=
  match cf_row d sheet (fst p), cf_col d sheet (snd p) with
  | Some r, Some c => Some (r, c)
  | _, _ => None
  end.

(* [format!("{c}{nr}")] with [c = number_to_column(nc)?] — no [$], no test on the row *)
Definition cf_print (p : pos) : option text :=
  match number_to_column (snd p) with
  | Some letters => Some (letters ++ dec_of_Z (fst p))
  | None => None
  end.

(* the one-segment arm on a parsed corner; [orig] is the part as stored *)
Definition cf_cell (d : disp) (sheet : Z) (orig : text) (p : pos) : text :=
  match cf_corner d sheet p with
  | Some p' => match cf_print p' with Some t => t | None => orig end
  | None => orig
  end.

(* the two-segment arm: all four coordinates survive and both columns print, or [orig] *)
Definition cf_pair (d : disp) (sheet : Z) (orig : text) (p1 p2 : pos) : text :=
  match cf_corner d sheet p1, cf_corner d sheet p2 with
  | Some q1, Some q2 =>
    match cf_print q1, cf_print q2 with
    | Some t1, Some t2 => t1 ++ [58] ++ t2
    | _, _ => orig
    end
  | _, _ => orig
  end.

(* [splitn(2, ':')] *)
Fixpoint split_colon (t : text) : text * option text :=
  match t with
  | [] => ([], None)
  | c :: r =>
    if c =? 58 then ([], Some r)
    else let '(a, b) := split_colon r in (c :: a, b)
  end.

Definition corner_of (r : pref) : pos := (p_row r, p_col r).

(* [str::to_uppercase] on the ASCII range (assumption: range texts are ASCII) *)
Definition upper_text (t : text) : text := map to_ascii_upper t.

Definition cf_part (d : disp) (sheet : Z) (part : text) : text :=
  match split_colon (upper_text part) with
  | (s1, None) =>
    match parse_reference_a1 s1 with
    | Some r => cf_cell d sheet part (corner_of r)
    | None => part
    end
  | (s1, Some s2) =>
    match parse_reference_a1 s1, parse_reference_a1 s2 with
    | Some r1, Some r2 => cf_pair d sheet part (corner_of r1) (corner_of r2)
    | _, _ => part
    end
  end.

(* [char::is_whitespace] *)
Definition is_ws (c : Z) : bool :=
  ((9 <=? c) && (c <=? 13)) || (c =? 32) || (c =? 133) || (c =? 160) || (c =? 5760) ||
  ((8192 <=? c) && (c <=? 8202)) || (c =? 8232) || (c =? 8233) || (c =? 8239) || (c =? 8287) ||
  (c =? 12288).

(* [str::split_whitespace]: maximal runs of non-blank characters *)
Fixpoint split_ws_go (cur : text) (t : text) : list text :=
  match t with
  | [] => match cur with [] => [] | _ => [rev cur] end
  | c :: r =>
    if is_ws c then
      match cur with [] => split_ws_go [] r | _ => rev cur :: split_ws_go [] r end
    else split_ws_go (c :: cur) r
  end.
Definition split_ws (t : text) : list text := split_ws_go [] t.

Fixpoint join_sp (l : list text) : text :=
  match l with
  | [] => []
  | [a] => a
  | a :: l' => a ++ [32] ++ join_sp l'
  end.

(* displace_cf_sqref *)
Definition cf_sqref (d : disp) (sheet : Z) (sqref : text) : text :=
  join_sp (map (cf_part d sheet) (split_ws sqref)).

(* [cf_sqref_anchor]: first corner of the first part (context of the rule formulas) *)
Definition cf_anchor (sqref : text) : option pos :=
  match split_ws sqref with
  | [] => None
  | part :: _ =>
    match parse_reference_a1 (fst (split_colon (upper_text part))) with
    | Some r => Some (corner_of r)
    | None => None
    end
  end.

(* displace_cf_ranges, one entry: [if let Some(anchor) = cf_sqref_anchor(&old_range)] — an entry
   whose first corner does not parse is skipped altogether (neither range nor rule rewritten) *)
Definition cf_entry (d : disp) (sheet : Z) (sqref : text) : text :=
  match cf_anchor sqref with
  | Some _ => cf_sqref d sheet sqref
  | None => sqref
  end.

(* every structural edit calls [displace_cf_ranges(sheet, &disp)] for the edited sheet only: the
   entries of the other sheets are not even re-printed *)
Definition cf_on_sheet (d : disp) (sheet : Z) (sqref : text) : text :=
  match d with
  | DRow s _ _ | DCol s _ _ | DRowMove s _ _ | DColMove s _ _ =>
    if s =? sheet then cf_entry d sheet sqref else sqref
  | DNone => sqref
  end.

(* ---- the range as a formula would hold it --------------------------------------------------- *)
(* [=SUM(A3:A6)] typed in cell q: both corners relative *)
Definition rel_range (sheet : Z) (q p1 p2 : pos) : arange :=
  {| g_sheet := sheet;
     g_row1 := fst p1 - fst q; g_col1 := snd p1 - snd q; g_abs_row1 := false; g_abs_col1 := false;
     g_row2 := fst p2 - fst q; g_col2 := snd p2 - snd q; g_abs_row2 := false; g_abs_col2 := false |}.

(* the defect class of the range clause: a corner is deleted (F25), a corner is pushed beyond
   the last column (the formula prints #REF!, the range stays), or a row below 1 (unreachable
   through the validated operations: MetadataProofs.cf_rows_stay_positive) *)
Definition cf_corner_deleted (d : disp) (sheet : Z) (p : pos) : bool :=
  match cf_corner d sheet p with None => true | Some _ => false end.
Definition cf_corner_off_grid (d : disp) (sheet : Z) (p : pos) : bool :=
  match cf_corner d sheet p with
  | None => false
  | Some (r, c) => negb (is_valid_column_number c) || (r <? 1)
  end.
Definition cf_defect (d : disp) (sheet : Z) (p1 p2 : pos) : bool :=
  cf_corner_deleted d sheet p1 || cf_corner_deleted d sheet p2 ||
  cf_corner_off_grid d sheet p1 || cf_corner_off_grid d sheet p2.

(* ---- cut and paste (cut_paste.rs) ------------------------------------------------------------- *)
(* [ref_is_in_area] on the area's own sheet *)
Definition in_area (ar ac ah aw : Z) (p : pos) : bool :=
  (ar <=? fst p) && (fst p <? ar + ah) && (ac <=? snd p) && (snd p <? ac + aw).

Definition cf_cut_print (dr dc : Z) (p : pos) : option text :=
  match number_to_column (snd p + dc) with
  | Some letters => Some (letters ++ dec_of_Z (fst p + dr))
  | None => None
  end.

Definition cf_cut_part (ar ac ah aw dr dc : Z) (part : text) : text :=
  match split_colon (upper_text part) with
  | (s1, None) =>
    match parse_reference_a1 s1 with
    | Some r =>
      if in_area ar ac ah aw (corner_of r) then
        match cf_cut_print dr dc (corner_of r) with Some t => t | None => part end
      else part
    | None => part
    end
  | (s1, Some s2) =>
    match parse_reference_a1 s1, parse_reference_a1 s2 with
    | Some r1, Some r2 =>
      if in_area ar ac ah aw (corner_of r1) && in_area ar ac ah aw (corner_of r2) then
        match cf_cut_print dr dc (corner_of r1), cf_cut_print dr dc (corner_of r2) with
        | Some t1, Some t2 => t1 ++ [58] ++ t2
        | _, _ => part
        end
      else part
    | _, _ => part
    end
  end.

Definition cf_cut_sqref (ar ac ah aw dr dc : Z) (sqref : text) : text :=
  join_sp (map (cf_cut_part ar ac ah aw dr dc) (split_ws sqref)).
