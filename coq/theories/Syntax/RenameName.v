(* Syntax/RenameName.v — [rename_defined_name_in_node] (expressions/parser/stringify.rs:1354), the
   AST pass [Model::update_defined_name] runs over every stored formula when a defined name gets a
   new name, and the key-level view of the name table it must stay consistent with.
   No proofs in this file (Syntax/RenameNameProofs.v). *)
From IronCalc Require Import Base.Prelude Codec.RefA1 Syntax.Token Syntax.Ast Syntax.Shape.

Section Rename.
  Variable lower : text -> text.          (* str::to_lowercase *)
  Variable name : text.                   (* the old name *)
  Variable scope : option Z.              (* its scope (sheet index) *)
  Variable new_name : text.

  (* name.to_lowercase() == n.to_lowercase() && *s == scope *)
  Definition hit (n : text) (s : option Z) : bool :=
    text_eqb (lower name) (lower n) && opt_z_eqb s scope.

  Fixpoint rename (e : ast) : ast :=
    match e with
    | EDefName n s f => if hit n s then EDefName new_name s f else e
    | ERangeOp l r => ERangeOp (rename l) (rename r)
    | EConcat l r => EConcat (rename l) (rename r)
    | ESum op l r => ESum op (rename l) (rename r)
    | EProd op l r => EProd op (rename l) (rename r)
    | EPow l r => EPow (rename l) (rename r)
    | ECmp op l r => ECmp op (rename l) (rename r)
    | EFun f args => EFun f (map rename args)
    | ENamedFun id n args => ENamedFun id n (map rename args)
    | ENeg c => ENeg (rename c)
    | EPct c => EPct (rename c)
    | EAt a c => EAt a (rename c)
    | ESpill c => ESpill (rename c)
    | ELambdaDef ps body => ELambdaDef ps (rename body)
    | ELambdaCall lam args => ELambdaCall (rename lam) (map rename args)
    | EBool _ | ENum _ | EStr _ | EErr _ | EParseError | EArray _ | EEmpty
    | ERef _ _ _ | ERange _ _ _ _ | ETable _ | EVar _ _ => e
    end.
End Rename.

(* the tree with the spelling of every DefinedNameKind erased: everything the pass must not touch *)
Fixpoint erase (e : ast) : ast :=
  match e with
  | EDefName _ s f => EDefName [] s f
  | ERangeOp l r => ERangeOp (erase l) (erase r)
  | EConcat l r => EConcat (erase l) (erase r)
  | ESum op l r => ESum op (erase l) (erase r)
  | EProd op l r => EProd op (erase l) (erase r)
  | EPow l r => EPow (erase l) (erase r)
  | ECmp op l r => ECmp op (erase l) (erase r)
  | EFun f args => EFun f (map erase args)
  | ENamedFun id n args => ENamedFun id n (map erase args)
  | ENeg c => ENeg (erase c)
  | EPct c => EPct (erase c)
  | EAt a c => EAt a (erase c)
  | ESpill c => ESpill (erase c)
  | ELambdaDef ps body => ELambdaDef ps (erase body)
  | ELambdaCall lam args => ELambdaCall (erase lam) (map erase args)
  | _ => e
  end.

(* the DefinedNameKind leaves, left to right *)
Fixpoint defnames (e : ast) : list (text * option Z * text) :=
  match e with
  | EDefName n s f => [(n, s, f)]
  | ERangeOp l r | EConcat l r | ESum _ l r | EProd _ l r | EPow l r | ECmp _ l r => defnames l ++ defnames r
  | EFun _ args | ENamedFun _ _ args => flat_map defnames args
  | ENeg c | EPct c | EAt _ c | ESpill c => defnames c
  | ELambdaDef _ body => defnames body
  | ELambdaCall lam args => defnames lam ++ flat_map defnames args
  | _ => []
  end.

(* ---- the name table: parsed_defined_names, keyed by (scope, lower-cased name) ------------------ *)
Definition nkey := (option Z * text)%type.
Definition nkey_eqb (a b : nkey) : bool := opt_z_eqb (fst a) (fst b) && text_eqb (snd a) (snd b).
Fixpoint find_name {V} (k : nkey) (tbl : list (nkey * V)) : option V :=
  match tbl with
  | [] => None
  | (k', v) :: r => if nkey_eqb k k' then Some v else find_name k r
  end.
Definition ren_key (old new : nkey) (k : nkey) : nkey := if nkey_eqb k old then new else k.
Definition ren_table {V} (old new : nkey) (tbl : list (nkey * V)) : list (nkey * V) :=
  map (fun kv => (ren_key old new (fst kv), snd kv)) tbl.

(* ---- rename_sheet_by_index on one defined-name formula (new_empty.rs, defined-name loop) -------- *)
(* Since commit 9f60d5e: parse with the ENGLISH A1 parser (the parser is switched to the default
   locale and language around the loop), rename the sheet in the tree, print with
   to_english_string.  [m], [nm] are that one configuration: parser and printer agree.  Tokens
   stand for the text; a failed parse is ParseErrorKind, whose print is the original text. *)
From IronCalc Require Import Syntax.Printer Syntax.Parser.
Section RenameSheetOnName.
  Variable m : pmode.                       (* English display form, context cell (1,1) *)
  Variable nm : names.                      (* English tables *)
  Variable env : penv.
  Variable rename_sheet : ast -> ast.       (* rename_sheet_in_node for the sheet being renamed *)
  Definition name_formula_after_rename (stored : list token) : list token :=
    match parse m nm env stored with
    | Some (e, _) => print m nm (rename_sheet e)
    | None => stored
    end.
End RenameSheetOnName.

(* ---- update_defined_name on one stored cell formula (model.rs, the loop under "new_name != df.name") *)
(* Since commit 0ec334c the loop saves self.locale / self.language, switches the parser to the
   default (English) locale and language, parses the stored R1C1 text, runs the rename pass over
   the tree, prints it with to_rc_format (English, decimal point) and restores the parser.  The
   user's locale [dot_active] and language [nm_active] are arguments of the model and, as in the
   code, have no influence on the result. *)
Definition m_rc_of (dot : bool) : pmode := {| pm_rc := true; pm_xlsx := false; pm_dot := dot; pm_row := 1; pm_col := 1 |}.
Section RenameNameInFormula.
  Variable dot_active : bool.               (* the user's locale has a decimal point *)
  Variable nm_active : names.               (* the user's language *)
  Variable nm_en : names.                   (* get_default_language() *)
  Variable env : penv.
  Variable lower : text -> text.
  Variables (name : text) (scope : option Z) (new_name : text).
  Definition formula_after_name_rename (stored : list token) : list token :=
    let saved := (dot_active, nm_active) in           (* let locale = self.locale; let language = self.language; *)
    let parser := (true, nm_en) in                    (* set_locale(default); set_language(default) *)
    let out :=
      match parse (m_rc_of (fst parser)) (snd parser) env stored with
      | Some (e, _) => print (m_rc_of true) nm_en (rename lower name scope new_name e)
      | None => stored
      end in
    let _restored := saved in                         (* set_locale(locale); set_language(language) *)
    out.
End RenameNameInFormula.

(* ---- update_defined_name(name, scope, new_name, new_scope, formula) on one stored cell formula ---- *)
(* The loop runs only when the name changes ("if new_name != df.name"); the pass is called with the
   OLD scope: a formula is rewritten where it resolved to the old (name, scope).  [new_scope] is an
   argument of the operation and has no influence on which formulas are rewritten. *)
Section UpdateNameInFormula.
  Variable nm_en : names.
  Variable env : penv.                      (* sheets and defined names BEFORE the update *)
  Variable lower : text -> text.
  Definition update_name_in_formula (name : text) (scope : option Z) (new_name : text) (new_scope : option Z)
      (stored : list token) : list token :=
    if text_eqb new_name name then stored
    else formula_after_name_rename true nm_en nm_en env lower name scope new_name stored.
End UpdateNameInFormula.
