(* Syntax/GlueProofs.v — on glue-free token lists the lexer reads the printed tokens back one by one. *)
From IronCalc Require Import Base.Prelude Codec.RefA1 Syntax.Token Syntax.Ast Syntax.Printer Syntax.Parser Syntax.Shape.
Local Open Scope nat_scope.

(* ---- lexer glue: on glue-free token lists the lexer reads the tokens back one by one --------- *)
Lemma glue_fuel_id rc : forall f ts, length ts < f -> glue_free rc ts = true -> glue_fuel f rc ts = ts.
Proof.
  induction f as [|f IH]; intros ts Hlen Hfree; [lia|].
  destruct ts as [|t r]; [reflexivity|].
  cbn [length] in Hlen.
  assert (IHr : glue_free rc r = true -> glue_fuel f rc r = r) by (intro; apply IH; [lia|assumption]).
  destruct t; cbn [glue_fuel glue_free] in *; try (f_equal; apply IHr; exact Hfree).
  - (* TIllegal *) destruct r; [reflexivity|discriminate].
  - (* TNumber *)
    destruct r as [|t2 r2]; [f_equal; apply IHr; reflexivity|].
    destruct t2; try (f_equal; apply IHr; exact Hfree).
    apply andb_true_iff in Hfree as [Hrc Hfree]. subst rc.
    destruct r2 as [|t3 r3]; [f_equal; apply IHr; exact Hfree|].
    destruct t3; f_equal; apply IHr; exact Hfree.
  - (* TReference *)
    destruct r as [|t2 r2]; [f_equal; apply IHr; reflexivity|].
    destruct t2; try (f_equal; apply IHr; exact Hfree).
    destruct r2 as [|t3 r3].
    + apply andb_true_iff in Hfree as [Hh Hfree]. apply negb_true_iff in Hh. rewrite Hh. f_equal. apply IHr; exact Hfree.
    + destruct t3; try (apply andb_true_iff in Hfree as [Hh Hfree]; apply negb_true_iff in Hh; rewrite Hh; f_equal; apply IHr; exact Hfree).
      * destruct sheet0; [|discriminate].
        apply andb_true_iff in Hfree as [Hh Hfree]; apply negb_true_iff in Hh; rewrite Hh; f_equal; apply IHr; exact Hfree.
      * destruct sheet0; [|discriminate].
        apply andb_true_iff in Hfree as [Hh Hfree]; apply negb_true_iff in Hh; rewrite Hh; f_equal; apply IHr; exact Hfree.
Qed.

Lemma glue_id rc ts : glue_free rc ts = true -> glue rc ts = ts.
Proof. intro H. unfold glue. apply glue_fuel_id; [lia|exact H]. Qed.
