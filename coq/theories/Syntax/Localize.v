(* Syntax/Localize.v — languages and locales as instances of the printer / parser parameters
   (C10).  The display form of a formula in language [lang] and a locale with decimal separator
   [d] is [Printer.print (m_display (d = '.') row col) (names_of lang)]; user text typed in that
   configuration is read by [Parser.parse] with the same parameters.  [names_of] is built from the
   GENERATED tables of the compiled code (Generated/Tables_c23.v, through Codec/Names.v):
     fn_name      Function::to_localized_name(language)
     fn_lookup    Functions::lookup (upper-cases, first match in macro order)
     bool_of_name the lexer's test name.to_uppercase() == language.booleans.true / false
     err_tokens   what the language's lexer (consume_error cascade) reads from the ENGLISH Display
                  name of an error — stringify prints error literals that way in every language (F61)
   No proofs in this file (Syntax/LocalizeProofs.v). *)
From IronCalc Require Import Base.Prelude Codec.RefA1 Syntax.Token Syntax.Ast Syntax.Printer Syntax.Parser Syntax.Shape.
From IronCalc Require Generated.Tables_c23 Generated.Locales_c19 Codec.Names Codec.NamesProofs Num.Recognise.

(* str::to_lowercase on ASCII and Latin-1 (the characters of the tables and of the generators) *)
Definition lower_char (c : Z) : Z :=
  if ((65 <=? c) && (c <=? 90)) || ((192 <=? c) && (c <=? 222) && negb (c =? 215)) then c + 32 else c.
Definition lower (t : text) : text := map lower_char t.

Definition names_of (lang : nat) : names := {|
  fn_name := fun f => Names.localized lang (Z.to_nat f);
  fn_lookup := fun t => match Names.lookup lang t with Some g => Some (Z.of_nat g) | None => None end;
  bool_of_name := fun t =>
    let u := Names.upper t in
    if text_eqb u (Names.true_name lang) then Some true
    else if text_eqb u (Names.false_name lang) then Some false else None;
  fn_true := Z.of_nat Tables_c23.fn_true;
  fn_false := Z.of_nat Tables_c23.fn_false;
  nm_lower := lower;
  nm_upper := Names.upper;
  err_tokens := fun k =>
    match Names.lex_error lang (Names.display (Z.to_nat k)) with
    | Some (e, []) => [TError (Z.of_nat e)]
    | _ => [TIllegal]
    end |}.

(* the display text form in a cell (row, col) of a locale whose decimal separator is '.' iff [dot] *)
Definition m_display (dot : bool) (row col : Z) : pmode :=
  {| pm_rc := false; pm_xlsx := false; pm_dot := dot; pm_row := row; pm_col := col |}.
Definition dot_of (loc : Recognise.locale) : bool := Recognise.l_dec loc =? 46.

(* ---- the part of [Shape.image] that depends on the language tables and the locale ---------- *)
Section NamesOk.
  Variable m : pmode.
  Variable nm : names.
  Fixpoint names_ok (e : ast) : bool :=
    match e with
    | EFun f args => fun_name_ok nm f && forallb names_ok args
    | ENamedFun _ name args => named_fun_ok nm name && forallb names_ok args
    | ELambdaDef _ body => lambda_name_ok m nm && names_ok body
    | ELambdaCall lam args => names_ok lam && forallb names_ok args
    | EArray rows => forallb (forallb (aelem_ok nm)) rows && (pm_dot m || Nat.eqb (length rows) 1)
    | EErr k => is_terror k (err_tokens nm k)
    | EAt _ c => xl_call_ok m nm t_xlfn_single && names_ok c
    | ESpill c => xl_call_ok m nm t_xlfn_anchor && names_ok c
    | ERangeOp l r | EConcat l r | ESum _ l r | EProd _ l r | EPow l r | ECmp _ l r => names_ok l && names_ok r
    | ENeg c | EPct c => names_ok c
    | _ => true
    end.
End NamesOk.

(* ---- well-formedness of the tables, decided by computation ---------------------------------- *)
(* the printed name of built-in function f is read back as f *)
Definition fn_ok (lang f : nat) : bool := fun_name_ok (names_of lang) (Z.of_nat f).
(* an error literal as stringify prints it (English Display) is read back by the language's lexer *)
Definition err_ok (lang e : nat) : bool := is_terror (Z.of_nat e) (err_tokens (names_of lang) (Z.of_nat e)).

(* per language: the functions whose name does not read back are EXACTLY the shared names of C23
   (F40, F41) and Function::Lambda (whose name is the LAMBDA keyword: the parser makes a
   LambdaDefKind of it, never a FunctionKind); the error literals that do not read back are exactly
   those the language spells differently from English (F61); TRUE / FALSE differ; the LAMBDA
   keyword survives upper-casing; every id the lookup can return is a function id *)
Definition lang_wf (lang : nat) : bool :=
  forallb (fun f => Bool.eqb (fn_ok lang f)
                      (negb (NamesProofs.known_shadowed lang f) && negb (Nat.eqb f Tables_c23.fn_lambda)))
          (seq 0 Tables_c23.n_fn)
  && forallb (fun e => Bool.eqb (err_ok lang e) (text_eqb (Names.error_name lang e) (Names.display e))) (seq 0 Names.n_err)
  && negb (text_eqb (Names.true_name lang) (Names.false_name lang))
  && text_eqb (Names.upper t_lambda) t_lambda
  && forallb (fun p => Nat.ltb (fst p) Tables_c23.n_fn) (Names.lookup_tbl lang)
  && Nat.ltb Tables_c23.fn_true Tables_c23.n_fn && Nat.ltb Tables_c23.fn_false Tables_c23.n_fn.

(* per locale: the decimal separator, the argument separator and the array separators the
   PARSER uses are pairwise different, and the decimal separator is no digit and no token character *)
Definition arg_sep_char (d : Z) : Z := if d =? 46 then 44 else 59.            (* ',' or ';' *)
Definition row_sep_parse_char (d : Z) : Z := if d =? 46 then 59 else 92.      (* ';' or '\' *)
Definition row_sep_print_char (d : Z) : Z := if d =? 46 then 59 else 47.      (* ';' or '/' (F60) *)
Definition token_chars : list Z := [40; 41; 43; 45; 42; 47; 94; 38; 61; 60; 62; 37; 58; 64; 35; 123; 125; 91; 93; 34; 33; 36; 39; 32].
Definition loc_wf (loc : Recognise.locale) : bool :=
  let d := Recognise.l_dec loc in
  negb (d =? arg_sep_char d) && negb (d =? row_sep_parse_char d) && negb (arg_sep_char d =? row_sep_parse_char d)
  && negb (is_digit d) && negb (existsb (Z.eqb d) token_chars) && ((d =? 46) || (d =? 44)).

Definition table_wf (lang : nat) (loc : Recognise.locale) : bool := lang_wf lang && loc_wf loc.

Definition all_langs : list nat := seq 0 Names.n_lang.
Definition all_locales : list Recognise.locale := map snd Locales_c19.locales.

(* F60: the locales in which stringify separates array rows with a character the parser does not accept *)
Definition row_sep_mismatch (loc : Recognise.locale) : bool :=
  negb (row_sep_print_char (Recognise.l_dec loc) =? row_sep_parse_char (Recognise.l_dec loc)).

(* ---- texts that mean different things in the active language and in English ------------------ *)
(* [collisions]: (lang, f, g) such that the ENGLISH name of function f is, in language lang, the
   name of another function g: the text "NAME(...)" parses in both languages, to different trees.
   (An English name that is no function name in lang parses there as a user function — the
   fall-back never sees it, because that is not a parse error.) *)
Definition collisions_of (lang : nat) : list (nat * nat * nat) :=
  flat_map (fun f => match Names.lookup lang (Names.localized 0 f) with
                     | Some g => if Nat.eqb g f then [] else [(lang, f, g)]
                     | None => []
                     end) (seq 0 Tables_c23.n_fn).
Definition collisions : list (nat * nat * nat) := flat_map collisions_of all_langs.
(* the other direction: the name of f in lang is the English name of another function g *)
Definition collisions_rev_of (lang : nat) : list (nat * nat * nat) :=
  flat_map (fun f => match Names.lookup 0 (Names.localized lang f) with
                     | Some g => if Nat.eqb g f then [] else [(lang, f, g)]
                     | None => []
                     end) (seq 0 Tables_c23.n_fn).
Definition collisions_rev : list (nat * nat * nat) := flat_map collisions_rev_of all_langs.
(* boolean literals: the English TRUE / FALSE are plain identifiers in the other languages, and a
   language's literal may be an English function name *)
Definition bool_reads_as_bool (lang : nat) : bool :=
  match bool_of_name (names_of lang) [84; 82; 85; 69], bool_of_name (names_of lang) [70; 65; 76; 83; 69] with
  | Some true, Some false => true | _, _ => false end.

(* ---- set_language / set_locale (model.rs:3847, :3822) ------------------------------------------ *)
(* The model state: what is stored (formulas, names, conditional formats: English R1C1 texts), the
   workbook's settings.locale, the computed cells, and the two references the model holds. *)
Record lmodel (C : Type) := {
  l_formulas : list (list text);                  (* shared_formulas per worksheet *)
  l_defnames : list (text * option Z * text);     (* workbook.defined_names *)
  l_cf : list (list text);                        (* conditional-format formulas per worksheet *)
  l_settings_locale : text;                       (* workbook.settings.locale *)
  l_cells : C;                                    (* cell contents and computed values *)
  l_locale : text;                                (* self.locale (and self.parser's) *)
  l_language : text;                              (* self.language (and self.parser's) *)
}.
Arguments l_formulas {C} _. Arguments l_defnames {C} _. Arguments l_cf {C} _. Arguments l_settings_locale {C} _.
Arguments l_cells {C} _. Arguments l_locale {C} _. Arguments l_language {C} _.

Section Switch.
  Variable C : Type.
  Variable valid_locale valid_lang : text -> bool.
  (* self.evaluate(): recomputes the cells from what is stored and the active locale / language *)
  Variable evaluate : list (list text) -> list (text * option Z * text) -> text -> text -> C -> C.

  Definition set_language (id : text) (m : lmodel C) : outcome (lmodel C) :=
    if negb (valid_lang id) then Err
    else Ok {| l_formulas := l_formulas m; l_defnames := l_defnames m; l_cf := l_cf m;
               l_settings_locale := l_settings_locale m; l_cells := l_cells m;
               l_locale := l_locale m; l_language := id |}.

  Definition set_locale (id : text) (m : lmodel C) : outcome (lmodel C) :=
    if negb (valid_locale id) then Err
    else Ok {| l_formulas := l_formulas m; l_defnames := l_defnames m; l_cf := l_cf m;
               l_settings_locale := id;
               l_cells := evaluate (l_formulas m) (l_defnames m) id (l_language m) (l_cells m);
               l_locale := id; l_language := l_language m |}.

  Definition stored (m : lmodel C) := (l_formulas m, l_defnames m, l_cf m).
End Switch.

(* ---- functions whose result is defined to depend on the locale -------------------------------- *)
(* English names; a cell may change value on set_locale only if its formula (or a formula it reads)
   contains one of these or converts text to a number implicitly (a text operand of an arithmetic
   operator or a text argument of a numeric function: "1,5"+1, SUM("1,5",1), "1/2/2024"+0).
   Verified empirically on every run (harness/c10, locale sweep): TEXT, VALUE and the implicit
   conversions do differ between locales on the pinned tree; the others are allowed to. *)
Definition locale_dependent_functions : list text :=
  [[84; 69; 88; 84];                                      (* TEXT *)
   [86; 65; 76; 85; 69];                                  (* VALUE *)
   [78; 85; 77; 66; 69; 82; 86; 65; 76; 85; 69];          (* NUMBERVALUE *)
   [68; 79; 76; 76; 65; 82];                              (* DOLLAR *)
   [70; 73; 88; 69; 68];                                  (* FIXED *)
   [68; 65; 84; 69; 86; 65; 76; 85; 69];                  (* DATEVALUE *)
   [84; 73; 77; 69; 86; 65; 76; 85; 69]].                 (* TIMEVALUE *)

(* ---- conditional-format rules: every formula slot is stored in English ------------------------- *)
(* [Model::user_formula_to_internal] (model.rs:435) on tokens: parse in the active configuration,
   on a parse error parse as English, on a second error fail; store to_english_string of the tree.
   (Tokens after a complete expression are ignored by the parser.) *)
Section ToInternal.
  Variable m_act : pmode.  Variable nm_act : names.     (* active locale / language, A1 form *)
  Variable m_en : pmode.   Variable nm_en : names.      (* English A1 form, same context cell *)
  Variable env : penv.
  Definition user_formula_to_internal (ts : list token) : outcome (list token) :=
    match parse m_act nm_act env ts with
    | Some (e, _) => Ok (print m_en nm_en e)
    | None =>
      match parse m_en nm_en env ts with
      | Some (e, _) => Ok (print m_en nm_en e)
      | None => Err
      end
    end.

  (* Cfvo: only the Formula variant carries a formula *)
  Inductive cfvo := CvFormula (f : list token) | CvOther (tag : Z).
  (* CfRuleInput, the formula slots of every kind (cf_rule_input_to_internal, conditional_formatting.rs:1416) *)
  Inductive cf_input :=
  | CfCellIs (formula : list token) (formula2 : option (list token))
  | CfFormula (formula : list token)
  | CfColorScale (thresholds : list cfvo)
  | CfDataBar (min max : option cfvo)
  | CfIconSet (thresholds : list cfvo)
  | CfIconRating (thresholds : list cfvo)
  | CfOther (tag : Z).                               (* the kinds without formula strings *)

  Definition cfvo_to_internal (c : cfvo) : outcome cfvo :=
    match c with
    | CvFormula f => match user_formula_to_internal f with Ok f' => Ok (CvFormula f') | Err => Err | Panic => Panic end
    | CvOther t => Ok (CvOther t)
    end.
  Fixpoint cfvos_to_internal (l : list cfvo) : outcome (list cfvo) :=
    match l with
    | [] => Ok []
    | c :: r => obind (cfvo_to_internal c) (fun c' => obind (cfvos_to_internal r) (fun r' => Ok (c' :: r')))
    end.
  Definition opt_to_internal {A} (f : A -> outcome A) (o : option A) : outcome (option A) :=
    match o with None => Ok None | Some a => obind (f a) (fun a' => Ok (Some a')) end.

  (* the arms in the order of the code; a failing slot fails the whole rule (the `?`s) *)
  Definition cf_rule_input_to_internal (r : cf_input) : outcome cf_input :=
    match r with
    | CfCellIs f f2 =>
        obind (user_formula_to_internal f) (fun f' =>
        obind (opt_to_internal user_formula_to_internal f2) (fun f2' => Ok (CfCellIs f' f2')))
    | CfFormula f => obind (user_formula_to_internal f) (fun f' => Ok (CfFormula f'))
    | CfColorScale ts => obind (cfvos_to_internal ts) (fun ts' => Ok (CfColorScale ts'))
    | CfDataBar mn mx =>
        obind (opt_to_internal cfvo_to_internal mn) (fun mn' =>
        obind (opt_to_internal cfvo_to_internal mx) (fun mx' => Ok (CfDataBar mn' mx')))
    | CfIconSet ts => obind (cfvos_to_internal ts) (fun ts' => Ok (CfIconSet ts'))
    | CfIconRating ts => obind (cfvos_to_internal ts) (fun ts' => Ok (CfIconRating ts'))
    | CfOther t => Ok (CfOther t)
    end.

  (* the formula slots of a rule, in order *)
  Definition cfvo_slots (l : list cfvo) : list (list token) :=
    flat_map (fun c => match c with CvFormula f => [f] | CvOther _ => [] end) l.
  Definition opt_list {A} (o : option A) : list A := match o with Some a => [a] | None => [] end.
  Definition cf_slots (r : cf_input) : list (list token) :=
    match r with
    | CfCellIs f f2 => f :: opt_list f2
    | CfFormula f => [f]
    | CfColorScale ts | CfIconSet ts | CfIconRating ts => cfvo_slots ts
    | CfDataBar mn mx => cfvo_slots (opt_list mn ++ opt_list mx)
    | CfOther _ => []
    end.
End ToInternal.
