(* Syntax/Printer.v — [stringify] (expressions/parser/stringify.rs:487) at token level.

   [print m nm e] is the token stream the lexer reads back from the text [stringify] produces
   for [e].  The parenthesis decisions are transcribed arm by arm from the Rust [match]es: each
   [*_parens] function below is one [match child] of [stringify].  The text forms differ only
   in leaf spelling and in the [export_to_excel] arms:
     display form  (to_localized_string / to_english_string): pm_rc = false, pm_xlsx = false
     stored form   (to_rc_format):                            pm_rc = true,  pm_xlsx = false, pm_dot = true
     xlsx form     (stringify with export_to_excel = true):   pm_rc = false, pm_xlsx = true,  pm_dot = true
   ([to_excel_string] first rewrites the tree with remove_redundant_implicit_intersection and
   prefix_bound_variables; those passes belong to C24, here the xlsx form is the printer proper.)
   No proofs in this file (Syntax/RoundTrip.v). *)
From IronCalc Require Import Base.Prelude Codec.RefA1 Syntax.Token Syntax.Ast.

(* the text form and the cell the formula lives in *)
Record pmode := {
  pm_rc : bool;          (* R1C1 stored form: references are printed as stored (context = None) *)
  pm_xlsx : bool;        (* export_to_excel *)
  pm_dot : bool;         (* locale.numbers.symbols.decimal == "." *)
  pm_row : Z;            (* context.row *)
  pm_col : Z;            (* context.column *)
}.

(* spelling of names: language tables and the string functions of the Rust standard library *)
Record names := {
  fn_name : Z -> text;             (* Function::to_localized_name(language) / to_xlsx_string() *)
  fn_lookup : text -> option Z;    (* language.functions.lookup(name) (upper-cases its argument) *)
  bool_of_name : text -> option bool;  (* the lexer: name.to_uppercase() == language.booleans.true / false *)
  fn_true : Z;                     (* index of Function::True *)
  fn_false : Z;                    (* index of Function::False *)
  nm_lower : text -> text;         (* str::to_lowercase *)
  nm_upper : text -> text;         (* str::to_uppercase *)
  (* what the lexer of the current language reads from the ENGLISH spelling of error e
     ([format!("{kind}")], which is what stringify prints in every language): [TError e] when
     the language spells it the same way, otherwise whatever debris the text lexes to *)
  err_tokens : Z -> list token;
}.

Definition t_lambda : text := [76;65;77;66;68;65].                                   (* "LAMBDA" *)
Definition t_xlfn : text := [95;120;108;102;110;46].                                 (* "_xlfn." *)
Definition t_xlws : text := [95;120;108;119;115;46].                                 (* "_xlws." *)
Definition t_xlpm : text := [95;120;108;112;109;46].                                 (* "_xlpm." *)
Definition t_xlop : text := [95;120;108;111;112;46].                                 (* "_xlop." *)
Definition t_xlfn_lambda : text := t_xlfn ++ t_lambda.                               (* "_xlfn.LAMBDA" *)
Definition t_xlfn_single : text := t_xlfn ++ [83;73;78;71;76;69].                    (* "_xlfn.SINGLE" *)
Definition t_xlfn_anchor : text := t_xlfn ++ [65;78;67;72;79;82;65;82;82;65;89].     (* "_xlfn.ANCHORARRAY" *)

(* ---- the parenthesis decisions of [stringify], one definition per [match] ------------------- *)
(* As of commit 1fc9128 ("print the parentheses a formula needs to parse back to the same tree").
   Every operand position has its decision; the three associative cases 1+(2+3), 1+(2-3) and
   1&(2&3) are deliberately printed bare (test_stringify::correct_parenthesis). *)

(* any binary operator or prefix / postfix operator *)
Definition is_operator (c : ast) : bool :=
  match c with
  | ERangeOp _ _ | EConcat _ _ | ESum _ _ _ | EProd _ _ _ | EPow _ _ | ECmp _ _ _ | ENeg _ | EPct _ => true
  | _ => false
  end.
Definition is_operator_or_implicit (c : ast) : bool :=
  match c with EAt _ _ | ESpill _ => true | _ => is_operator c end.

(* OpRangeKind: left — [OpRange | Concat | Sum | Product | Power | Compare | Unary] *)
Definition range_left_parens (l : ast) : bool := is_operator l.
(* OpRangeKind: right — the same, plus [ImplicitIntersection | SpillRangeOperator if !export_to_excel] *)
Definition range_right_parens (xlsx : bool) (r : ast) : bool :=
  if xlsx then is_operator r else is_operator_or_implicit r.

(* OpConcatenateKind: left — [CompareKind]; right — [CompareKind] (a concatenation on the right is
   printed bare: associative) *)
Definition concat_left_parens (l : ast) : bool := match l with ECmp _ _ _ => true | _ => false end.
Definition concat_right_parens (r : ast) : bool := match r with ECmp _ _ _ => true | _ => false end.

(* CompareKind: right — [CompareKind]; the left operand is never wrapped *)
Definition cmp_right_parens (r : ast) : bool := match r with ECmp _ _ _ => true | _ => false end.

(* OpSumKind: left operand — [matches!(left, CompareKind { .. } | OpConcatenateKind { .. })] *)
Definition sum_left_parens (l : ast) : bool :=
  match l with ECmp _ _ _ | EConcat _ _ => true | _ => false end.

(* OpSumKind: right operand —
   [(matches!(kind, OpSum::Minus) && matches!(right, OpSumKind { .. }))
    | matches!(right, CompareKind { .. } | OpConcatenateKind { .. })]
   (a sum on the right of "+" is printed bare: associative) *)
Definition sum_right_parens (op : sum_op) (r : ast) : bool :=
  (match op with SMinus => (match r with ESum _ _ _ => true | _ => false end) | SAdd => false end)
  || (match r with ECmp _ _ _ | EConcat _ _ => true | _ => false end).

(* OpProductKind: left — [OpSumKind | CompareKind | OpConcatenateKind] *)
Definition prod_left_parens (l : ast) : bool :=
  match l with ESum _ _ _ | ECmp _ _ _ | EConcat _ _ => true | _ => false end.

(* OpProductKind: right — [OpSumKind | CompareKind | OpProductKind | OpConcatenateKind] *)
Definition prod_right_parens (r : ast) : bool :=
  match r with ESum _ _ _ | ECmp _ _ _ | EProd _ _ _ | EConcat _ _ => true | _ => false end.

(* OpPowerKind: left — the first explicit table *)
Definition pow_left_parens (l : ast) : bool :=
  match l with
  | EBool _ | ENum _ | ENeg _ | EPct _ | EStr _ | ERef _ _ _ | ERange _ _ _ _
  | EDefName _ _ _ | ETable _ | EVar _ _ => false
  | ERangeOp _ _ | EConcat _ _ | EProd _ _ _ | EPow _ _ | EFun _ _ | ENamedFun _ _ _
  | ELambdaDef _ _ | ELambdaCall _ _ | EArray _ | EErr _ | EParseError | ESum _ _ _
  | ECmp _ _ _ | EAt _ _ | ESpill _ | EEmpty => true
  end.

(* OpPowerKind: right — the second explicit table (UnaryKind is wrapped here) *)
Definition pow_right_parens (r : ast) : bool :=
  match r with
  | EBool _ | ENum _ | EStr _ | ERef _ _ _ | ERange _ _ _ _
  | EDefName _ _ _ | ETable _ | EVar _ _ => false
  | ERangeOp _ _ | EConcat _ _ | EProd _ _ _ | EPow _ _ | EFun _ _ | ENamedFun _ _ _
  | ELambdaDef _ _ | ELambdaCall _ _ | EArray _ | ENeg _ | EPct _ | EErr _ | EParseError
  | ESum _ _ _ | ECmp _ _ _ | EAt _ _ | ESpill _ | EEmpty => true
  end.

(* UnaryKind Minus: [needs_parentheses] *)
Definition neg_parens (c : ast) : bool :=
  match c with
  | EBool _ | ENum _ | EStr _ | ERef _ _ _ | ERange _ _ _ _ | ERangeOp _ _
  | EFun _ _ | ENamedFun _ _ _ | ELambdaDef _ _ | ELambdaCall _ _ | EArray _
  | EDefName _ _ _ | ETable _ | EVar _ _ | EAt _ _ | ESpill _ | EErr _
  | EParseError | EEmpty => false
  | EPow _ _ | ESum _ _ _ | ENeg _ | EPct _ | EProd _ _ _ | EConcat _ _ | ECmp _ _ _ => true
  end.

(* UnaryKind Percentage — [Concat | Sum | Product | Power | Compare] *)
Definition pct_parens (c : ast) : bool :=
  match c with EConcat _ _ | ESum _ _ _ | EProd _ _ _ | EPow _ _ | ECmp _ _ _ => true | _ => false end.

(* ImplicitIntersection / SpillRangeOperator, display branch — any operator, "@" or "#" *)
Definition at_parens (c : ast) : bool := is_operator_or_implicit c.
Definition spill_parens (c : ast) : bool := is_operator_or_implicit c.

Definition wrap (b : bool) (ts : list token) : list token :=
  if b then TLParen :: ts ++ [TRParen] else ts.

(* [a.join(sep)] on already printed pieces *)
Fixpoint join (s : token) (l : list (list token)) : list token :=
  match l with
  | [] => []
  | [x] => x
  | x :: r => x ++ s :: join s r
  end.

(* ---- parenthesis policies ------------------------------------------------------------------ *)
(* Where a printer puts parentheses: one decision per parent kind and operand position, taken on
   the operand alone.  [stringify_policy] is what [stringify] does (the functions above).
   [full_policy] is hypothetical: the same with the three associative cases wrapped too (the repair
   as first proposed, notes/C09-F02.diff); with it no bad pair is left at all. *)
Record policy := {
  pol_cmp_l : ast -> bool;  pol_cmp_r : ast -> bool;
  pol_concat_l : ast -> bool;  pol_concat_r : ast -> bool;
  pol_sum_l : ast -> bool;  pol_sum_r : sum_op -> ast -> bool;
  pol_prod_l : ast -> bool;  pol_prod_r : ast -> bool;
  pol_pow_l : ast -> bool;  pol_pow_r : ast -> bool;
  pol_neg : ast -> bool;  pol_pct : ast -> bool;
  pol_range_l : ast -> bool;  pol_range_r : bool -> ast -> bool;   (* the flag is export_to_excel *)
  pol_at : ast -> bool;  pol_spill : ast -> bool;                    (* display forms only *)
}.

Definition never (_ : ast) : bool := false.

Definition stringify_policy : policy := {|
  pol_cmp_l := never; pol_cmp_r := cmp_right_parens;
  pol_concat_l := concat_left_parens; pol_concat_r := concat_right_parens;
  pol_sum_l := sum_left_parens; pol_sum_r := sum_right_parens;
  pol_prod_l := prod_left_parens; pol_prod_r := prod_right_parens;
  pol_pow_l := pow_left_parens; pol_pow_r := pow_right_parens;
  pol_neg := neg_parens; pol_pct := pct_parens;
  pol_range_l := range_left_parens; pol_range_r := range_right_parens;
  pol_at := at_parens; pol_spill := spill_parens |}.

Definition full_policy : policy := {|
  pol_cmp_l := never; pol_cmp_r := cmp_right_parens;
  pol_concat_l := concat_left_parens;
  pol_concat_r := fun r => match r with ECmp _ _ _ | EConcat _ _ => true | _ => false end;
  pol_sum_l := sum_left_parens;
  pol_sum_r := fun _ r => match r with ESum _ _ _ | ECmp _ _ _ | EConcat _ _ => true | _ => false end;
  pol_prod_l := prod_left_parens; pol_prod_r := prod_right_parens;
  pol_pow_l := pow_left_parens; pol_pow_r := pow_right_parens;
  pol_neg := neg_parens; pol_pct := pct_parens;
  pol_range_l := range_left_parens; pol_range_r := range_right_parens;
  pol_at := at_parens; pol_spill := spill_parens |}.
(* the name used before commit 1fc9128 *)
Definition fixed_policy : policy := full_policy.

Section Printer.
  Variable m : pmode.
  Variable nm : names.
  Variable pol : policy.

  (* function-argument separator: ',' when the decimal separator is '.', else ';' *)
  Definition arg_sep : sep := if pm_dot m then SepComma else SepSemicolon.
  (* array separators as [stringify] prints them: rows ';' / columns ',' — or rows '/' / columns ';' *)
  Definition print_row_sep : sep := if pm_dot m then SepSemicolon else SepSlash.
  Definition print_col_sep : sep := if pm_dot m then SepComma else SepSemicolon.

  (* [stringify_reference] without displacement, as the token the lexer reads back: in the A1
     forms the grid position (offset + context for relative coordinates), in the stored form the
     stored numbers. [None] = the text "#REF!" (row < 1 or column outside 1..16384). *)
  Definition print_pref (p : pref) : option pref :=
    if pm_rc m then Some p else
    let row := if p_abs_row p then p_row p else p_row p + pm_row m in
    let col := if p_abs_col p then p_col p else p_col p + pm_col m in
    if (row <? 1) || (col <? 1) || (LAST_COLUMN <? col) then None
    else Some {| p_row := row; p_col := col; p_abs_col := p_abs_col p; p_abs_row := p_abs_row p |}.

  Definition print_ref (s : option text) (p : pref) : list token :=
    match print_pref p with
    | Some q => [TReference s q]
    | None => err_tokens nm 0                             (* "#REF!" *)
    end.

  (* RangeKind: "{s1}:{s2}"; both ends in range lex as one Range token; if an end is "#REF!"
     the text is e.g. "#REF!:B2" and lexes as an error, a colon and what is left *)
  Definition print_range (s : option text) (p1 p2 : pref) : list token :=
    match print_pref p1, print_pref p2 with
    | Some q1, Some q2 => [TRange s q1 q2]
    | o1, o2 =>
      (match o1 with Some q => [TReference s q] | None => err_tokens nm 0 end) ++ TColon ::
      (match o2 with Some q => [TReference None q] | None => err_tokens nm 0 end)
    end.

  Definition print_aelem (a : aelem) : list token :=
    match a with
    | ABool b => [TBoolean b]
    | ANum neg n => if neg then [TAddition SMinus; TNumber n] else [TNumber n]
    | AStr s => [TString s]
    | AErr e => err_tokens nm e
    | AEmpty => [TNumber [48]]                             (* "0" *)
    end.

  Definition print_param (p : lparam) : list token :=
    if pm_xlsx m then [TIdent ((if lp_opt p then t_xlop else t_xlpm) ++ lp_name p)]
    else if lp_opt p then [TLBracket; TIdent (lp_name p); TRBracket]
    else [TIdent (lp_name p)].

  Fixpoint gprint (e : ast) : list token :=
    match e with
    | EBool b => [TBoolean b]
    | ENum n => [TNumber n]
    | EStr s => [TString s]
    | ERef s _ p => print_ref s p
    | ERange s _ p1 p2 => print_range s p1 p2
    | ERangeOp l r =>
        wrap (pol_range_l pol l) (gprint l) ++ TColon :: wrap (pol_range_r pol (pm_xlsx m) r) (gprint r)
    | EConcat l r => wrap (pol_concat_l pol l) (gprint l) ++ TAnd :: wrap (pol_concat_r pol r) (gprint r)
    | ECmp op l r => wrap (pol_cmp_l pol l) (gprint l) ++ TCompare op :: wrap (pol_cmp_r pol r) (gprint r)
    | ESum op l r =>
        wrap (pol_sum_l pol l) (gprint l) ++ TAddition op :: wrap (pol_sum_r pol op r) (gprint r)
    | EProd op l r =>
        wrap (pol_prod_l pol l) (gprint l) ++ TProduct op :: wrap (pol_prod_r pol r) (gprint r)
    | EPow l r =>
        wrap (pol_pow_l pol l) (gprint l) ++ TPower :: wrap (pol_pow_r pol r) (gprint r)
    | ENamedFun _ name args =>
        TIdent (nm_lower nm name) :: TLParen :: join (sep_token arg_sep) (map gprint args) ++ [TRParen]
    | EFun f args =>
        (* "TRUE(" lexes as a Boolean token followed by "(" *)
        (match bool_of_name nm (fn_name nm f) with Some b => TBoolean b | None => TIdent (fn_name nm f) end)
        :: TLParen :: join (sep_token arg_sep) (map gprint args) ++ [TRParen]
    | EArray rows =>
        TLBrace ::
        join (sep_token print_row_sep)
             (map (fun row => join (sep_token print_col_sep) (map print_aelem row)) rows)
        ++ [TRBrace]
    | ETable name => [TIdent name]
    | EDefName name _ _ => [TIdent name]
    | EVar name _ => [TIdent name]
    | ENeg c => TAddition SMinus :: wrap (pol_neg pol c) (gprint c)
    | EPct c => wrap (pol_pct pol c) (gprint c) ++ [TPercent]
    | EErr e => err_tokens nm e
    | EParseError => [TIllegal]                              (* the original text; never parser_image *)
    | EEmpty => []
    | ESpill c =>
        if pm_xlsx m then TIdent t_xlfn_anchor :: TLParen :: gprint c ++ [TRParen]
        else wrap (pol_spill pol c) (gprint c) ++ [TSpill]
    | ELambdaDef ps body =>
        TIdent (if pm_xlsx m then t_xlfn_lambda else t_lambda) :: TLParen ::
        join (sep_token arg_sep) (map print_param ps ++ [gprint body]) ++ [TRParen]
    | ELambdaCall lam args =>
        (match lam with
         | EVar name _ => [TIdent (nm_lower nm name)]
         | _ => gprint lam
         end) ++ TLParen :: join (sep_token arg_sep) (map gprint args) ++ [TRParen]
    | EAt _ c =>
        if pm_xlsx m then TIdent t_xlfn_single :: TLParen :: gprint c ++ [TRParen]
        else TAt :: wrap (pol_at pol c) (gprint c)
    end.
End Printer.

(* [stringify] as it is (commit 1fc9128) *)
Definition print (m : pmode) (nm : names) : ast -> list token := gprint m nm stringify_policy.
(* hypothetical: the three associative cases wrapped as well *)
Definition print_fixed (m : pmode) (nm : names) : ast -> list token := gprint m nm fixed_policy.

