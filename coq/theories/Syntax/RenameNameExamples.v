(* Syntax/RenameNameExamples.v — closed witnesses for C32 over the generated language tables. *)
From IronCalc Require Import Base.Prelude Codec.RefA1 Syntax.Token Syntax.Ast Syntax.Printer Syntax.Parser Syntax.Shape
  Syntax.Localize Syntax.LocalizeProofs Syntax.RenameName Syntax.RenameNameProofs.

Definition env1 : penv := Example.env1.
Definition en11 : pmode := m_display true 1 1.
Definition xp : lparam := {| lp_name := [120]; lp_id := None; lp_opt := false |}.
(* =LAMBDA(x,SUM(x,1.5)) *)
Definition lam_sum : ast := ELambdaDef [xp] (EFun 80 [EVar [120] None; ENum [49; 46; 53]]).
(* =S!$A$1 *)
Definition ref_a1 : ast := ERef (Some [83]) (Some 0) {| p_row := 1; p_col := 1; p_abs_col := true; p_abs_row := true |}.

(* the proviso fails for a name formula with a function, in every non-English language: the
   stored text is rewritten (SUM becomes the user function "sum") although no sheet it mentions
   was renamed *)
Lemma other_sheet_refuted_language :
  image en11 (names_of 0) env1 lam_sum = true /\
  lang_neutral en11 en11 (names_of 0) (names_of 1) lam_sum = false /\
  name_formula_after_rename en11 (names_of 1) env1 (fun e => e) (print en11 (names_of 0) lam_sum) <> print en11 (names_of 0) lam_sum.
Proof. repeat split; try (vm_compute; reflexivity). vm_compute. discriminate. Qed.

(* in a comma-decimal locale the active parser rejects the English separators: the text is copied *)
Lemma other_sheet_comma_locale_copies :
  lang_neutral en11 (m_display false 1 1) (names_of 0) (names_of 0) lam_sum = false /\
  name_formula_after_rename (m_display false 1 1) (names_of 0) env1 (fun e => e) (print en11 (names_of 0) lam_sum) = print en11 (names_of 0) lam_sum.
Proof. split; vm_compute; reflexivity. Qed.

(* non-vacuity of other_sheet_rename_keeps_formula: a reference name in German with a comma locale *)
Lemma other_sheet_premises :
  lang_neutral en11 (m_display false 1 1) (names_of 0) (names_of 1) ref_a1 = true /\
  image (m_display false 1 1) (names_of 1) env1 ref_a1 = true /\ no_bad false ref_a1 = true /\ lower_stable (names_of 1) ref_a1 = true.
Proof. vm_compute. repeat split. Qed.

(* non-vacuity of the rename pass: =Name1+SUM(name1,Other) with Name1 -> Renamed *)
Definition dn (n : text) := EDefName n None [83; 33; 65; 49].
Definition t_name1 : text := [78; 97; 109; 101; 49].
Definition t_name1_lower : text := [110; 97; 109; 101; 49].
Definition t_other : text := [79; 116; 104; 101; 114].
Definition t_renamed : text := [82; 101; 110; 97; 109; 101; 100].
Definition uses : ast := ESum SAdd (dn t_name1) (EFun 80 [dn t_name1_lower; dn t_other]).
Lemma rename_example :
  rename lower t_name1 None t_renamed uses = ESum SAdd (dn t_renamed) (EFun 80 [dn t_renamed; dn t_other]).
Proof. vm_compute. reflexivity. Qed.
