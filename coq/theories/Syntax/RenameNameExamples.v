(* Syntax/RenameNameExamples.v — closed witnesses for C32 over the generated language tables. *)
From IronCalc Require Import Base.Prelude Codec.RefA1 Syntax.Token Syntax.Ast Syntax.Printer Syntax.Parser Syntax.Shape
  Syntax.Localize Syntax.LocalizeProofs Syntax.RenameName Syntax.RenameNameProofs.

Definition env1 : penv := Example.env1.
Definition en11 : pmode := m_display true 1 1.
Definition xp : lparam := {| lp_name := [120]; lp_id := None; lp_opt := false |}.
(* =LAMBDA(x,SUM(x,1.5)) *)
Definition lam_sum : ast := ELambdaDef [xp] (EFun 80 [EVar [120] None; ENum [49; 46; 53]]).
(* =S!$A$1 *)
Definition ref_a1 : ast := ERef (Some [83]) (Some 0) {| p_row := 1; p_col := 1; p_abs_col := true; p_abs_row := true |}.

(* non-vacuity of other_sheet_rename_keeps_formula: a LAMBDA name with a function and a decimal, and a reference name *)
Lemma other_sheet_premises :
  image en11 (names_of 0) env1 lam_sum = true /\ no_bad false lam_sum = true /\ lower_stable (names_of 0) lam_sum = true /\
  image en11 (names_of 0) env1 ref_a1 = true.
Proof. vm_compute. repeat split. Qed.

(* ---- update_defined_name: the former witnesses of F67 (repaired in 0ec334c) ------------------------ *)
Definition t_g : text := [71].
Definition t_h : text := [72].
Definition f_g : text := [83; 33; 36; 65; 36; 49].                      (* S!$A$1 *)
Definition env_g : penv := {| pe_sheets := [[83]]; pe_ctx_sheet := [83]; pe_defnames := [(t_g, None, f_g)]; pe_tables := [] |}.
Definition trim_g : ast := EFun 137 [EDefName t_g None f_g].           (* TRIM(G) *)
Definition sum_g2 : ast := EFun 80 [EDefName t_g None f_g; ENum [50]].  (* SUM(G,2) *)

(* the premises of name_rename_in_formula hold for them, and under a French user / a comma-decimal
   locale the stored text after renaming G to H is the print of TRIM(H) / SUM(H,2) *)
Lemma name_rename_former_witnesses :
  (image (m_rc_of true) (names_of 0) env_g trim_g = true /\ no_bad false trim_g = true /\ lower_stable (names_of 0) trim_g = true) /\
  formula_after_name_rename true (names_of 3) (names_of 0) env_g lower t_g None t_h (print (m_rc_of true) (names_of 0) trim_g)
    = print (m_rc_of true) (names_of 0) (EFun 137 [EDefName t_h None f_g]) /\
  formula_after_name_rename false (names_of 0) (names_of 0) env_g lower t_g None t_h (print (m_rc_of true) (names_of 0) sum_g2)
    = print (m_rc_of true) (names_of 0) (EFun 80 [EDefName t_h None f_g; ENum [50]]).
Proof. repeat split; vm_compute; reflexivity. Qed.

(* non-vacuity of the rename pass: =Name1+SUM(name1,Other) with Name1 -> Renamed *)
Definition dn (n : text) := EDefName n None [83; 33; 65; 49].
Definition t_name1 : text := [78; 97; 109; 101; 49].
Definition t_name1_lower : text := [110; 97; 109; 101; 49].
Definition t_other : text := [79; 116; 104; 101; 114].
Definition t_renamed : text := [82; 101; 110; 97; 109; 101; 100].
Definition uses : ast := ESum SAdd (dn t_name1) (EFun 80 [dn t_name1_lower; dn t_other]).
Lemma rename_example :
  rename lower t_name1 None t_renamed uses = ESum SAdd (dn t_renamed) (EFun 80 [dn t_renamed; dn t_other]).
Proof. vm_compute. reflexivity. Qed.
