(* Syntax/FullRange.v — the whole-row / whole-column test of [stringify]'s RangeKind and
   WrongRangeKind arms (expressions/parser/stringify.rs):
     let full_row    = absolute_row1 && absolute_row2 && row1 == 1 && row2 == LAST_ROW;
     let full_column = absolute_column1 && absolute_column2 && column1 == 1 && column2 == LAST_COLUMN;
   on the STORED fields of the node (an absolute coordinate is stored as the position, a relative
   one as the offset from the formula's cell — which is why all four conjuncts matter: a relative
   column1 with stored value 1 is the column right of the formula, not column A).
   When [full_row] holds the A1 text omits the row numbers ("A:B"), when [full_column] holds it
   omits the column letters ("1:2").  At token level this is invisible (the lexer reads "A:B" back
   as the Range token with rows 1 and 1048576 absolute), so [Printer.print_range] does not mention
   it; the correspondence has a case kind of its own for it ("FR" lines of harness/c09): the
   implementation's text omits the rows / the columns exactly when these functions say so.
   (Both at once — $A$1:$XFD$1048576 — prints as a bare ":": finding C22-F43; never generated.)
   No proofs in this file (Syntax/FullRangeProofs.v). *)
From IronCalc Require Import Base.Prelude Codec.RefA1.

Definition full_row (p1 p2 : pref) : bool :=
  p_abs_row p1 && p_abs_row p2 && (p_row p1 =? 1) && (p_row p2 =? LAST_ROW).

Definition full_column (p1 p2 : pref) : bool :=
  p_abs_col p1 && p_abs_col p2 && (p_col p1 =? 1) && (p_col p2 =? LAST_COLUMN).
