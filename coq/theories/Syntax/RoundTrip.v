(* Syntax/RoundTrip.v — the round-trip theorem.  (The proof is spread over
   RoundTripLevels.v: follow sets, loops, [Parses];  RoundTripNodes.v: parentheses, binary nodes;
   RoundTripArgs.v: argument lists;  RoundTripLeaves.v: references, first tokens;  this file: the
   induction.)

   [roundtrip]: for every tree [e] that the parser can return ([image]), that lies in the proved
   fragment ([fragment]: no array literal, no LAMBDA), contains no [bad_pair] ([no_bad]) and whose
   user-defined function names are in lower case ([lower_stable]),
       parse_fuel f (print e) = Some (e, [])      for every fuel f >= size e + 2,
   in every display form (any locale, any language, any cell) and in the stored R1C1 form
   ([pm_xlsx m = false]).  [roundtrip_glued] adds [glue_free], under which the lexer reads the
   printed tokens back one by one.

   Method: structural induction on [e] with the "level / follow set" generalisation packaged in
   [Parses].  The obligations that cannot be discharged are exactly [bad_child], i.e. the table
   [Shape.bad_pair] (Syntax/ShapeProofs.v), each entry of which is refuted in Syntax/Refuted.v. *)
From Coq Require Import Wf_nat.
From IronCalc Require Import Base.Prelude Codec.RefA1 Syntax.Token Syntax.Ast Syntax.Printer Syntax.Parser
  Syntax.Shape Syntax.GlueProofs Syntax.RoundTripLevels Syntax.RoundTripNodes Syntax.RoundTripArgs Syntax.RoundTripLeaves
  Syntax.RoundTripArrays Syntax.RoundTripLambda.
Local Open Scope nat_scope.

Ltac split_and :=
  repeat match goal with
  | H : _ && _ = true |- _ => apply andb_true_iff in H; destruct H
  end.

Section Main.
  Variable m : pmode.
  Variable nm : names.
  Variable env : penv.
  Variable pol : policy.
  (* the policy does not parenthesise a number literal under a unary minus (array elements "-1") *)
  Hypothesis Hneg_num : forall n, pol_neg pol (ENum n) = false.

  Notation pr := (gprint m nm pol).
  Notation xl := (pm_xlsx m).
  Notation pexpr := (p_expr m nm env).
  Notation PS := (Parses m nm env).

  (* what the induction proves for a tree *)
  Definition good (e : ast) : Prop :=
    forall g, size e < g -> PS (pexpr g) (size e) (pr e) e (rank_x xl e).

  Lemma size_pos e : 1 <= size e.
  Proof. destruct e; cbn [size]; lia. Qed.

  (* the parser one parenthesis level down reads a good tree back *)
  Lemma rec_closed c g rest :
    good c -> size c + 1 < g -> follow 8 rest -> pexpr g (pr c ++ rest) = Some (c, rest).
  Proof.
    intros Hc Hg Hfo. destruct g as [|g']; [lia|]. cbn [p_expr].
    apply (Parses_closed m nm env (pexpr g') (size c) (pr c) c (rank_x xl c) (Hc g' ltac:(lia)) 5);
      [lia|pose proof (rank_x_le_8 xl c); lia|lia|exact Hfo].
  Qed.

  (* an operand as the printer writes it: bare or in parentheses *)
  Lemma child_parses g c b q n :
    good c -> size c + 1 < g -> size c <= n -> (b = false -> rank_x xl c <= q) ->
    PS (pexpr g) n (wrap b (pr c)) c q.
  Proof.
    intros Hc Hg Hn Hq. destruct b; cbn [wrap].
    - eapply Parses_weaken; [|apply Parses_paren]; [lia|].
      intros rest Hfo. apply rec_closed; assumption.
    - eapply Parses_weaken; [apply Hq; reflexivity|]. eapply Parses_weaken_n; [exact Hn|]. apply Hc. lia.
  Qed.

  Lemma child_head c b :
    image_at m nm env false c = true -> fragment c = true -> no_bad_with pol xl c = true ->
    (b = false -> rank_x xl c <= 2) -> forall rest, not_sign (wrap b (pr c) ++ rest).
  Proof.
    intros Hi Hf Hb Hq rest. destruct b; cbn [wrap]; [exact I|].
    eapply head_not_sign; [apply Hq; reflexivity|]. apply (heads m nm env pol); assumption.
  Qed.

  (* ---- leaves ----------------------------------------------------------------------------- *)
  Lemma no_lparen rest : follow 0 rest -> match rest with TLParen :: _ => False | _ => True end.
  Proof. destruct rest as [|t r]; [auto|]. destruct t; cbn; try auto. lia. Qed.

  Lemma good_primary e :
    rank_x xl e = 0 ->
    (forall rest, not_at (pr e ++ rest) /\ not_sign (pr e ++ rest)) ->
    (forall g f rest, size e < g -> size e < f -> follow 0 rest ->
       p_primary m nm env (pexpr g) f (pr e ++ rest) = Some (e, rest)) ->
    good e.
  Proof.
    intros Hr Hh Hp g Hg. rewrite Hr. apply Parses_of_primary; [exact Hh|].
    intros f rest Hf Hfo. apply Hp; assumption.
  Qed.

  Lemma single_heads t : is_sign t = false -> is_at t = false ->
    forall rest, not_at ([t] ++ rest) /\ not_sign ([t] ++ rest).
  Proof. intros Hs Ha rest. destruct t; try discriminate; split; exact I. Qed.

  Lemma ident_primary rec f name rest :
    follow 0 rest ->
    p_primary m nm env rec f (TIdent name :: rest) =
    match sheet_index env None with
    | None => None
    | Some ci =>
      match get_defined_name nm env name ci with
      | Some (sc, fo) => Some (EDefName name sc fo, rest)
      | None => if is_table nm env name then Some (ETable name, rest)
                else Some (EVar (trim_start t_xlpm name) None, rest)
      end
    end.
  Proof.
    intro Hfo. apply no_lparen in Hfo. cbn [p_primary].
    destruct rest as [|t r]; [reflexivity|]. destruct t; try reflexivity. contradiction.
  Qed.

  (* ---- arguments -------------------------------------------------------------------------- *)
  Lemma image_arg a : a <> EEmpty -> image_at m nm env true a = image_at m nm env false a.
  Proof. destruct a; try reflexivity. congruence. Qed.

  Lemma length_le_sizes (args : list ast) : length args <= fold_right (fun a n => size a + n) 0 args.
  Proof. induction args as [|a tl IH]; cbn [length fold_right]; [lia|]. pose proof (size_pos a). lia. Qed.

  Lemma size_in_args a (args : list ast) : In a args -> size a <= fold_right (fun a n => size a + n) 0 args.
  Proof.
    induction args as [|x tl IH]; cbn [In fold_right]; [tauto|]. intros [->|H]; [lia|]. specialize (IH H). lia.
  Qed.

  Lemma args_good (args : list ast) g :
    Forall (fun a => image_at m nm env false a = true -> fragment a = true -> no_bad_with pol xl a = true ->
                     lower_stable nm a = true -> good a) args ->
    forallb (image_at m nm env true) args = true -> forallb fragment args = true ->
    forallb (no_bad_with pol xl) args = true -> forallb (lower_stable nm) args = true ->
    fold_right (fun a n => size a + n) 0 args + 1 < g ->
    Forall (arg_good m nm pol (pexpr g)) args.
  Proof.
    intros HF. induction HF as [|a tl Ha _ IH]; intros Hi Hf Hb Hl Hg; [constructor|].
    cbn [forallb fold_right] in *. split_and. constructor.
    - destruct a; try (left; reflexivity); right.
      all: match goal with |- context [pr ?a] =>
        assert (Hne : a <> EEmpty) by discriminate;
        rewrite (image_arg _ Hne) in *;
        split;
        [ destruct (heads m nm env pol a) as (t & r & E & Hs & _); try assumption;
          exists t, r; split; [exact E|apply startb_start; exact Hs]
        | intros rest' Hfo; apply rec_closed; [apply Ha; assumption| |exact Hfo] ] end.
      all: cbn [size fold_right] in *; lia.
    - apply IH; try assumption. lia.
  Qed.

  (* "name ( args )" when the call parses its arguments with [args_then_rparen] *)
  Lemma call_tokens (tok : token) args rest :
    (tok :: TLParen :: join (sep_token (arg_sep m)) (map pr args) ++ [TRParen]) ++ rest
    = tok :: TLParen :: (join (sep_token (parse_arg_sep m)) (map pr args) ++ TRParen :: rest).
  Proof. cbn [app]. rewrite <- app_assoc. reflexivity. Qed.

  Ltac negb_false :=
    repeat match goal with
    | H : negb _ = true |- _ => apply negb_true_iff in H
    end.

  (* ---- leaves and "-n", also used for array elements ------------------------------------- *)
  Lemma good_bool b : good (EBool b).
  Proof.
    apply good_primary; [reflexivity|apply single_heads; reflexivity|].
    intros g f rest _ _ Hfo. apply no_lparen in Hfo. cbn [gprint app p_primary].
    destruct rest as [|t r]; [reflexivity|]. destruct t; try reflexivity. contradiction.
  Qed.
  Lemma good_num n : good (ENum n).
  Proof. apply good_primary; [reflexivity|apply single_heads; reflexivity|]. reflexivity. Qed.
  Lemma good_str s : good (EStr s).
  Proof. apply good_primary; [reflexivity|apply single_heads; reflexivity|]. reflexivity. Qed.
  Lemma good_err k : is_terror k (err_tokens nm k) = true -> good (EErr k).
  Proof.
    intro Hi. unfold is_terror in Hi. destruct (err_tokens nm k) as [|t l] eqn:E; [discriminate|].
    destruct t; try discriminate. destruct l; [|discriminate]. apply Z.eqb_eq in Hi. subst e.
    assert (Hp : pr (EErr k) = [TError k]) by (cbn [gprint]; exact E).
    apply good_primary; [reflexivity|rewrite Hp; apply single_heads; reflexivity|].
    intros g f rest _ _ _. rewrite Hp. reflexivity.
  Qed.

  Lemma good_neg c :
    good c -> (pol_neg pol c = false -> rank_x xl c <= 2) ->
    (forall rest, not_sign (wrap (pol_neg pol c) (pr c) ++ rest)) -> good (ENeg c).
  Proof.
    intros Hc Hq Hh g Hg. cbn [size] in Hg. change (rank_x xl (ENeg c)) with 3. cbn [gprint size].
    assert (P : PS (pexpr g) (S (size c)) (wrap (pol_neg pol c) (pr c)) c 2).
    { apply child_parses; try lia; assumption. }
    apply Parses_of_tight; [lia|intro; lia|intro; lia|intro; lia|].
    intros f rest Hfu Hfo. cbn [app]. unfold p_power. cbn [skip_signs negb].
    rewrite skip_signs_none by apply Hh.
    rewrite (ps_range _ _ _ _ _ _ _ _ P ltac:(lia) f rest Hfu Hfo). reflexivity.
  Qed.

  Lemma good_elem a : aelem_ok nm a = true -> good (ast_of_aelem a).
  Proof.
    destruct a as [b|[|] n|s|k|]; cbn [ast_of_aelem aelem_ok]; intro H; try discriminate.
    - apply good_bool.
    - apply good_neg; [apply good_num|intros _; cbn; lia|intro rest; rewrite Hneg_num; exact I].
    - apply good_num.
    - apply good_str.
    - apply good_err; exact H.
  Qed.

  Lemma size_elem a : size (ast_of_aelem a) <= 2.
  Proof. destruct a as [b|[|] n|s|k|]; cbn; lia. Qed.

  Lemma rec_elem_ok g : 4 <= g -> forall a rest, aelem_ok nm a = true -> follow 8 rest ->
    pexpr g (print_aelem nm a ++ rest) = Some (ast_of_aelem a, rest).
  Proof.
    intros Hg a rest Ha Hfo. rewrite <- (print_ast_of_aelem m nm pol Hneg_num a).
    apply rec_closed; [apply good_elem; exact Ha|pose proof (size_elem a); lia|exact Hfo].
  Qed.

  Lemma rows_ok (r0 : list aelem) (rs : list (list aelem)) :
    negb (Nat.eqb (length r0) 0) = true ->
    forallb (fun r => Nat.eqb (length r) (length r0)) rs = true ->
    forallb (forallb (aelem_ok nm)) rs = true ->
    Forall (row_ok nm (length r0)) rs.
  Proof.
    intros H0. apply negb_true_iff in H0. apply Nat.eqb_neq in H0.
    induction rs as [|r rs IH]; intros Hl Ho; [constructor|].
    cbn [forallb] in Hl, Ho. apply andb_true_iff in Hl as [Hl1 Hl2]. apply andb_true_iff in Ho as [Ho1 Ho2].
    apply Nat.eqb_eq in Hl1. constructor; [|apply IH; assumption].
    repeat split; [exact Hl1|lia|exact Ho1].
  Qed.

  Lemma fold_lengths_ge (r0 : list aelem) rs :
    length r0 <= fold_right (fun r n => length r + n) 0 (r0 :: rs).
  Proof. cbn [fold_right]. lia. Qed.

  (* ---- LAMBDA ------------------------------------------------------------------------------- *)
  Lemma rec_ident_ok g : 2 <= g -> forall n rest, ident_free nm env n = true -> follow 8 rest ->
    pexpr g (TIdent n :: rest) = Some (EVar (trim_start t_xlpm n) None, rest).
  Proof.
    intros Hg n rest Hfree Hfo. destruct g as [|g']; [lia|]. cbn [p_expr].
    assert (P : PS (pexpr g') 0 [TIdent n] (EVar (trim_start t_xlpm n) None) 0).
    { apply Parses_of_primary; [intro r; split; exact I|].
      intros f r _ Hf0. cbn [app]. rewrite ident_primary by exact Hf0.
      unfold ident_free in Hfree. destruct (sheet_index env None) as [ci|]; [|discriminate].
      destruct (get_defined_name nm env n ci); [discriminate|]. apply negb_true_iff in Hfree. rewrite Hfree. reflexivity. }
    exact (Parses_closed m nm env (pexpr g') 0 [TIdent n] _ 0 P 5 ltac:(lia) ltac:(lia) g' rest ltac:(lia) Hfo).
  Qed.

  Definition lambda_name : text := if xl then t_xlfn_lambda else t_lambda.

  Lemma lambda_tokens ps body rest :
    pr (ELambdaDef ps body) ++ rest
    = TIdent lambda_name :: TLParen :: lam_tokens m (pr body) ps rest.
  Proof.
    cbn [gprint app]. unfold lambda_name. rewrite <- app_assoc. cbn [app].
    rewrite <- (join_items m (pr body) ps rest). reflexivity.
  Qed.

  Lemma lambda_parse g fu ps body rest :
    good body -> image_at m nm env false body = true -> fragment body = true -> no_bad_with pol xl body = true ->
    lambda_name_ok m nm = true -> forallb (param_ok m nm env) ps = true ->
    S (length ps + size body) < g -> length ps < fu ->
    parse_call m nm (pexpr g) fu lambda_name (lam_tokens m (pr body) ps rest) =
    match rest with
    | TLParen :: r =>
      match args_then_rparen m (pexpr g) fu r with
      | Some (args, r') => Some (ELambdaCall (ELambdaDef ps body) args, r')
      | None => None
      end
    | _ => Some (ELambdaDef ps body, rest)
    end.
  Proof.
    intros Hgood Hi Hf Hb Hname Hps Hg Hfu.
    destruct (heads m nm env pol body Hi Hf Hb) as (t & r & E & Hs & _).
    assert (Hcond : text_eqb lambda_name t_xlfn_lambda || text_eqb (nm_upper nm lambda_name) t_lambda = true).
    { unfold lambda_name, lambda_name_ok in *. destruct xl; [reflexivity|]. cbn [orb] in Hname. rewrite Hname. apply orb_true_r. }
    unfold parse_call. rewrite Hcond. unfold parse_lambda.
    assert (Hloop : lambda_loop m (pexpr g) fu [] (lam_tokens m (pr body) ps rest) = Some (ps, body, rest)).
    { apply (lambda_loop_ok m nm env (pexpr g) (rec_ident_ok g ltac:(lia)) body (pr body)); try assumption.
      - exists t, r. split; [exact E|]. apply startb_not_lbracket; exact Hs.
      - intros rest' Hfo. apply rec_closed; [exact Hgood|lia|exact Hfo]. }
    pose proof (lam_tokens_not_rparen m (pr body) ps rest
                  ltac:(exists t, r; split; [exact E|apply startb_start in Hs; apply Hs])) as Hnr.
    destruct (lam_tokens m (pr body) ps rest) as [|t0 r0] eqn:Et.
    - rewrite Hloop. destruct rest as [|tkx rsx]; [reflexivity|]. destruct tkx; reflexivity.
    - destruct t0; try contradiction; rewrite Hloop; (destruct rest as [|tkx rsx]; [reflexivity|]; destruct tkx; reflexivity).
  Qed.

  (* ---- the induction ---------------------------------------------------------------------- *)
  Theorem good_all e :
    image_at m nm env false e = true -> fragment e = true -> no_bad_with pol xl e = true ->
    lower_stable nm e = true -> good e.
  Proof.
    remember (size e) as n0 eqn:Hn0. revert e Hn0.
    induction n0 as [n0 IH] using lt_wf_ind. intros e Hn0.
    assert (IHc : forall c, size c < size e -> image_at m nm env false c = true -> fragment c = true ->
                  no_bad_with pol xl c = true -> lower_stable nm c = true -> good c).
    { intros c Hc. apply (IH (size c)); [lia|reflexivity]. }
    clear IH Hn0 n0.
    destruct e as [b|n|s|s i p|s i p q|e1 e2|e1 e2|op e1 e2|op e1 e2|e1 e2|f args|ps e|e args|id name args|rows|n s f|n|n i|a e|e|op e1 e2|e|e|e| | ].
    all: try (assert (IHe1 := IHc e1 ltac:(cbn [size]; lia)); assert (IHe2 := IHc e2 ltac:(cbn [size]; lia))).
    all: try (assert (IHe := IHc e ltac:(cbn [size]; lia))).
    all: try (assert (HFA : Forall (fun a => image_at m nm env false a = true -> fragment a = true -> no_bad_with pol xl a = true ->
                                    lower_stable nm a = true -> good a) args)
                by (apply Forall_forall; intros a0 Hin; apply IHc; pose proof (size_in_args a0 args Hin); cbn [size]; lia)).
    all: intros Hi Hf Hb Hl; cbn [image_at fragment no_bad_with lower_stable] in Hi, Hf, Hb, Hl; try discriminate; split_and.
    - (* EBool *) apply good_bool.
    - (* ENum *) apply good_num.
    - (* EStr *) apply good_str.
    - (* ERef *) unfold pref_ok in *. destruct (print_pref m p) as [q|] eqn:E; [|discriminate].
      assert (Hp : pr (ERef s i p) = [TReference s q]) by (cbn [gprint]; unfold print_ref; rewrite E; reflexivity).
      apply good_primary; [reflexivity|rewrite Hp; apply single_heads; reflexivity|].
      intros g f rest _ _ _. rewrite Hp. cbn [app p_primary]. rewrite (parse_print_pref m _ _ E).
      destruct i as [i|], (sheet_index env s) as [j|]; cbn [opt_z_eqb] in *; try discriminate; [|reflexivity].
      match goal with H : (i =? j)%Z = true |- _ => apply Z.eqb_eq in H; subst end. reflexivity.
    - (* ERange *) match goal with H : range_ok m p q = true |- _ => destruct (parse_range_ok m p q H) as (q1 & q2 & E1 & E2 & E3) end.
      assert (Hp : pr (ERange s i p q) = [TRange s q1 q2]) by (cbn [gprint]; unfold print_range; rewrite E1, E2; reflexivity).
      apply good_primary; [reflexivity|rewrite Hp; apply single_heads; reflexivity|].
      intros g f rest _ _ _. rewrite Hp. cbn [app p_primary]. rewrite E3.
      destruct i as [i|], (sheet_index env s) as [j|]; cbn [opt_z_eqb] in *; try discriminate; [|reflexivity].
      match goal with H : (i =? j)%Z = true |- _ => apply Z.eqb_eq in H; subst end. reflexivity.
    - (* ERangeOp *)
      negb_false. match goal with H : bad_child_with _ _ _ = false |- _ => cbn [bad_child_with] in H; apply orb_false_iff in H as [Hrl Hrr] end.
      intros g Hg. cbn [size] in Hg. change (rank_x xl (ERangeOp e1 e2)) with 2. cbn [gprint size].
      assert (Hql : pol_range_l pol e1 = false -> rank_x xl e1 <= 1).
      { intro E. rewrite E in Hrl. cbn [negb andb] in Hrl. apply ltb_false in Hrl. exact Hrl. }
      assert (Hqr : pol_range_r pol xl e2 = false -> rank_x xl e2 <= 0).
      { intro E. rewrite E in Hrr. cbn [negb andb] in Hrr. apply ltb_false in Hrr. exact Hrr. }
      assert (P1 : PS (pexpr g) (S (size e1 + size e2)) (wrap (pol_range_l pol e1) (pr e1)) e1 1).
      { apply child_parses; try lia; [apply IHe1; assumption|exact Hql]. }
      assert (P2 : PS (pexpr g) (S (size e1 + size e2)) (wrap (pol_range_r pol xl e2) (pr e2)) e2 0).
      { apply child_parses; try lia; [apply IHe2; assumption|exact Hqr]. }
      assert (A2 : forall f rest, S (size e1 + size e2) < f -> follow 2 rest ->
                 p_range m nm env (pexpr g) f ((wrap (pol_range_l pol e1) (pr e1) ++ TColon :: wrap (pol_range_r pol xl e2) (pr e2)) ++ rest)
                 = Some (ERangeOp e1 e2, rest)).
      { intros f rest Hfu Hfo. rewrite app_cons_assoc. unfold p_range.
        rewrite (ps_implicit _ _ _ _ _ _ _ _ P1 ltac:(lia) f _ Hfu) by (cbn [follow cont_level]; lia).
        rewrite (ps_primary _ _ _ _ _ _ _ _ P2 ltac:(lia) f _ Hfu) by (eapply follow_mono; [|exact Hfo]; lia).
        reflexivity. }
      apply Parses_of_tight; [lia|intro; lia|intro; lia|intros _; exact A2|].
      intros f rest Hfu Hfo. apply lift_power; [|apply A2; assumption].
      rewrite <- app_assoc. apply child_head; try assumption. intro E. specialize (Hql E). lia.
    - (* EConcat *)
      negb_false. match goal with H : bad_child_with _ _ _ = false |- _ => cbn [bad_child_with] in H; apply orb_false_iff in H as [Hrl Hrr] end.
      intros g Hg. cbn [size] in Hg.
      apply (Parses_binary m nm env (pexpr g) 4 BConcat TAnd (size e1) (size e2)
               (wrap (pol_concat_l pol e1) (pr e1)) (wrap (pol_concat_r pol e2) (pr e2)) e1 e2); try reflexivity; try lia.
      + apply child_parses; try lia; [apply IHe1; assumption|]. intro E. rewrite E in Hrl. cbn [negb andb] in Hrl. apply ltb_false in Hrl. exact Hrl.
      + apply child_parses; try lia; [apply IHe2; assumption|]. intro E. rewrite E in Hrr. cbn [negb andb] in Hrr. apply ltb_false in Hrr. exact Hrr.
    - (* ESum *)
      negb_false. match goal with H : bad_child_with _ _ _ = false |- _ => cbn [bad_child_with] in H; apply orb_false_iff in H as [Hrl Hrr] end.
      intros g Hg. cbn [size] in Hg.
      apply (Parses_binary m nm env (pexpr g) 3 (BSum op) (TAddition op) (size e1) (size e2)
               (wrap (pol_sum_l pol e1) (pr e1)) (wrap (pol_sum_r pol op e2) (pr e2)) e1 e2); try reflexivity; try lia.
      + apply child_parses; try lia; [apply IHe1; assumption|]. intro E. rewrite E in Hrl. cbn [negb andb] in Hrl. apply ltb_false in Hrl. exact Hrl.
      + apply child_parses; try lia; [apply IHe2; assumption|]. intro E. rewrite E in Hrr. cbn [negb andb] in Hrr. apply ltb_false in Hrr. exact Hrr.
    - (* EProd *)
      negb_false. match goal with H : bad_child_with _ _ _ = false |- _ => cbn [bad_child_with] in H; apply orb_false_iff in H as [Hrl Hrr] end.
      intros g Hg. cbn [size] in Hg.
      apply (Parses_binary m nm env (pexpr g) 2 (BProd op) (TProduct op) (size e1) (size e2)
               (wrap (pol_prod_l pol e1) (pr e1)) (wrap (pol_prod_r pol e2) (pr e2)) e1 e2); try reflexivity; try lia.
      + apply child_parses; try lia; [apply IHe1; assumption|]. intro E. rewrite E in Hrl. cbn [negb andb] in Hrl. apply ltb_false in Hrl. exact Hrl.
      + apply child_parses; try lia; [apply IHe2; assumption|]. intro E. rewrite E in Hrr. cbn [negb andb] in Hrr. apply ltb_false in Hrr. exact Hrr.
    - (* EPow *)
      negb_false. match goal with H : bad_child_with _ _ _ = false |- _ => cbn [bad_child_with] in H; apply orb_false_iff in H as [Hrl Hrr] end.
      intros g Hg. cbn [size] in Hg.
      apply (Parses_binary m nm env (pexpr g) 1 BPow TPower (size e1) (size e2)
               (wrap (pol_pow_l pol e1) (pr e1)) (wrap (pol_pow_r pol e2) (pr e2)) e1 e2); try reflexivity; try lia.
      + apply child_parses; try lia; [apply IHe1; assumption|]. intro E. rewrite E in Hrl. cbn [negb andb] in Hrl. apply ltb_false in Hrl. exact Hrl.
      + apply child_parses; try lia; [apply IHe2; assumption|]. intro E. rewrite E in Hrr. cbn [negb andb] in Hrr. apply ltb_false in Hrr. exact Hrr.
    - (* EFun *)
      apply good_primary; [reflexivity| |].
      { intro rest. cbn [gprint]. destruct (bool_of_name nm (fn_name nm f)); split; exact I. }
      intros g fu rest Hg Hfu _. cbn [size] in Hg, Hfu. cbn [gprint]. rewrite call_tokens.
      assert (HA : args_then_rparen m (pexpr g) fu (join (sep_token (parse_arg_sep m)) (map pr args) ++ TRParen :: rest) = Some (args, rest)).
      { apply args_then_rparen_ok; [pose proof (length_le_sizes args); lia|assumption|].
        eapply args_good; try eassumption. lia. }
      unfold fun_name_ok in *. destruct (bool_of_name nm (fn_name nm f)) as [b|].
      + cbn [p_primary]. rewrite HA.
        match goal with H : (f =? _)%Z = true |- _ => apply Z.eqb_eq in H; rewrite <- H end. reflexivity.
      + cbn [p_primary]. unfold parse_call. split_and. negb_false.
        repeat match goal with H : text_eqb _ _ = false |- _ => rewrite H; clear H end. cbn [orb].
        rewrite HA.
        destruct (fn_lookup nm (trim_start (t_xlfn ++ t_xlws) (fn_name nm f))) as [k|].
        * match goal with H : (k =? f)%Z = true |- _ => apply Z.eqb_eq in H; subst end. reflexivity.
        * destruct (fn_lookup nm (trim_start t_xlfn (fn_name nm f))) as [k|]; [|discriminate].
          match goal with H : (k =? f)%Z = true |- _ => apply Z.eqb_eq in H; subst end. reflexivity.
    - (* ELambdaDef *)
      apply good_primary; [reflexivity|intro rest; cbn [gprint]; split; exact I|].
      intros g fu rest Hg Hfu Hfo. cbn [size] in Hg, Hfu. rewrite lambda_tokens. cbn [p_primary].
      rewrite (lambda_parse g fu ps e rest) by (try assumption; try lia; apply IHe; assumption).
      apply no_lparen in Hfo. destruct rest as [|t1 r1]; [reflexivity|]. destruct t1; try reflexivity. contradiction.
    - (* ELambdaCall *)
      destruct e as [ | | | | | | | | | | |ps body| | | | | | | | | | | | | | ]; try discriminate.
      cbn [image_at fragment no_bad_with lower_stable] in *. split_and.
      assert (IHbody := IHc body ltac:(cbn [size]; lia)).
      apply good_primary; [reflexivity|intro rest; cbn [gprint]; split; exact I|].
      intros g fu rest Hg Hfu Hfo. cbn [size] in Hg, Hfu.
      assert (Etok : pr (ELambdaCall (ELambdaDef ps body) args) ++ rest
                     = pr (ELambdaDef ps body) ++ (TLParen :: join (sep_token (parse_arg_sep m)) (map pr args) ++ TRParen :: rest)).
      { cbn [gprint]. rewrite <- !app_assoc. cbn [app]. rewrite <- !app_assoc. reflexivity. }
      rewrite Etok. rewrite lambda_tokens. cbn [p_primary].
      rewrite (lambda_parse g fu ps body) by (try assumption; try lia; apply IHbody; assumption).
      rewrite args_then_rparen_ok; [reflexivity|pose proof (length_le_sizes args); lia|assumption|].
      eapply args_good; try eassumption. lia.
    - (* ENamedFun *)
      destruct id; [discriminate|].
      match goal with H : text_eqb (nm_lower nm name) name = true |- _ => apply text_eqb_eq in H; rename H into Hlow end.
      apply good_primary; [reflexivity|intro rest; split; exact I|].
      intros g fu rest Hg Hfu _. cbn [size] in Hg, Hfu. cbn [gprint]. rewrite call_tokens. rewrite Hlow.
      assert (HA : args_then_rparen m (pexpr g) fu (join (sep_token (parse_arg_sep m)) (map pr args) ++ TRParen :: rest) = Some (args, rest)).
      { apply args_then_rparen_ok; [pose proof (length_le_sizes args); lia|assumption|].
        eapply args_good; try eassumption. lia. }
      unfold named_fun_ok in *. destruct (bool_of_name nm name); [discriminate|].
      cbn [p_primary]. unfold parse_call. split_and. negb_false.
      match goal with H : text_eqb (trim_start t_xlpm name) name = true |- _ => apply text_eqb_eq in H; rename H into Htrim end.
      repeat match goal with H : text_eqb _ _ = false |- _ => rewrite H; clear H end. cbn [orb].
      rewrite HA.
      destruct (fn_lookup nm (trim_start (t_xlfn ++ t_xlws) name)); [discriminate|].
      destruct (fn_lookup nm (trim_start t_xlfn name)); [discriminate|].
      rewrite Htrim. reflexivity.
    - (* EArray *)
      destruct rows as [|r0 rs]; [discriminate|]. split_and.
      apply good_primary; [reflexivity|intro rest; split; exact I|].
      intros g fu rest Hg Hfu _. cbn [size] in Hg, Hfu. pose proof (fold_lengths_ge r0 rs) as Hfl.
      cbn [gprint app]. rewrite <- app_assoc. cbn [app].
      apply (array_primary_ok m nm env (pexpr g) (rec_elem_ok g ltac:(cbn [length] in Hg; lia)) rest r0 rs fu).
      + match goal with H : pm_dot m || _ = true |- _ => apply orb_true_iff in H as [H|H]; [left; exact H|right] end.
        cbn [length] in *. destruct rs; [reflexivity|discriminate].
      + cbn [length] in Hfu. lia.
      + apply rows_ok; assumption.
    - (* EDefName *)
      apply good_primary; [reflexivity|apply single_heads; reflexivity|].
      intros g fu rest _ _ Hfo. cbn [gprint app]. rewrite ident_primary by exact Hfo.
      destruct (sheet_index env None) as [ci|]; [|discriminate].
      destruct (get_defined_name nm env n ci) as [[sc fo]|]; [|discriminate]. split_and.
      match goal with H : text_eqb f fo = true |- _ => apply text_eqb_eq in H; subst end.
      destruct s as [s|], sc as [sc|]; cbn [opt_z_eqb] in *; try discriminate; [|reflexivity].
      match goal with H : (s =? sc)%Z = true |- _ => apply Z.eqb_eq in H; subst end. reflexivity.
    - (* ETable *)
      apply good_primary; [reflexivity|apply single_heads; reflexivity|].
      intros g fu rest _ _ Hfo. cbn [gprint app]. rewrite ident_primary by exact Hfo.
      destruct (sheet_index env None) as [ci|]; [|discriminate].
      destruct (get_defined_name nm env n ci); [discriminate|]. rewrite Hi. reflexivity.
    - (* EVar *)
      destruct i; [discriminate|].
      apply good_primary; [reflexivity|apply single_heads; reflexivity|].
      intros g fu rest _ _ Hfo. cbn [gprint app]. rewrite ident_primary by exact Hfo.
      unfold var_ok in *. destruct (sheet_index env None) as [ci|]; [|discriminate].
      destruct (get_defined_name nm env n ci); [discriminate|]. split_and. negb_false.
      match goal with H : is_table nm env n = false |- _ => rewrite H end.
      match goal with H : text_eqb (trim_start t_xlpm n) n = true |- _ => apply text_eqb_eq in H; rewrite H end.
      reflexivity.
    - (* EAt *)
      negb_false. subst a. unfold xl_call_ok in *.
      match goal with H : bad_child_with _ _ _ = false |- _ => cbn [bad_child_with] in H; rename H into Hr end.
      destruct xl eqn:Hx; cbn [negb andb orb] in *.
      + (* xlsx form: _xlfn.SINGLE(e) *)
        negb_false.
        apply good_primary; [rewrite Hx; reflexivity|intro rest; cbn [gprint]; rewrite Hx; split; exact I|].
        intros g fu rest Hg Hfu _. cbn [size] in Hg, Hfu. cbn [gprint]. rewrite Hx.
        assert (HA : args_then_rparen m (pexpr g) fu (join (sep_token (parse_arg_sep m)) (map pr [e]) ++ TRParen :: rest) = Some ([e], rest)).
        { apply args_then_rparen_ok; [cbn [length]; lia|destruct e; try reflexivity; discriminate|].
          eapply args_good with (args := [e]).
          - constructor; [|constructor]. rewrite ?Hx. intros. apply IHe; assumption.
          - cbn [forallb]. rewrite andb_true_r. destruct e; try assumption; discriminate.
          - cbn [forallb]. rewrite andb_true_r, ?Hx. assumption.
          - cbn [forallb]. rewrite andb_true_r, ?Hx. assumption.
          - cbn [forallb]. rewrite andb_true_r, ?Hx. assumption.
          - cbn [fold_right]. lia. }
        cbn [map join] in HA. cbn [app p_primary]. rewrite <- app_assoc. cbn [app]. unfold parse_call.
        match goal with H : text_eqb (nm_upper nm t_xlfn_single) t_lambda = false |- _ => rewrite H end.
        change (text_eqb t_xlfn_single t_xlfn_lambda) with false. cbn [orb].
        rewrite HA. change (text_eqb t_xlfn_single t_xlfn_single) with true. reflexivity.
      + assert (Hq : pol_at pol e = false -> rank_x xl e <= 0).
        { intro E. rewrite E in Hr. cbn [negb andb] in Hr. apply ltb_false in Hr. rewrite Hx. exact Hr. }
        assert (Hgood : good e) by (apply IHe; try assumption; rewrite Hx; assumption).
        intros g Hg. cbn [size] in Hg. rewrite Hx. change (rank_x false (EAt false e)) with 1. cbn [gprint size]. rewrite Hx.
        assert (P : PS (pexpr g) (S (size e)) (wrap (pol_at pol e) (pr e)) e 0).
        { apply child_parses; try lia; assumption. }
        assert (A1 : forall f rest, S (size e) < f -> follow 1 rest ->
                   p_implicit m nm env (pexpr g) f ((TAt :: wrap (pol_at pol e) (pr e)) ++ rest) = Some (EAt false e, rest)).
        { intros f rest Hfu Hfo. cbn [app p_implicit].
          rewrite (ps_primary _ _ _ _ _ _ _ _ P ltac:(lia) f _ Hfu) by (eapply follow_mono; [|exact Hfo]; lia).
          reflexivity. }
        assert (A2 : forall f rest, S (size e) < f -> follow 2 rest ->
                   p_range m nm env (pexpr g) f ((TAt :: wrap (pol_at pol e) (pr e)) ++ rest) = Some (EAt false e, rest)).
        { intros f rest Hfu Hfo. apply lift_range; [exact Hfo|]. apply A1; [exact Hfu|]. eapply follow_mono; [|exact Hfo]; lia. }
        apply Parses_of_tight; [lia|intro; lia|intros _; exact A1|intros _; exact A2|].
        intros f rest Hfu Hfo. apply lift_power; [exact I|apply A2; assumption].
    - (* ESpill *)
      negb_false. unfold xl_call_ok in *.
      match goal with H : bad_child_with _ _ _ = false |- _ => cbn [bad_child_with] in H; rename H into Hr end.
      destruct xl eqn:Hx; cbn [negb andb orb] in *.
      + (* xlsx form: _xlfn.ANCHORARRAY(e) *)
        negb_false.
        apply good_primary; [rewrite Hx; reflexivity|intro rest; cbn [gprint]; rewrite Hx; split; exact I|].
        intros g fu rest Hg Hfu _. cbn [size] in Hg, Hfu. cbn [gprint]. rewrite Hx.
        assert (HA : args_then_rparen m (pexpr g) fu (join (sep_token (parse_arg_sep m)) (map pr [e]) ++ TRParen :: rest) = Some ([e], rest)).
        { apply args_then_rparen_ok; [cbn [length]; lia|destruct e; try reflexivity; discriminate|].
          eapply args_good with (args := [e]).
          - constructor; [|constructor]. rewrite ?Hx. intros. apply IHe; assumption.
          - cbn [forallb]. rewrite andb_true_r. destruct e; try assumption; discriminate.
          - cbn [forallb]. rewrite andb_true_r, ?Hx. assumption.
          - cbn [forallb]. rewrite andb_true_r, ?Hx. assumption.
          - cbn [forallb]. rewrite andb_true_r, ?Hx. assumption.
          - cbn [fold_right]. lia. }
        cbn [map join] in HA. cbn [app p_primary]. rewrite <- app_assoc. cbn [app]. unfold parse_call.
        match goal with H : text_eqb (nm_upper nm t_xlfn_anchor) t_lambda = false |- _ => rewrite H end.
        change (text_eqb t_xlfn_anchor t_xlfn_lambda) with false. cbn [orb].
        rewrite HA. change (text_eqb t_xlfn_anchor t_xlfn_single) with false.
        change (text_eqb t_xlfn_anchor t_xlfn_anchor) with true. reflexivity.
      + assert (Hq : pol_spill pol e = false -> rank_x xl e <= 0).
        { intro E. rewrite E in Hr. cbn [negb andb] in Hr. apply ltb_false in Hr. rewrite Hx. exact Hr. }
        assert (Hgood : good e) by (apply IHe; try assumption; rewrite Hx; assumption).
        assert (Hnb : no_bad_with pol xl e = true) by (rewrite Hx; assumption).
        intros g Hg. cbn [size] in Hg. rewrite Hx. change (rank_x false (ESpill e)) with 1. cbn [gprint size]. rewrite Hx.
        assert (P : PS (pexpr g) (S (size e)) (wrap (pol_spill pol e) (pr e)) e 0).
        { apply child_parses; try lia; assumption. }
        assert (Hat : forall rest, not_at (wrap (pol_spill pol e) (pr e) ++ rest)).
        { intro rest. destruct (pol_spill pol e) eqn:E; cbn [wrap]; [exact I|].
          eapply head_not_at; [apply Hq; reflexivity|]. apply (heads m nm env pol); assumption. }
        assert (A1 : forall f rest, S (size e) < f -> follow 1 rest ->
                   p_implicit m nm env (pexpr g) f ((wrap (pol_spill pol e) (pr e) ++ [TSpill]) ++ rest) = Some (ESpill e, rest)).
        { intros f rest Hfu Hfo. rewrite <- app_assoc. cbn [app].
          pose proof (ps_primary _ _ _ _ _ _ _ _ P ltac:(lia) f (TSpill :: rest) Hfu ltac:(cbn [follow cont_level]; lia)) as E.
          pose proof (Hat (TSpill :: rest)) as Hat'.
          unfold p_implicit. destruct (wrap (pol_spill pol e) (pr e) ++ TSpill :: rest) as [|t r] eqn:Ets.
          - rewrite E. reflexivity.
          - destruct t; try (rewrite E; reflexivity). contradiction. }
        assert (A2 : forall f rest, S (size e) < f -> follow 2 rest ->
                   p_range m nm env (pexpr g) f ((wrap (pol_spill pol e) (pr e) ++ [TSpill]) ++ rest) = Some (ESpill e, rest)).
        { intros f rest Hfu Hfo. apply lift_range; [exact Hfo|]. apply A1; [exact Hfu|]. eapply follow_mono; [|exact Hfo]; lia. }
        apply Parses_of_tight; [lia|intro; lia|intros _; exact A1|intros _; exact A2|].
        intros f rest Hfu Hfo. apply lift_power; [|apply A2; assumption].
        rewrite <- app_assoc. apply child_head; try assumption. intro E. specialize (Hq E). lia.
    - (* ECmp *)
      negb_false. match goal with H : bad_child_with _ _ _ = false |- _ => cbn [bad_child_with] in H; apply orb_false_iff in H as [Hrl Hrr] end.
      intros g Hg. cbn [size] in Hg.
      apply (Parses_binary m nm env (pexpr g) 5 (BCmp op) (TCompare op) (size e1) (size e2)
               (wrap (pol_cmp_l pol e1) (pr e1)) (wrap (pol_cmp_r pol e2) (pr e2)) e1 e2); try reflexivity; try lia.
      + apply child_parses; try lia; [apply IHe1; assumption|]. intro E. rewrite E in Hrl. cbn [negb andb] in Hrl. apply ltb_false in Hrl. exact Hrl.
      + apply child_parses; try lia; [apply IHe2; assumption|]. intro E. rewrite E in Hrr. cbn [negb andb] in Hrr. apply ltb_false in Hrr. exact Hrr.
    - (* ENeg *)
      negb_false. match goal with H : bad_child_with _ _ _ = false |- _ => cbn [bad_child_with] in H; rename H into Hr end.
      assert (Hq : pol_neg pol e = false -> rank_x xl e <= 2).
      { intro E. rewrite E in Hr. cbn [negb andb] in Hr. apply ltb_false in Hr. exact Hr. }
      apply good_neg; [apply IHe; assumption|exact Hq|apply child_head; assumption].
    - (* EPct *)
      negb_false. match goal with H : bad_child_with _ _ _ = false |- _ => cbn [bad_child_with] in H; rename H into Hr end.
      assert (Hq : pol_pct pol e = false -> rank_x xl e <= 3).
      { intro E. rewrite E in Hr. cbn [negb andb] in Hr. apply ltb_false in Hr. exact Hr. }
      intros g Hg. cbn [size] in Hg. change (rank_x xl (EPct e)) with 3. cbn [gprint size].
      assert (P : PS (pexpr g) (S (size e)) (wrap (pol_pct pol e) (pr e)) e 3).
      { apply child_parses; try lia; [apply IHe; assumption|exact Hq]. }
      apply Parses_of_tight; [lia|intro; lia|intro; lia|intro; lia|].
      intros f rest Hfu Hfo. rewrite <- app_assoc. cbn [app].
      rewrite (ps_power _ _ _ _ _ _ _ _ P ltac:(lia) f (TPercent :: rest) Hfu) by (cbn [follow cont_level]; lia).
      reflexivity.
    - (* EErr *) apply good_err; exact Hi.
  Qed.

  (* ---- the theorem -------------------------------------------------------------------------- *)
  Theorem roundtrip e :
    image m nm env e = true -> fragment e = true -> no_bad_with pol xl e = true -> lower_stable nm e = true ->
    forall f, size e + 2 <= f -> parse_fuel m nm env f (pr e) = Some (e, []).
  Proof.
    intros Hi Hf Hb Hl f Hfu. unfold parse_fuel. destruct f as [|f']; [lia|]. cbn [p_expr].
    pose proof (good_all e Hi Hf Hb Hl f' ltac:(lia)) as P.
    pose proof (Parses_closed m nm env (pexpr f') (size e) (pr e) e (rank_x xl e) P 5 ltac:(lia)
                  ltac:(pose proof (rank_x_le_8 xl e); lia) f' [] ltac:(lia) I) as H.
    rewrite app_nil_r in H. exact H.
  Qed.
End Main.

(* every node kind is inside the proved fragment *)
Lemma fragment_all e : fragment e = true.
Proof.
  induction e using ast_rect'; cbn [fragment]; try reflexivity;
    repeat match goal with
    | H : fragment _ = true |- _ => rewrite H; clear H
    end; try reflexivity.
  all: try (apply forallb_forall; intros x Hx; rewrite Forall_forall in H; apply H; exact Hx).
  all: cbn [andb]; apply forallb_forall; intros x Hx;
    match goal with H : Forall _ _ |- _ => rewrite Forall_forall in H; apply H; exact Hx end.
Qed.

(* the theorem for any parenthesis policy: the printer with policy [pol] round-trips every tree
   that has no bad pair relative to [pol] *)
Theorem roundtrip_policy m nm env pol :
  (forall n, pol_neg pol (ENum n) = false) ->
  forall e, image m nm env e = true -> no_bad_with pol (pm_xlsx m) e = true -> lower_stable nm e = true ->
  forall f, size e + 2 <= f -> parse_fuel m nm env f (gprint m nm pol e) = Some (e, []).
Proof. intros Hn e Hi Hb Hl. apply roundtrip; try assumption. apply fragment_all. Qed.

(* [stringify] as it is *)
Theorem roundtrip_all m nm env e :
  image m nm env e = true -> no_bad (pm_xlsx m) e = true -> lower_stable nm e = true ->
  forall f, size e + 2 <= f -> parse_fuel m nm env f (print m nm e) = Some (e, []).
Proof. intros Hi Hb Hl. apply (roundtrip_policy m nm env stringify_policy); try assumption. reflexivity. Qed.

Theorem roundtrip_glued m nm env e :
  image m nm env e = true -> no_bad (pm_xlsx m) e = true -> lower_stable nm e = true ->
  glue_free (pm_rc m) (print m nm e) = true ->
  forall f, size e + 2 <= f -> parse_fuel m nm env f (glue (pm_rc m) (print m nm e)) = Some (e, []).
Proof.
  intros Hi Hb Hl Hg f Hfu. rewrite (GlueProofs.glue_id _ _ Hg). apply roundtrip_all; assumption.
Qed.
