(* Syntax/RoundTrip.v — the round-trip theorem.  (The proof is spread over
   RoundTripLevels.v: follow sets, loops, [Parses];  RoundTripNodes.v: parentheses, binary nodes;
   RoundTripArgs.v: argument lists;  RoundTripLeaves.v: references, first tokens;  this file: the
   induction.)

   [roundtrip]: for every tree [e] that the parser can return ([image]), that lies in the proved
   fragment ([fragment]: no array literal, no LAMBDA), contains no [bad_pair] ([no_bad]) and whose
   user-defined function names are in lower case ([lower_stable]),
       parse_fuel f (print e) = Some (e, [])      for every fuel f >= size e + 2,
   in every display form (any locale, any language, any cell) and in the stored R1C1 form
   ([pm_xlsx m = false]).  [roundtrip_glued] adds [glue_free], under which the lexer reads the
   printed tokens back one by one.

   Method: structural induction on [e] with the "level / follow set" generalisation packaged in
   [Parses].  The obligations that cannot be discharged are exactly [bad_child], i.e. the table
   [Shape.bad_pair] (Syntax/ShapeProofs.v), each entry of which is refuted in Syntax/Refuted.v. *)
From IronCalc Require Import Base.Prelude Codec.RefA1 Syntax.Token Syntax.Ast Syntax.Printer Syntax.Parser
  Syntax.Shape Syntax.GlueProofs Syntax.RoundTripLevels Syntax.RoundTripNodes Syntax.RoundTripArgs Syntax.RoundTripLeaves
  Syntax.RoundTripArrays.
Local Open Scope nat_scope.

Ltac split_and :=
  repeat match goal with
  | H : _ && _ = true |- _ => apply andb_true_iff in H; destruct H
  end.

Section Main.
  Variable m : pmode.
  Variable nm : names.
  Variable env : penv.
  Notation pr := (print m nm).
  Notation xl := (pm_xlsx m).
  Notation pexpr := (p_expr m nm env).
  Notation PS := (Parses m nm env).

  (* what the induction proves for a tree *)
  Definition good (e : ast) : Prop :=
    forall g, size e < g -> PS (pexpr g) (size e) (pr e) e (rank_x xl e).

  Lemma size_pos e : 1 <= size e.
  Proof. destruct e; cbn [size]; lia. Qed.

  (* the parser one parenthesis level down reads a good tree back *)
  Lemma rec_closed c g rest :
    good c -> size c + 1 < g -> follow 8 rest -> pexpr g (pr c ++ rest) = Some (c, rest).
  Proof.
    intros Hc Hg Hfo. destruct g as [|g']; [lia|]. cbn [p_expr].
    apply (Parses_closed m nm env (pexpr g') (size c) (pr c) c (rank_x xl c) (Hc g' ltac:(lia)) 5);
      [lia|pose proof (rank_x_le_8 xl c); lia|lia|exact Hfo].
  Qed.

  (* an operand as the printer writes it: bare or in parentheses *)
  Lemma child_parses g c b q n :
    good c -> size c + 1 < g -> size c <= n -> (b = false -> rank_x xl c <= q) ->
    PS (pexpr g) n (wrap b (pr c)) c q.
  Proof.
    intros Hc Hg Hn Hq. destruct b; cbn [wrap].
    - eapply Parses_weaken; [|apply Parses_paren]; [lia|].
      intros rest Hfo. apply rec_closed; assumption.
    - eapply Parses_weaken; [apply Hq; reflexivity|]. eapply Parses_weaken_n; [exact Hn|]. apply Hc. lia.
  Qed.

  Lemma child_head c b :
    image_at m nm env false c = true -> fragment c = true -> no_bad xl c = true ->
    (b = false -> rank_x xl c <= 2) -> forall rest, not_sign (wrap b (pr c) ++ rest).
  Proof.
    intros Hi Hf Hb Hq rest. destruct b; cbn [wrap]; [exact I|].
    eapply head_not_sign; [apply Hq; reflexivity|]. apply (heads m nm env); assumption.
  Qed.

  (* ---- leaves ----------------------------------------------------------------------------- *)
  Lemma no_lparen rest : follow 0 rest -> match rest with TLParen :: _ => False | _ => True end.
  Proof. destruct rest as [|t r]; [auto|]. destruct t; cbn; try auto. lia. Qed.

  Lemma good_primary e :
    rank_x xl e = 0 ->
    (forall rest, not_at (pr e ++ rest) /\ not_sign (pr e ++ rest)) ->
    (forall g f rest, size e < g -> size e < f -> follow 0 rest ->
       p_primary m nm env (pexpr g) f (pr e ++ rest) = Some (e, rest)) ->
    good e.
  Proof.
    intros Hr Hh Hp g Hg. rewrite Hr. apply Parses_of_primary; [exact Hh|].
    intros f rest Hf Hfo. apply Hp; assumption.
  Qed.

  Lemma single_heads t : is_sign t = false -> is_at t = false ->
    forall rest, not_at ([t] ++ rest) /\ not_sign ([t] ++ rest).
  Proof. intros Hs Ha rest. destruct t; try discriminate; split; exact I. Qed.

  Lemma ident_primary rec f name rest :
    follow 0 rest ->
    p_primary m nm env rec f (TIdent name :: rest) =
    match sheet_index env None with
    | None => None
    | Some ci =>
      match get_defined_name nm env name ci with
      | Some (sc, fo) => Some (EDefName name sc fo, rest)
      | None => if is_table nm env name then Some (ETable name, rest)
                else Some (EVar (trim_start t_xlpm name) None, rest)
      end
    end.
  Proof.
    intro Hfo. apply no_lparen in Hfo. cbn [p_primary].
    destruct rest as [|t r]; [reflexivity|]. destruct t; try reflexivity. contradiction.
  Qed.

  (* ---- arguments -------------------------------------------------------------------------- *)
  Lemma image_arg a : a <> EEmpty -> image_at m nm env true a = image_at m nm env false a.
  Proof. destruct a; try reflexivity. congruence. Qed.

  Lemma length_le_sizes (args : list ast) : length args <= fold_right (fun a n => size a + n) 0 args.
  Proof. induction args as [|a tl IH]; cbn [length fold_right]; [lia|]. pose proof (size_pos a). lia. Qed.

  Lemma size_in_args a (args : list ast) : In a args -> size a <= fold_right (fun a n => size a + n) 0 args.
  Proof.
    induction args as [|x tl IH]; cbn [In fold_right]; [tauto|]. intros [->|H]; [lia|]. specialize (IH H). lia.
  Qed.

  Lemma args_good (args : list ast) g :
    Forall (fun a => image_at m nm env false a = true -> fragment a = true -> no_bad xl a = true ->
                     lower_stable nm a = true -> good a) args ->
    forallb (image_at m nm env true) args = true -> forallb fragment args = true ->
    forallb (no_bad xl) args = true -> forallb (lower_stable nm) args = true ->
    fold_right (fun a n => size a + n) 0 args + 1 < g ->
    Forall (arg_good m nm (pexpr g)) args.
  Proof.
    intros HF. induction HF as [|a tl Ha _ IH]; intros Hi Hf Hb Hl Hg; [constructor|].
    cbn [forallb fold_right] in *. split_and. constructor.
    - destruct a; try (left; reflexivity); right.
      all: match goal with |- context [pr ?a] =>
        assert (Hne : a <> EEmpty) by discriminate;
        rewrite (image_arg _ Hne) in *;
        split;
        [ destruct (heads m nm env a) as (t & r & E & Hs & _); try assumption;
          exists t, r; split; [exact E|apply startb_start; exact Hs]
        | intros rest' Hfo; apply rec_closed; [apply Ha; assumption| |exact Hfo] ] end.
      all: cbn [size fold_right] in *; lia.
    - apply IH; try assumption. lia.
  Qed.

  (* "name ( args )" when the call parses its arguments with [args_then_rparen] *)
  Lemma call_tokens (tok : token) args rest :
    (tok :: TLParen :: join (sep_token (arg_sep m)) (map pr args) ++ [TRParen]) ++ rest
    = tok :: TLParen :: (join (sep_token (parse_arg_sep m)) (map pr args) ++ TRParen :: rest).
  Proof. cbn [app]. rewrite <- app_assoc. reflexivity. Qed.

  Ltac negb_false :=
    repeat match goal with
    | H : negb _ = true |- _ => apply negb_true_iff in H
    end.

  (* ---- leaves and "-n", also used for array elements ------------------------------------- *)
  Lemma good_bool b : good (EBool b).
  Proof.
    apply good_primary; [reflexivity|apply single_heads; reflexivity|].
    intros g f rest _ _ Hfo. apply no_lparen in Hfo. cbn [print app p_primary].
    destruct rest as [|t r]; [reflexivity|]. destruct t; try reflexivity. contradiction.
  Qed.
  Lemma good_num n : good (ENum n).
  Proof. apply good_primary; [reflexivity|apply single_heads; reflexivity|]. reflexivity. Qed.
  Lemma good_str s : good (EStr s).
  Proof. apply good_primary; [reflexivity|apply single_heads; reflexivity|]. reflexivity. Qed.
  Lemma good_err k : is_terror k (err_tokens nm k) = true -> good (EErr k).
  Proof.
    intro Hi. unfold is_terror in Hi. destruct (err_tokens nm k) as [|t l] eqn:E; [discriminate|].
    destruct t; try discriminate. destruct l; [|discriminate]. apply Z.eqb_eq in Hi. subst e.
    assert (Hp : pr (EErr k) = [TError k]) by (cbn [print]; exact E).
    apply good_primary; [reflexivity|rewrite Hp; apply single_heads; reflexivity|].
    intros g f rest _ _ _. rewrite Hp. reflexivity.
  Qed.

  Lemma good_neg c :
    good c -> (neg_parens c = false -> rank_x xl c <= 2) ->
    (forall rest, not_sign (wrap (neg_parens c) (pr c) ++ rest)) -> good (ENeg c).
  Proof.
    intros Hc Hq Hh g Hg. cbn [size] in Hg. change (rank_x xl (ENeg c)) with 3. cbn [print size].
    assert (P : PS (pexpr g) (S (size c)) (wrap (neg_parens c) (pr c)) c 2).
    { apply child_parses; try lia; assumption. }
    apply Parses_of_tight; [lia|intro; lia|intro; lia|intro; lia|].
    intros f rest Hfu Hfo. cbn [app]. unfold p_power. cbn [skip_signs negb].
    rewrite skip_signs_none by apply Hh.
    rewrite (ps_range _ _ _ _ _ _ _ _ P ltac:(lia) f rest Hfu Hfo). reflexivity.
  Qed.

  Lemma good_elem a : aelem_ok nm a = true -> good (ast_of_aelem a).
  Proof.
    destruct a as [b|[|] n|s|k|]; cbn [ast_of_aelem aelem_ok]; intro H; try discriminate.
    - apply good_bool.
    - apply good_neg; [apply good_num|intros _; cbn; lia|intro rest; exact I].
    - apply good_num.
    - apply good_str.
    - apply good_err; exact H.
  Qed.

  Lemma size_elem a : size (ast_of_aelem a) <= 2.
  Proof. destruct a as [b|[|] n|s|k|]; cbn; lia. Qed.

  Lemma rec_elem_ok g : 4 <= g -> forall a rest, aelem_ok nm a = true -> follow 8 rest ->
    pexpr g (print_aelem nm a ++ rest) = Some (ast_of_aelem a, rest).
  Proof.
    intros Hg a rest Ha Hfo. rewrite <- (print_ast_of_aelem m nm a).
    apply rec_closed; [apply good_elem; exact Ha|pose proof (size_elem a); lia|exact Hfo].
  Qed.

  Lemma rows_ok (r0 : list aelem) (rs : list (list aelem)) :
    negb (Nat.eqb (length r0) 0) = true ->
    forallb (fun r => Nat.eqb (length r) (length r0)) rs = true ->
    forallb (forallb (aelem_ok nm)) rs = true ->
    Forall (row_ok nm (length r0)) rs.
  Proof.
    intros H0. apply negb_true_iff in H0. apply Nat.eqb_neq in H0.
    induction rs as [|r rs IH]; intros Hl Ho; [constructor|].
    cbn [forallb] in Hl, Ho. apply andb_true_iff in Hl as [Hl1 Hl2]. apply andb_true_iff in Ho as [Ho1 Ho2].
    apply Nat.eqb_eq in Hl1. constructor; [|apply IH; assumption].
    repeat split; [exact Hl1|lia|exact Ho1].
  Qed.

  Lemma fold_lengths_ge (r0 : list aelem) rs :
    length r0 <= fold_right (fun r n => length r + n) 0 (r0 :: rs).
  Proof. cbn [fold_right]. lia. Qed.

  (* ---- the induction ---------------------------------------------------------------------- *)
  Theorem good_all e :
    image_at m nm env false e = true -> fragment e = true -> no_bad xl e = true ->
    lower_stable nm e = true -> good e.
  Proof.
    induction e using ast_rect'; intros Hi Hf Hb Hl;
      cbn [image_at fragment no_bad lower_stable] in Hi, Hf, Hb, Hl; try discriminate; split_and.
    - (* EBool *) apply good_bool.
    - (* ENum *) apply good_num.
    - (* EStr *) apply good_str.
    - (* ERef *) unfold pref_ok in *. destruct (print_pref m p) as [q|] eqn:E; [|discriminate].
      assert (Hp : pr (ERef s i p) = [TReference s q]) by (cbn [print]; unfold print_ref; rewrite E; reflexivity).
      apply good_primary; [reflexivity|rewrite Hp; apply single_heads; reflexivity|].
      intros g f rest _ _ _. rewrite Hp. cbn [app p_primary]. rewrite (parse_print_pref m _ _ E).
      destruct i as [i|], (sheet_index env s) as [j|]; cbn [opt_z_eqb] in *; try discriminate; [|reflexivity].
      match goal with H : (i =? j)%Z = true |- _ => apply Z.eqb_eq in H; subst end. reflexivity.
    - (* ERange *) match goal with H : range_ok m p q = true |- _ => destruct (parse_range_ok m p q H) as (q1 & q2 & E1 & E2 & E3) end.
      assert (Hp : pr (ERange s i p q) = [TRange s q1 q2]) by (cbn [print]; unfold print_range; rewrite E1, E2; reflexivity).
      apply good_primary; [reflexivity|rewrite Hp; apply single_heads; reflexivity|].
      intros g f rest _ _ _. rewrite Hp. cbn [app p_primary]. rewrite E3.
      destruct i as [i|], (sheet_index env s) as [j|]; cbn [opt_z_eqb] in *; try discriminate; [|reflexivity].
      match goal with H : (i =? j)%Z = true |- _ => apply Z.eqb_eq in H; subst end. reflexivity.
    - (* ERangeOp *)
      negb_false. match goal with H : bad_child _ _ = false |- _ => cbn [bad_child] in H; apply orb_false_iff in H as [Hrl Hrr] end.
      apply ltb_false in Hrl, Hrr.
      intros g Hg. cbn [size] in Hg. change (rank_x xl (ERangeOp e1 e2)) with 2. cbn [print size].
      assert (P1 : PS (pexpr g) (S (size e1 + size e2)) (pr e1) e1 1).
      { eapply Parses_weaken; [exact Hrl|]. eapply Parses_weaken_n; [|apply IHe1; try assumption; lia]. lia. }
      assert (P2 : PS (pexpr g) (S (size e1 + size e2)) (pr e2) e2 0).
      { eapply Parses_weaken; [exact Hrr|]. eapply Parses_weaken_n; [|apply IHe2; try assumption; lia]. lia. }
      assert (A2 : forall f rest, S (size e1 + size e2) < f -> follow 2 rest ->
                 p_range m nm env (pexpr g) f ((pr e1 ++ TColon :: pr e2) ++ rest) = Some (ERangeOp e1 e2, rest)).
      { intros f rest Hfu Hfo. rewrite app_cons_assoc. unfold p_range.
        rewrite (ps_implicit _ _ _ _ _ _ _ _ P1 ltac:(lia) f _ Hfu) by (cbn [follow cont_level]; lia).
        rewrite (ps_primary _ _ _ _ _ _ _ _ P2 ltac:(lia) f _ Hfu) by (eapply follow_mono; [|exact Hfo]; lia).
        reflexivity. }
      apply Parses_of_tight; [lia|intro; lia|intro; lia|intros _; exact A2|].
      intros f rest Hfu Hfo. apply lift_power; [|apply A2; assumption].
      rewrite <- app_assoc. eapply head_not_sign; [|apply (heads m nm env); eassumption]. lia.
    - (* EConcat *)
      negb_false. match goal with H : bad_child _ _ = false |- _ => cbn [bad_child] in H; apply orb_false_iff in H as [Hrl Hrr] end.
      apply ltb_false in Hrl, Hrr.
      intros g Hg. cbn [size] in Hg.
      apply (Parses_binary m nm env (pexpr g) 4 BConcat TAnd (size e1) (size e2) (pr e1) (pr e2) e1 e2); try reflexivity; try lia.
      + eapply Parses_weaken; [|apply IHe1; try assumption; lia]. exact Hrl.
      + eapply Parses_weaken; [|apply IHe2; try assumption; lia]. exact Hrr.
    - (* ESum *)
      negb_false. match goal with H : bad_child _ _ = false |- _ => cbn [bad_child] in H; apply orb_false_iff in H as [Hrl Hrr] end.
      intros g Hg. cbn [size] in Hg.
      apply (Parses_binary m nm env (pexpr g) 3 (BSum op) (TAddition op) (size e1) (size e2)
               (wrap (sum_left_parens e1) (pr e1)) (wrap (sum_right_parens op e2) (pr e2)) e1 e2); try reflexivity; try lia.
      + apply child_parses; try lia; [apply IHe1; assumption|]. intro E. rewrite E in Hrl. cbn [negb andb] in Hrl. apply ltb_false in Hrl. exact Hrl.
      + apply child_parses; try lia; [apply IHe2; assumption|]. intro E. rewrite E in Hrr. cbn [negb andb] in Hrr. apply ltb_false in Hrr. exact Hrr.
    - (* EProd *)
      negb_false. match goal with H : bad_child _ _ = false |- _ => cbn [bad_child] in H; apply orb_false_iff in H as [Hrl Hrr] end.
      intros g Hg. cbn [size] in Hg.
      apply (Parses_binary m nm env (pexpr g) 2 (BProd op) (TProduct op) (size e1) (size e2)
               (wrap (prod_left_parens e1) (pr e1)) (wrap (prod_right_parens e2) (pr e2)) e1 e2); try reflexivity; try lia.
      + apply child_parses; try lia; [apply IHe1; assumption|]. intro E. rewrite E in Hrl. cbn [negb andb] in Hrl. apply ltb_false in Hrl. exact Hrl.
      + apply child_parses; try lia; [apply IHe2; assumption|]. intro E. rewrite E in Hrr. cbn [negb andb] in Hrr. apply ltb_false in Hrr. exact Hrr.
    - (* EPow *)
      negb_false. match goal with H : bad_child _ _ = false |- _ => cbn [bad_child] in H; apply orb_false_iff in H as [Hrl Hrr] end.
      intros g Hg. cbn [size] in Hg.
      apply (Parses_binary m nm env (pexpr g) 1 BPow TPower (size e1) (size e2)
               (wrap (pow_left_parens e1) (pr e1)) (wrap (pow_right_parens e2) (pr e2)) e1 e2); try reflexivity; try lia.
      + apply child_parses; try lia; [apply IHe1; assumption|]. intro E. rewrite E in Hrl. cbn [negb andb] in Hrl. apply ltb_false in Hrl. exact Hrl.
      + apply child_parses; try lia; [apply IHe2; assumption|]. intro E. rewrite E in Hrr. cbn [negb andb] in Hrr. apply ltb_false in Hrr. exact Hrr.
    - (* EFun *)
      apply good_primary; [reflexivity| |].
      { intro rest. cbn [print]. destruct (bool_of_name nm (fn_name nm f)); split; exact I. }
      intros g fu rest Hg Hfu _. cbn [size] in Hg, Hfu. cbn [print]. rewrite call_tokens.
      assert (HA : args_then_rparen m (pexpr g) fu (join (sep_token (parse_arg_sep m)) (map pr args) ++ TRParen :: rest) = Some (args, rest)).
      { apply args_then_rparen_ok; [pose proof (length_le_sizes args); lia|assumption|].
        eapply args_good; try eassumption. lia. }
      unfold fun_name_ok in *. destruct (bool_of_name nm (fn_name nm f)) as [b|].
      + cbn [p_primary]. rewrite HA.
        match goal with H : (f =? _)%Z = true |- _ => apply Z.eqb_eq in H; rewrite <- H end. reflexivity.
      + cbn [p_primary]. unfold parse_call. split_and. negb_false.
        repeat match goal with H : text_eqb _ _ = false |- _ => rewrite H; clear H end. cbn [orb].
        rewrite HA.
        destruct (fn_lookup nm (trim_start (t_xlfn ++ t_xlws) (fn_name nm f))) as [k|].
        * match goal with H : (k =? f)%Z = true |- _ => apply Z.eqb_eq in H; subst end. reflexivity.
        * destruct (fn_lookup nm (trim_start t_xlfn (fn_name nm f))) as [k|]; [|discriminate].
          match goal with H : (k =? f)%Z = true |- _ => apply Z.eqb_eq in H; subst end. reflexivity.
    - (* ENamedFun *)
      destruct id; [discriminate|].
      match goal with H : text_eqb (nm_lower nm name) name = true |- _ => apply text_eqb_eq in H; rename H into Hlow end.
      apply good_primary; [reflexivity|intro rest; split; exact I|].
      intros g fu rest Hg Hfu _. cbn [size] in Hg, Hfu. cbn [print]. rewrite call_tokens. rewrite Hlow.
      assert (HA : args_then_rparen m (pexpr g) fu (join (sep_token (parse_arg_sep m)) (map pr args) ++ TRParen :: rest) = Some (args, rest)).
      { apply args_then_rparen_ok; [pose proof (length_le_sizes args); lia|assumption|].
        eapply args_good; try eassumption. lia. }
      unfold named_fun_ok in *. destruct (bool_of_name nm name); [discriminate|].
      cbn [p_primary]. unfold parse_call. split_and. negb_false.
      match goal with H : text_eqb (trim_start t_xlpm name) name = true |- _ => apply text_eqb_eq in H; rename H into Htrim end.
      repeat match goal with H : text_eqb _ _ = false |- _ => rewrite H; clear H end. cbn [orb].
      rewrite HA.
      destruct (fn_lookup nm (trim_start (t_xlfn ++ t_xlws) name)); [discriminate|].
      destruct (fn_lookup nm (trim_start t_xlfn name)); [discriminate|].
      rewrite Htrim. reflexivity.
    - (* EArray *)
      destruct rows as [|r0 rs]; [discriminate|]. split_and.
      apply good_primary; [reflexivity|intro rest; split; exact I|].
      intros g fu rest Hg Hfu _. cbn [size] in Hg, Hfu. pose proof (fold_lengths_ge r0 rs) as Hfl.
      cbn [print app]. rewrite <- app_assoc. cbn [app].
      apply (array_primary_ok m nm env (pexpr g) (rec_elem_ok g ltac:(cbn [length] in Hg; lia)) rest r0 rs fu).
      + match goal with H : pm_dot m || _ = true |- _ => apply orb_true_iff in H as [H|H]; [left; exact H|right] end.
        cbn [length] in *. destruct rs; [reflexivity|discriminate].
      + cbn [length] in Hfu. lia.
      + apply rows_ok; assumption.
    - (* EDefName *)
      apply good_primary; [reflexivity|apply single_heads; reflexivity|].
      intros g fu rest _ _ Hfo. cbn [print app]. rewrite ident_primary by exact Hfo.
      destruct (sheet_index env None) as [ci|]; [|discriminate].
      destruct (get_defined_name nm env n ci) as [[sc fo]|]; [|discriminate]. split_and.
      match goal with H : text_eqb f fo = true |- _ => apply text_eqb_eq in H; subst end.
      destruct s as [s|], sc as [sc|]; cbn [opt_z_eqb] in *; try discriminate; [|reflexivity].
      match goal with H : (s =? sc)%Z = true |- _ => apply Z.eqb_eq in H; subst end. reflexivity.
    - (* ETable *)
      apply good_primary; [reflexivity|apply single_heads; reflexivity|].
      intros g fu rest _ _ Hfo. cbn [print app]. rewrite ident_primary by exact Hfo.
      destruct (sheet_index env None) as [ci|]; [|discriminate].
      destruct (get_defined_name nm env n ci); [discriminate|]. rewrite Hi. reflexivity.
    - (* EVar *)
      destruct i; [discriminate|].
      apply good_primary; [reflexivity|apply single_heads; reflexivity|].
      intros g fu rest _ _ Hfo. cbn [print app]. rewrite ident_primary by exact Hfo.
      unfold var_ok in *. destruct (sheet_index env None) as [ci|]; [|discriminate].
      destruct (get_defined_name nm env n ci); [discriminate|]. split_and. negb_false.
      match goal with H : is_table nm env n = false |- _ => rewrite H end.
      match goal with H : text_eqb (trim_start t_xlpm n) n = true |- _ => apply text_eqb_eq in H; rewrite H end.
      reflexivity.
    - (* EAt *)
      negb_false. subst a. unfold xl_call_ok in *.
      match goal with H : bad_child _ _ = false |- _ => cbn [bad_child] in H; rename H into Hr end.
      destruct xl eqn:Hx; cbn [negb andb orb] in *.
      + (* xlsx form: _xlfn.SINGLE(e) *)
        negb_false.
        apply good_primary; [rewrite Hx; reflexivity|intro rest; cbn [print]; rewrite Hx; split; exact I|].
        intros g fu rest Hg Hfu _. cbn [size] in Hg, Hfu. cbn [print]. rewrite Hx.
        assert (HA : args_then_rparen m (pexpr g) fu (join (sep_token (parse_arg_sep m)) (map pr [e]) ++ TRParen :: rest) = Some ([e], rest)).
        { apply args_then_rparen_ok; [cbn [length]; lia|destruct e; try reflexivity; discriminate|].
          eapply args_good with (args := [e]).
          - constructor; [|constructor]. rewrite ?Hx. intros. apply IHe; assumption.
          - cbn [forallb]. rewrite andb_true_r. destruct e; try assumption; discriminate.
          - cbn [forallb]. rewrite andb_true_r, ?Hx. assumption.
          - cbn [forallb]. rewrite andb_true_r, ?Hx. assumption.
          - cbn [forallb]. rewrite andb_true_r, ?Hx. assumption.
          - cbn [fold_right]. lia. }
        cbn [map join] in HA. cbn [app p_primary]. rewrite <- app_assoc. cbn [app]. unfold parse_call.
        match goal with H : text_eqb (nm_upper nm t_xlfn_single) t_lambda = false |- _ => rewrite H end.
        change (text_eqb t_xlfn_single t_xlfn_lambda) with false. cbn [orb].
        rewrite HA. change (text_eqb t_xlfn_single t_xlfn_single) with true. reflexivity.
      + apply ltb_false in Hr.
        intros g Hg. cbn [size] in Hg. rewrite Hx. change (rank_x false (EAt false e)) with 1. cbn [print size]. rewrite Hx.
        assert (P : PS (pexpr g) (S (size e)) (pr e) e 0).
        { eapply Parses_weaken; [exact Hr|]. eapply Parses_weaken_n; [|rewrite <- Hx; apply IHe; try assumption; try lia; rewrite Hx; assumption]. lia. }
        assert (A1 : forall f rest, S (size e) < f -> follow 1 rest ->
                   p_implicit m nm env (pexpr g) f ((TAt :: pr e) ++ rest) = Some (EAt false e, rest)).
        { intros f rest Hfu Hfo. cbn [app p_implicit].
          rewrite (ps_primary _ _ _ _ _ _ _ _ P ltac:(lia) f _ Hfu) by (eapply follow_mono; [|exact Hfo]; lia).
          reflexivity. }
        assert (A2 : forall f rest, S (size e) < f -> follow 2 rest ->
                   p_range m nm env (pexpr g) f ((TAt :: pr e) ++ rest) = Some (EAt false e, rest)).
        { intros f rest Hfu Hfo. apply lift_range; [exact Hfo|]. apply A1; [exact Hfu|]. eapply follow_mono; [|exact Hfo]; lia. }
        apply Parses_of_tight; [lia|intro; lia|intros _; exact A1|intros _; exact A2|].
        intros f rest Hfu Hfo. apply lift_power; [exact I|apply A2; assumption].
    - (* ESpill *)
      negb_false. unfold xl_call_ok in *.
      match goal with H : bad_child _ _ = false |- _ => cbn [bad_child] in H; rename H into Hr end.
      destruct xl eqn:Hx; cbn [negb andb orb] in *.
      + (* xlsx form: _xlfn.ANCHORARRAY(e) *)
        negb_false.
        apply good_primary; [rewrite Hx; reflexivity|intro rest; cbn [print]; rewrite Hx; split; exact I|].
        intros g fu rest Hg Hfu _. cbn [size] in Hg, Hfu. cbn [print]. rewrite Hx.
        assert (HA : args_then_rparen m (pexpr g) fu (join (sep_token (parse_arg_sep m)) (map pr [e]) ++ TRParen :: rest) = Some ([e], rest)).
        { apply args_then_rparen_ok; [cbn [length]; lia|destruct e; try reflexivity; discriminate|].
          eapply args_good with (args := [e]).
          - constructor; [|constructor]. rewrite ?Hx. intros. apply IHe; assumption.
          - cbn [forallb]. rewrite andb_true_r. destruct e; try assumption; discriminate.
          - cbn [forallb]. rewrite andb_true_r, ?Hx. assumption.
          - cbn [forallb]. rewrite andb_true_r, ?Hx. assumption.
          - cbn [forallb]. rewrite andb_true_r, ?Hx. assumption.
          - cbn [fold_right]. lia. }
        cbn [map join] in HA. cbn [app p_primary]. rewrite <- app_assoc. cbn [app]. unfold parse_call.
        match goal with H : text_eqb (nm_upper nm t_xlfn_anchor) t_lambda = false |- _ => rewrite H end.
        change (text_eqb t_xlfn_anchor t_xlfn_lambda) with false. cbn [orb].
        rewrite HA. change (text_eqb t_xlfn_anchor t_xlfn_single) with false.
        change (text_eqb t_xlfn_anchor t_xlfn_anchor) with true. reflexivity.
      + apply ltb_false in Hr.
        intros g Hg. cbn [size] in Hg. rewrite Hx. change (rank_x false (ESpill e)) with 1. cbn [print size]. rewrite Hx.
        assert (P : PS (pexpr g) (S (size e)) (pr e) e 0).
        { eapply Parses_weaken; [exact Hr|]. eapply Parses_weaken_n; [|rewrite <- Hx; apply IHe; try assumption; try lia; rewrite Hx; assumption]. lia. }
        assert (Hh : head_spec (rank_x false e) (pr e)).
        { rewrite <- Hx. apply (heads m nm env); try assumption. rewrite Hx. assumption. }
        assert (A1 : forall f rest, S (size e) < f -> follow 1 rest ->
                   p_implicit m nm env (pexpr g) f ((pr e ++ [TSpill]) ++ rest) = Some (ESpill e, rest)).
        { intros f rest Hfu Hfo. rewrite <- app_assoc. cbn [app].
          pose proof (ps_primary _ _ _ _ _ _ _ _ P ltac:(lia) f (TSpill :: rest) Hfu ltac:(cbn [follow cont_level]; lia)) as E.
          pose proof (head_not_at (rank_x false e) (pr e) (TSpill :: rest) ltac:(lia) Hh) as Hat.
          unfold p_implicit. destruct (pr e ++ TSpill :: rest) as [|t r] eqn:Ets.
          - rewrite E. reflexivity.
          - destruct t; try (rewrite E; reflexivity). contradiction. }
        assert (A2 : forall f rest, S (size e) < f -> follow 2 rest ->
                   p_range m nm env (pexpr g) f ((pr e ++ [TSpill]) ++ rest) = Some (ESpill e, rest)).
        { intros f rest Hfu Hfo. apply lift_range; [exact Hfo|]. apply A1; [exact Hfu|]. eapply follow_mono; [|exact Hfo]; lia. }
        apply Parses_of_tight; [lia|intro; lia|intros _; exact A1|intros _; exact A2|].
        intros f rest Hfu Hfo. apply lift_power; [|apply A2; assumption].
        rewrite <- app_assoc. eapply head_not_sign; [|exact Hh]. lia.
    - (* ECmp *)
      negb_false. match goal with H : bad_child _ _ = false |- _ => cbn [bad_child] in H; apply orb_false_iff in H as [Hrl Hrr] end.
      apply ltb_false in Hrl, Hrr.
      intros g Hg. cbn [size] in Hg.
      apply (Parses_binary m nm env (pexpr g) 5 (BCmp op) (TCompare op) (size e1) (size e2) (pr e1) (pr e2) e1 e2); try reflexivity; try lia.
      + eapply Parses_weaken; [|apply IHe1; try assumption; lia]. exact Hrl.
      + eapply Parses_weaken; [|apply IHe2; try assumption; lia]. exact Hrr.
    - (* ENeg *)
      negb_false. match goal with H : bad_child _ _ = false |- _ => cbn [bad_child] in H; rename H into Hr end.
      assert (Hq : neg_parens e = false -> rank_x xl e <= 2).
      { intro E. rewrite E in Hr. cbn [negb andb] in Hr. apply ltb_false in Hr. exact Hr. }
      apply good_neg; [apply IHe; assumption|exact Hq|apply child_head; assumption].
    - (* EPct *)
      negb_false. match goal with H : bad_child _ _ = false |- _ => cbn [bad_child] in H; rename H into Hr end.
      assert (Hq : rank_x xl e <= 3).
      { destruct e; cbn [rank_x rank rank_of_kind kind_of] in *; try lia; try (destruct xl; lia); apply ltb_false in Hr; lia. }
      intros g Hg. cbn [size] in Hg. change (rank_x xl (EPct e)) with 3. cbn [print size].
      assert (P : PS (pexpr g) (S (size e)) (pr e) e 3).
      { eapply Parses_weaken; [exact Hq|]. eapply Parses_weaken_n; [|apply IHe; try assumption; lia]. lia. }
      apply Parses_of_tight; [lia|intro; lia|intro; lia|intro; lia|].
      intros f rest Hfu Hfo. rewrite <- app_assoc. cbn [app].
      rewrite (ps_power _ _ _ _ _ _ _ _ P ltac:(lia) f (TPercent :: rest) Hfu) by (cbn [follow cont_level]; lia).
      reflexivity.
    - (* EErr *) apply good_err; exact Hi.
  Qed.

  (* ---- the theorem -------------------------------------------------------------------------- *)
  Theorem roundtrip e :
    image m nm env e = true -> fragment e = true -> no_bad xl e = true -> lower_stable nm e = true ->
    forall f, size e + 2 <= f -> parse_fuel m nm env f (pr e) = Some (e, []).
  Proof.
    intros Hi Hf Hb Hl f Hfu. unfold parse_fuel. destruct f as [|f']; [lia|]. cbn [p_expr].
    pose proof (good_all e Hi Hf Hb Hl f' ltac:(lia)) as P.
    pose proof (Parses_closed m nm env (pexpr f') (size e) (pr e) e (rank_x xl e) P 5 ltac:(lia)
                  ltac:(pose proof (rank_x_le_8 xl e); lia) f' [] ltac:(lia) I) as H.
    rewrite app_nil_r in H. exact H.
  Qed.
End Main.

Theorem roundtrip_glued m nm env :
  forall e, image m nm env e = true -> fragment e = true -> no_bad (pm_xlsx m) e = true -> lower_stable nm e = true ->
  glue_free (pm_rc m) (print m nm e) = true ->
  forall f, size e + 2 <= f -> parse_fuel m nm env f (glue (pm_rc m) (print m nm e)) = Some (e, []).
Proof.
  intros e Hi Hf Hb Hl Hg f Hfu. rewrite (GlueProofs.glue_id _ _ Hg). apply roundtrip; assumption.
Qed.
