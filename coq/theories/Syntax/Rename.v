(* Syntax/Rename.v — sheet rename, move and duplicate at the level of syntax trees and sheet lists.

   Mirrors (as of commit 059fa54; F12 repaired by 059fa54, F65 by 9f60d5e):
     [rename_node]        rename_sheet_in_node      (expressions/parser/stringify.rs:1230), arm by arm
     [rename_stored]      the per-formula step of Model::rename_sheet_by_index (new_empty.rs):
                          parse the stored text with the English locale and language (as parse_formulas
                          does; since 9f60d5e), apply the pass, print with to_rc_format; a ParseErrorKind
                          prints the original text
     [rename_check]       the validation in front of it (is_valid_sheet_name, "Sheet already exists")
     [env_renamed]        what the parser knows after worksheet.set_name + reset_parsed_structures
     [move_list]          Model::move_sheet (new_empty.rs:556): remove(i) ; insert(j)
     [dup_node], [env_dup] the retargeting pass of Model::duplicate_sheet (new_empty.rs:303) and the
                          parser environment of the copy
   No proofs in this file (Syntax/RenameProofs.v). *)
From IronCalc Require Import Base.Prelude Codec.RefA1 Syntax.Token Syntax.Ast Syntax.Printer Syntax.Parser.

Definition is_some {A} (o : option A) : bool := match o with Some _ => true | None => false end.

(* ---- rename_sheet_in_node ------------------------------------------------------------------- *)
(* ReferenceKind / RangeKind: "if *index == sheet_index && sheet_name.is_some() { *sheet_name = Some(new_name) }" *)
Definition rename_valid (i : Z) (n : text) (s : option text) (k : Z) : option text :=
  if (k =? i) && is_some s then Some n else s.

(* WrongReferenceKind: "if let Some(name) = sheet_name { if name.to_uppercase() == new_name.to_uppercase()
   { *sheet_name = Some(name.to_owned()) } }" — both branches leave the name as it is *)
Definition rename_wrong_ref (n : text) (s : option text) : option text :=
  match s with Some name => Some name | None => None end.

(* WrongRangeKind: the arm is empty since commit 059fa54 (before, every range on a nonexistent sheet
   got the new name: finding F12) *)
Definition rename_wrong_range (n : text) (s : option text) : option text := s.

Fixpoint rename_node (i : Z) (n : text) (e : ast) : ast :=
  match e with
  | ERef s idx p =>
      ERef (match idx with Some k => rename_valid i n s k | None => rename_wrong_ref n s end) idx p
  | ERange s idx p q =>
      ERange (match idx with Some k => rename_valid i n s k | None => rename_wrong_range n s end) idx p q
  | ERangeOp l r => ERangeOp (rename_node i n l) (rename_node i n r)
  | EConcat l r => EConcat (rename_node i n l) (rename_node i n r)
  | ESum op l r => ESum op (rename_node i n l) (rename_node i n r)
  | EProd op l r => EProd op (rename_node i n l) (rename_node i n r)
  | EPow l r => EPow (rename_node i n l) (rename_node i n r)
  | EFun f args => EFun f (map (rename_node i n) args)
  | ENamedFun id name args => ENamedFun id name (map (rename_node i n) args)
  | ECmp op l r => ECmp op (rename_node i n l) (rename_node i n r)
  | ENeg c => ENeg (rename_node i n c)
  | EPct c => EPct (rename_node i n c)
  | EAt a c => EAt a (rename_node i n c)
  | ESpill c => ESpill (rename_node i n c)
  | ELambdaDef ps body => ELambdaDef ps (rename_node i n body)
  | ELambdaCall lam args => ELambdaCall (rename_node i n lam) (map (rename_node i n) args)
  | EBool _ | ENum _ | EStr _ | EErr _ | EParseError | EArray _ | EDefName _ _ _ | ETable _
  | EVar _ _ | EEmpty => e
  end.

(* ---- the statement: nothing changes but the sheet name of references to the renamed sheet ------ *)
(* what the sheet-name field of a reference / range must be afterwards: the new name iff the node
   resolved to the renamed sheet (idx = Some i) and carried an explicit name *)
Definition target_field (i : Z) (n : text) (s : option text) (idx : option Z) : option text :=
  match idx, s with
  | Some k, Some _ => if k =? i then Some n else s
  | _, _ => s
  end.

Definition is_leaf (e : ast) : bool :=
  match e with
  | EBool _ | ENum _ | EStr _ | EErr _ | EParseError | EArray _ | EDefName _ _ _ | ETable _
  | EVar _ _ | EEmpty => true
  | _ => false
  end.

Inductive only_target (i : Z) (n : text) : ast -> ast -> Prop :=
| OT_ref s idx p : only_target i n (ERef s idx p) (ERef (target_field i n s idx) idx p)
| OT_range s idx p q : only_target i n (ERange s idx p q) (ERange (target_field i n s idx) idx p q)
| OT_rangeop l r l' r' : only_target i n l l' -> only_target i n r r' -> only_target i n (ERangeOp l r) (ERangeOp l' r')
| OT_concat l r l' r' : only_target i n l l' -> only_target i n r r' -> only_target i n (EConcat l r) (EConcat l' r')
| OT_sum op l r l' r' : only_target i n l l' -> only_target i n r r' -> only_target i n (ESum op l r) (ESum op l' r')
| OT_prod op l r l' r' : only_target i n l l' -> only_target i n r r' -> only_target i n (EProd op l r) (EProd op l' r')
| OT_pow l r l' r' : only_target i n l l' -> only_target i n r r' -> only_target i n (EPow l r) (EPow l' r')
| OT_cmp op l r l' r' : only_target i n l l' -> only_target i n r r' -> only_target i n (ECmp op l r) (ECmp op l' r')
| OT_fun f a a' : Forall2 (only_target i n) a a' -> only_target i n (EFun f a) (EFun f a')
| OT_namedfun id name a a' : Forall2 (only_target i n) a a' -> only_target i n (ENamedFun id name a) (ENamedFun id name a')
| OT_neg c c' : only_target i n c c' -> only_target i n (ENeg c) (ENeg c')
| OT_pct c c' : only_target i n c c' -> only_target i n (EPct c) (EPct c')
| OT_at a c c' : only_target i n c c' -> only_target i n (EAt a c) (EAt a c')
| OT_spill c c' : only_target i n c c' -> only_target i n (ESpill c) (ESpill c')
| OT_lambdadef ps b b' : only_target i n b b' -> only_target i n (ELambdaDef ps b) (ELambdaDef ps b')
| OT_lambdacall l l' a a' : only_target i n l l' -> Forall2 (only_target i n) a a' ->
                            only_target i n (ELambdaCall l a) (ELambdaCall l' a')
| OT_leaf e : is_leaf e = true -> only_target i n e e.

(* the class the pass got wrong before commit 059fa54 (F12): a range on a sheet that does not exist,
   with its name.  Kept for the regression examples only. *)
Fixpoint no_ghost_range (e : ast) : bool :=
  match e with
  | ERange (Some _) None _ _ => false
  | ERangeOp l r | EConcat l r | ESum _ l r | EProd _ l r | EPow l r | ECmp _ l r =>
      no_ghost_range l && no_ghost_range r
  | EFun _ args | ENamedFun _ _ args => forallb no_ghost_range args
  | ELambdaDef _ body => no_ghost_range body
  | ELambdaCall lam args => no_ghost_range lam && forallb no_ghost_range args
  | EAt _ c | ESpill c | ENeg c | EPct c => no_ghost_range c
  | _ => true
  end.

(* no reference / range on a nonexistent sheet is spelled with the name [n] (after the rename such
   a reference resolves to the renamed sheet: references are by name) *)
Definition not_named (n : text) (s : option text) : bool :=
  match s with Some g => negb (text_eqb g n) | None => true end.
Fixpoint no_ghost_named (n : text) (e : ast) : bool :=
  match e with
  | ERef s None _ => not_named n s
  | ERange s None _ _ => not_named n s
  | ERangeOp l r | EConcat l r | ESum _ l r | EProd _ l r | EPow l r | ECmp _ l r =>
      no_ghost_named n l && no_ghost_named n r
  | EFun _ args | ENamedFun _ _ args => forallb (no_ghost_named n) args
  | ELambdaDef _ body => no_ghost_named n body
  | ELambdaCall lam args => no_ghost_named n lam && forallb (no_ghost_named n) args
  | EAt _ c | ESpill c | ENeg c | EPct c => no_ghost_named n c
  | _ => true
  end.

(* ---- the sheet list --------------------------------------------------------------------------- *)
Fixpoint replace_nth (k : nat) (n : text) (l : list text) : list text :=
  match l with
  | [] => []
  | x :: r => match k with O => n :: r | S k' => x :: replace_nth k' n r end
  end.

(* the parser environment after "worksheet_mut(i).set_name(new_name); reset_parsed_structures()":
   the formulas of the renamed sheet are re-parsed with the new name as context *)
Definition env_renamed (k : nat) (n : text) (env : penv) : penv :=
  {| pe_sheets := replace_nth k n (pe_sheets env);
     pe_ctx_sheet := if text_eqb (pe_ctx_sheet env) (nth k (pe_sheets env) []) then n else pe_ctx_sheet env;
     pe_defnames := pe_defnames env;
     pe_tables := pe_tables env |}.

(* is_valid_sheet_name *)
Definition invalid_chars : list Z := [92; 47; 42; 63; 58; 91; 93].      (* \ / * ? : [ ] *)
Definition is_valid_sheet_name (n : text) : bool :=
  negb (Nat.eqb (length n) 0) && Nat.leb (length n) 31
  && forallb (fun c => negb (existsb (Z.eqb c) invalid_chars)) n.

(* Model::get_sheet_index_by_name compares upper-cased names; [upper] is str::to_uppercase *)
Definition index_upper (upper : text -> text) (name : text) (sheets : list text) : option Z :=
  index_of (upper name) (map upper sheets) 0.

(* rename_sheet_by_index, validation part: Ok = goes on to rewrite the formulas *)
Definition rename_check (upper : text -> text) (i : Z) (n : text) (sheets : list text) : outcome unit :=
  if negb (is_valid_sheet_name n) then Err
  else match index_upper upper n sheets with
       | Some k => if k =? i then (if (0 <=? i) && (i <? Z.of_nat (length sheets)) then Ok tt else Err) else Err
       | None => if (0 <=? i) && (i <? Z.of_nat (length sheets)) then Ok tt else Err
       end.

(* ---- one stored formula ------------------------------------------------------------------------- *)
(* the text form the parser is in when rename_sheet_by_index / duplicate_sheet run: R1C1 lexer mode,
   English locale and language (set explicitly since 9f60d5e).  Printing is to_rc_format: English, '.'. *)
Definition m_stored : pmode := {| pm_rc := true; pm_xlsx := false; pm_dot := true; pm_row := 1; pm_col := 1 |}.

Definition rename_stored (nm_en : names) (env : penv) (i : Z) (n : text) (ts : list token) : list token :=
  match parse m_stored nm_en env ts with
  | Some (e, _) => print m_stored nm_en (rename_node i n e)
  | None => ts                         (* ParseErrorKind prints the text it was made of *)
  end.

(* ---- move_sheet --------------------------------------------------------------------------------- *)
Definition remove_at {A} (i : nat) (l : list A) : list A := firstn i l ++ skipn (S i) l.
Definition insert_at {A} (j : nat) (x : A) (l : list A) : list A := firstn j l ++ x :: skipn j l.

Definition move_list {A} (i j : nat) (l : list A) : outcome (list A) :=
  if Nat.leb (length l) i then Err
  else if Nat.leb (length l) j then Err
  else if Nat.eqb i j then Ok l
  else match nth_error l i with
       | Some x => Ok (insert_at j x (remove_at i l))
       | None => Panic
       end.

(* references are by name: the sheet a name denotes is the first one that carries it *)
Fixpoint lookup {A} (name : text) (l : list (text * A)) : option A :=
  match l with
  | [] => None
  | (x, a) :: r => if text_eqb x name then Some a else lookup name r
  end.

(* ---- duplicate_sheet ---------------------------------------------------------------------------- *)
(* the copy's formulas: parsed in the context of the source sheet, then the same node pass with the
   source index and the copy's name *)
Definition dup_node (src : Z) (copy_name : text) (e : ast) : ast := rename_node src copy_name e.

(* the copy is inserted right after the source; its formulas are re-parsed with its own name as context *)
Definition env_dup (src : nat) (copy_name : text) (env : penv) : penv :=
  {| pe_sheets := insert_at (S src) copy_name (pe_sheets env);
     pe_ctx_sheet := copy_name;
     pe_defnames := pe_defnames env;
     pe_tables := pe_tables env |}.

(* sheet indices recorded in a tree of the SOURCE sheet, as the re-parse on the COPY records them:
   the renamed references and the implicit (own-sheet) ones point to the copy, sheets behind the
   source move up by one *)
Definition dup_index (src : Z) (k : Z) : Z := if k <? src then k else k + 1.
Definition reindex_field (rho : Z -> Z) (idx : option Z) : option Z :=
  match idx with Some k => Some (rho k) | None => None end.
Fixpoint reindex (rho : Z -> Z) (e : ast) : ast :=
  match e with
  | ERef s idx p => ERef s (reindex_field rho idx) p
  | ERange s idx p q => ERange s (reindex_field rho idx) p q
  | ERangeOp l r => ERangeOp (reindex rho l) (reindex rho r)
  | EConcat l r => EConcat (reindex rho l) (reindex rho r)
  | ESum op l r => ESum op (reindex rho l) (reindex rho r)
  | EProd op l r => EProd op (reindex rho l) (reindex rho r)
  | EPow l r => EPow (reindex rho l) (reindex rho r)
  | EFun f args => EFun f (map (reindex rho) args)
  | ENamedFun id name args => ENamedFun id name (map (reindex rho) args)
  | ECmp op l r => ECmp op (reindex rho l) (reindex rho r)
  | ENeg c => ENeg (reindex rho c)
  | EPct c => EPct (reindex rho c)
  | EAt a c => EAt a (reindex rho c)
  | ESpill c => ESpill (reindex rho c)
  | ELambdaDef ps body => ELambdaDef ps (reindex rho body)
  | ELambdaCall lam args => ELambdaCall (reindex rho lam) (map (reindex rho) args)
  | EBool _ | ENum _ | EStr _ | EErr _ | EParseError | EArray _ | EDefName _ _ _ | ETable _
  | EVar _ _ | EEmpty => e
  end.
