(* Syntax/LocalizeProofs.v — proofs about Syntax/Localize.v (C10). *)
From IronCalc Require Import Base.Prelude Codec.RefA1 Syntax.Token Syntax.Ast Syntax.Printer Syntax.Parser Syntax.Shape
  Syntax.FuelProofs Syntax.Localize.
From IronCalc Require Generated.Tables_c23 Generated.Locales_c19 Codec.Names Codec.NamesProofs Num.Recognise Sheet.Persist.

(* ---- the generated tables are well formed: finite, by computation ---------------------------- *)
Lemma all_langs_wf : forallb lang_wf all_langs = true.
Proof. vm_compute. reflexivity. Qed.
Lemma all_locales_wf : forallb loc_wf all_locales = true.
Proof. vm_compute. reflexivity. Qed.

Theorem tables_wf lang loc : In lang all_langs -> In loc all_locales -> table_wf lang loc = true.
Proof.
  intros Hl Hc. unfold table_wf.
  rewrite (proj1 (forallb_forall _ _) all_langs_wf lang Hl), (proj1 (forallb_forall _ _) all_locales_wf loc Hc).
  reflexivity.
Qed.

Lemma in_seq0 n k : (k < n)%nat -> In k (seq 0 n).
Proof. intro H. apply in_seq. lia. Qed.

(* what [lang_wf] says, unpacked *)
Lemma lang_wf_parts lang : lang_wf lang = true ->
  forallb (fun f => Bool.eqb (fn_ok lang f)
                      (negb (NamesProofs.known_shadowed lang f) && negb (Nat.eqb f Tables_c23.fn_lambda)))
          (seq 0 Tables_c23.n_fn) = true /\
  forallb (fun e => Bool.eqb (err_ok lang e) (text_eqb (Names.error_name lang e) (Names.display e))) (seq 0 Names.n_err) = true.
Proof. unfold lang_wf. rewrite !andb_true_iff. tauto. Qed.

Lemma lang_wf_fn lang f : lang_wf lang = true -> (f < Tables_c23.n_fn)%nat ->
  fn_ok lang f = negb (NamesProofs.known_shadowed lang f) && negb (Nat.eqb f Tables_c23.fn_lambda).
Proof.
  intros H Hf. apply lang_wf_parts in H as [H _].
  pose proof (proj1 (forallb_forall _ _) H f (in_seq0 _ _ Hf)) as E. apply Bool.eqb_prop in E. exact E.
Qed.

Theorem fn_ok_exact lang f : In lang all_langs -> (f < Tables_c23.n_fn)%nat ->
  (fn_ok lang f = true <-> NamesProofs.known_shadowed lang f = false /\ f <> Tables_c23.fn_lambda).
Proof.
  intros Hl Hf. rewrite (lang_wf_fn lang f (proj1 (forallb_forall _ _) all_langs_wf lang Hl) Hf).
  rewrite andb_true_iff, !negb_true_iff, Nat.eqb_neq. tauto.
Qed.

Theorem err_ok_exact lang e : In lang all_langs -> (e < Names.n_err)%nat ->
  (err_ok lang e = true <-> Names.error_name lang e = Names.display e).
Proof.
  intros Hl He. pose proof (proj1 (forallb_forall _ _) all_langs_wf lang Hl) as H.
  apply lang_wf_parts in H as [_ H].
  pose proof (proj1 (forallb_forall _ _) H e (in_seq0 _ _ He)) as E.
  apply Bool.eqb_prop in E. rewrite E. apply text_eqb_eq.
Qed.

(* F60 *)
Theorem row_sep_exact loc : row_sep_mismatch loc = negb (dot_of loc).
Proof. unfold row_sep_mismatch, dot_of, row_sep_print_char, row_sep_parse_char. destruct (Recognise.l_dec loc =? 46); reflexivity. Qed.

(* ---- image in one configuration, names_ok in another => image in the other ------------------- *)
Section Transfer.
  Variables m1 m2 : pmode.
  Variables nm1 nm2 : names.
  Variable env : penv.
  Hypothesis Hx : pm_xlsx m1 = pm_xlsx m2.
  Hypothesis Hlow : forall t, nm_lower nm1 t = nm_lower nm2 t.
  (* a reference the first form can spell can be spelled in the second *)
  Hypothesis Hpref : forall p, pref_ok m1 p = true -> pref_ok m2 p = true.
  Hypothesis Hrange : forall p q, range_ok m1 p q = true -> range_ok m2 p q = true.

  Lemma find_defname_eq pred ln l : find_defname nm1 pred ln l = find_defname nm2 pred ln l.
  Proof. induction l as [|[[n sc] f] l IH]; cbn [find_defname]; [reflexivity|]. rewrite Hlow, IH. reflexivity. Qed.
  Lemma get_defined_name_eq name ci : get_defined_name nm1 env name ci = get_defined_name nm2 env name ci.
  Proof. unfold get_defined_name. rewrite Hlow, !find_defname_eq. reflexivity. Qed.
  Lemma is_table_eq name : is_table nm1 env name = is_table nm2 env name.
  Proof.
    unfold is_table. rewrite Hlow. induction (pe_tables env) as [|t l IH]; cbn [existsb]; [reflexivity|].
    rewrite Hlow, IH. reflexivity.
  Qed.
  Lemma var_ok_eq name : var_ok nm1 env name = var_ok nm2 env name.
  Proof. unfold var_ok. destruct (sheet_index env None); [|reflexivity]. rewrite get_defined_name_eq, is_table_eq. reflexivity. Qed.
  Lemma ident_free_eq name : ident_free nm1 env name = ident_free nm2 env name.
  Proof. unfold ident_free. destruct (sheet_index env None); [|reflexivity]. rewrite get_defined_name_eq, is_table_eq. reflexivity. Qed.
  Lemma param_ok_eq p : param_ok m1 nm1 env p = param_ok m2 nm2 env p.
  Proof. unfold param_ok, param_ident. rewrite Hx, ident_free_eq. reflexivity. Qed.
  Lemma params_ok_eq ps : forallb (param_ok m1 nm1 env) ps = forallb (param_ok m2 nm2 env) ps.
  Proof. induction ps as [|p ps IH]; cbn [forallb]; [reflexivity|]. rewrite param_ok_eq, IH. reflexivity. Qed.

  Lemma forall_transfer (args : list ast) arg :
    Forall (fun e => forall arg, image_at m1 nm1 env arg e = true -> names_ok m2 nm2 e = true -> image_at m2 nm2 env arg e = true) args ->
    forallb (image_at m1 nm1 env arg) args = true -> forallb (names_ok m2 nm2) args = true ->
    forallb (image_at m2 nm2 env arg) args = true.
  Proof.
    induction 1 as [|a l Ha _ IH]; cbn [forallb]; [reflexivity|].
    rewrite !andb_true_iff. intros [H1 H2] [H3 H4]. split; [apply Ha; assumption | apply IH; assumption].
  Qed.

  Theorem image_transfer e : forall arg,
    image_at m1 nm1 env arg e = true -> names_ok m2 nm2 e = true -> image_at m2 nm2 env arg e = true.
  Proof.
    induction e using ast_rect'; intros arg Hi Hn; cbn [image_at names_ok] in *;
      try reflexivity; try exact Hi;
      try (apply andb_true_iff in Hi as [Hi1 Hi2]; apply andb_true_iff in Hn as [Hn1 Hn2];
           apply andb_true_iff; split; [apply IHe1 | apply IHe2]; assumption);
      try (apply IHe; assumption).
    - (* ERef *) apply andb_true_iff in Hi as [Hi1 Hi2]. rewrite Hi1, (Hpref _ Hi2). reflexivity.
    - (* ERange *) apply andb_true_iff in Hi as [Hi1 Hi2]. rewrite Hi1, (Hrange _ _ Hi2). reflexivity.
    - (* EFun *)
      apply andb_true_iff in Hi as [Hi Hargs]. apply andb_true_iff in Hi as [_ Hshape].
      apply andb_true_iff in Hn as [Hf Hn].
      rewrite Hf, Hshape. cbn [andb]. eapply forall_transfer; eassumption.
    - (* ELambdaDef *)
      apply andb_true_iff in Hi as [Hi Hb]. apply andb_true_iff in Hi as [_ Hps].
      apply andb_true_iff in Hn as [Hl Hn].
      rewrite Hl, <- params_ok_eq, Hps. cbn [andb]. apply IHe; assumption.
    - (* ELambdaCall *)
      apply andb_true_iff in Hi as [Hi Hargs]. apply andb_true_iff in Hi as [Hi Hshape].
      apply andb_true_iff in Hi as [Hk Hlam]. apply andb_true_iff in Hn as [Hn1 Hn2].
      rewrite Hk, Hshape, (IHe false Hlam Hn1). cbn [andb]. eapply forall_transfer; eassumption.
    - (* ENamedFun *)
      apply andb_true_iff in Hi as [Hi Hargs]. apply andb_true_iff in Hi as [Hi Hshape].
      apply andb_true_iff in Hi as [Hid _]. apply andb_true_iff in Hn as [Hf Hn].
      rewrite Hid, Hf, Hshape. cbn [andb]. eapply forall_transfer; eassumption.
    - (* EArray *)
      destruct rows as [|r0 rows']; [discriminate Hi|].
      apply andb_true_iff in Hi as [Hi _]. apply andb_true_iff in Hi as [Hi _].
      apply andb_true_iff in Hn as [Hn1 Hn2].
      rewrite Hi, Hn1, Hn2. reflexivity.
    - (* EDefName *)
      destruct (sheet_index env None); [|discriminate Hi]. rewrite <- get_defined_name_eq. exact Hi.
    - (* ETable *)
      destruct (sheet_index env None); [|discriminate Hi]. rewrite <- get_defined_name_eq, <- is_table_eq. exact Hi.
    - (* EVar *) rewrite <- var_ok_eq. exact Hi.
    - (* EAt *)
      apply andb_true_iff in Hi as [Hi Hc]. apply andb_true_iff in Hi as [Ha _].
      apply andb_true_iff in Hn as [Hn1 Hn2]. rewrite Ha, Hn1. cbn [andb]. apply IHe; assumption.
    - (* ESpill *)
      apply andb_true_iff in Hi as [_ Hc]. apply andb_true_iff in Hn as [Hn1 Hn2].
      rewrite Hn1. cbn [andb]. apply IHe; assumption.
    - (* EErr *) exact Hn.
  Qed.
End Transfer.

(* names_ok is the names-dependent part of image: an image satisfies it *)
Lemma image_names_ok m nm env e : forall arg, image_at m nm env arg e = true -> names_ok m nm e = true.
Proof.
  induction e using ast_rect'; intros arg Hi; cbn [image_at names_ok] in *; try reflexivity;
    try (apply andb_true_iff in Hi as [Hi1 Hi2]; apply andb_true_iff; split; [eapply IHe1 | eapply IHe2]; eassumption);
    try (eapply IHe; eassumption).
  - apply andb_true_iff in Hi as [Hi Hargs]. apply andb_true_iff in Hi as [Hf _]. rewrite Hf. cbn [andb].
    revert Hargs. induction H as [|a l Ha _ IH]; cbn [forallb]; [reflexivity|].
    rewrite !andb_true_iff. intros [H1 H2]. split; [eapply Ha; eassumption | apply IH; assumption].
  - apply andb_true_iff in Hi as [Hi Hb]. apply andb_true_iff in Hi as [Hl _]. rewrite Hl. cbn [andb]. eapply IHe; eassumption.
  - apply andb_true_iff in Hi as [Hi Hargs]. apply andb_true_iff in Hi as [Hi _]. apply andb_true_iff in Hi as [_ Hlam].
    rewrite (IHe false Hlam). cbn [andb].
    revert Hargs. induction H as [|a l Ha _ IH]; cbn [forallb]; [reflexivity|].
    rewrite !andb_true_iff. intros [H1 H2]. split; [eapply Ha; eassumption | apply IH; assumption].
  - apply andb_true_iff in Hi as [Hi Hargs]. apply andb_true_iff in Hi as [Hi _]. apply andb_true_iff in Hi as [_ Hf].
    rewrite Hf. cbn [andb].
    revert Hargs. induction H as [|a l Ha _ IH]; cbn [forallb]; [reflexivity|].
    rewrite !andb_true_iff. intros [H1 H2]. split; [eapply Ha; eassumption | apply IH; assumption].
  - destruct rows as [|r0 rows']; [discriminate Hi|].
    apply andb_true_iff in Hi as [Hi Hd]. apply andb_true_iff in Hi as [_ Hel]. rewrite Hel, Hd. reflexivity.
  - apply andb_true_iff in Hi as [Hi Hc]. apply andb_true_iff in Hi as [_ Hx]. rewrite Hx. cbn [andb]. eapply IHe; eassumption.
  - apply andb_true_iff in Hi as [Hx Hc]. rewrite Hx. cbn [andb]. eapply IHe; eassumption.
  - exact Hi.
Qed.

(* ---- typed in (l1, loc1), shown in (l2, loc2), re-entered there: the same tree ---------------- *)
Theorem cross_language l1 dot1 l2 dot2 row col env e :
  image (m_display dot1 row col) (names_of l1) env e = true ->
  names_ok (m_display dot2 row col) (names_of l2) e = true ->
  no_bad false e = true -> lower_stable (names_of l2) e = true ->
  parse (m_display dot2 row col) (names_of l2) env (print (m_display dot2 row col) (names_of l2) e) = Some (e, []).
Proof.
  intros Hi Hn Hb Hl.
  apply (roundtrip_parse (m_display dot2 row col) (names_of l2) env e); [|exact Hb|exact Hl].
  unfold image. apply (image_transfer (m_display dot1 row col) (m_display dot2 row col) (names_of l1) (names_of l2) env);
    try reflexivity; try assumption; intros; assumption.
Qed.

(* the stored form is language independent: a tree typed in any language reads back from its
   stored (English R1C1) text when its names are fine in English *)
Theorem stored_form_language_independent l1 dot1 row col env e :
  image (m_display dot1 row col) (names_of l1) env e = true ->
  names_ok Persist.m_rc1 (names_of 0) e = true ->
  no_bad false e = true -> lower_stable (names_of 0) e = true ->
  parse Persist.m_rc1 (names_of 0) env (print Persist.m_rc1 (names_of 0) e) = Some (e, []).
Proof.
  intros Hi Hn Hb Hl.
  apply (roundtrip_parse Persist.m_rc1 (names_of 0) env e); [|exact Hb|exact Hl].
  unfold image. apply (image_transfer (m_display dot1 row col) Persist.m_rc1 (names_of l1) (names_of 0) env);
    try reflexivity; try assumption; try (intros; reflexivity).
Qed.

(* ---- set_language / set_locale leave what is stored untouched --------------------------------- *)
Section SwitchProofs.
  Variable C : Type.
  Variable valid_locale valid_lang : text -> bool.
  Variable evaluate : list (list text) -> list (text * option Z * text) -> text -> text -> C -> C.

  Theorem set_language_stores id (m m' : lmodel C) :
    set_language C valid_lang id m = Ok m' ->
    stored C m' = stored C m /\ l_cells m' = l_cells m /\ l_locale m' = l_locale m /\
    l_settings_locale m' = l_settings_locale m /\ l_language m' = id.
  Proof. unfold set_language. destruct (valid_lang id); cbn [negb]; [|discriminate]. intro H. injection H as <-. repeat split. Qed.

  Theorem set_locale_stores id (m m' : lmodel C) :
    set_locale C valid_locale evaluate id m = Ok m' ->
    stored C m' = stored C m /\ l_language m' = l_language m /\ l_locale m' = id /\ l_settings_locale m' = id /\
    l_cells m' = evaluate (l_formulas m) (l_defnames m) id (l_language m) (l_cells m).
  Proof. unfold set_locale. destruct (valid_locale id); cbn [negb]; [|discriminate]. intro H. injection H as <-. repeat split. Qed.

  Theorem switch_failure_changes_nothing id (m : lmodel C) :
    (valid_lang id = false -> set_language C valid_lang id m = Err) /\
    (valid_locale id = false -> set_locale C valid_locale evaluate id m = Err).
  Proof. unfold set_language, set_locale. split; intros ->; reflexivity. Qed.
End SwitchProofs.

(* ---- texts that parse differently in the active language and in English ----------------------- *)
Lemma in_collisions_of lang f g :
  In (lang, f, g) (collisions_of lang) <->
  (f < Tables_c23.n_fn)%nat /\ Names.lookup lang (Names.localized 0 f) = Some g /\ g <> f.
Proof.
  unfold collisions_of. rewrite in_flat_map. split.
  - intros [x [Hx H]]. apply in_seq in Hx. destruct (Names.lookup lang (Names.localized 0 x)) as [g'|] eqn:E; [|destruct H].
    destruct (Nat.eqb g' x) eqn:E2; [destruct H|]. destruct H as [H|[]]. injection H as <- <-.
    apply Nat.eqb_neq in E2. repeat split; [lia|exact E|exact E2].
  - intros (Hf & E & Hn). exists f. split; [apply in_seq; lia|]. rewrite E.
    apply Nat.eqb_neq in Hn. rewrite Hn. left. reflexivity.
Qed.

Theorem collisions_exact lang f g : In lang all_langs -> (f < Tables_c23.n_fn)%nat ->
  (In (lang, f, g) collisions <-> Names.lookup lang (Names.localized 0 f) = Some g /\ g <> f).
Proof.
  intros Hl Hf. unfold collisions. rewrite in_flat_map. split.
  - intros [l' [Hl' H]].
    assert (l' = lang).
    { unfold collisions_of in H. apply in_flat_map in H as [x [_ H]].
      destruct (Names.lookup l' _); [|destruct H]. destruct (Nat.eqb _ _); [destruct H|]. destruct H as [H|[]]. congruence. }
    subst l'. apply in_collisions_of in H. tauto.
  - intros [E Hn]. exists lang. split; [exact Hl|]. apply in_collisions_of. tauto.
Qed.

(* the list, computed from the generated tables: French TRIM is MIRR (English TRIM is SUPPRESPACE there) *)
Lemma collisions_value : collisions = [(3, 137, 222)]%nat.
Proof. vm_compute. reflexivity. Qed.
Lemma collisions_rev_value : collisions_rev = [(3, 222, 137)]%nat.
Proof. vm_compute. reflexivity. Qed.
Lemma collision_names :
  nth 3 Tables_c23.languages [] = [102; 114] /\ nth 137 Tables_c23.fn_variants [] = [84; 114; 105; 109] /\
  nth 222 Tables_c23.fn_variants [] = [77; 105; 114; 114] /\ Names.localized 0 137 = [84; 82; 73; 77] /\ Names.localized 3 222 = [84; 82; 73; 77].
Proof. vm_compute. repeat split. Qed.

(* the English boolean literals are read as booleans only in English *)
Lemma english_booleans_elsewhere : map bool_reads_as_bool all_langs = [true; false; false; false; false].
Proof. vm_compute. reflexivity. Qed.

(* the comma-decimal locales (F60 applies there) *)
Lemma mismatch_locales : map row_sep_mismatch all_locales = [true; false; false; true; true; true].
Proof. vm_compute. reflexivity. Qed.

(* non-vacuity of cross_language: =SUM(1.5,A1)&IF(TRUE,"x") typed in English at C3, shown in German (comma locale) *)
Module Example.
  Definition env1 : penv := {| pe_sheets := [[83]]; pe_ctx_sheet := [83]; pe_defnames := []; pe_tables := [] |}.
  Definition a1 := ERef None (Some 0) {| p_row := -2; p_col := -2; p_abs_col := false; p_abs_row := false |}.
  Definition e1 : ast := EConcat (EFun 80 [ENum [49; 46; 53]; a1]) (EFun 2 [EBool true; EStr [120]]).
  Lemma cross_premises :
    image (m_display true 3 3) (names_of 0) env1 e1 = true /\ names_ok (m_display false 3 3) (names_of 1) e1 = true /\
    no_bad false e1 = true /\ lower_stable (names_of 1) e1 = true.
  Proof. vm_compute. repeat split. Qed.
End Example.

(* ---- the cross-language statement is false where the tables are not clean: witnesses ------------ *)
Module Refuted.
  Definition env1 := Example.env1.
  (* F40: Spanish XNPV and RECEIVED share a name *)
  Definition w_shadowed : ast := EFun 225 [ENum [49]].
  Lemma shadowed_refutes :
    image (m_display true 3 3) (names_of 0) env1 w_shadowed = true /\
    parse (m_display false 3 3) (names_of 2) env1 (print (m_display false 3 3) (names_of 2) w_shadowed) <> Some (w_shadowed, []).
  Proof. split; [vm_compute; reflexivity | vm_compute; discriminate]. Qed.
  (* F61: an error literal is shown with its English name, which German does not read *)
  Definition w_error : ast := ESum SAdd (EErr 2) (ENum [49]).
  Lemma error_refutes :
    image (m_display true 3 3) (names_of 0) env1 w_error = true /\
    parse (m_display false 3 3) (names_of 1) env1 (print (m_display false 3 3) (names_of 1) w_error) <> Some (w_error, []).
  Proof. split; [vm_compute; reflexivity | vm_compute; discriminate]. Qed.
  (* F60: a two-row array shown in a comma-decimal locale (any language) *)
  Definition w_array : ast := EArray [[ANum false [49]]; [ANum false [50]]].
  Lemma array_refutes :
    image (m_display true 3 3) (names_of 0) env1 w_array = true /\
    parse (m_display false 3 3) (names_of 0) env1 (print (m_display false 3 3) (names_of 0) w_array) <> Some (w_array, []).
  Proof. split; [vm_compute; reflexivity | vm_compute; discriminate]. Qed.
  (* a user function called like a built-in of the other language: summe(1) typed in English *)
  Definition w_user : ast := ENamedFun None [115; 117; 109; 109; 101] [ENum [49]].
  Lemma user_refutes :
    image (m_display true 3 3) (names_of 0) env1 w_user = true /\
    parse (m_display false 3 3) (names_of 1) env1 (print (m_display false 3 3) (names_of 1) w_user) <> Some (w_user, []).
  Proof. split; [vm_compute; reflexivity | vm_compute; discriminate]. Qed.
End Refuted.


(* ---- conditional-format rules ---------------------------------------------------------------------
   A rule whose every formula slot is the display text (active configuration) of a tree inside the
   proved part is stored with every slot in English: the stored slots are the English prints of the
   same trees, slot by slot, for every rule kind. *)
Section CfProofs.
  Variable m_act : pmode.  Variable nm_act : names.
  Variable m_en : pmode.   Variable nm_en : names.
  Variable env : penv.
  Notation to_int := (user_formula_to_internal m_act nm_act m_en nm_en env).

  (* a typed slot: the active display print of a tree the active parser returns *)
  Definition slot_ok (ts : list token) (e : ast) : Prop :=
    image m_act nm_act env e = true /\ no_bad (pm_xlsx m_act) e = true /\ lower_stable nm_act e = true /\
    ts = print m_act nm_act e.

  Lemma to_internal_slot ts e : slot_ok ts e -> to_int ts = Ok (print m_en nm_en e).
  Proof.
    intros (Hi & Hb & Hl & ->). unfold user_formula_to_internal.
    rewrite (roundtrip_parse m_act nm_act env e Hi Hb Hl). reflexivity.
  Qed.

  Lemma cfvos_slots_internal (l : list cfvo) (es : list ast) :
    Forall2 slot_ok (cfvo_slots l) es ->
    exists l', cfvos_to_internal m_act nm_act m_en nm_en env l = Ok l' /\ cfvo_slots l' = map (print m_en nm_en) es.
  Proof.
    revert es. induction l as [|c l IH]; intros es H; cbn [cfvo_slots flat_map] in H.
    - inversion H; subst. exists []. split; reflexivity.
    - destruct c as [f|t]; cbn [app] in H.
      + inversion H as [|ts e l0 es' Hs Hr]; subst. destruct (IH es' Hr) as (l' & E & S).
        exists (CvFormula (print m_en nm_en e) :: l'). cbn [cfvos_to_internal cfvo_to_internal obind].
        rewrite (to_internal_slot _ _ Hs). cbn [obind]. rewrite E. cbn [obind]. split; [reflexivity|].
        cbn [cfvo_slots flat_map app map]. fold (cfvo_slots l'). rewrite S. reflexivity.
      + destruct (IH es H) as (l' & E & S). exists (CvOther t :: l').
        cbn [cfvos_to_internal cfvo_to_internal obind]. rewrite E. cbn [obind]. split; [reflexivity|].
        cbn [cfvo_slots flat_map app]. exact S.
  Qed.

  Theorem cf_rule_stored_in_english (r : cf_input) (es : list ast) :
    Forall2 slot_ok (cf_slots r) es ->
    exists r', cf_rule_input_to_internal m_act nm_act m_en nm_en env r = Ok r' /\
               cf_slots r' = map (print m_en nm_en) es.
  Proof.
    destruct r as [f f2|f|ts|mn mx|ts|ts|t]; cbn [cf_slots]; intro H.
    - inversion H as [|ts0 e l0 es' Hs Hr]; subst. destruct f2 as [g|]; cbn [opt_list] in Hr.
      + inversion Hr as [|ts1 e2 l1 es2 Hs2 Hr2]; subst. inversion Hr2; subst.
        eexists. cbn [cf_rule_input_to_internal obind opt_to_internal].
        rewrite (to_internal_slot _ _ Hs). cbn [obind]. rewrite (to_internal_slot _ _ Hs2). cbn [obind]. split; reflexivity.
      + inversion Hr; subst. eexists. cbn [cf_rule_input_to_internal obind opt_to_internal].
        rewrite (to_internal_slot _ _ Hs). cbn [obind]. split; reflexivity.
    - inversion H as [|ts0 e l0 es' Hs Hr]; subst. inversion Hr; subst. eexists.
      cbn [cf_rule_input_to_internal obind]. rewrite (to_internal_slot _ _ Hs). cbn [obind]. split; reflexivity.
    - destruct (cfvos_slots_internal ts es H) as (l' & E & S). exists (CfColorScale l').
      cbn [cf_rule_input_to_internal]. rewrite E. cbn [obind]. split; [reflexivity | exact S].
    - (* DataBar: min and max are optional thresholds *)
      destruct (cfvos_slots_internal (opt_list mn ++ opt_list mx) es H) as (l' & E & S).
      destruct mn as [a|], mx as [b|]; cbn [opt_list app cfvos_to_internal] in E;
        cbn [cf_rule_input_to_internal opt_to_internal obind].
      + destruct (cfvo_to_internal _ _ _ _ _ a) as [a'| |]; cbn [obind] in E |- *; try discriminate E.
        destruct (cfvo_to_internal _ _ _ _ _ b) as [b'| |]; cbn [obind] in E |- *; try discriminate E.
        injection E as <-. exists (CfDataBar (Some a') (Some b')). split; [reflexivity | exact S].
      + destruct (cfvo_to_internal _ _ _ _ _ a) as [a'| |]; cbn [obind] in E |- *; try discriminate E.
        injection E as <-. exists (CfDataBar (Some a') None). split; [reflexivity | exact S].
      + destruct (cfvo_to_internal _ _ _ _ _ b) as [b'| |]; cbn [obind] in E |- *; try discriminate E.
        injection E as <-. exists (CfDataBar None (Some b')). split; [reflexivity | exact S].
      + injection E as <-. exists (CfDataBar None None). split; [reflexivity | exact S].
    - destruct (cfvos_slots_internal ts es H) as (l' & E & S). exists (CfIconSet l').
      cbn [cf_rule_input_to_internal]. rewrite E. cbn [obind]. split; [reflexivity | exact S].
    - destruct (cfvos_slots_internal ts es H) as (l' & E & S). exists (CfIconRating l').
      cbn [cf_rule_input_to_internal]. rewrite E. cbn [obind]. split; [reflexivity | exact S].
    - inversion H; subst. exists (CfOther t). split; reflexivity.
  Qed.
End CfProofs.

(* non-vacuity: CellIs Between, bounds =SUMME(A1;1,5) and =MAX(2,5;0) typed in German with a comma locale at A1 *)
Module CfExample.
  Definition a1 := ERef None (Some 0) {| p_row := 0; p_col := 0; p_abs_col := false; p_abs_row := false |}.
  Definition b1 : ast := EFun 80 [a1; ENum [49; 46; 53]].
  Definition b2 : ast := EFun 70 [ENum [50; 46; 53]; ENum [48]].
  Definition de11 := m_display false 1 1.
  Definition en11 := m_display true 1 1.
  Definition rule := CfCellIs (print de11 (names_of 1) b1) (Some (print de11 (names_of 1) b2)).
  Lemma slots_ok : Forall2 (slot_ok de11 (names_of 1) Example.env1) (cf_slots rule) [b1; b2].
  Proof. repeat constructor; vm_compute; reflexivity. Qed.
  Lemma stored :
    cf_rule_input_to_internal de11 (names_of 1) en11 (names_of 0) Example.env1 rule
    = Ok (CfCellIs (print en11 (names_of 0) b1) (Some (print en11 (names_of 0) b2))).
  Proof. vm_compute. reflexivity. Qed.
End CfExample.
