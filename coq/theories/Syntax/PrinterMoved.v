(* Syntax/PrinterMoved.v — [to_string_moved] (expressions/parser/move_formula.rs:106), the SECOND
   printer, used by cut & paste (Model::move_cell_value_to_area) and by the pass that rewrites every
   formula outside the cut area (cut_paste.rs get_external_formula_updates_for_cut).

   Token level, like Syntax/Printer.v.  Transcribed arm by arm, including what it does NOT do:
     * parentheses only around the operands of "*" and "/" (left: Sum, Compare; right: Sum, Compare,
       Product, Unary) — "+ - ^ & : comparison, unary minus, %, @, #" print their operands bare;
     * the argument separator is a hard-coded ',' (also in LAMBDA), whatever the locale;
     * BooleanKind prints "TRUE"/"FALSE" in English, whatever the language;
     * NamedFunctionKind prints its name as it is (stringify lower-cases it);
     * array literals print every row in its own braces, elements separated by the ROW separator
       and rows by the COLUMN separator: {{1;2},{3;4}};
     * LAMBDA parameters print their bare name (no brackets around optional ones).
   References: [move_ref] / [move_range] — a reference into the cut area gets the delta, any other
   stays and, when the paste goes to another sheet and it had no sheet name, acquires the source
   sheet's name; a range moves iff BOTH corners are inside.  The text is printed in A1 form with the
   SOURCE cell as context; the pasted text is then parsed at the TARGET cell.
   No proofs in this file (Syntax/PrinterMovedProofs.v). *)
From IronCalc Require Import Base.Prelude Codec.RefA1 Syntax.Token Syntax.Ast Syntax.Printer Syntax.Parser Syntax.Shape.

Record marea := { ma_sheet : Z; ma_row : Z; ma_col : Z; ma_width : Z; ma_height : Z }.

(* ref_is_in_area *)
Definition ref_is_in_area (sheet row col : Z) (a : marea) : bool :=
  if negb (ma_sheet a =? sheet) then false
  else if (row <? ma_row a) || (ma_row a + ma_height a - 1 <? row) then false
  else if (col <? ma_col a) || (ma_col a + ma_width a - 1 <? col) then false
  else true.

(* MoveContext *)
Record mctx := {
  mc_src_name : text;      (* source_sheet_name *)
  mc_row : Z;              (* the cell the formula is cut from *)
  mc_col : Z;
  mc_area : marea;
  mc_tgt_name : text;      (* target_sheet_name *)
  mc_drow : Z;             (* row_delta *)
  mc_dcol : Z;             (* column_delta *)
}.

(* the cell a stored reference denotes, seen from the source cell *)
Definition abs_row (mc : mctx) (p : pref) : Z := if p_abs_row p then p_row p else p_row p + mc_row mc.
Definition abs_col (mc : mctx) (p : pref) : Z := if p_abs_col p then p_col p else p_col p + mc_col mc.

(* "new_row = row + row_delta": the delta is added to the STORED number (offset or absolute) *)
Definition shift_pref (mc : mctx) (p : pref) : pref :=
  {| p_row := p_row p + mc_drow mc; p_col := p_col p + mc_dcol mc;
     p_abs_col := p_abs_col p; p_abs_row := p_abs_row p |}.

Definition qualify (mc : mctx) (s : option text) : option text :=
  if negb (text_eqb (mc_tgt_name mc) (mc_src_name mc)) && (match s with None => true | Some _ => false end)
  then Some (mc_src_name mc) else s.

Definition pref_in_area (mc : mctx) (idx : Z) (p : pref) : bool :=
  ref_is_in_area idx (abs_row mc p) (abs_col mc p) (mc_area mc).

Definition move_ref (mc : mctx) (s : option text) (idx : Z) (p : pref) : option text * pref :=
  if pref_in_area mc idx p then (s, shift_pref mc p) else (qualify mc s, p).

Definition move_range (mc : mctx) (s : option text) (idx : Z) (p1 p2 : pref) : option text * pref * pref :=
  if pref_in_area mc idx p1 && pref_in_area mc idx p2 then (s, shift_pref mc p1, shift_pref mc p2)
  else (qualify mc s, p1, p2).

(* parentheses: the two [match]es of the OpProductKind arm *)
Definition moved_prod_left (l : ast) : bool := match l with ESum _ _ _ | ECmp _ _ _ => true | _ => false end.
Definition moved_prod_right (r : ast) : bool :=
  match r with ESum _ _ _ | ECmp _ _ _ | EProd _ _ _ | ENeg _ | EPct _ => true | _ => false end.

Definition moved_policy : policy := {|
  pol_cmp_l := never; pol_cmp_r := never;
  pol_concat_l := never; pol_concat_r := never;
  pol_sum_l := never; pol_sum_r := fun _ => never;
  pol_prod_l := moved_prod_left; pol_prod_r := moved_prod_right;
  pol_pow_l := never; pol_pow_r := never;
  pol_neg := never; pol_pct := never;
  pol_range_l := never; pol_range_r := fun _ => never;
  pol_at := never; pol_spill := never |}.

(* get_external_formula_updates_for_cut (cut_paste.rs), phase 1: the formula cells the pass does NOT
   rewrite — "skip cells inside the area being moved":
     ws_idx == area.sheet && row >= area.row && row < area.row + area.height
                          && col >= area.column && col < area.column + area.width
   every other formula cell of the workbook, on every sheet, is re-printed with [print_moved]
   (source sheet = target sheet = its own sheet) and re-entered when the text differs *)
Definition external_skipped (a : marea) (sheet row col : Z) : bool :=
  (sheet =? ma_sheet a) && (ma_row a <=? row) && (row <? ma_row a + ma_height a)
  && (ma_col a <=? col) && (col <? ma_col a + ma_width a).

(* is a formula cell that holds a reference to the cut cell (r, c) of sheet [ma_sheet a] rewritten? *)
Definition external_rewritten (a : marea) (sheet row col : Z) : bool := negb (external_skipped a sheet row col).

Definition t_true : text := [84;82;85;69].
Definition t_false : text := [70;65;76;83;69].

Section Moved.
  Variable mc : mctx.
  Variable dot : bool.          (* locale.numbers.symbols.decimal == "." *)
  Variable nm : names.          (* the language the pasted text will be read in *)

  (* references are printed by stringify_reference with Some(source cell) as context *)
  Definition m_src : pmode := {| pm_rc := false; pm_xlsx := false; pm_dot := dot; pm_row := mc_row mc; pm_col := mc_col mc |}.

  (* "TRUE" / "FALSE" as the lexer of the language reads it: a Boolean where the language says TRUE / FALSE;
     elsewhere not a token at all (is_valid_a1_identifier rejects the two English words) *)
  Definition moved_bool (b : bool) : list token :=
    let name := if b then t_true else t_false in
    match bool_of_name nm name with Some b' => [TBoolean b'] | None => [TIllegal] end.

  (* array separators: row_separator ';' ('/' in comma-decimal locales), col_separator ',' (';') *)
  Definition moved_row_sep : sep := if dot then SepSemicolon else SepSlash.
  Definition moved_col_sep : sep := if dot then SepComma else SepSemicolon.

  Fixpoint print_moved (e : ast) : list token :=
    match e with
    | EBool b => moved_bool b
    | ENum n => [TNumber n]
    | EStr s => [TString s]
    | ERef s (Some idx) p => let '(s', p') := move_ref mc s idx p in print_ref m_src nm s' p'
    | ERef s None p => print_ref m_src nm s p
    | ERange s (Some idx) p1 p2 =>
        let '(s', q1, q2) := move_range mc s idx p1 p2 in print_range m_src nm s' q1 q2
    | ERange s None p1 p2 => print_range m_src nm s p1 p2
    | ERangeOp l r => print_moved l ++ TColon :: print_moved r
    | EConcat l r => print_moved l ++ TAnd :: print_moved r
    | ESum op l r => print_moved l ++ TAddition op :: print_moved r
    | EProd op l r =>
        wrap (moved_prod_left l) (print_moved l) ++ TProduct op :: wrap (moved_prod_right r) (print_moved r)
    | EPow l r => print_moved l ++ TPower :: print_moved r
    | ENamedFun _ name args => TIdent name :: TLParen :: join TComma (map print_moved args) ++ [TRParen]
    | EFun f args =>
        (match bool_of_name nm (fn_name nm f) with Some b => TBoolean b | None => TIdent (fn_name nm f) end)
        :: TLParen :: join TComma (map print_moved args) ++ [TRParen]
    | EArray rows =>
        TLBrace ::
        join (sep_token moved_col_sep)
             (map (fun row => TLBrace :: join (sep_token moved_row_sep) (map (print_aelem nm) row) ++ [TRBrace]) rows)
        ++ [TRBrace]
    | EDefName name _ _ => [TIdent name]
    | ETable name => [TIdent name]
    | EVar name _ => [TIdent name]
    | ECmp op l r => print_moved l ++ TCompare op :: print_moved r
    | ENeg c => TAddition SMinus :: print_moved c
    | EPct c => print_moved c ++ [TPercent]
    | EErr k => err_tokens nm k
    | EParseError => [TIllegal]
    | EEmpty => []
    | EAt _ c => TAt :: print_moved c
    | ESpill c => print_moved c ++ [TSpill]
    | ELambdaDef ps body =>
        TIdent t_lambda :: TLParen :: join TComma (map (fun p => [TIdent (lp_name p)]) ps ++ [print_moved body]) ++ [TRParen]
    | ELambdaCall lam args => print_moved lam ++ TLParen :: join TComma (map print_moved args) ++ [TRParen]
    end.

  (* ---- what the pasted formula must be: the same tree, read from the TARGET cell ------------------- *)
  (* stored coordinates relative to the target cell of a reference whose text was written from the
     source cell: relative coordinates lose the delta (the anchor moved by it), absolute ones stay *)
  Definition rebase (p : pref) : pref :=
    {| p_row := if p_abs_row p then p_row p else p_row p - mc_drow mc;
       p_col := if p_abs_col p then p_col p else p_col p - mc_dcol mc;
       p_abs_col := p_abs_col p; p_abs_row := p_abs_row p |}.

  (* [tidx s idx]: the sheet index the target-side parser records for the (possibly qualified) name;
     supplied by the caller (the sheet list is not part of the printer) *)
  Variable tidx : option text -> option Z -> option Z.

  Fixpoint move_ast (e : ast) : ast :=
    match e with
    | ERef s (Some idx) p => let '(s', p') := move_ref mc s idx p in ERef s' (tidx s' (Some idx)) (rebase p')
    | ERef s None p => ERef s (tidx s None) (rebase p)
    | ERange s (Some idx) p1 p2 =>
        let '(s', q1, q2) := move_range mc s idx p1 p2 in ERange s' (tidx s' (Some idx)) (rebase q1) (rebase q2)
    | ERange s None p1 p2 => ERange s (tidx s None) (rebase p1) (rebase p2)
    | ERangeOp l r => ERangeOp (move_ast l) (move_ast r)
    | EConcat l r => EConcat (move_ast l) (move_ast r)
    | ESum op l r => ESum op (move_ast l) (move_ast r)
    | EProd op l r => EProd op (move_ast l) (move_ast r)
    | EPow l r => EPow (move_ast l) (move_ast r)
    | EFun f args => EFun f (map move_ast args)
    | ENamedFun id name args => ENamedFun id name (map move_ast args)
    | ECmp op l r => ECmp op (move_ast l) (move_ast r)
    | ENeg c => ENeg (move_ast c)
    | EPct c => EPct (move_ast c)
    | EAt a c => EAt a (move_ast c)
    | ESpill c => ESpill (move_ast c)
    | ELambdaDef ps body => ELambdaDef ps (move_ast body)
    | ELambdaCall lam args => ELambdaCall (move_ast lam) (map move_ast args)
    | EBool _ | ENum _ | EStr _ | EErr _ | EParseError | EArray _ | EDefName _ _ _ | ETable _
    | EVar _ _ | EEmpty => e
    end.

  (* the target cell *)
  Definition m_tgt : pmode :=
    {| pm_rc := false; pm_xlsx := false; pm_dot := dot; pm_row := mc_row mc + mc_drow mc; pm_col := mc_col mc + mc_dcol mc |}.

  (* ---- the shapes the moved printer spells as [stringify] would (with [moved_policy]) --------------- *)
  Definition bool_en_ok : bool :=
    match bool_of_name nm t_true, bool_of_name nm t_false with Some true, Some false => true | _, _ => false end.

  Fixpoint moved_class (e : ast) : bool :=
    match e with
    | EBool _ => bool_en_ok
    | EArray _ => false
    | ELambdaDef _ _ | ELambdaCall _ _ => false
    | ERangeOp l r | EConcat l r | ESum _ l r | EProd _ l r | EPow l r | ECmp _ l r => moved_class l && moved_class r
    | EFun _ args => (dot || Nat.leb (length args) 1) && forallb moved_class args
    | ENamedFun _ name args =>
        text_eqb (nm_lower nm name) name && (dot || Nat.leb (length args) 1) && forallb moved_class args
    | EAt _ c | ESpill c | ENeg c | EPct c => moved_class c
    | _ => true
    end.
End Moved.
