(* Syntax/Shape.v — shapes of syntax trees the round-trip statements talk about:
     * [rank]: the grammar level that produces a node,
     * [bad_pair] / [no_bad]: the parent / position / child-kind combinations for which
       [stringify] omits parentheses the grammar needs (finding F02; three associative cases are
       left after commit 1fc9128), as an explicit table and as the formula it was computed from,
     * [glue] / [glue_free]: the places where the lexer reads two or three printed tokens as
       something else (finding F04 and relatives) — character-level effects, modelled on tokens,
     * [image]: the trees [Parser::parse] can return (parser_image), [fragment]: the node kinds
       covered by the proved theorem.
   No proofs in this file (Syntax/RoundTrip.v). *)
From IronCalc Require Import Base.Prelude Base.Dec Codec.RefA1 Syntax.Token Syntax.Ast Syntax.Printer Syntax.Parser.

(* grammar level of the production that yields the node: 0 primary, 1 implicit (@ #), 2 range (:),
   3 power (prefix sign, postfix %), 4 prod (^), 5 factor ( * / ), 6 term (+ -), 7 concat (&), 8 expr (compare) *)
Definition rank_of_kind (k : kind) : nat :=
  match k with
  | KAt | KSpill => 1
  | KRangeOp => 2
  | KNeg | KPct => 3
  | KPow => 4
  | KProd => 5
  | KSum _ => 6
  | KConcat => 7
  | KCmp => 8
  | _ => 0
  end.
Definition rank (e : ast) : nat := rank_of_kind (kind_of e).

(* In the xlsx form "@x" and "x#" are written as function calls: the operand is an argument. *)
Definition rank_x (xlsx : bool) (e : ast) : nat :=
  match e with
  | EAt _ _ | ESpill _ => if xlsx then 0%nat else 1%nat
  | _ => rank e
  end.

(* ---- the table ------------------------------------------------------------------------- *)
Definition is_binary_or_unary (c : kind) : bool :=
  match c with KCmp | KConcat | KSum _ | KProd | KPow | KNeg | KPct | KRangeOp => true | _ => false end.
Definition not_primary (c : kind) : bool :=
  match c with KAt | KSpill => true | _ => is_binary_or_unary c end.

(* [bad_pair xlsx parent position child]: the printer writes the child bare although the
   position only accepts a tighter production.  Since commit 1fc9128 exactly three triples are
   left, on purpose (test_stringify::correct_parenthesis): a sum on the right of "+" and a
   concatenation on the right of "&".  The text parses to the left-nested tree: the STRUCTURE
   changes, the VALUE does not (associativity; floating-point addition up to the last bit). *)
Definition bad_pair (xlsx : bool) (parent : kind) (pos : position) (child : kind) : bool :=
  match parent, pos, child with
  | KConcat, PRight, KConcat => true                             (* 1&(2&3) prints 1&2&3 *)
  | KSum SAdd, PRight, KSum _ => true                            (* 1+(2+3), 1+(2-3) print 1+2+3, 1+2-3 *)
  | _, _, _ => false
  end.

(* ---- the formula the table comes from: "printed bare" and "rank above what the position takes",
   for any parenthesis policy *)
Definition bad_child_with (pol : policy) (xlsx : bool) (e : ast) : bool :=
  match e with
  | ECmp _ l r => (negb (pol_cmp_l pol l) && (8 <? rank_x xlsx l)%nat)
                  || (negb (pol_cmp_r pol r) && (7 <? rank_x xlsx r)%nat)
  | EConcat l r => (negb (pol_concat_l pol l) && (7 <? rank_x xlsx l)%nat)
                   || (negb (pol_concat_r pol r) && (6 <? rank_x xlsx r)%nat)
  | ESum op l r => (negb (pol_sum_l pol l) && (6 <? rank_x xlsx l)%nat)
                   || (negb (pol_sum_r pol op r) && (5 <? rank_x xlsx r)%nat)
  | EProd _ l r => (negb (pol_prod_l pol l) && (5 <? rank_x xlsx l)%nat)
                   || (negb (pol_prod_r pol r) && (4 <? rank_x xlsx r)%nat)
  | EPow l r => (negb (pol_pow_l pol l) && (4 <? rank_x xlsx l)%nat)
                || (negb (pol_pow_r pol r) && (3 <? rank_x xlsx r)%nat)
  | ENeg c => negb (pol_neg pol c) && (2 <? rank_x xlsx c)%nat
  | EPct c => negb (pol_pct pol c) && (3 <? rank_x xlsx c)%nat      (* "-x%" and "x%%" are fine *)
  | ERangeOp l r => (negb (pol_range_l pol l) && (1 <? rank_x xlsx l)%nat)
                    || (negb (pol_range_r pol xlsx r) && (0 <? rank_x xlsx r)%nat)
  | EAt _ c => negb xlsx && negb (pol_at pol c) && (0 <? rank_x xlsx c)%nat
  | ESpill c => negb xlsx && negb (pol_spill pol c) && (0 <? rank_x xlsx c)%nat
  | _ => false
  end.
Definition bad_child (xlsx : bool) (e : ast) : bool := bad_child_with stringify_policy xlsx e.

(* the same, through the table *)
Definition bad_child_table (xlsx : bool) (e : ast) : bool :=
  let k := kind_of e in
  match e with
  | ECmp _ l r | EConcat l r | ESum _ l r | EProd _ l r | EPow l r | ERangeOp l r =>
      bad_pair xlsx k PLeft (kind_of l) || bad_pair xlsx k PRight (kind_of r)
  | ENeg c | EPct c | EAt _ c | ESpill c => bad_pair xlsx k POnly (kind_of c)
  | _ => false
  end.

Fixpoint no_bad_with (pol : policy) (xlsx : bool) (e : ast) : bool :=
  negb (bad_child_with pol xlsx e) &&
  match e with
  | ERangeOp l r | EConcat l r | ESum _ l r | EProd _ l r | EPow l r | ECmp _ l r =>
      no_bad_with pol xlsx l && no_bad_with pol xlsx r
  | EFun _ args | ENamedFun _ _ args => forallb (no_bad_with pol xlsx) args
  | ELambdaDef _ body => no_bad_with pol xlsx body
  | ELambdaCall lam args => no_bad_with pol xlsx lam && forallb (no_bad_with pol xlsx) args
  | EAt _ c | ESpill c | ENeg c | EPct c => no_bad_with pol xlsx c
  | _ => true
  end.
Definition no_bad (xlsx : bool) (e : ast) : bool := no_bad_with stringify_policy xlsx e.

(* all bad pairs of a tree, in preorder (for reports) *)
Fixpoint bad_pairs (xlsx : bool) (e : ast) : list (kind * position * kind) :=
  let here (pos : position) (c : ast) :=
    if bad_pair xlsx (kind_of e) pos (kind_of c) then [(kind_of e, pos, kind_of c)] else [] in
  match e with
  | ERangeOp l r | EConcat l r | ESum _ l r | EProd _ l r | EPow l r | ECmp _ l r =>
      here PLeft l ++ here PRight r ++ bad_pairs xlsx l ++ bad_pairs xlsx r
  | EFun _ args | ENamedFun _ _ args => flat_map (bad_pairs xlsx) args
  | ELambdaDef _ body => bad_pairs xlsx body
  | ELambdaCall lam args => bad_pairs xlsx lam ++ flat_map (bad_pairs xlsx) args
  | EAt _ c | ESpill c | ENeg c | EPct c => here POnly c ++ bad_pairs xlsx c
  | _ => []
  end.

(* ---- lexer glue -------------------------------------------------------------------------- *)
(* What the lexer reads from the text of a printed token list where it differs from the list:
     * "A1:B2": a reference, a colon and a sheet-less reference are one Range token (and
       "A1:B2:C3" printed from A1 : (B2:C3) is the range A1:B2, a colon and C3);
     * "Sheet1!A1:X", and in the A1 forms "$A$1:X", "A$1:X": not a token at all when X is not
       a reference (finding F04) — the lexer gives up at once;
     * in the A1 forms a number followed by a colon is taken for a row range: "2:3" is the
       full-row range $A2:$XFD3, anything else ("1.5:2", "1:A3") is not a token.
   After an Illegal token the lexer is at the end of input. *)
Definition row_of_number (n : text) : option Z :=
  if all_digits n then
    match n with [] => None | _ => let v := dec_val 0 n in if (1 <=? v) && (v <=? LAST_ROW) then Some v else None end
  else None.

Definition ref_colon_hazard (rc : bool) (s : option text) (p : pref) : bool :=
  match s with Some _ => true | None => negb rc && (p_abs_row p || p_abs_col p) end.

Fixpoint glue_fuel (f : nat) (rc : bool) (ts : list token) : list token :=
  match f with
  | O => ts
  | S f' =>
    match ts with
    | [] => []
    | TReference s p :: r =>
      match r with
      | TColon :: TReference None q :: r' => TRange s p q :: glue_fuel f' rc r'
      | TColon :: TRange None q1 q2 :: r' => TRange s p q1 :: TColon :: glue_fuel f' rc (TReference None q2 :: r')
      | TColon :: _ => if ref_colon_hazard rc s p then [TIllegal] else TReference s p :: glue_fuel f' rc r
      | _ => TReference s p :: glue_fuel f' rc r
      end
    | TNumber n :: r =>
      match r with
      | TColon :: TNumber k :: r' =>
        if rc then TNumber n :: glue_fuel f' rc r else
        match row_of_number n, row_of_number k with
        | Some a, Some b =>
          TRange None {| p_row := a; p_col := 1; p_abs_col := true; p_abs_row := false |}
                      {| p_row := b; p_col := LAST_COLUMN; p_abs_col := true; p_abs_row := false |} :: glue_fuel f' rc r'
        | _, _ => [TIllegal]
        end
      | TColon :: _ => if rc then TNumber n :: glue_fuel f' rc r else [TIllegal]
      | _ => TNumber n :: glue_fuel f' rc r
      end
    | TIllegal :: _ => [TIllegal]
    | t :: r => t :: glue_fuel f' rc r
    end
  end.
Definition glue (rc : bool) (ts : list token) : list token := glue_fuel (S (length ts)) rc ts.

Fixpoint glue_free (rc : bool) (ts : list token) : bool :=
  match ts with
  | [] => true
  | TReference s p :: r =>
    match r with
    | TColon :: TReference None q :: _ => false
    | TColon :: TRange None _ _ :: _ => false
    | TColon :: _ => negb (ref_colon_hazard rc s p) && glue_free rc r
    | _ => glue_free rc r
    end
  | TNumber n :: r =>
    match r with
    | TColon :: _ => rc && glue_free rc r
    | _ => glue_free rc r
    end
  | TIllegal :: r => match r with [] => true | _ => false end
  | t :: r => glue_free rc r
  end.

(* ---- parser image --------------------------------------------------------------------- *)
Section Image.
  Variable m : pmode.
  Variable nm : names.
  Variable env : penv.

  Definition pref_eqb (a b : pref) : bool :=
    (p_row a =? p_row b) && (p_col a =? p_col b) && Bool.eqb (p_abs_row a) (p_abs_row b)
    && Bool.eqb (p_abs_col a) (p_abs_col b).
  Definition opt_z_eqb (a b : option Z) : bool :=
    match a, b with Some x, Some y => x =? y | None, None => true | _, _ => false end.
  Definition opt_text_eqb (a b : option text) : bool :=
    match a, b with Some x, Some y => text_eqb x y | None, None => true | _, _ => false end.
  Definition is_terror (k : Z) (ts : list token) : bool :=
    match ts with [TError k'] => k =? k' | _ => false end.

  (* a reference the A1 printer can spell: on the grid *)
  Definition pref_ok (p : pref) : bool :=
    match print_pref m p with Some _ => true | None => false end.
  Definition range_ok (p1 p2 : pref) : bool :=
    match print_pref m p1, print_pref m p2 with
    | Some q1, Some q2 => pm_rc m || ((p_row q1 <=? p_row q2) && (p_col q1 <=? p_col q2))
    | _, _ => false
    end.

  (* the name the printer writes for built-in function f is read back as f *)
  Definition fun_name_ok (f : Z) : bool :=
    let name := fn_name nm f in
    match bool_of_name nm name with
    | Some b => f =? (if b then fn_true nm else fn_false nm)
    | None =>
      negb (text_eqb name t_xlfn_lambda) && negb (text_eqb (nm_upper nm name) t_lambda)
      && negb (text_eqb name t_xlfn_single) && negb (text_eqb name t_xlfn_anchor)
      && match fn_lookup nm (trim_start (t_xlfn ++ t_xlws) name) with
         | Some k => k =? f
         | None => match fn_lookup nm (trim_start t_xlfn name) with Some k => k =? f | None => false end
         end
    end.

  (* a name the parser makes a NamedFunctionKind of *)
  Definition named_fun_ok (name : text) : bool :=
    match bool_of_name nm name with Some _ => false | None =>
      negb (text_eqb name t_xlfn_lambda) && negb (text_eqb (nm_upper nm name) t_lambda)
      && negb (text_eqb name t_xlfn_single) && negb (text_eqb name t_xlfn_anchor)
      && match fn_lookup nm (trim_start (t_xlfn ++ t_xlws) name) with Some _ => false | None => true end
      && match fn_lookup nm (trim_start t_xlfn name) with Some _ => false | None => true end
      && text_eqb (trim_start t_xlpm name) name
    end.

  Definition ctx_sheet_ok : bool := match sheet_index env None with Some _ => true | None => false end.

  Definition var_ok (name : text) : bool :=
    match sheet_index env None with
    | None => false
    | Some ci =>
      match get_defined_name nm env name ci with
      | Some _ => false
      | None => negb (is_table nm env name) && text_eqb (trim_start t_xlpm name) name
      end
    end.

  (* in the xlsx form "@x" / "x#" are the calls _xlfn.SINGLE(x) / _xlfn.ANCHORARRAY(x): the name
     must not be taken for LAMBDA by [name.to_uppercase() == "LAMBDA"] *)
  Definition xl_call_ok (name : text) : bool :=
    negb (pm_xlsx m) || negb (text_eqb (nm_upper nm name) t_lambda).

  Definition args_shape_ok (args : list ast) : bool :=
    match args with [EEmpty] => false | _ => true end.

  Definition not_empty (e : ast) : bool := match e with EEmpty => false | _ => true end.

  Definition aelem_ok (a : aelem) : bool :=
    match a with
    | AEmpty => false
    | AErr k => is_terror k (err_tokens nm k)
    | _ => true
    end.

  (* an identifier that is neither a defined name nor a table: the parser makes a variable of it *)
  Definition ident_free (name : text) : bool :=
    match sheet_index env None with
    | None => false
    | Some ci =>
      match get_defined_name nm env name ci with
      | Some _ => false
      | None => negb (is_table nm env name)
      end
    end.

  (* the identifier a LAMBDA parameter is printed as ("_xlpm.x" / "_xlop.x" in the xlsx form) *)
  Definition param_ident (p : lparam) : text :=
    if pm_xlsx m then (if lp_opt p then t_xlop else t_xlpm) ++ lp_name p else lp_name p.

  Definition param_ok (p : lparam) : bool :=
    match lp_id p with Some _ => false | None =>
      ident_free (param_ident p)
      && match strip_prefix t_xlop (lp_name p) with Some _ => false | None => true end
      && match strip_prefix t_xlpm (lp_name p) with Some _ => false | None => true end
    end.

  (* "LAMBDA" is recognised by [name.to_uppercase() == "LAMBDA"] (or the literal "_xlfn.LAMBDA") *)
  Definition lambda_name_ok : bool := pm_xlsx m || text_eqb (nm_upper nm t_lambda) t_lambda.

  (* [image e]: e is a tree [parse] returns for some text (operands are never EmptyArg; an
     argument list is never a single EmptyArg; leaves are spelled so that the lexer reads them
     back; the recorded sheet index is the one of the sheet name).  [arg] = e is a function
     argument (where EmptyArg may stand). *)
  Fixpoint image_at (arg : bool) (e : ast) : bool :=
    match e with
    | EBool _ | ENum _ | EStr _ => true
    | ERef s idx p => opt_z_eqb idx (sheet_index env s) && pref_ok p
    | ERange s idx p1 p2 => opt_z_eqb idx (sheet_index env s) && range_ok p1 p2
    | ERangeOp l r | EConcat l r | ESum _ l r | EProd _ l r | EPow l r | ECmp _ l r =>
        image_at false l && image_at false r
    | EFun f args => fun_name_ok f && args_shape_ok args && forallb (image_at true) args
    | ENamedFun id name args =>
        (match id with None => true | Some _ => false end) && named_fun_ok name
        && args_shape_ok args && forallb (image_at true) args
    | ELambdaDef ps body => lambda_name_ok && forallb param_ok ps && image_at false body
    | ELambdaCall lam args =>
        (match lam with ELambdaDef _ _ => true | _ => false end) && image_at false lam
        && args_shape_ok args && forallb (image_at true) args
    | EArray rows =>
        match rows with
        | [] => false
        | r0 :: _ =>
          negb (Nat.eqb (length r0) 0) && forallb (fun r => Nat.eqb (length r) (length r0)) rows
          && forallb (forallb aelem_ok) rows
          && (pm_dot m || Nat.eqb (length rows) 1)
        end
    | EDefName name sc fo =>
        match sheet_index env None with
        | None => false
        | Some ci =>
          match get_defined_name nm env name ci with
          | Some (sc', fo') => opt_z_eqb sc sc' && text_eqb fo fo'
          | None => false
          end
        end
    | ETable name =>
        match sheet_index env None with
        | None => false
        | Some ci =>
          match get_defined_name nm env name ci with Some _ => false | None => is_table nm env name end
        end
    | EVar name id => (match id with None => true | Some _ => false end) && var_ok name
    | EAt a c => negb a && xl_call_ok t_xlfn_single && image_at false c
    | ESpill c => xl_call_ok t_xlfn_anchor && image_at false c
    | ENeg c | EPct c => image_at false c
    | EErr k => is_terror k (err_tokens nm k)
    | EParseError => false
    | EEmpty => arg
    end.
  Definition image (e : ast) : bool := image_at false e.

  (* [stringify] prints the name of a NamedFunctionKind in lower case: the tree comes back only
     if the name was in lower case already (finding F62) *)
  Fixpoint lower_stable (e : ast) : bool :=
    match e with
    | ENamedFun _ name args => text_eqb (nm_lower nm name) name && forallb lower_stable args
    | ERangeOp l r | EConcat l r | ESum _ l r | EProd _ l r | EPow l r | ECmp _ l r =>
        lower_stable l && lower_stable r
    | EFun _ args => forallb lower_stable args
    | ELambdaDef _ body => lower_stable body
    | ELambdaCall lam args => lower_stable lam && forallb lower_stable args
    | EAt _ c | ESpill c | ENeg c | EPct c => lower_stable c
    | _ => true
    end.

  (* node kinds inside the proved theorem: all of them (kept as a hook: a property built on this
     library may restrict it) *)
  Fixpoint fragment (e : ast) : bool :=
    match e with
    | ELambdaDef _ body => fragment body
    | ELambdaCall lam args => fragment lam && forallb fragment args
    | ERangeOp l r | EConcat l r | ESum _ l r | EProd _ l r | EPow l r | ECmp _ l r =>
        fragment l && fragment r
    | EFun _ args | ENamedFun _ _ args => forallb fragment args
    | EAt _ c | ESpill c | ENeg c | EPct c => fragment c
    | _ => true
    end.
End Image.

(* names for reports: "paren_missing:Sum<-Concat:left" *)
Definition kind_name (k : kind) : text :=
  match k with
  | KBool => [66;111;111;108] | KNum => [78;117;109] | KStr => [83;116;114] | KRef => [82;101;102]
  | KRange => [82;97;110;103;101;76;105;116] | KRangeOp => [82;97;110;103;101] | KConcat => [67;111;110;99;97;116]
  | KSum SAdd => [65;100;100] | KSum SMinus => [83;117;98] | KProd => [80;114;111;100] | KPow => [80;111;119]
  | KFun => [70;117;110] | KLambdaDef => [76;97;109;98;100;97] | KLambdaCall => [76;97;109;98;100;97;67;97;108;108]
  | KNamedFun => [78;97;109;101;100;70;117;110] | KArray => [65;114;114;97;121] | KDefName => [68;101;102;78;97;109;101]
  | KTable => [84;97;98;108;101] | KVar => [86;97;114] | KAt => [65;116] | KSpill => [83;112;105;108;108]
  | KCmp => [67;109;112] | KNeg => [78;101;103] | KPct => [80;99;116] | KErr => [69;114;114]
  | KParseError => [80;97;114;115;101;69;114;114;111;114] | KEmpty => [69;109;112;116;121]
  end.
