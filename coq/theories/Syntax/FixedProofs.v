(* Syntax/FixedProofs.v — hypothetical: with the three associative cases wrapped as well
   ([Printer.full_policy] = [fixed_policy], the repair F02 as first proposed) no bad pair is left and
   the round trip holds for every tree the parser can return. *)
From IronCalc Require Import Base.Prelude Codec.RefA1 Syntax.Token Syntax.Ast Syntax.Printer Syntax.Parser
  Syntax.Shape Syntax.RoundTrip.
Local Open Scope nat_scope.

Lemma fixed_bad_child xlsx e : bad_child_with fixed_policy xlsx e = false.
Proof.
  destruct e as [ | | | | |l r|l r|op l r|op l r|l r| | | | | | | | |a c|c|op l r|c|c| | | ];
    try reflexivity; cbn [bad_child_with fixed_policy full_policy pol_cmp_l pol_cmp_r pol_concat_l pol_concat_r pol_sum_l pol_sum_r
      pol_prod_l pol_prod_r pol_pow_l pol_pow_r pol_neg pol_pct pol_range_l pol_range_r pol_at pol_spill].
  all: try (destruct c; destruct xlsx; reflexivity).
  all: apply orb_false_iff; split; [destruct l|destruct r]; destruct xlsx; reflexivity.
Qed.

Lemma fixed_no_bad xlsx e : no_bad_with fixed_policy xlsx e = true.
Proof.
  induction e using ast_rect'; cbn [no_bad_with]; rewrite ?fixed_bad_child; cbn [negb andb]; try reflexivity;
    repeat match goal with
    | H : no_bad_with _ _ _ = true |- _ => rewrite H; clear H
    end; try reflexivity.
  all: try (apply forallb_forall; intros x Hx; rewrite Forall_forall in H; apply H; exact Hx).
  all: cbn [andb]; apply forallb_forall; intros x Hx;
    match goal with H : Forall _ _ |- _ => rewrite Forall_forall in H; apply H; exact Hx end.
Qed.

(* [stringify] with the repair: no exclusion left *)
Theorem roundtrip_fixed m nm env e :
  image m nm env e = true -> lower_stable nm e = true ->
  forall f, size e + 2 <= f -> parse_fuel m nm env f (print_fixed m nm e) = Some (e, []).
Proof.
  intros Hi Hl. apply (roundtrip_policy m nm env fixed_policy); try assumption; [reflexivity|apply fixed_no_bad].
Qed.
