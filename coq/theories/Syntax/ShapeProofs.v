(* Syntax/ShapeProofs.v — the explicit table [bad_pair] and the formula [bad_child]
   ("printed bare although the position only takes a tighter production") are the same predicate. *)
From IronCalc Require Import Base.Prelude Codec.RefA1 Syntax.Token Syntax.Ast Syntax.Printer Syntax.Parser Syntax.Shape.
Local Open Scope nat_scope.

(* ---- the table and the formula agree ----------------------------------------------------- *)
Lemma bad_child_is_table xlsx e : bad_child xlsx e = bad_child_table xlsx e.
Proof.
  destruct e as [ | | | | |l r|l r|op l r|op l r|l r| | | | | | | | |a c|c|op l r|c|c| | | ];
    try reflexivity; cbn [bad_child bad_child_table kind_of].
  all: try (destruct l; destruct r; destruct xlsx; reflexivity).
  all: try (destruct c; destruct xlsx; reflexivity).
  destruct op; destruct l; destruct r; destruct xlsx;
    repeat match goal with o : sum_op |- _ => destruct o end; reflexivity.
Qed.


