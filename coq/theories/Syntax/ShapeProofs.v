(* Syntax/ShapeProofs.v — the explicit table [bad_pair] and the formula [bad_child]
   ("printed bare although the position only takes a tighter production") are the same predicate. *)
From IronCalc Require Import Base.Prelude Codec.RefA1 Syntax.Token Syntax.Ast Syntax.Printer Syntax.Parser Syntax.Shape.
Local Open Scope nat_scope.

(* ---- the table and the formula agree ----------------------------------------------------- *)
Lemma bad_child_is_table xlsx e : bad_child xlsx e = bad_child_table xlsx e.
Proof.
  destruct e as [ | | | | |l r|l r|op l r|op l r|l r| | | | | | | | |a c|c|op l r|c|c| | | ];
    try reflexivity; unfold bad_child; cbn [bad_child_with bad_child_table kind_of stringify_policy pol_cmp_l pol_cmp_r pol_concat_l pol_concat_r pol_sum_l pol_sum_r pol_prod_l pol_prod_r pol_pow_l pol_pow_r pol_neg pol_pct pol_range_l pol_range_r pol_at pol_spill].
  all: try (destruct l; destruct r; destruct xlsx; reflexivity).
  all: try (destruct c; destruct xlsx; reflexivity).
  destruct op; destruct l; destruct r; destruct xlsx;
    repeat match goal with o : sum_op |- _ => destruct o end; reflexivity.
Qed.


