(* Syntax/Ast.v — formula syntax trees, mirroring [Node] (expressions/parser/mod.rs).

   Correspondence with the Rust enum (27 variants):
     BooleanKind -> EBool          NumberKind -> ENum (canonical decimal text, see Token.v)
     StringKind  -> EStr           ReferenceKind / WrongReferenceKind -> ERef  (idx = Some i / None)
     RangeKind / WrongRangeKind -> ERange (idx = Some i / None)
     OpRangeKind -> ERangeOp       OpConcatenateKind -> EConcat     OpSumKind -> ESum
     OpProductKind -> EProd        OpPowerKind -> EPow              FunctionKind -> EFun (id = index in Function::into_iter())
     LambdaDefKind -> ELambdaDef   LambdaCallKind -> ELambdaCall    NamedFunctionKind -> ENamedFun
     ArrayKind -> EArray           DefinedNameKind -> EDefName      TableNameKind -> ETable
     NamedVariableKind -> EVar     ImplicitIntersection -> EAt      SpillRangeOperator -> ESpill
     CompareKind -> ECmp           UnaryKind Minus / Percentage -> ENeg / EPct
     ErrorKind -> EErr             ParseErrorKind -> EParseError (payload dropped)   EmptyArgKind -> EEmpty
   A reference stores what the Node stores: the absolute position when the coordinate is
   absolute, the offset from the formula's cell when it is relative. *)
From IronCalc Require Import Base.Prelude Codec.RefA1 Syntax.Token.

(* ArrayNode; a negative number literal is [ANum true n] (n the text of its absolute value) *)
Inductive aelem :=
| ABool (b : bool)
| ANum (neg : bool) (n : text)
| AStr (s : text)
| AErr (e : Z)
| AEmpty.

(* NamedVariable (a LAMBDA parameter) *)
Record lparam := { lp_name : text; lp_id : option Z; lp_opt : bool }.

Inductive ast :=
| EBool (b : bool)
| ENum (n : text)
| EStr (s : text)
| ERef (sheet : option text) (idx : option Z) (p : pref)
| ERange (sheet : option text) (idx : option Z) (p1 p2 : pref)
| ERangeOp (l r : ast)
| EConcat (l r : ast)
| ESum (op : sum_op) (l r : ast)
| EProd (op : prod_op) (l r : ast)
| EPow (l r : ast)
| EFun (f : Z) (args : list ast)
| ELambdaDef (ps : list lparam) (body : ast)
| ELambdaCall (lam : ast) (args : list ast)
| ENamedFun (id : option Z) (name : text) (args : list ast)
| EArray (rows : list (list aelem))
| EDefName (name : text) (scope : option Z) (formula : text)
| ETable (name : text)
| EVar (name : text) (id : option Z)
| EAt (automatic : bool) (c : ast)
| ESpill (c : ast)
| ECmp (op : cmp_op) (l r : ast)
| ENeg (c : ast)
| EPct (c : ast)
| EErr (e : Z)
| EParseError
| EEmpty.

(* node kinds, for tables indexed by (parent kind, child position, child kind) *)
Inductive kind :=
| KBool | KNum | KStr | KRef | KRange | KRangeOp | KConcat | KSum (op : sum_op) | KProd | KPow
| KFun | KLambdaDef | KLambdaCall | KNamedFun | KArray | KDefName | KTable | KVar
| KAt | KSpill | KCmp | KNeg | KPct | KErr | KParseError | KEmpty.

Definition kind_of (e : ast) : kind :=
  match e with
  | EBool _ => KBool | ENum _ => KNum | EStr _ => KStr | ERef _ _ _ => KRef | ERange _ _ _ _ => KRange
  | ERangeOp _ _ => KRangeOp | EConcat _ _ => KConcat | ESum op _ _ => KSum op | EProd _ _ _ => KProd
  | EPow _ _ => KPow | EFun _ _ => KFun | ELambdaDef _ _ => KLambdaDef | ELambdaCall _ _ => KLambdaCall
  | ENamedFun _ _ _ => KNamedFun | EArray _ => KArray | EDefName _ _ _ => KDefName | ETable _ => KTable
  | EVar _ _ => KVar | EAt _ _ => KAt | ESpill _ => KSpill | ECmp _ _ _ => KCmp | ENeg _ => KNeg
  | EPct _ => KPct | EErr _ => KErr | EParseError => KParseError | EEmpty => KEmpty
  end.

(* child positions *)
Inductive position := PLeft | PRight | POnly | PArg.

(* Induction principle that goes through the argument lists. *)
Section AstInd.
  Variable P : ast -> Prop.
  Hypothesis HBool : forall b, P (EBool b).
  Hypothesis HNum : forall n, P (ENum n).
  Hypothesis HStr : forall s, P (EStr s).
  Hypothesis HRef : forall s i p, P (ERef s i p).
  Hypothesis HRange : forall s i p q, P (ERange s i p q).
  Hypothesis HRangeOp : forall l r, P l -> P r -> P (ERangeOp l r).
  Hypothesis HConcat : forall l r, P l -> P r -> P (EConcat l r).
  Hypothesis HSum : forall op l r, P l -> P r -> P (ESum op l r).
  Hypothesis HProd : forall op l r, P l -> P r -> P (EProd op l r).
  Hypothesis HPow : forall l r, P l -> P r -> P (EPow l r).
  Hypothesis HFun : forall f args, Forall P args -> P (EFun f args).
  Hypothesis HLambdaDef : forall ps body, P body -> P (ELambdaDef ps body).
  Hypothesis HLambdaCall : forall lam args, P lam -> Forall P args -> P (ELambdaCall lam args).
  Hypothesis HNamedFun : forall id name args, Forall P args -> P (ENamedFun id name args).
  Hypothesis HArray : forall rows, P (EArray rows).
  Hypothesis HDefName : forall n s f, P (EDefName n s f).
  Hypothesis HTable : forall n, P (ETable n).
  Hypothesis HVar : forall n i, P (EVar n i).
  Hypothesis HAt : forall a c, P c -> P (EAt a c).
  Hypothesis HSpill : forall c, P c -> P (ESpill c).
  Hypothesis HCmp : forall op l r, P l -> P r -> P (ECmp op l r).
  Hypothesis HNeg : forall c, P c -> P (ENeg c).
  Hypothesis HPct : forall c, P c -> P (EPct c).
  Hypothesis HErr : forall e, P (EErr e).
  Hypothesis HParseError : P EParseError.
  Hypothesis HEmpty : P EEmpty.

  Fixpoint ast_rect' (e : ast) : P e :=
    let fix go (l : list ast) : Forall P l :=
      match l with
      | [] => Forall_nil P
      | x :: r => Forall_cons x (ast_rect' x) (go r)
      end in
    match e with
    | EBool b => HBool b | ENum n => HNum n | EStr s => HStr s | ERef s i p => HRef s i p
    | ERange s i p q => HRange s i p q
    | ERangeOp l r => HRangeOp l r (ast_rect' l) (ast_rect' r)
    | EConcat l r => HConcat l r (ast_rect' l) (ast_rect' r)
    | ESum op l r => HSum op l r (ast_rect' l) (ast_rect' r)
    | EProd op l r => HProd op l r (ast_rect' l) (ast_rect' r)
    | EPow l r => HPow l r (ast_rect' l) (ast_rect' r)
    | EFun f args => HFun f args (go args)
    | ELambdaDef ps body => HLambdaDef ps body (ast_rect' body)
    | ELambdaCall lam args => HLambdaCall lam args (ast_rect' lam) (go args)
    | ENamedFun id name args => HNamedFun id name args (go args)
    | EArray rows => HArray rows
    | EDefName n s f => HDefName n s f | ETable n => HTable n | EVar n i => HVar n i
    | EAt a c => HAt a c (ast_rect' c) | ESpill c => HSpill c (ast_rect' c)
    | ECmp op l r => HCmp op l r (ast_rect' l) (ast_rect' r)
    | ENeg c => HNeg c (ast_rect' c) | EPct c => HPct c (ast_rect' c)
    | EErr e => HErr e | EParseError => HParseError | EEmpty => HEmpty
    end.
End AstInd.

(* number of nodes; the parser's fuel is measured against it *)
Fixpoint size (e : ast) : nat :=
  match e with
  | ERangeOp l r | EConcat l r | ESum _ l r | EProd _ l r | EPow l r | ECmp _ l r => S (size l + size r)
  | EFun _ args | ENamedFun _ _ args => S (fold_right (fun a n => (size a + n)%nat) O args)
  | ELambdaDef ps body => S (length ps + size body)
  | ELambdaCall lam args => S (size lam + fold_right (fun a n => (size a + n)%nat) O args)
  | EAt _ c | ESpill c | ENeg c | EPct c => S (size c)
  | EArray rows => (3 + length rows + fold_right (fun r n => (length r + n)%nat) O rows)%nat
  | _ => 1%nat
  end.
