(* Syntax/FullRangeProofs.v — what the whole-row / whole-column tests mean, pinned: all four
   conjuncts, on the stored fields. *)
From IronCalc Require Import Base.Prelude Codec.RefA1 Syntax.FullRange.

Lemma full_column_iff p1 p2 :
  full_column p1 p2 = true <->
  p_abs_col p1 = true /\ p_abs_col p2 = true /\ p_col p1 = 1 /\ p_col p2 = LAST_COLUMN.
Proof.
  unfold full_column. rewrite !andb_true_iff, !Z.eqb_eq. tauto.
Qed.

Lemma full_row_iff p1 p2 :
  full_row p1 p2 = true <->
  p_abs_row p1 = true /\ p_abs_row p2 = true /\ p_row p1 = 1 /\ p_row p2 = LAST_ROW.
Proof.
  unfold full_row. rewrite !andb_true_iff, !Z.eqb_eq. tauto.
Qed.

(* a relative first coordinate never makes a whole row / column, whatever its stored value *)
Lemma relative_start_not_full p1 p2 :
  (p_abs_col p1 = false -> full_column p1 p2 = false) /\ (p_abs_row p1 = false -> full_row p1 p2 = false).
Proof. split; intro H; [unfold full_column|unfold full_row]; rewrite H; reflexivity. Qed.

Lemma relative_end_not_full p1 p2 :
  (p_abs_col p2 = false -> full_column p1 p2 = false) /\ (p_abs_row p2 = false -> full_row p1 p2 = false).
Proof.
  split; intro H; [unfold full_column|unfold full_row]; rewrite H;
    [destruct (p_abs_col p1)|destruct (p_abs_row p1)]; reflexivity.
Qed.
