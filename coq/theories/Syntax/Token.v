(* Syntax/Token.v — the token alphabet of the formula lexer ([TokenType], expressions/token.rs).
   L2 works on tokens: the end of input (EOF) is the end of the list, numbers carry their
   canonical decimal text (what [to_excel_precision_str] prints in the "en" locale), strings
   the raw text between the quotes (inner quotes stay doubled, exactly as [consume_string]
   keeps them), errors their index in the [Error] enum, references the record the lexer
   produces ([ParsedReference]: in A1 mode the grid position, in R1C1 mode the offsets).
   [TStructured] (table references) is not modelled: the printer never emits one. *)
From IronCalc Require Import Base.Prelude Codec.RefA1.

Inductive cmp_op := CLt | CGt | CEq | CLe | CGe | CNe.
Inductive sum_op := SAdd | SMinus.
Inductive prod_op := PTimes | PDivide.

Inductive token :=
| TIllegal
| TIdent (name : text)
| TString (s : text)
| TNumber (n : text)
| TBoolean (b : bool)
| TError (e : Z)
| TCompare (op : cmp_op)
| TAddition (op : sum_op)
| TProduct (op : prod_op)
| TPower
| TLParen | TRParen
| TColon | TSemicolon
| TLBracket | TRBracket
| TLBrace | TRBrace
| TComma | TBang | TPercent | TAnd | TAt | TSpill | TBackslash
| TReference (sheet : option text) (p : pref)
| TRange (sheet : option text) (l r : pref).

(* the four separator tokens the parser compares with [==] *)
Inductive sep := SepComma | SepSemicolon | SepBackslash | SepSlash.

Definition sep_token (s : sep) : token :=
  match s with
  | SepComma => TComma
  | SepSemicolon => TSemicolon
  | SepBackslash => TBackslash
  | SepSlash => TProduct PDivide      (* "/" always lexes as the division operator *)
  end.

Definition is_sep (s : sep) (t : token) : bool :=
  match s, t with
  | SepComma, TComma => true
  | SepSemicolon, TSemicolon => true
  | SepBackslash, TBackslash => true
  | SepSlash, TProduct PDivide => true
  | _, _ => false
  end.

Definition is_rparen (t : token) : bool := match t with TRParen => true | _ => false end.
