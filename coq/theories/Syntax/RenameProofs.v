(* Syntax/RenameProofs.v — proofs about Syntax/Rename.v (C17). *)
From IronCalc Require Import Base.Prelude Codec.RefA1 Syntax.Token Syntax.Ast Syntax.Printer Syntax.Parser
  Syntax.Shape Syntax.RoundTrip Syntax.FuelProofs Syntax.Rename Codec.SheetName Codec.SheetNameProofs.
From Coq Require Import Permutation.

(* ---- the node pass touches only the target (outside ghost ranges) ------------------------------ *)
Lemma rename_valid_target i n s k : rename_valid i n s k = target_field i n s (Some k).
Proof. unfold rename_valid, target_field. destruct s; cbn [is_some]; destruct (k =? i); reflexivity. Qed.

Lemma rename_wrong_ref_target i n s : rename_wrong_ref n s = target_field i n s None.
Proof. destruct s; reflexivity. Qed.

Lemma Forall2_map_pass (R : ast -> ast -> Prop) (f : ast -> ast) (g : ast -> bool) l :
  Forall (fun x => g x = true -> R x (f x)) l -> forallb g l = true -> Forall2 R l (map f l).
Proof.
  induction 1 as [|x l Hx _ IH]; cbn [forallb map]; intro Hg; [constructor|].
  apply andb_true_iff in Hg as [H1 H2]. constructor; auto.
Qed.

Theorem rename_only_target_partial i n e :
  no_ghost_range e = true -> only_target i n e (rename_node i n e).
Proof.
  induction e using ast_rect'; cbn [rename_node no_ghost_range]; intro Hg;
    try (apply OT_leaf; reflexivity);
    try (apply andb_true_iff in Hg as [Hg1 Hg2]; constructor; auto; fail);
    try (constructor; auto; fail).
  - (* ERef *) destruct i0 as [k|].
    + rewrite rename_valid_target. constructor.
    + rewrite (rename_wrong_ref_target i). constructor.
  - (* ERange *) destruct i0 as [k|].
    + rewrite rename_valid_target. constructor.
    + destruct s; [discriminate|]. cbn [rename_wrong_range]. apply (OT_range i n None None).
  - constructor. apply Forall2_map_pass with (g := no_ghost_range); assumption.
  - apply andb_true_iff in Hg as [Hg1 Hg2]. constructor; [auto|].
    apply Forall2_map_pass with (g := no_ghost_range); assumption.
  - constructor. apply Forall2_map_pass with (g := no_ghost_range); assumption.
Qed.

(* the full-strength statement and its refutation *)
Definition rename_only_target_statement : Prop :=
  forall i n e, only_target i n e (rename_node i n e).

Definition pA1 : pref := {| p_row := 0; p_col := -3; p_abs_col := false; p_abs_row := false |}.
Definition pA2 : pref := {| p_row := 1; p_col := -3; p_abs_col := false; p_abs_row := false |}.
Definition t_ghost : text := [71;104;111;115;116].                 (* "Ghost" *)
Definition t_renamed : text := [82;101;110;97;109;101;100].         (* "Renamed" *)
Definition t_sheet1 : text := [83;104;101;101;116;49].
Definition t_sheet2 : text := [83;104;101;101;116;50].
(* SUM(Ghost!R[0]C[-3]:R[1]C[-3]) — the stored form of =SUM(Ghost!A1:A2) typed into D1 *)
Definition w_ghost : ast := ENamedFun None [115;117;109] [ERange (Some t_ghost) None pA1 pA2].
Definition env_w : penv := {| pe_sheets := [t_sheet1; t_sheet2]; pe_ctx_sheet := t_sheet1; pe_defnames := []; pe_tables := [] |}.
Definition nm_w : names :=
  {| fn_name := fun _ => [70]; fn_lookup := fun _ => None; bool_of_name := fun _ => None; fn_true := 0; fn_false := 1;
     nm_lower := fun t => t; nm_upper := fun t => t; err_tokens := fun k => [TError k] |}.

(* renaming Sheet2 (index 1) to "Renamed": the tree is one the parser returns, the pass changes a
   node that does not refer to sheet 1, and the new stored text then resolves to the renamed sheet *)
Theorem rename_ghost_range_refuted :
  image m_stored nm_w env_w w_ghost = true /\
  ~ only_target 1 t_renamed w_ghost (rename_node 1 t_renamed w_ghost) /\
  parse m_stored nm_w (env_renamed 1 t_renamed env_w) (print m_stored nm_w (rename_node 1 t_renamed w_ghost))
    = Some (ENamedFun None [115;117;109] [ERange (Some t_renamed) (Some 1) pA1 pA2], []).
Proof.
  split; [vm_compute; reflexivity|]. split; [|vm_compute; reflexivity].
  vm_compute. intro H. inversion H as [| | | | | | | | |id name a a' HF| | | | | | |e He]; subst. Show.
  - inversion HF as [|x y l l' Hxy Hl]; subst. inversion Hxy; subst; discriminate.
  - discriminate.
Qed.

Theorem rename_only_target_refuted : ~ rename_only_target_statement.
Proof. intro H. exact (proj1 (proj2 rename_ghost_range_refuted) (H _ _ _)). Qed.
