(* Syntax/RenameProofs.v — proofs about Syntax/Rename.v (C17). *)
From IronCalc Require Import Base.Prelude Codec.RefA1 Syntax.Token Syntax.Ast Syntax.Printer Syntax.Parser
  Syntax.Shape Syntax.RoundTrip Syntax.FuelProofs Syntax.Rename Codec.SheetName Codec.SheetNameProofs.
From Coq Require Import Permutation.

(* ---- the node pass touches only the target (outside ghost ranges) ------------------------------ *)
Lemma rename_valid_target i n s k : rename_valid i n s k = target_field i n s (Some k).
Proof. unfold rename_valid, target_field. destruct s; cbn [is_some]; destruct (k =? i); reflexivity. Qed.

Lemma rename_wrong_ref_target i n s : rename_wrong_ref n s = target_field i n s None.
Proof. destruct s; reflexivity. Qed.

Lemma Forall2_map_pass (R : ast -> ast -> Prop) (f : ast -> ast) (g : ast -> bool) l :
  Forall (fun x => g x = true -> R x (f x)) l -> forallb g l = true -> Forall2 R l (map f l).
Proof.
  induction 1 as [|x l Hx _ IH]; cbn [forallb map]; intro Hg; [constructor|].
  apply andb_true_iff in Hg as [H1 H2]. constructor; auto.
Qed.

Theorem rename_only_target_partial i n e :
  no_ghost_range e = true -> only_target i n e (rename_node i n e).
Proof.
  induction e using ast_rect'; cbn [rename_node no_ghost_range]; intro Hg;
    try (apply OT_leaf; reflexivity);
    try (apply andb_true_iff in Hg as [Hg1 Hg2]; constructor; auto; fail);
    try (constructor; auto; fail).
  - (* ERef *) destruct i0 as [k|].
    + rewrite rename_valid_target. constructor.
    + rewrite (rename_wrong_ref_target i). constructor.
  - (* ERange *) destruct i0 as [k|].
    + rewrite rename_valid_target. constructor.
    + destruct s; [discriminate|]. cbn [rename_wrong_range]. apply (OT_range i n None None).
  - constructor. apply Forall2_map_pass with (g := no_ghost_range); assumption.
  - apply andb_true_iff in Hg as [Hg1 Hg2]. constructor; [auto|].
    apply Forall2_map_pass with (g := no_ghost_range); assumption.
  - constructor. apply Forall2_map_pass with (g := no_ghost_range); assumption.
Qed.

(* the full-strength statement and its refutation *)
Definition rename_only_target_statement : Prop :=
  forall i n e, only_target i n e (rename_node i n e).

Definition pA1 : pref := {| p_row := 0; p_col := -3; p_abs_col := false; p_abs_row := false |}.
Definition pA2 : pref := {| p_row := 1; p_col := -3; p_abs_col := false; p_abs_row := false |}.
Definition t_ghost : text := [71;104;111;115;116].                 (* "Ghost" *)
Definition t_renamed : text := [82;101;110;97;109;101;100].         (* "Renamed" *)
Definition t_sheet1 : text := [83;104;101;101;116;49].
Definition t_sheet2 : text := [83;104;101;101;116;50].
(* SUM(Ghost!R[0]C[-3]:R[1]C[-3]) — the stored form of =SUM(Ghost!A1:A2) typed into D1 *)
Definition w_ghost : ast := ENamedFun None [115;117;109] [ERange (Some t_ghost) None pA1 pA2].
Definition env_w : penv := {| pe_sheets := [t_sheet1; t_sheet2]; pe_ctx_sheet := t_sheet1; pe_defnames := []; pe_tables := [] |}.
Definition nm_w : names :=
  {| fn_name := fun _ => [70]; fn_lookup := fun _ => None; bool_of_name := fun _ => None; fn_true := 0; fn_false := 1;
     nm_lower := fun t => t; nm_upper := fun t => t; err_tokens := fun k => [TError k] |}.

(* renaming Sheet2 (index 1) to "Renamed": the tree is one the parser returns, the pass changes a
   node that does not refer to sheet 1, and the new stored text then resolves to the renamed sheet *)
Theorem rename_ghost_range_refuted :
  image m_stored nm_w env_w w_ghost = true /\
  ~ only_target 1 t_renamed w_ghost (rename_node 1 t_renamed w_ghost) /\
  parse m_stored nm_w (env_renamed 1 t_renamed env_w) (print m_stored nm_w (rename_node 1 t_renamed w_ghost))
    = Some (ENamedFun None [115;117;109] [ERange (Some t_renamed) (Some 1) pA1 pA2], []).
Proof.
  split; [vm_compute; reflexivity|]. split; [|vm_compute; reflexivity].
  vm_compute. intro H. inversion H as [| | | | | | | | |id name a a' HF| | | | | | |e He]; subst.
  inversion HF as [|x y l l' Hxy Hl]; subst. inversion Hxy; subst; discriminate.
Qed.

Theorem rename_only_target_refuted : ~ rename_only_target_statement.
Proof. intro H. exact (proj1 (proj2 rename_ghost_range_refuted) (H _ _ _)). Qed.

(* ---- move_sheet: references are by name, and a name denotes the same sheet after the move -------- *)
Lemma lookup_some_in {A} name (l : list (text * A)) a : lookup name l = Some a -> In (name, a) l.
Proof.
  induction l as [|[x b] r IH]; cbn [lookup]; [discriminate|].
  destruct (text_eqb x name) eqn:E.
  - intro H. inversion H; subst. apply text_eqb_eq in E. subst. left. reflexivity.
  - intro H. right. auto.
Qed.

Lemma lookup_none_notin {A} name (l : list (text * A)) : lookup name l = None -> ~ In name (map fst l).
Proof.
  induction l as [|[x b] r IH]; cbn [lookup map fst]; [intros _ []|].
  destruct (text_eqb x name) eqn:E; [discriminate|].
  intros H [H1|H1]; [|exact (IH H H1)].
  cbn in H1. subst. rewrite text_eqb_refl in E. discriminate.
Qed.

Lemma lookup_in_nodup {A} name (l : list (text * A)) a :
  NoDup (map fst l) -> In (name, a) l -> lookup name l = Some a.
Proof.
  induction l as [|[x b] r IH]; cbn [lookup map fst]; [intros _ []|].
  intros Hnd [H|H].
  - inversion H; subst. rewrite text_eqb_refl. reflexivity.
  - inversion Hnd as [|? ? Hnot Hnd']; subst.
    destruct (text_eqb x name) eqn:E.
    + apply text_eqb_eq in E. subst. exfalso. apply Hnot.
      change name with (fst (name, a)). apply in_map. exact H.
    + auto.
Qed.

Lemma lookup_notin_none {A} name (l : list (text * A)) : ~ In name (map fst l) -> lookup name l = None.
Proof.
  intro H. destruct (lookup name l) eqn:E; [|reflexivity].
  exfalso. apply H. apply lookup_some_in in E. change name with (fst (name, a)). apply in_map. exact E.
Qed.

Lemma lookup_perm {A} (l l' : list (text * A)) name :
  Permutation l l' -> NoDup (map fst l) -> lookup name l' = lookup name l.
Proof.
  intros HP Hnd.
  assert (Hnd' : NoDup (map fst l')) by (eapply Permutation_NoDup; [apply Permutation_map; exact HP|exact Hnd]).
  destruct (lookup name l) eqn:E.
  - apply lookup_in_nodup; [exact Hnd'|]. eapply Permutation_in; [exact HP|]. apply lookup_some_in. exact E.
  - apply lookup_notin_none. intro Hin. apply (lookup_none_notin _ _ E).
    eapply Permutation_in; [apply Permutation_sym; apply Permutation_map; exact HP|exact Hin].
Qed.

Lemma nth_error_split_perm {A} (l : list A) i x :
  nth_error l i = Some x -> Permutation l (x :: remove_at i l).
Proof.
  intro H. unfold remove_at.
  destruct (nth_error_split l i H) as (l1 & l2 & -> & Hlen).
  subst i. rewrite firstn_app, firstn_all, Nat.sub_diag. cbn [firstn]. rewrite app_nil_r.
  replace (S (length l1)) with (length l1 + 1)%nat by lia.
  rewrite skipn_app. rewrite skipn_all2 by lia. cbn [app].
  replace (length l1 + 1 - length l1)%nat with 1%nat by lia. cbn [skipn].
  apply Permutation_sym. apply Permutation_middle.
Qed.

Lemma insert_at_perm {A} (l : list A) j x : Permutation (x :: l) (insert_at j x l).
Proof.
  unfold insert_at. rewrite <- (firstn_skipn j l) at 1. apply Permutation_middle.
Qed.

Theorem move_permutes {A} (i j : nat) (l l' : list A) : move_list i j l = Ok l' -> Permutation l l'.
Proof.
  unfold move_list. destruct (Nat.leb (length l) i); [discriminate|].
  destruct (Nat.leb (length l) j); [discriminate|].
  destruct (Nat.eqb i j); [intro H; inversion H; subst; apply Permutation_refl|].
  destruct (nth_error l i) as [x|] eqn:E; [|discriminate].
  intro H. inversion H; subst. eapply Permutation_trans; [apply nth_error_split_perm; exact E|apply insert_at_perm].
Qed.

Theorem move_resolves_same_sheet {A} (i j : nat) (l l' : list (text * A)) :
  move_list i j l = Ok l' -> NoDup (map fst l) -> forall name, lookup name l' = lookup name l.
Proof. intros H Hnd name. apply lookup_perm; [exact (move_permutes _ _ _ _ H)|exact Hnd]. Qed.

Theorem move_total {A} (i j : nat) (l : list A) :
  (i < length l)%nat -> (j < length l)%nat -> exists l', move_list i j l = Ok l' /\ length l' = length l.
Proof.
  intros Hi Hj. unfold move_list.
  destruct (Nat.leb (length l) i) eqn:E1; [apply Nat.leb_le in E1; lia|].
  destruct (Nat.leb (length l) j) eqn:E2; [apply Nat.leb_le in E2; lia|].
  destruct (Nat.eqb i j); [eexists; split; reflexivity|].
  destruct (nth_error l i) as [x|] eqn:E; [|apply nth_error_None in E; lia].
  eexists; split; [reflexivity|].
  apply Permutation_length. apply Permutation_sym.
  eapply Permutation_trans; [apply nth_error_split_perm; exact E|apply insert_at_perm].
Qed.

(* the moved sheet ends up at exactly the target position *)
Theorem move_lands_at {A} (i j : nat) (l l' : list A) x :
  move_list i j l = Ok l' -> nth_error l i = Some x -> nth_error l' j = Some x.
Proof.
  unfold move_list. destruct (Nat.leb (length l) i) eqn:E1; [discriminate|].
  destruct (Nat.leb (length l) j) eqn:E2; [discriminate|].
  destruct (Nat.eqb i j) eqn:E3.
  - intros H Hx. inversion H; subst. apply Nat.eqb_eq in E3. subst. exact Hx.
  - intros H Hx. rewrite Hx in H. inversion H; subst. unfold insert_at.
    apply Nat.leb_gt in E1. apply Nat.leb_gt in E2.
    assert (Hlen : length (remove_at i l) = (length l - 1)%nat).
    { unfold remove_at. rewrite app_length, firstn_length, skipn_length. lia. }
    rewrite nth_error_app2; rewrite firstn_length; [|lia].
    replace (j - Nat.min j (length (remove_at i l)))%nat with 0%nat by lia. reflexivity.
Qed.

(* ---- the retargeted tree is again a tree the parser returns, in the new environment --------------- *)
Lemma opt_z_eqb_true a b : opt_z_eqb a b = true -> a = b.
Proof. destruct a, b; cbn [opt_z_eqb]; try discriminate; try reflexivity. intro H. apply Z.eqb_eq in H. congruence. Qed.
Lemma opt_z_eqb_refl a : opt_z_eqb a a = true.
Proof. destruct a; cbn [opt_z_eqb]; [apply Z.eqb_refl|reflexivity]. Qed.

Lemma forallb_map_pass3 (P Q1 Q2 P' : ast -> bool) (f : ast -> ast) l :
  Forall (fun x => P x = true -> Q1 x = true -> Q2 x = true -> P' (f x) = true) l ->
  forallb P l = true -> forallb Q1 l = true -> forallb Q2 l = true -> forallb P' (map f l) = true.
Proof.
  induction 1 as [|x l Hx _ IH]; cbn [forallb map]; intros H1 H2 H3; [reflexivity|].
  apply andb_true_iff in H1 as [? ?]. apply andb_true_iff in H2 as [? ?]. apply andb_true_iff in H3 as [? ?].
  apply andb_true_iff. split; auto.
Qed.

Section Retarget.
  Variables (m : pmode) (nm : names) (env env' : penv) (i : Z) (n : text) (rho : Z -> Z).

  Definition retarget (e : ast) : ast := reindex rho (rename_node i n e).

  Hypothesis HA : sheet_index env' (Some n) = Some (rho i).
  Hypothesis HB : forall name k, sheet_index env (Some name) = Some k -> k <> i ->
                                 sheet_index env' (Some name) = Some (rho k).
  Hypothesis HC : sheet_index env' None = reindex_field rho (sheet_index env None).
  Hypothesis HD : forall g, sheet_index env (Some g) = None -> g <> n -> sheet_index env' (Some g) = None.
  Hypothesis Hdn : forall name ci, sheet_index env None = Some ci ->
                                   get_defined_name nm env' name (rho ci) = get_defined_name nm env name ci.
  Hypothesis Htb : pe_tables env' = pe_tables env.

  Lemma is_table_pres name : is_table nm env' name = is_table nm env name.
  Proof. unfold is_table. rewrite Htb. reflexivity. Qed.

  Lemma valid_field_ok s k :
    sheet_index env s = Some k -> sheet_index env' (rename_valid i n s k) = Some (rho k).
  Proof.
    intro H. unfold rename_valid. destruct s as [name|]; cbn [is_some].
    - rewrite andb_true_r. destruct (k =? i) eqn:E.
      + apply Z.eqb_eq in E. subst. exact HA.
      + apply Z.eqb_neq in E. apply HB; assumption.
    - rewrite andb_false_r. rewrite HC, H. reflexivity.
  Qed.

  Lemma ghost_field_ok s :
    sheet_index env s = None -> not_named n s = true -> sheet_index env' s = None.
  Proof.
    intros H Hn. destruct s as [g|].
    - apply HD; [exact H|]. cbn [not_named] in Hn. intro Heq. subst.
      rewrite text_eqb_refl in Hn. discriminate.
    - rewrite HC, H. reflexivity.
  Qed.

  Lemma ident_free_pres name : ident_free nm env name = true -> ident_free nm env' name = true.
  Proof.
    unfold ident_free. rewrite HC. destruct (sheet_index env None) as [ci|] eqn:E; [|discriminate].
    cbn [reindex_field]. rewrite (Hdn name ci eq_refl), is_table_pres. auto.
  Qed.

  Lemma var_ok_pres name : var_ok nm env name = true -> var_ok nm env' name = true.
  Proof.
    unfold var_ok. rewrite HC. destruct (sheet_index env None) as [ci|] eqn:E; [|discriminate].
    cbn [reindex_field]. rewrite (Hdn name ci eq_refl), is_table_pres. auto.
  Qed.

  Lemma param_ok_pres p : param_ok m nm env p = true -> param_ok m nm env' p = true.
  Proof.
    unfold param_ok. destruct (lp_id p); [auto|]. intro H.
    apply andb_true_iff in H as [H H3]. apply andb_true_iff in H as [H1 H2].
    rewrite (ident_free_pres _ H1), H2, H3. reflexivity.
  Qed.

  Lemma args_shape_retarget args : args_shape_ok (map retarget args) = args_shape_ok args.
  Proof.
    destruct args as [|a [|b r]]; [reflexivity| |].
    - destruct a; try reflexivity.
    - destruct a; reflexivity.
  Qed.

  Lemma is_lambdadef_retarget lam :
    match retarget lam with ELambdaDef _ _ => true | _ => false end
    = match lam with ELambdaDef _ _ => true | _ => false end.
  Proof. destruct lam; reflexivity. Qed.

  Lemma image_retarget e :
    forall arg, image_at m nm env arg e = true -> no_ghost_range e = true -> no_ghost_named n e = true ->
                image_at m nm env' arg (retarget e) = true.
  Proof.
    induction e using ast_rect'; intros arg Hi Hg Hn; unfold retarget;
      cbn [rename_node reindex]; fold retarget;
      cbn [image_at no_ghost_range no_ghost_named] in *;
      try exact Hi.
    - (* ERef *)
      apply andb_true_iff in Hi as [Hi1 Hi2]. rewrite Hi2, andb_true_r. apply opt_z_eqb_true in Hi1.
      destruct i0 as [k|]; cbn [reindex_field].
      + rewrite (valid_field_ok s k (eq_sym Hi1)). apply opt_z_eqb_refl.
      + assert (E : rename_wrong_ref n s = s) by (destruct s; reflexivity). rewrite E.
        rewrite (ghost_field_ok s (eq_sym Hi1) Hn). reflexivity.
    - (* ERange *)
      apply andb_true_iff in Hi as [Hi1 Hi2]. rewrite Hi2, andb_true_r. apply opt_z_eqb_true in Hi1.
      destruct i0 as [k|]; cbn [reindex_field].
      + rewrite (valid_field_ok s k (eq_sym Hi1)). apply opt_z_eqb_refl.
      + destruct s as [g|]; [discriminate|]. cbn [rename_wrong_range].
        rewrite (ghost_field_ok None (eq_sym Hi1) Hn). reflexivity.
    - apply andb_true_iff in Hi as [? ?]; apply andb_true_iff in Hg as [? ?]; apply andb_true_iff in Hn as [? ?].
      apply andb_true_iff; split; auto.
    - apply andb_true_iff in Hi as [? ?]; apply andb_true_iff in Hg as [? ?]; apply andb_true_iff in Hn as [? ?].
      apply andb_true_iff; split; auto.
    - apply andb_true_iff in Hi as [? ?]; apply andb_true_iff in Hg as [? ?]; apply andb_true_iff in Hn as [? ?].
      apply andb_true_iff; split; auto.
    - apply andb_true_iff in Hi as [? ?]; apply andb_true_iff in Hg as [? ?]; apply andb_true_iff in Hn as [? ?].
      apply andb_true_iff; split; auto.
    - apply andb_true_iff in Hi as [? ?]; apply andb_true_iff in Hg as [? ?]; apply andb_true_iff in Hn as [? ?].
      apply andb_true_iff; split; auto.
    - (* EFun *)
      rewrite map_map. fold retarget.
      apply andb_true_iff in Hi as [Hi Hi3]. apply andb_true_iff in Hi as [Hi1 Hi2].
      change (map (fun x => reindex rho (rename_node i n x)) args) with (map retarget args).
      rewrite Hi1, args_shape_retarget, Hi2. cbn [andb].
      eapply forallb_map_pass3; [|exact Hi3|exact Hg|exact Hn].
      eapply Forall_impl; [|exact H]. cbn beta. intros a Ha. apply Ha.
    - (* ELambdaDef *)
      apply andb_true_iff in Hi as [Hi Hi3]. apply andb_true_iff in Hi as [Hi1 Hi2].
      rewrite Hi1. cbn [andb]. apply andb_true_iff; split; [|auto].
      apply forallb_forall. intros p Hp. apply param_ok_pres. rewrite forallb_forall in Hi2. auto.
    - (* ELambdaCall *)
      rewrite map_map.
      change (map (fun x => reindex rho (rename_node i n x)) args) with (map retarget args).
      apply andb_true_iff in Hi as [Hi Hi4]. apply andb_true_iff in Hi as [Hi Hi3]. apply andb_true_iff in Hi as [Hi1 Hi2].
      apply andb_true_iff in Hg as [Hg1 Hg2]. apply andb_true_iff in Hn as [Hn1 Hn2].
      Show. rewrite is_lambdadef_retarget, Hi1, args_shape_retarget, Hi3, (IHe false Hi2 Hg1 Hn1). cbn [andb].
      eapply forallb_map_pass3; [|exact Hi4|exact Hg2|exact Hn2].
      eapply Forall_impl; [|exact H]. cbn beta. intros a Ha. apply Ha.
    - (* ENamedFun *)
      rewrite map_map.
      change (map (fun x => reindex rho (rename_node i n x)) args) with (map retarget args).
      apply andb_true_iff in Hi as [Hi Hi4]. apply andb_true_iff in Hi as [Hi Hi3]. apply andb_true_iff in Hi as [Hi1 Hi2].
      rewrite Hi1, Hi2, args_shape_retarget, Hi3. cbn [andb].
      eapply forallb_map_pass3; [|exact Hi4|exact Hg|exact Hn].
      eapply Forall_impl; [|exact H]. cbn beta. intros a Ha. apply Ha.
    - (* EDefName *)
      rewrite HC. destruct (sheet_index env None) as [ci|] eqn:E; [|discriminate].
      cbn [reindex_field]. rewrite (Hdn n0 ci eq_refl). exact Hi.
    - (* ETable *)
      rewrite HC. destruct (sheet_index env None) as [ci|] eqn:E; [|discriminate].
      cbn [reindex_field]. rewrite (Hdn n0 ci eq_refl), is_table_pres. exact Hi.
    - (* EVar *)
      apply andb_true_iff in Hi as [Hi1 Hi2]. rewrite Hi1, (var_ok_pres _ Hi2). reflexivity.
    - (* EAt *)
      apply andb_true_iff in Hi as [Hi Hi3]. rewrite Hi. cbn [andb]. auto.
    - (* ESpill *)
      apply andb_true_iff in Hi as [Hi Hi3]. rewrite Hi. cbn [andb]. auto.
    - apply andb_true_iff in Hi as [? ?]; apply andb_true_iff in Hg as [? ?]; apply andb_true_iff in Hn as [? ?].
      apply andb_true_iff; split; auto.
    - auto.
    - auto.
  Qed.
End Retarget.
