(* Syntax/RenameProofs.v — proofs about Syntax/Rename.v (C17). *)
From IronCalc Require Import Base.Prelude Codec.RefA1 Syntax.Token Syntax.Ast Syntax.Printer Syntax.Parser
  Syntax.Shape Syntax.RoundTrip Syntax.FuelProofs Syntax.Rename Codec.SheetName Codec.SheetNameProofs.
From Coq Require Import Permutation.

(* ---- the node pass touches only the target (outside ghost ranges) ------------------------------ *)
Lemma rename_valid_target i n s k : rename_valid i n s k = target_field i n s (Some k).
Proof. unfold rename_valid, target_field. destruct s; cbn [is_some]; destruct (k =? i); reflexivity. Qed.

Lemma rename_wrong_ref_target i n s : rename_wrong_ref n s = target_field i n s None.
Proof. destruct s; reflexivity. Qed.

Lemma Forall2_map_pass (R : ast -> ast -> Prop) (f : ast -> ast) l :
  Forall (fun x => R x (f x)) l -> Forall2 R l (map f l).
Proof. induction 1 as [|x l Hx _ IH]; cbn [map]; constructor; auto. Qed.

Lemma rename_wrong_range_target i n s : rename_wrong_range n s = target_field i n s None.
Proof. destruct s; reflexivity. Qed.

(* the statement at full strength (since commit 059fa54 the WrongRangeKind arm is empty) *)
Theorem rename_only_target i n e : only_target i n e (rename_node i n e).
Proof.
  induction e using ast_rect'; cbn [rename_node];
    try (apply OT_leaf; reflexivity);
    try (constructor; auto; fail).
  - (* ERef *) destruct i0 as [k|].
    + rewrite rename_valid_target. constructor.
    + rewrite (rename_wrong_ref_target i). constructor.
  - (* ERange *) destruct i0 as [k|].
    + rewrite rename_valid_target. constructor.
    + rewrite (rename_wrong_range_target i). constructor.
  - constructor. apply Forall2_map_pass; assumption.
  - constructor; [auto|]. apply Forall2_map_pass; assumption.
  - constructor. apply Forall2_map_pass; assumption.
Qed.

(* ---- regression: the witness of the former finding F12 ------------------------------------------- *)
Definition pA1 : pref := {| p_row := 0; p_col := -3; p_abs_col := false; p_abs_row := false |}.
Definition pA2 : pref := {| p_row := 1; p_col := -3; p_abs_col := false; p_abs_row := false |}.
Definition t_ghost : text := [71;104;111;115;116].                 (* "Ghost" *)
Definition t_renamed : text := [82;101;110;97;109;101;100].         (* "Renamed" *)
Definition t_sheet1 : text := [83;104;101;101;116;49].
Definition t_sheet2 : text := [83;104;101;101;116;50].
(* SUM(Ghost!R[0]C[-3]:R[1]C[-3]) — the stored form of =SUM(Ghost!A1:A2) typed into D1 *)
Definition w_ghost : ast := ENamedFun None [115;117;109] [ERange (Some t_ghost) None pA1 pA2].
Definition env_w : penv := {| pe_sheets := [t_sheet1; t_sheet2]; pe_ctx_sheet := t_sheet1; pe_defnames := []; pe_tables := [] |}.
Definition nm_w : names :=
  {| fn_name := fun _ => [70]; fn_lookup := fun _ => None; bool_of_name := fun _ => None; fn_true := 0; fn_false := 1;
     nm_lower := fun t => t; nm_upper := fun t => t; err_tokens := fun k => [TError k] |}.

(* renaming Sheet2 (index 1) to "Renamed" used to rewrite the ghost range (F12, repaired by 059fa54): now
   the tree is left alone and its stored text still parses to the range on the nonexistent sheet *)
Example rename_ghost_range_regression :
  image m_stored nm_w env_w w_ghost = true /\
  rename_node 1 t_renamed w_ghost = w_ghost /\
  parse m_stored nm_w (env_renamed 1 t_renamed env_w) (print m_stored nm_w (rename_node 1 t_renamed w_ghost))
    = Some (w_ghost, []).
Proof. vm_compute. repeat split. Qed.

(* ---- move_sheet: references are by name, and a name denotes the same sheet after the move -------- *)
Lemma lookup_some_in {A} name (l : list (text * A)) a : lookup name l = Some a -> In (name, a) l.
Proof.
  induction l as [|[x b] r IH]; cbn [lookup]; [discriminate|].
  destruct (text_eqb x name) eqn:E.
  - intro H. inversion H; subst. apply text_eqb_eq in E. subst. left. reflexivity.
  - intro H. right. auto.
Qed.

Lemma lookup_none_notin {A} name (l : list (text * A)) : lookup name l = None -> ~ In name (map fst l).
Proof.
  induction l as [|[x b] r IH]; cbn [lookup map fst]; [intros _ []|].
  destruct (text_eqb x name) eqn:E; [discriminate|].
  intros H [H1|H1]; [|exact (IH H H1)].
  cbn in H1. subst. rewrite text_eqb_refl in E. discriminate.
Qed.

Lemma lookup_in_nodup {A} name (l : list (text * A)) a :
  NoDup (map fst l) -> In (name, a) l -> lookup name l = Some a.
Proof.
  induction l as [|[x b] r IH]; cbn [lookup map fst]; [intros _ []|].
  intros Hnd [H|H].
  - inversion H; subst. rewrite text_eqb_refl. reflexivity.
  - inversion Hnd as [|? ? Hnot Hnd']; subst.
    destruct (text_eqb x name) eqn:E.
    + apply text_eqb_eq in E. subst. exfalso. apply Hnot.
      change name with (fst (name, a)). apply in_map. exact H.
    + auto.
Qed.

Lemma lookup_notin_none {A} name (l : list (text * A)) : ~ In name (map fst l) -> lookup name l = None.
Proof.
  intro H. destruct (lookup name l) eqn:E; [|reflexivity].
  exfalso. apply H. apply lookup_some_in in E. change name with (fst (name, a)). apply in_map. exact E.
Qed.

Lemma lookup_perm {A} (l l' : list (text * A)) name :
  Permutation l l' -> NoDup (map fst l) -> lookup name l' = lookup name l.
Proof.
  intros HP Hnd.
  assert (Hnd' : NoDup (map fst l')) by (eapply Permutation_NoDup; [apply Permutation_map; exact HP|exact Hnd]).
  destruct (lookup name l) eqn:E.
  - apply lookup_in_nodup; [exact Hnd'|]. eapply Permutation_in; [exact HP|]. apply lookup_some_in. exact E.
  - apply lookup_notin_none. intro Hin. apply (lookup_none_notin _ _ E).
    eapply Permutation_in; [apply Permutation_sym; apply Permutation_map; exact HP|exact Hin].
Qed.

Lemma nth_error_split_perm {A} (l : list A) i x :
  nth_error l i = Some x -> Permutation l (x :: remove_at i l).
Proof.
  intro H. unfold remove_at.
  destruct (nth_error_split l i H) as (l1 & l2 & -> & Hlen).
  subst i. rewrite firstn_app, firstn_all, Nat.sub_diag. cbn [firstn]. rewrite app_nil_r.
  replace (S (length l1)) with (length l1 + 1)%nat by lia.
  rewrite skipn_app. rewrite skipn_all2 by lia. cbn [app].
  replace (length l1 + 1 - length l1)%nat with 1%nat by lia. cbn [skipn].
  apply Permutation_sym. apply Permutation_middle.
Qed.

Lemma insert_at_perm {A} (l : list A) j x : Permutation (x :: l) (insert_at j x l).
Proof.
  unfold insert_at. rewrite <- (firstn_skipn j l) at 1. apply Permutation_middle.
Qed.

Theorem move_permutes {A} (i j : nat) (l l' : list A) : move_list i j l = Ok l' -> Permutation l l'.
Proof.
  unfold move_list. destruct (Nat.leb (length l) i); [discriminate|].
  destruct (Nat.leb (length l) j); [discriminate|].
  destruct (Nat.eqb i j); [intro H; inversion H; subst; apply Permutation_refl|].
  destruct (nth_error l i) as [x|] eqn:E; [|discriminate].
  intro H. inversion H; subst. eapply Permutation_trans; [apply nth_error_split_perm; exact E|apply insert_at_perm].
Qed.

Theorem move_resolves_same_sheet {A} (i j : nat) (l l' : list (text * A)) :
  move_list i j l = Ok l' -> NoDup (map fst l) -> forall name, lookup name l' = lookup name l.
Proof. intros H Hnd name. apply lookup_perm; [exact (move_permutes _ _ _ _ H)|exact Hnd]. Qed.

Theorem move_total {A} (i j : nat) (l : list A) :
  (i < length l)%nat -> (j < length l)%nat -> exists l', move_list i j l = Ok l' /\ length l' = length l.
Proof.
  intros Hi Hj. unfold move_list.
  destruct (Nat.leb (length l) i) eqn:E1; [apply Nat.leb_le in E1; lia|].
  destruct (Nat.leb (length l) j) eqn:E2; [apply Nat.leb_le in E2; lia|].
  destruct (Nat.eqb i j); [eexists; split; reflexivity|].
  destruct (nth_error l i) as [x|] eqn:E; [|apply nth_error_None in E; lia].
  eexists; split; [reflexivity|].
  apply Permutation_length. apply Permutation_sym.
  eapply Permutation_trans; [apply nth_error_split_perm; exact E|apply insert_at_perm].
Qed.

(* the moved sheet ends up at exactly the target position *)
Theorem move_lands_at {A} (i j : nat) (l l' : list A) x :
  move_list i j l = Ok l' -> nth_error l i = Some x -> nth_error l' j = Some x.
Proof.
  unfold move_list. destruct (Nat.leb (length l) i) eqn:E1; [discriminate|].
  destruct (Nat.leb (length l) j) eqn:E2; [discriminate|].
  destruct (Nat.eqb i j) eqn:E3.
  - intros H Hx. inversion H; subst. apply Nat.eqb_eq in E3. subst. exact Hx.
  - intros H Hx. rewrite Hx in H. inversion H; subst. unfold insert_at.
    apply Nat.leb_gt in E1. apply Nat.leb_gt in E2.
    assert (Hlen : length (remove_at i l) = (length l - 1)%nat).
    { unfold remove_at. rewrite app_length, firstn_length, skipn_length. lia. }
    rewrite nth_error_app2; rewrite firstn_length; [|lia].
    replace (j - Nat.min j (length (remove_at i l)))%nat with 0%nat by lia. reflexivity.
Qed.

(* ---- the retargeted tree is again a tree the parser returns, in the new environment --------------- *)
Lemma opt_z_eqb_true a b : opt_z_eqb a b = true -> a = b.
Proof. destruct a, b; cbn [opt_z_eqb]; try discriminate; try reflexivity. intro H. apply Z.eqb_eq in H. congruence. Qed.
Lemma opt_z_eqb_refl a : opt_z_eqb a a = true.
Proof. destruct a; cbn [opt_z_eqb]; [apply Z.eqb_refl|reflexivity]. Qed.

Lemma forallb_map_pass2 (P Q P' : ast -> bool) (f : ast -> ast) l :
  Forall (fun x => P x = true -> Q x = true -> P' (f x) = true) l ->
  forallb P l = true -> forallb Q l = true -> forallb P' (map f l) = true.
Proof.
  induction 1 as [|x l Hx _ IH]; cbn [forallb map]; intros H1 H2; [reflexivity|].
  apply andb_true_iff in H1 as [? ?]. apply andb_true_iff in H2 as [? ?].
  apply andb_true_iff. split; auto.
Qed.

Section Retarget.
  Variables (m : pmode) (nm : names) (env env' : penv) (i : Z) (n : text) (rho : Z -> Z).

  Definition retarget (e : ast) : ast := reindex rho (rename_node i n e).

  Hypothesis HA : sheet_index env' (Some n) = Some (rho i).
  Hypothesis HB : forall name k, sheet_index env (Some name) = Some k -> k <> i ->
                                 sheet_index env' (Some name) = Some (rho k).
  Hypothesis HC : sheet_index env' None = reindex_field rho (sheet_index env None).
  Hypothesis HD : forall g, sheet_index env (Some g) = None -> g <> n -> sheet_index env' (Some g) = None.
  Hypothesis Hdn : forall name ci, sheet_index env None = Some ci ->
                                   get_defined_name nm env' name (rho ci) = get_defined_name nm env name ci.
  Hypothesis Htb : pe_tables env' = pe_tables env.

  Lemma is_table_pres name : is_table nm env' name = is_table nm env name.
  Proof. unfold is_table. rewrite Htb. reflexivity. Qed.

  Lemma valid_field_ok s k :
    sheet_index env s = Some k -> sheet_index env' (rename_valid i n s k) = Some (rho k).
  Proof.
    intro H. unfold rename_valid. destruct s as [name|]; cbn [is_some].
    - rewrite andb_true_r. destruct (k =? i) eqn:E.
      + apply Z.eqb_eq in E. subst. exact HA.
      + apply Z.eqb_neq in E. apply HB; assumption.
    - rewrite andb_false_r. rewrite HC, H. reflexivity.
  Qed.

  Lemma ghost_field_ok s :
    sheet_index env s = None -> not_named n s = true -> sheet_index env' s = None.
  Proof.
    intros H Hn. destruct s as [g|].
    - apply HD; [exact H|]. cbn [not_named] in Hn. intro Heq. subst.
      rewrite text_eqb_refl in Hn. discriminate.
    - rewrite HC, H. reflexivity.
  Qed.

  Lemma ident_free_pres name : ident_free nm env name = true -> ident_free nm env' name = true.
  Proof.
    unfold ident_free. rewrite HC. destruct (sheet_index env None) as [ci|] eqn:E; [|discriminate].
    cbn [reindex_field]. rewrite (Hdn name ci eq_refl), is_table_pres. auto.
  Qed.

  Lemma var_ok_pres name : var_ok nm env name = true -> var_ok nm env' name = true.
  Proof.
    unfold var_ok. rewrite HC. destruct (sheet_index env None) as [ci|] eqn:E; [|discriminate].
    cbn [reindex_field]. rewrite (Hdn name ci eq_refl), is_table_pres. auto.
  Qed.

  Lemma param_ok_pres p : param_ok m nm env p = true -> param_ok m nm env' p = true.
  Proof.
    unfold param_ok. destruct (lp_id p); [auto|]. intro H.
    apply andb_true_iff in H as [H H3]. apply andb_true_iff in H as [H1 H2].
    rewrite (ident_free_pres _ H1), H2, H3. reflexivity.
  Qed.

  Lemma args_shape_retarget args : args_shape_ok (map retarget args) = args_shape_ok args.
  Proof.
    destruct args as [|a [|b r]]; [reflexivity| |].
    - destruct a; try reflexivity.
    - destruct a; reflexivity.
  Qed.

  Lemma is_lambdadef_retarget lam :
    match retarget lam with ELambdaDef _ _ => true | _ => false end
    = match lam with ELambdaDef _ _ => true | _ => false end.
  Proof. destruct lam; reflexivity. Qed.

  Lemma image_retarget e :
    forall arg, image_at m nm env arg e = true -> no_ghost_named n e = true ->
                image_at m nm env' arg (retarget e) = true.
  Proof.
    induction e using ast_rect'; intros arg Hi Hn; unfold retarget;
      cbn [rename_node reindex]; fold retarget;
      cbn [image_at no_ghost_named] in *;
      try exact Hi.
    - (* ERef *)
      apply andb_true_iff in Hi as [Hi1 Hi2]. rewrite Hi2, andb_true_r. apply opt_z_eqb_true in Hi1.
      destruct i0 as [k|]; cbn [reindex_field].
      + rewrite (valid_field_ok s k (eq_sym Hi1)). apply opt_z_eqb_refl.
      + assert (E : rename_wrong_ref n s = s) by (destruct s; reflexivity). rewrite E.
        rewrite (ghost_field_ok s (eq_sym Hi1) Hn). reflexivity.
    - (* ERange *)
      apply andb_true_iff in Hi as [Hi1 Hi2]. rewrite Hi2, andb_true_r. apply opt_z_eqb_true in Hi1.
      destruct i0 as [k|]; cbn [reindex_field].
      + rewrite (valid_field_ok s k (eq_sym Hi1)). apply opt_z_eqb_refl.
      + unfold rename_wrong_range. rewrite (ghost_field_ok s (eq_sym Hi1) Hn). reflexivity.
    - apply andb_true_iff in Hi as [? ?]; apply andb_true_iff in Hn as [? ?].
      apply andb_true_iff; split; auto.
    - apply andb_true_iff in Hi as [? ?]; apply andb_true_iff in Hn as [? ?].
      apply andb_true_iff; split; auto.
    - apply andb_true_iff in Hi as [? ?]; apply andb_true_iff in Hn as [? ?].
      apply andb_true_iff; split; auto.
    - apply andb_true_iff in Hi as [? ?]; apply andb_true_iff in Hn as [? ?].
      apply andb_true_iff; split; auto.
    - apply andb_true_iff in Hi as [? ?]; apply andb_true_iff in Hn as [? ?].
      apply andb_true_iff; split; auto.
    - (* EFun *)
      rewrite map_map. fold retarget.
      apply andb_true_iff in Hi as [Hi Hi3]. apply andb_true_iff in Hi as [Hi1 Hi2].
      change (map (fun x => reindex rho (rename_node i n x)) args) with (map retarget args).
      rewrite Hi1, args_shape_retarget, Hi2. cbn [andb].
      eapply forallb_map_pass2; [|exact Hi3|exact Hn].
      eapply Forall_impl; [|exact H]. cbn beta. intros a Ha. apply Ha.
    - (* ELambdaDef *)
      apply andb_true_iff in Hi as [Hi Hi3]. apply andb_true_iff in Hi as [Hi1 Hi2].
      rewrite Hi1. cbn [andb]. apply andb_true_iff; split; [|auto].
      apply forallb_forall. intros p Hp. apply param_ok_pres. rewrite forallb_forall in Hi2. auto.
    - (* ELambdaCall *)
      rewrite map_map.
      change (map (fun x => reindex rho (rename_node i n x)) args) with (map retarget args).
      apply andb_true_iff in Hi as [Hi Hi4]. apply andb_true_iff in Hi as [Hi Hi3]. apply andb_true_iff in Hi as [Hi1 Hi2].
      apply andb_true_iff in Hn as [Hn1 Hn2].
      change (reindex rho (rename_node i n e)) with (retarget e).
      rewrite is_lambdadef_retarget, Hi1, args_shape_retarget, Hi3, (IHe false Hi2 Hn1). cbn [andb].
      eapply forallb_map_pass2; [|exact Hi4|exact Hn2].
      eapply Forall_impl; [|exact H]. cbn beta. intros a Ha. apply Ha.
    - (* ENamedFun *)
      rewrite map_map.
      change (map (fun x => reindex rho (rename_node i n x)) args) with (map retarget args).
      apply andb_true_iff in Hi as [Hi Hi4]. apply andb_true_iff in Hi as [Hi Hi3]. apply andb_true_iff in Hi as [Hi1 Hi2].
      rewrite Hi1, Hi2, args_shape_retarget, Hi3. cbn [andb].
      eapply forallb_map_pass2; [|exact Hi4|exact Hn].
      eapply Forall_impl; [|exact H]. cbn beta. intros a Ha. apply Ha.
    - (* EDefName *)
      rewrite HC. destruct (sheet_index env None) as [ci|] eqn:E; [|discriminate].
      cbn [reindex_field]. rewrite (Hdn n0 ci eq_refl). exact Hi.
    - (* ETable *)
      rewrite HC. destruct (sheet_index env None) as [ci|] eqn:E; [|discriminate].
      cbn [reindex_field]. rewrite (Hdn n0 ci eq_refl), is_table_pres. exact Hi.
    - (* EVar *)
      apply andb_true_iff in Hi as [Hi1 Hi2]. rewrite Hi1, (var_ok_pres _ Hi2). reflexivity.
    - (* EAt *)
      apply andb_true_iff in Hi as [Hi Hi3]. rewrite Hi. cbn [andb]. auto.
    - (* ESpill *)
      apply andb_true_iff in Hi as [Hi Hi3]. rewrite Hi. cbn [andb]. auto.
    - apply andb_true_iff in Hi as [? ?]; apply andb_true_iff in Hn as [? ?].
      apply andb_true_iff; split; auto.
    - auto.
    - auto.
  Qed.
End Retarget.

(* ---- the pass keeps every shape the printer and the round-trip theorem look at -------------------- *)
Ltac foldT :=
  repeat match goal with
  | |- context [reindex ?rho (rename_node ?i ?n ?x)] =>
      change (reindex rho (rename_node i n x)) with (retarget i n rho x)
  end.

Section Shapes.
  Variables (i : Z) (n : text) (rho : Z -> Z).
  Notation T := (retarget i n rho).

  Lemma hp_cmp_r c : cmp_right_parens (T c) = cmp_right_parens c. Proof. destruct c; reflexivity. Qed.
  Lemma hp_concat_l c : concat_left_parens (T c) = concat_left_parens c. Proof. destruct c; reflexivity. Qed.
  Lemma hp_concat_r c : concat_right_parens (T c) = concat_right_parens c. Proof. destruct c; reflexivity. Qed.
  Lemma hp_sum_l c : sum_left_parens (T c) = sum_left_parens c. Proof. destruct c; reflexivity. Qed.
  Lemma hp_sum_r op c : sum_right_parens op (T c) = sum_right_parens op c. Proof. destruct c; reflexivity. Qed.
  Lemma hp_prod_l c : prod_left_parens (T c) = prod_left_parens c. Proof. destruct c; reflexivity. Qed.
  Lemma hp_prod_r c : prod_right_parens (T c) = prod_right_parens c. Proof. destruct c; reflexivity. Qed.
  Lemma hp_pow_l c : pow_left_parens (T c) = pow_left_parens c. Proof. destruct c; reflexivity. Qed.
  Lemma hp_pow_r c : pow_right_parens (T c) = pow_right_parens c. Proof. destruct c; reflexivity. Qed.
  Lemma hp_neg c : neg_parens (T c) = neg_parens c. Proof. destruct c; reflexivity. Qed.
  Lemma hp_pct c : pct_parens (T c) = pct_parens c. Proof. destruct c; reflexivity. Qed.
  Lemma hp_range_l c : range_left_parens (T c) = range_left_parens c. Proof. destruct c; reflexivity. Qed.
  Lemma hp_range_r x c : range_right_parens x (T c) = range_right_parens x c. Proof. destruct x; destruct c; reflexivity. Qed.
  Lemma hp_at c : at_parens (T c) = at_parens c. Proof. destruct c; reflexivity. Qed.
  Lemma hp_spill c : spill_parens (T c) = spill_parens c. Proof. destruct c; reflexivity. Qed.
  Lemma hp_rank x c : rank_x x (T c) = rank_x x c. Proof. destruct x; destruct c; reflexivity. Qed.
  Lemma hp_never c : never (T c) = never c. Proof. reflexivity. Qed.

  Lemma bad_child_retarget xl e : bad_child xl (T e) = bad_child xl e.
  Proof.
    destruct e; try reflexivity; unfold retarget; cbn [rename_node reindex]; foldT;
      unfold bad_child, bad_child_with, stringify_policy;
      cbn [pol_cmp_l pol_cmp_r pol_concat_l pol_concat_r pol_sum_l pol_sum_r pol_prod_l pol_prod_r pol_pow_l
           pol_pow_r pol_neg pol_pct pol_range_l pol_range_r pol_at pol_spill];
      rewrite ?hp_cmp_r, ?hp_concat_l, ?hp_concat_r, ?hp_sum_l, ?hp_sum_r, ?hp_prod_l, ?hp_prod_r, ?hp_pow_l,
        ?hp_pow_r, ?hp_neg, ?hp_pct, ?hp_range_l, ?hp_range_r, ?hp_at, ?hp_spill, ?hp_rank; reflexivity.
  Qed.

  Lemma forallb_map_eq (P : ast -> bool) (f : ast -> ast) l :
    Forall (fun x => P (f x) = P x) l -> forallb P (map f l) = forallb P l.
  Proof. induction 1 as [|x l Hx _ IH]; cbn [forallb map]; [reflexivity|]. rewrite Hx, IH. reflexivity. Qed.

  Lemma no_bad_retarget xl e : no_bad xl (T e) = no_bad xl e.
  Proof.
    unfold no_bad.
    induction e using ast_rect'; try reflexivity.
    all: unfold retarget; cbn [rename_node reindex]; foldT; rewrite ?map_map;
      try change (map (fun x => reindex rho (rename_node i n x)) args) with (map T args);
      cbn [no_bad_with].
    all: repeat match goal with
      | |- context [bad_child_with stringify_policy ?x (?C (T ?a) (T ?b))] =>
          change (bad_child_with stringify_policy x (C (T a) (T b))) with (bad_child x (T (C a b)))
      | |- context [bad_child_with stringify_policy ?x (?C ?o (T ?a) (T ?b))] =>
          change (bad_child_with stringify_policy x (C o (T a) (T b))) with (bad_child x (T (C o a b)))
      | |- context [bad_child_with stringify_policy ?x (?C (T ?a))] =>
          change (bad_child_with stringify_policy x (C (T a))) with (bad_child x (T (C a)))
      | |- context [bad_child_with stringify_policy ?x (?C ?o (T ?a))] =>
          change (bad_child_with stringify_policy x (C o (T a))) with (bad_child x (T (C o a)))
      end;
      rewrite ?bad_child_retarget; unfold bad_child;
      rewrite ?IHe, ?IHe1, ?IHe2; try reflexivity.
    all: try (rewrite (forallb_map_eq _ _ _ H); reflexivity).
  Qed.
End Shapes.

Section ShapesR.
  Variable rho : Z -> Z.
  Notation R := (reindex rho).
  Lemma hr_cmp_r c : cmp_right_parens (R c) = cmp_right_parens c. Proof. destruct c; reflexivity. Qed.
  Lemma hr_concat_l c : concat_left_parens (R c) = concat_left_parens c. Proof. destruct c; reflexivity. Qed.
  Lemma hr_concat_r c : concat_right_parens (R c) = concat_right_parens c. Proof. destruct c; reflexivity. Qed.
  Lemma hr_sum_l c : sum_left_parens (R c) = sum_left_parens c. Proof. destruct c; reflexivity. Qed.
  Lemma hr_sum_r op c : sum_right_parens op (R c) = sum_right_parens op c. Proof. destruct c; reflexivity. Qed.
  Lemma hr_prod_l c : prod_left_parens (R c) = prod_left_parens c. Proof. destruct c; reflexivity. Qed.
  Lemma hr_prod_r c : prod_right_parens (R c) = prod_right_parens c. Proof. destruct c; reflexivity. Qed.
  Lemma hr_pow_l c : pow_left_parens (R c) = pow_left_parens c. Proof. destruct c; reflexivity. Qed.
  Lemma hr_pow_r c : pow_right_parens (R c) = pow_right_parens c. Proof. destruct c; reflexivity. Qed.
  Lemma hr_neg c : neg_parens (R c) = neg_parens c. Proof. destruct c; reflexivity. Qed.
  Lemma hr_pct c : pct_parens (R c) = pct_parens c. Proof. destruct c; reflexivity. Qed.
  Lemma hr_range_l c : range_left_parens (R c) = range_left_parens c. Proof. destruct c; reflexivity. Qed.
  Lemma hr_range_r x c : range_right_parens x (R c) = range_right_parens x c. Proof. destruct x; destruct c; reflexivity. Qed.
  Lemma hr_at c : at_parens (R c) = at_parens c. Proof. destruct c; reflexivity. Qed.
  Lemma hr_spill c : spill_parens (R c) = spill_parens c. Proof. destruct c; reflexivity. Qed.

  Lemma map_reindex_eq {B} (f : ast -> B) l :
    Forall (fun x => f (R x) = f x) l -> map f (map R l) = map f l.
  Proof. induction 1 as [|x l Hx _ IH]; cbn [map]; [reflexivity|]. rewrite Hx, IH. reflexivity. Qed.

  (* the printer never looks at the recorded sheet index *)
  Lemma print_reindex m nm e : print m nm (R e) = print m nm e.
  Proof.
    unfold print.
    induction e using ast_rect'; cbn [reindex gprint]; try reflexivity;
      unfold stringify_policy;
      cbn [pol_cmp_l pol_cmp_r pol_concat_l pol_concat_r pol_sum_l pol_sum_r pol_prod_l pol_prod_r pol_pow_l
           pol_pow_r pol_neg pol_pct pol_range_l pol_range_r pol_at pol_spill];
      fold stringify_policy;
      rewrite ?hr_cmp_r, ?hr_concat_l, ?hr_concat_r, ?hr_sum_l, ?hr_sum_r, ?hr_prod_l, ?hr_prod_r, ?hr_pow_l,
        ?hr_pow_r, ?hr_neg, ?hr_pct, ?hr_range_l, ?hr_range_r, ?hr_at, ?hr_spill;
      rewrite ?IHe, ?IHe1, ?IHe2; try reflexivity.
    - rewrite (map_reindex_eq _ _ H). reflexivity.
    - rewrite (map_reindex_eq _ _ H). destruct e; try reflexivity; cbn [reindex gprint] in *; rewrite ?IHe; reflexivity.
    - rewrite (map_reindex_eq _ _ H). reflexivity.
  Qed.
End ShapesR.

Lemma lower_stable_retarget i n rho nm e : lower_stable nm (retarget i n rho e) = lower_stable nm e.
Proof.
  induction e using ast_rect'; try reflexivity;
    unfold retarget; cbn [rename_node reindex]; foldT; rewrite ?map_map;
    try change (map (fun x => reindex rho (rename_node i n x)) args) with (map (retarget i n rho) args);
    cbn [lower_stable]; rewrite ?IHe, ?IHe1, ?IHe2; try reflexivity.
  all: rewrite (forallb_map_eq _ _ _ H); reflexivity.
Qed.

Lemma reindex_id e : reindex (fun k => k) e = e.
Proof.
  induction e using ast_rect'; cbn [reindex]; rewrite ?IHe, ?IHe1, ?IHe2; try reflexivity.
  - destruct i; reflexivity.
  - destruct i; reflexivity.
  - f_equal. induction H as [|x l Hx _ IH]; cbn [map]; [reflexivity|]. rewrite Hx, IH. reflexivity.
  - f_equal. induction H as [|x l Hx _ IH]; cbn [map]; [reflexivity|]. rewrite Hx, IH. reflexivity.
  - f_equal. induction H as [|x l Hx _ IH]; cbn [map]; [reflexivity|]. rewrite Hx, IH. reflexivity.
Qed.

(* ---- index_of on the renamed sheet list ------------------------------------------------------------ *)
Lemma text_eqb_neq a b : a <> b -> text_eqb a b = false.
Proof. intro H. destruct (text_eqb a b) eqn:E; [|reflexivity]. apply text_eqb_eq in E. contradiction. Qed.

Lemma index_of_some_nth name l : forall a j, index_of name l a = Some j ->
  exists t, j = a + Z.of_nat t /\ nth_error l t = Some name.
Proof.
  induction l as [|x r IH]; intros a j; cbn [index_of]; [discriminate|].
  destruct (text_eqb x name) eqn:E.
  - intro H. inversion H; subst. apply text_eqb_eq in E. subst. exists 0%nat. split; [lia|reflexivity].
  - intro H. destruct (IH _ _ H) as (t & Ht & Hn). exists (S t). split; [lia|exact Hn].
Qed.

Section ReplaceIdx.
  Variable n : text.

  Lemma idx_replace_other l : forall k a name j,
    index_of name l a = Some j -> j <> a + Z.of_nat k -> name <> n ->
    index_of name (replace_nth k n l) a = Some j.
  Proof.
    induction l as [|x r IH]; intros k a name j; cbn [index_of replace_nth]; [discriminate|].
    intros H Hj Hn. destruct k as [|k']; cbn [index_of replace_nth].
    - rewrite (text_eqb_neq n name) by congruence.
      destruct (text_eqb x name); [inversion H; subst; lia|exact H].
    - destruct (text_eqb x name); [exact H|]. apply IH; [exact H|lia|exact Hn].
  Qed.

  Lemma idx_replace_self l : forall k a, (k < length l)%nat ->
    (forall t x, nth_error l t = Some x -> t <> k -> x <> n) ->
    index_of n (replace_nth k n l) a = Some (a + Z.of_nat k).
  Proof.
    induction l as [|x r IH]; intros k a Hk Hf; cbn [length] in Hk; [lia|].
    destruct k as [|k']; cbn [replace_nth index_of].
    - rewrite text_eqb_refl. f_equal. lia.
    - rewrite (text_eqb_neq x n) by (apply (Hf 0%nat); [reflexivity|lia]).
      rewrite IH; [f_equal; lia|lia|]. intros t y Ht Hne. apply (Hf (S t)); [exact Ht|lia].
  Qed.

  Lemma idx_replace_none l : forall k a g, index_of g l a = None -> g <> n ->
    index_of g (replace_nth k n l) a = None.
  Proof.
    induction l as [|x r IH]; intros k a g; cbn [index_of replace_nth]; [destruct k; reflexivity|].
    destruct (text_eqb x g) eqn:E; [discriminate|]. intros H Hn.
    destruct k as [|k']; cbn [index_of replace_nth].
    - rewrite (text_eqb_neq n g) by congruence. exact H.
    - rewrite E. apply IH; assumption.
  Qed.
End ReplaceIdx.

Lemma idx_nodup_nth l : forall k a, NoDup l -> (k < length l)%nat ->
  index_of (nth k l []) l a = Some (a + Z.of_nat k).
Proof.
  induction l as [|x r IH]; intros k a Hnd Hk; cbn [length] in Hk; [lia|].
  inversion Hnd as [|? ? Hnot Hnd']; subst.
  destruct k as [|k']; cbn [nth index_of].
  - rewrite text_eqb_refl. f_equal. lia.
  - rewrite text_eqb_neq.
    + rewrite IH; [f_equal; lia|exact Hnd'|lia].
    + intro Heq. apply Hnot. rewrite Heq. apply nth_In. lia.
Qed.

(* ---- C17: the renamed formula, printed in the stored form, parses back to the renamed tree ---------- *)
Theorem rename_roundtrip nm env (k : nat) (n : text) (e : ast) :
  (k < length (pe_sheets env))%nat -> NoDup (pe_sheets env) -> In (pe_ctx_sheet env) (pe_sheets env) ->
  (* the new name is not the name of another sheet *)
  (forall t x, nth_error (pe_sheets env) t = Some x -> t <> k -> x <> n) ->
  image m_stored nm env e = true -> no_bad false e = true -> lower_stable nm e = true ->
  no_ghost_named n e = true ->
  let e' := rename_node (Z.of_nat k) n e in
  image m_stored nm (env_renamed k n env) e' = true /\
  parse m_stored nm (env_renamed k n env) (print m_stored nm e') = Some (e', []).
Proof.
  intros Hk Hnd Hctx Hfresh Hi Hb Hl Hn e'.
  assert (He' : e' = retarget (Z.of_nat k) n (fun z => z) e) by (unfold retarget; rewrite reindex_id; reflexivity).
  assert (HA : sheet_index (env_renamed k n env) (Some n) = Some ((fun z : Z => z) (Z.of_nat k))).
  { unfold sheet_index, env_renamed. cbn [pe_sheets]. rewrite idx_replace_self; [f_equal; lia|exact Hk|exact Hfresh]. }
  assert (HB : forall name j, sheet_index env (Some name) = Some j -> j <> Z.of_nat k ->
                              sheet_index (env_renamed k n env) (Some name) = Some ((fun z : Z => z) j)).
  { intros name j Hj Hne. unfold sheet_index in *. cbn [pe_sheets env_renamed].
    destruct (index_of_some_nth _ _ _ _ Hj) as (t & Ht & Hnth).
    apply idx_replace_other; [exact Hj|lia|]. apply (Hfresh t); [exact Hnth|]. intro; subst. lia. }
  assert (HC : sheet_index (env_renamed k n env) None = reindex_field (fun z : Z => z) (sheet_index env None)).
  { unfold sheet_index. cbn [pe_sheets pe_ctx_sheet env_renamed].
    destruct (text_eqb (pe_ctx_sheet env) (nth k (pe_sheets env) [])) eqn:E.
    + apply text_eqb_eq in E. rewrite E. rewrite idx_nodup_nth by assumption.
      rewrite idx_replace_self; [reflexivity|exact Hk|exact Hfresh].
    + destruct (index_of (pe_ctx_sheet env) (pe_sheets env) 0) as [j|] eqn:Ej.
      * cbn [reindex_field].
        destruct (index_of_some_nth _ _ _ _ Ej) as (t & Ht & Hnth).
        assert (t <> k).
        { intro; subst t. apply nth_error_nth with (d := []) in Hnth. rewrite Hnth in E.
          rewrite text_eqb_refl in E. discriminate. }
        apply idx_replace_other; [exact Ej|lia|]. apply (Hfresh t); assumption.
      * exfalso. clear - Hctx Ej. revert Ej. generalize 0.
        induction (pe_sheets env) as [|x r IH]; [destruct Hctx|]. intros a. cbn [index_of].
        destruct (text_eqb x (pe_ctx_sheet env)) eqn:Ex; [discriminate|].
        destruct Hctx as [->|Hin]; [rewrite text_eqb_refl in Ex; discriminate|]. apply IH. exact Hin. }
  assert (HD : forall g, sheet_index env (Some g) = None -> g <> n -> sheet_index (env_renamed k n env) (Some g) = None).
  { intros g Hgn Hne. unfold sheet_index in *. cbn [pe_sheets env_renamed]. apply idx_replace_none; assumption. }
  assert (Hi' : image m_stored nm (env_renamed k n env) e' = true).
  { rewrite He'. unfold image.
    apply (image_retarget m_stored nm env (env_renamed k n env) (Z.of_nat k) n (fun z => z) HA HB HC HD);
      [intros name ci _; reflexivity|reflexivity|exact Hi|exact Hn]. }
  split; [exact Hi'|].
  apply roundtrip_parse; [exact Hi'| |].
  - rewrite He'. change (pm_xlsx m_stored) with false. rewrite no_bad_retarget. exact Hb.
  - rewrite He', lower_stable_retarget. exact Hl.
Qed.

(* ... and what the new name is spelled as in that text is read back as the new name (C22, instantiated) *)
Theorem rename_name_survives (n : text) rest :
  is_valid_sheet_name n = true -> lex_sheet_prefix_x (quote_name_x n ++ 33 :: rest) = Some (n, rest).
Proof.
  intro H. apply sheet_roundtrip_x. intro; subst. discriminate.
Qed.

(* ---- the general form: any environment change that satisfies the four resolution conditions ---------- *)
Theorem retarget_roundtrip m nm env env' i n rho e :
  sheet_index env' (Some n) = Some (rho i) ->
  (forall name k, sheet_index env (Some name) = Some k -> k <> i -> sheet_index env' (Some name) = Some (rho k)) ->
  sheet_index env' None = reindex_field rho (sheet_index env None) ->
  (forall g, sheet_index env (Some g) = None -> g <> n -> sheet_index env' (Some g) = None) ->
  (forall name ci, sheet_index env None = Some ci ->
                   get_defined_name nm env' name (rho ci) = get_defined_name nm env name ci) ->
  pe_tables env' = pe_tables env ->
  image m nm env e = true -> no_bad (pm_xlsx m) e = true -> lower_stable nm e = true ->
  no_ghost_named n e = true ->
  parse m nm env' (print m nm (rename_node i n e)) = Some (retarget i n rho e, []).
Proof.
  intros HA HB HC HD Hdn Htb Hi Hb Hl Hn.
  rewrite <- (print_reindex rho m nm (rename_node i n e)). change (reindex rho (rename_node i n e)) with (retarget i n rho e).
  apply roundtrip_parse.
  - unfold image. apply (image_retarget m nm env env' i n rho HA HB HC HD Hdn Htb); assumption.
  - rewrite no_bad_retarget. exact Hb.
  - rewrite lower_stable_retarget. exact Hl.
Qed.

(* ---- duplicate_sheet: index_of on the list with the copy inserted ----------------------------------- *)
Lemma index_of_shift name l : forall a, index_of name l (a + 1) = option_map (fun z => z + 1) (index_of name l a).
Proof.
  induction l as [|x r IH]; intro a; cbn [index_of]; [reflexivity|].
  destruct (text_eqb x name); [reflexivity|]. apply IH.
Qed.

Section InsertIdx.
  Variable c : text.

  Lemma insert_at_cons (p : nat) (x : text) (r : list text) : insert_at (S p) c (x :: r) = x :: insert_at p c r.
  Proof. reflexivity. Qed.
  Lemma insert_at_0 (l : list text) : insert_at 0 c l = c :: l.
  Proof. reflexivity. Qed.
  Lemma insert_at_nil (p : nat) : insert_at p c [] = [c].
  Proof. unfold insert_at. rewrite firstn_nil, skipn_nil. reflexivity. Qed.

  Lemma idx_insert_other p : forall l a name j,
    index_of name l a = Some j -> name <> c ->
    index_of name (insert_at p c l) a = Some (if j <? a + Z.of_nat p then j else j + 1).
  Proof.
    induction p as [|p IH]; intros l a name j H Hne.
    - rewrite insert_at_0. cbn [index_of]. rewrite (text_eqb_neq c name) by congruence.
      rewrite index_of_shift, H. cbn [option_map].
      destruct (index_of_some_nth _ _ _ _ H) as (t & Ht & _).
      destruct (j <? a + Z.of_nat 0) eqn:E; [apply Z.ltb_lt in E; lia|reflexivity].
    - destruct l as [|x r]; [discriminate|]. rewrite insert_at_cons. cbn [index_of] in *.
      destruct (text_eqb x name).
      + inversion H; subst. destruct (j <? j + Z.of_nat (S p)) eqn:E; [reflexivity|apply Z.ltb_ge in E; lia].
      + rewrite (IH r (a + 1) name j H Hne). replace (a + 1 + Z.of_nat p) with (a + Z.of_nat (S p)) by lia. reflexivity.
  Qed.

  Lemma idx_insert_self p : forall l a, ~ In c l -> (p <= length l)%nat ->
    index_of c (insert_at p c l) a = Some (a + Z.of_nat p).
  Proof.
    induction p as [|p IH]; intros l a Hnot Hp.
    - rewrite insert_at_0. cbn [index_of]. rewrite text_eqb_refl. f_equal. lia.
    - destruct l as [|x r]; [cbn [length] in Hp; lia|]. rewrite insert_at_cons. cbn [index_of].
      rewrite (text_eqb_neq x c) by (intro; subst; apply Hnot; left; reflexivity).
      rewrite IH; [f_equal; lia|intro; apply Hnot; right; assumption|cbn [length] in Hp; lia].
  Qed.

  Lemma idx_insert_none p : forall l a g, index_of g l a = None -> g <> c ->
    index_of g (insert_at p c l) a = None.
  Proof.
    induction p as [|p IH]; intros l a g H Hne.
    - rewrite insert_at_0. cbn [index_of]. rewrite (text_eqb_neq c g) by congruence.
      rewrite index_of_shift, H. reflexivity.
    - destruct l as [|x r].
      + rewrite insert_at_nil. cbn [index_of]. rewrite (text_eqb_neq c g) by congruence. reflexivity.
      + rewrite insert_at_cons. cbn [index_of] in *. destruct (text_eqb x g); [discriminate|]. apply IH; assumption.
  Qed.
End InsertIdx.

(* the copy's formulas: the source's trees after the retargeting pass, printed in the stored form and
   parsed on the copy, are the source's trees with the references to the source (explicit or implicit)
   pointing to the copy and the sheets behind it renumbered; workbooks without defined names / tables
   (those are covered by the oracle only) *)
Theorem duplicate_roundtrip nm env (src : nat) (copy : text) (e : ast) :
  (src < length (pe_sheets env))%nat -> NoDup (pe_sheets env) ->
  pe_ctx_sheet env = nth src (pe_sheets env) [] ->
  ~ In copy (pe_sheets env) -> pe_defnames env = [] -> 
  image m_stored nm env e = true -> no_bad false e = true -> lower_stable nm e = true ->
  no_ghost_named copy e = true ->
  parse m_stored nm (env_dup src copy env) (print m_stored nm (dup_node (Z.of_nat src) copy e))
  = Some (reindex (dup_index (Z.of_nat src)) (dup_node (Z.of_nat src) copy e), []).
Proof.
  intros Hs Hnd Hctx Hfresh Hdn0 Hi Hb Hl Hn. unfold dup_node.
  apply (retarget_roundtrip m_stored nm env (env_dup src copy env) (Z.of_nat src) copy (dup_index (Z.of_nat src)) e);
    try assumption.
  - unfold sheet_index, env_dup. cbn [pe_sheets]. rewrite idx_insert_self; [|exact Hfresh|lia].
    unfold dup_index. rewrite Z.ltb_irrefl. f_equal. lia.
  - intros name k Hk Hne. unfold sheet_index in *. cbn [pe_sheets env_dup].
    assert (name <> copy).
    { intro; subst. destruct (index_of_some_nth _ _ _ _ Hk) as (t & _ & Hnth). apply Hfresh. eapply nth_error_In; exact Hnth. }
    rewrite (idx_insert_other copy (S src) _ 0 name k Hk H). f_equal. unfold dup_index.
    destruct (k <? 0 + Z.of_nat (S src)) eqn:E1; destruct (k <? Z.of_nat src) eqn:E2; try reflexivity.
    + apply Z.ltb_lt in E1. apply Z.ltb_ge in E2. lia.
    + apply Z.ltb_ge in E1. apply Z.ltb_lt in E2. lia.
  - unfold sheet_index. cbn [pe_sheets pe_ctx_sheet env_dup]. rewrite Hctx.
    rewrite idx_nodup_nth by assumption. rewrite idx_insert_self; [|exact Hfresh|lia].
    cbn [reindex_field]. unfold dup_index. rewrite Z.ltb_irrefl. f_equal. lia.
  - intros g Hgn Hne. unfold sheet_index in *. cbn [pe_sheets env_dup]. apply idx_insert_none; assumption.
  - intros name ci _. unfold get_defined_name. cbn [pe_defnames env_dup]. rewrite Hdn0. reflexivity.
  - reflexivity.
Qed.

(* ---- regression: the witness of the former finding F65 ------------------------------------------- *)
(* rename_sheet_by_index used to parse the stored (English) formulas with the user's locale: with a ';'
   locale a two-argument call was a parse error, its text was kept and the reference dangled.  Since
   9f60d5e the parse is in English whatever the user's locale: the reference gets the new name *)
Definition p00 : pref := {| p_row := 0; p_col := -1; p_abs_col := false; p_abs_row := false |}.
Definition t_sum : text := [115;117;109].
(* sum(Sheet1!R[0]C[-1],Sheet2!R[0]C[-1]) *)
Definition ts_two_args : list token :=
  [TIdent t_sum; TLParen; TReference (Some t_sheet1) p00; TComma; TReference (Some t_sheet2) p00; TRParen].

Example rename_stored_regression :
  rename_stored nm_w env_w 1 t_renamed ts_two_args =
    [TIdent t_sum; TLParen; TReference (Some t_sheet1) p00; TComma; TReference (Some t_renamed) p00; TRParen] /\
  parse m_stored nm_w (env_renamed 1 t_renamed env_w) (rename_stored nm_w env_w 1 t_renamed ts_two_args) =
    Some (ENamedFun None t_sum [ERef (Some t_sheet1) (Some 0) p00; ERef (Some t_renamed) (Some 1) p00], []).
Proof. vm_compute. repeat split. Qed.

(* non-vacuity of rename_roundtrip: SUM(Sheet2!R[0]C[-1],Ghost!R[0]C[-3]:R[1]C[-3])+R[0]C[-1]-Ghost!R[0]C[-1], renaming Sheet2 *)
Example rename_roundtrip_nonvacuous :
  let e := ESum SMinus (ESum SAdd (ENamedFun None t_sum [ERef (Some t_sheet2) (Some 1) p00; ERange (Some t_ghost) None pA1 pA2])
                             (ERef None (Some 0) p00))
                (ERef (Some t_ghost) None p00) in
  image m_stored nm_w env_w e = true /\ no_bad false e = true /\ lower_stable nm_w e = true /\
  no_ghost_named t_renamed e = true /\
  rename_node 1 t_renamed e <> e /\
  parse m_stored nm_w (env_renamed 1 t_renamed env_w) (print m_stored nm_w (rename_node 1 t_renamed e))
    = Some (rename_node 1 t_renamed e, []).
Proof. vm_compute. repeat split. discriminate. Qed.

(* non-vacuity of duplicate_roundtrip: the same formula on Sheet1, duplicated *)
Definition t_copy : text := [83;104;101;101;116;49;32;40;49;41].      (* "Sheet1 (1)" *)
Example duplicate_roundtrip_nonvacuous :
  let e := ESum SMinus (ESum SAdd (ENamedFun None t_sum [ERef (Some t_sheet1) (Some 0) p00; ERef (Some t_sheet2) (Some 1) p00])
                             (ERef None (Some 0) p00))
                (ERef (Some t_ghost) None p00) in
  image m_stored nm_w env_w e = true /\
  parse m_stored nm_w (env_dup 0 t_copy env_w) (print m_stored nm_w (dup_node 0 t_copy e))
    = Some (ESum SMinus (ESum SAdd (ENamedFun None t_sum [ERef (Some t_copy) (Some 1) p00; ERef (Some t_sheet2) (Some 2) p00])
                             (ERef None (Some 1) p00))
                (ERef (Some t_ghost) None p00), []).
Proof. vm_compute. repeat split. Qed.
