(* Syntax/RoundTripArgs.v — round-trip proof, part 3: argument lists ([parse_function_args]). *)
From IronCalc Require Import Base.Prelude Codec.RefA1 Syntax.Token Syntax.Ast Syntax.Printer Syntax.Parser
  Syntax.Shape Syntax.RoundTripLevels Syntax.RoundTripNodes.
Local Open Scope nat_scope.

Section ArgsMain.
  Variable m : pmode.
  Variable nm : names.
  Variable env : penv.
  Variable pol : policy.
  Notation pr := (gprint m nm pol).

  Section Args.
    Variable rec : list token -> presult.
    Variable rest : list token.
    Notation sepk := (sep_token (parse_arg_sep m)).

    Lemma sepk_is_sep : is_sep (parse_arg_sep m) sepk = true.
    Proof. apply is_sep_sep_token. Qed.
    Lemma sepk_not_rparen : is_rparen sepk = false.
    Proof. apply sep_cont. apply (arg_sep_cases m). Qed.

    Lemma args_loop_stop f acc r : args_loop m rec (S f) acc (TRParen :: r) = Some (acc, TRParen :: r).
    Proof. cbn [args_loop]. destruct (parse_arg_sep m); reflexivity. Qed.

    Lemma args_loop_empty_more f acc r :
      args_loop m rec (S f) acc (sepk :: sepk :: r) = args_loop m rec f (acc ++ [EEmpty]) (sepk :: r).
    Proof. cbn [args_loop]. rewrite sepk_is_sep. reflexivity. Qed.

    Lemma args_loop_empty_last f acc r :
      args_loop m rec (S f) acc (sepk :: TRParen :: r) = Some (acc ++ [EEmpty], TRParen :: r).
    Proof. cbn [args_loop]. rewrite sepk_is_sep. destruct (parse_arg_sep m); reflexivity. Qed.

    Lemma args_loop_arg f acc t r p r' :
      start_tok t -> rec (t :: r) = Some (p, r') ->
      args_loop m rec (S f) acc (sepk :: t :: r) = args_loop m rec f (acc ++ [p]) r'.
    Proof.
      intros Hst Hrec. cbn [args_loop]. rewrite sepk_is_sep. rewrite (start_tok_sep m _ Hst).
      destruct Hst as (Hrp & _). rewrite Hrp. rewrite Hrec. reflexivity.
    Qed.

    (* what follows the first argument: ", a2 , a3 ... )" *)
    Definition tail_tokens (tl : list ast) : list token :=
      flat_map (fun a => sepk :: pr a) tl ++ TRParen :: rest.

    Lemma tail_tokens_cons a tl : tail_tokens (a :: tl) = sepk :: pr a ++ tail_tokens tl.
    Proof. unfold tail_tokens. cbn [flat_map]. rewrite <- app_assoc. reflexivity. Qed.
    Lemma tail_tokens_nil : tail_tokens [] = TRParen :: rest.
    Proof. reflexivity. Qed.

    (* an argument is EmptyArg, or a tree whose text starts like an operand and that [rec] reads back *)
    Definition arg_good (a : ast) : Prop :=
      a = EEmpty \/
      ((exists t r, pr a = t :: r /\ start_tok t) /\
       forall rest', follow 8 rest' -> rec (pr a ++ rest') = Some (a, rest')).

    Lemma tail_tokens_follow tl : follow 8 (tail_tokens tl).
    Proof.
      destruct tl as [|a tl]; [rewrite tail_tokens_nil|rewrite tail_tokens_cons]; apply follow_cons_none.
      - reflexivity.
      - apply sep_cont. apply (arg_sep_cases m).
    Qed.

    Lemma args_loop_ok : forall tl acc f,
      length tl < f -> Forall arg_good tl ->
      args_loop m rec f acc (tail_tokens tl) = Some (acc ++ tl, TRParen :: rest).
    Proof.
      induction tl as [|a tl IH]; intros acc f Hf Hg.
      - destruct f; [cbn in Hf; lia|]. rewrite tail_tokens_nil, args_loop_stop, app_nil_r. reflexivity.
      - destruct f; [cbn in Hf; lia|]. inversion Hg as [|? ? Ha Htl]; subst.
        assert (Hf' : length tl < f) by (cbn [length] in Hf; lia).
        rewrite tail_tokens_cons.
        destruct Ha as [->|[(t & r & Hpr & Hst) Hrec]].
        + change (pr EEmpty) with (@nil token). cbn [app].
          destruct tl as [|a' tl'].
          * rewrite tail_tokens_nil, args_loop_empty_last. reflexivity.
          * rewrite tail_tokens_cons, args_loop_empty_more. rewrite <- tail_tokens_cons.
            rewrite IH by assumption. rewrite <- app_assoc. reflexivity.
        + assert (E : rec (t :: r ++ tail_tokens tl) = Some (a, tail_tokens tl)).
          { change (t :: r ++ tail_tokens tl) with ((t :: r) ++ tail_tokens tl). rewrite <- Hpr.
            apply Hrec. apply tail_tokens_follow. }
          rewrite Hpr. cbn [app]. rewrite (args_loop_arg _ _ _ _ _ _ Hst E).
          rewrite IH by assumption. rewrite <- app_assoc. reflexivity.
    Qed.

    Lemma join_tail a tl :
      join sepk (map pr (a :: tl)) ++ TRParen :: rest = pr a ++ tail_tokens tl.
    Proof.
      revert a. induction tl as [|a' tl IH]; intro a.
      - reflexivity.
      - change (join sepk (map pr (a :: a' :: tl))) with (pr a ++ sepk :: join sepk (map pr (a' :: tl))).
        rewrite app_cons_assoc. rewrite IH. rewrite tail_tokens_cons. reflexivity.
    Qed.

    Lemma parse_args_ok args f :
      length args < f -> args_shape_ok args = true -> Forall arg_good args ->
      parse_function_args m rec f (join sepk (map pr args) ++ TRParen :: rest) = Some (args, TRParen :: rest).
    Proof.
      intros Hf Hshape Hg. destruct args as [|a tl].
      - reflexivity.
      - rewrite join_tail. inversion Hg as [|? ? Ha Htl]; subst.
        assert (Hf' : length tl < f) by (cbn [length] in Hf; lia).
        destruct Ha as [->|[(t & r & Hpr & Hst) Hrec]].
        + change (pr EEmpty) with (@nil token). cbn [app].
          destruct tl as [|a' tl']; [discriminate Hshape|].
          pose proof (args_loop_ok (a' :: tl') [EEmpty] f Hf' Htl) as HL.
          rewrite tail_tokens_cons in *. unfold parse_function_args.
          pose proof sepk_is_sep as Hs. pose proof sepk_not_rparen as Hnr.
          destruct (sep_token (parse_arg_sep m)); try discriminate Hnr; rewrite ?Hs; exact HL.
        + assert (E : rec (t :: r ++ tail_tokens tl) = Some (a, tail_tokens tl)).
          { change (t :: r ++ tail_tokens tl) with ((t :: r) ++ tail_tokens tl). rewrite <- Hpr.
            apply Hrec. apply tail_tokens_follow. }
          pose proof (args_loop_ok tl [a] f Hf' Htl) as HL.
          rewrite Hpr. cbn [app]. unfold parse_function_args.
          pose proof (start_tok_sep m _ Hst) as Hs. destruct Hst as (Hrp & _).
          destruct t; try discriminate Hrp; rewrite ?Hs; rewrite E; exact HL.
    Qed.

    Lemma args_then_rparen_ok args f :
      length args < f -> args_shape_ok args = true -> Forall arg_good args ->
      args_then_rparen m rec f (join sepk (map pr args) ++ TRParen :: rest) = Some (args, rest).
    Proof. intros. unfold args_then_rparen. rewrite parse_args_ok by assumption. reflexivity. Qed.
  End Args.
End ArgsMain.
