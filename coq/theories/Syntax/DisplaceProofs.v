(* Syntax/DisplaceProofs.v — theorems about the models of Syntax/Displace.v (all unbounded:
   every anchor, every reference, every position, every count; arithmetic closed by lia). *)
From IronCalc Require Import Base.Prelude Base.Dec Codec.Column Codec.ColumnProofs
  Codec.RefA1 Codec.RefA1Proofs Syntax.Displace.

(* one boolean comparison of the goal -> its two arithmetic cases *)
Ltac zb1 :=
  match goal with
  | |- context [Z.leb ?a ?b] => destruct (Z.leb_spec a b)
  | |- context [Z.ltb ?a ?b] => destruct (Z.ltb_spec a b)
  | |- context [Z.eqb ?a ?b] => destruct (Z.eqb_spec a b)
  end.
Ltac zb := repeat (zb1; cbn [andb orb negb]); try reflexivity; try lia.

Lemma valid_col_true c : 1 <= c <= LAST_COLUMN -> is_valid_column_number c = true.
Proof. intro H. apply valid_range. exact H. Qed.

Lemma valid_col_false c : c < 1 \/ LAST_COLUMN < c -> is_valid_column_number c = false.
Proof.
  intro H. destruct (is_valid_column_number c) eqn:E; [|reflexivity].
  apply valid_range in E. unfold LAST_COLUMN in H. lia.
Qed.

(* ===================================================================================== *)
(** * Lines: the reference arithmetic and the cell relocation are the same function       *)

Lemma shift_line_is_line_map x r delta : shift_line x r delta = line_map x r delta.
Proof. unfold shift_line, line_map. zb; f_equal; lia. Qed.

Lemma shift_line_ins x r k : 0 < k -> shift_line x r k = Some (if r <=? x then x + k else x).
Proof. intro H. unfold shift_line. zb. Qed.

Lemma shift_line_del x r k :
  0 < k ->
  shift_line x r (- k) =
  if x <? r then Some x else if x <? r + k then None else Some (x - k).
Proof. intro H. unfold shift_line. zb; f_equal; lia. Qed.

(* references follow cells: on the edited sheet, with no full-row/column exemption, the
   displaced target of a reference IS the place its target cell goes (or both are "deleted") *)
Definition disp_sheet (d : disp) : option Z :=
  match d with
  | DRow s _ _ | DCol s _ _ | DRowMove s _ _ | DColMove s _ _ => Some s
  | DNone => None
  end.

Theorem displace_pos_is_cell_map d s p :
  disp_sheet d = Some s -> displace_pos d false false s p = cell_map d p.
Proof.
  destruct p as [row col]. destruct d; cbn [disp_sheet]; intro H; inversion H; subst;
    cbn [displace_pos cell_map negb]; rewrite Z.eqb_refl; cbn [andb];
    try rewrite shift_line_is_line_map; reflexivity.
Qed.

Theorem displace_pos_other_sheet d s s' fr fc p :
  disp_sheet d = Some s' -> s <> s' -> displace_pos d fr fc s p = Some p.
Proof.
  destruct p as [row col]. destruct d; cbn [disp_sheet]; intros H Hne; inversion H; subst;
    cbn [displace_pos]; (replace (s =? s') with false by (symmetry; apply Z.eqb_neq; exact Hne));
    reflexivity.
Qed.

(* ===================================================================================== *)
(** * Printing, reading back, re-anchoring                                                *)

Lemma resolve_of_pref s q p : resolve q (of_pref s q p) = (p_row p, p_col p).
Proof.
  unfold resolve, of_pref. cbn [a_abs_row a_abs_col a_row a_col].
  destruct (p_abs_row p), (p_abs_col p); f_equal; lia.
Qed.

Lemma of_pref_flags s q p :
  a_abs_row (of_pref s q p) = p_abs_row p /\ a_abs_col (of_pref s q p) = p_abs_col p /\
  a_sheet (of_pref s q p) = s.
Proof. unfold of_pref. cbn. auto. Qed.

(* the string is the A1 print of the displaced reference (no exemption) *)
Lemma displace_text_is_print d q a :
  displace_text d false false q a =
  match displace d false false q a with
  | None => ref_error
  | Some p => match print_a1 (p_row p) (p_col p) (p_abs_row p) (p_abs_col p) with
              | Some t => t | None => ref_error end
  end.
Proof.
  unfold displace_text, displace.
  destruct (displace_pos d false false (a_sheet a) (resolve q a)) as [[row col]|]; [|reflexivity].
  destruct (row <? 1) eqn:E1; [reflexivity|].
  unfold number_to_column.
  destruct (is_valid_column_number col) eqn:E2; [|reflexivity].
  cbn [p_row p_col p_abs_row p_abs_col]. unfold print_a1. rewrite E1.
  unfold number_to_column. rewrite E2. rewrite <- app_assoc. reflexivity.
Qed.

(* ... so on the grid the text reads back as exactly that reference (C22's round trip) *)
Theorem displace_text_reads_back d q a p :
  displace d false false q a = Some p -> p_row p <= LAST_ROW ->
  parse_reference_a1 (displace_text d false false q a) = Some p.
Proof.
  intros H Hr. rewrite displace_text_is_print, H.
  assert (Hg : 1 <= p_row p /\ 1 <= p_col p <= LAST_COLUMN).
  { unfold displace in H.
    destruct (displace_pos d false false (a_sheet a) (resolve q a)) as [[row col]|]; [|discriminate].
    destruct (row <? 1) eqn:E1; [discriminate|].
    destruct (is_valid_column_number col) eqn:E2; [|discriminate].
    inversion H; subst; cbn [p_row p_col]. apply Z.ltb_ge in E1. apply valid_range in E2.
    unfold LAST_COLUMN. lia. }
  destruct Hg as [Hr1 Hc].
  destruct (a1_roundtrip (p_row p) (p_col p) (p_abs_row p) (p_abs_col p) ltac:(lia) Hc) as [t [Ht Hp]].
  rewrite Ht, Hp. destruct p; reflexivity.
Qed.

(* move_cell keeps the absolute target: the re-typed reference, seen from the new anchor,
   resolves to the same cell with the same flags *)
Theorem rebase_keeps_target q q' a :
  1 <= fst (resolve q a) <= LAST_ROW -> 1 <= snd (resolve q a) <= LAST_COLUMN ->
  exists a', rebase q q' a = Some a' /\ resolve q' a' = resolve q a /\
             a_abs_row a' = a_abs_row a /\ a_abs_col a' = a_abs_col a /\ a_sheet a' = a_sheet a.
Proof.
  intros Hr Hc. unfold rebase, displace. destruct (resolve q a) as [row col] eqn:E.
  cbn [fst snd] in *. cbn [displace_pos].
  replace (row <? 1) with false by (symmetry; apply Z.ltb_ge; lia).
  rewrite valid_col_true by exact Hc. unfold readable. cbn [p_row].
  replace (row <=? LAST_ROW) with true by (symmetry; apply Z.leb_le; lia).
  eexists; split; [reflexivity|].
  rewrite resolve_of_pref. cbn [p_row p_col]. unfold of_pref. cbn. auto.
Qed.

(* ===================================================================================== *)
(** * C12 — insertion                                                                     *)

Definition mkp (row col : Z) (a : aref) : pref :=
  {| p_row := row; p_col := col; p_abs_col := a_abs_col a; p_abs_row := a_abs_row a |}.

(* rows: for EVERY anchor, EVERY stored reference (all four flag combinations) whose target
   is a cell [p] of the grid: the displaced reference is the cell [cell_map p], flags kept.
   NB: no upper bound on the new row — the code has none. *)
Theorem ins_row_ref_follows s r k q a fc row col :
  0 < k -> a_sheet a = s -> resolve q a = (row, col) -> 1 <= row -> 1 <= col <= LAST_COLUMN ->
  let row' := if r <=? row then row + k else row in
  cell_map (DRow s r k) (row, col) = Some (row', col) /\
  displace (DRow s r k) false fc q a = Some (mkp row' col a).
Proof.
  intros Hk Hs Hres Hrow Hcol row'. subst row'. split.
  - cbn [cell_map]. unfold line_map. zb.
  - unfold displace. rewrite Hres, Hs. cbn [displace_pos negb]. rewrite Z.eqb_refl. cbn [andb].
    rewrite shift_line_ins by exact Hk.
    replace ((if r <=? row then row + k else row) <? 1) with false by (symmetry; zb).
    rewrite valid_col_true by exact Hcol. reflexivity.
Qed.

(* columns: the same, and "#REF!" exactly when pushed beyond the last column *)
Theorem ins_col_ref_follows s c k q a fr row col :
  0 < k -> a_sheet a = s -> resolve q a = (row, col) -> 1 <= row -> 1 <= col <= LAST_COLUMN ->
  let col' := if c <=? col then col + k else col in
  cell_map (DCol s c k) (row, col) = Some (row, col') /\
  (col' <= LAST_COLUMN -> displace (DCol s c k) fr false q a = Some (mkp row col' a)) /\
  (LAST_COLUMN < col' -> displace (DCol s c k) fr false q a = None).
Proof.
  intros Hk Hs Hres Hrow Hcol col'. subst col'. split; [|split].
  - cbn [cell_map]. unfold line_map. zb.
  - intro Hle. unfold displace. rewrite Hres, Hs. cbn [displace_pos negb]. rewrite Z.eqb_refl. cbn [andb].
    rewrite shift_line_ins by exact Hk.
    replace (row <? 1) with false by (symmetry; apply Z.ltb_ge; lia).
    rewrite valid_col_true; [reflexivity|]. revert Hle. zb.
  - intro Hgt. unfold displace. rewrite Hres, Hs. cbn [displace_pos negb]. rewrite Z.eqb_refl. cbn [andb].
    rewrite shift_line_ins by exact Hk.
    replace (row <? 1) with false by (symmetry; apply Z.ltb_ge; lia).
    rewrite valid_col_false; [reflexivity|]. right. exact Hgt.
Qed.

(* a reference to another sheet is left alone (any displacement) *)
Theorem other_sheet_ref_unchanged d s' q a fr fc row col :
  disp_sheet d = Some s' -> a_sheet a <> s' -> resolve q a = (row, col) ->
  1 <= row -> 1 <= col <= LAST_COLUMN ->
  displace d fr fc q a = Some (mkp row col a).
Proof.
  intros Hd Hne Hres Hrow Hcol. unfold displace.
  rewrite (displace_pos_other_sheet d (a_sheet a) s' fr fc _ Hd Hne). rewrite Hres.
  replace (row <? 1) with false by (symmetry; apply Z.ltb_ge; lia).
  rewrite valid_col_true by exact Hcol. reflexivity.
Qed.

(* the relative offset is recomputed from the MOVED anchor: when the formula's own cell and
   its target are both at/below the insertion point (or both above) a relative offset is
   unchanged; when only the target moves it grows by k *)
Theorem anchor_and_target_move_together s r k q q' a a' p :
  0 < k -> a_abs_row a = false ->
  cell_map (DRow s r k) q = Some q' ->
  rebase q q' a = Some a' ->
  displace (DRow s r k) false false q' a' = Some p -> a_sheet a = s ->
  a_row (of_pref s q' p) =
    a_row a + (if r <=? fst (resolve q a) then k else 0) - (if r <=? fst q then k else 0).
Proof.
  intros Hk Hrel Hq Hreb Hd Hs.
  destruct q as [qr qc]. destruct a as [sa ar acl abr abc]. cbn [a_abs_row a_sheet] in *. subst abr sa.
  cbn [cell_map] in Hq. unfold line_map in Hq.
  replace (0 <? k) with true in Hq by (symmetry; apply Z.ltb_lt; lia).
  unfold rebase, displace in Hreb. cbn [resolve a_abs_row a_abs_col a_row a_col a_sheet displace_pos fst snd] in Hreb.
  destruct (ar + qr <? 1) eqn:E1; [discriminate|].
  destruct (is_valid_column_number (if abc then acl else acl + qc)) eqn:E2; [|discriminate].
  destruct (readable _) in Hreb; [|discriminate].
  inversion Hreb; subst a'; clear Hreb.
  unfold displace in Hd. rewrite resolve_of_pref in Hd.
  cbn [p_row p_col a_sheet of_pref displace_pos negb] in Hd. rewrite Z.eqb_refl in Hd. cbn [andb] in Hd.
  rewrite shift_line_ins in Hd by exact Hk.
  destruct ((if r <=? ar + qr then ar + qr + k else ar + qr) <? 1) eqn:E3; [discriminate|].
  rewrite E2 in Hd. inversion Hd; subst p; clear Hd.
  cbn [of_pref p_abs_row p_row a_row resolve fst a_abs_row].
  destruct (r <=? qr) eqn:E4; inversion Hq; subst q'; cbn [fst];
    destruct (r <=? ar + qr); lia.
Qed.

(* ranges: both corners are displaced independently (no full-row exemption in force) *)
Theorem ins_row_range s r k q g r1 c1 r2 c2 :
  0 < k -> g_sheet g = s -> is_full_row g = false ->
  resolve q (corner1 g) = (r1, c1) -> resolve q (corner2 g) = (r2, c2) ->
  1 <= r1 -> 1 <= r2 -> 1 <= c1 <= LAST_COLUMN -> 1 <= c2 <= LAST_COLUMN ->
  displace_range (DRow s r k) q g =
    (Some (mkp (if r <=? r1 then r1 + k else r1) c1 (corner1 g)),
     Some (mkp (if r <=? r2 then r2 + k else r2) c2 (corner2 g))).
Proof.
  intros Hk Hs Hf H1 H2 Hr1 Hr2 Hc1 Hc2. unfold displace_range. rewrite Hf.
  destruct (ins_row_ref_follows s r k q (corner1 g) (is_full_col g) r1 c1 Hk Hs H1 Hr1 Hc1) as [_ E1].
  destruct (ins_row_ref_follows s r k q (corner2 g) (is_full_col g) r2 c2 Hk Hs H2 Hr2 Hc2) as [_ E2].
  rewrite E1, E2. reflexivity.
Qed.

(* the three cases of the statement, read off the previous theorem *)
Corollary ins_row_range_cases r k r1 r2 :
  0 < k -> r1 <= r2 ->
  (r1 < r <= r2 -> (if r <=? r1 then r1 + k else r1) = r1 /\ (if r <=? r2 then r2 + k else r2) = r2 + k) /\
  (r <= r1 -> (if r <=? r1 then r1 + k else r1) = r1 + k /\ (if r <=? r2 then r2 + k else r2) = r2 + k) /\
  (r2 < r -> (if r <=? r1 then r1 + k else r1) = r1 /\ (if r <=? r2 then r2 + k else r2) = r2).
Proof. intros Hk H12. repeat split; intros; zb. Qed.

Theorem ins_col_range s c k q g r1 c1 r2 c2 :
  0 < k -> g_sheet g = s -> is_full_col g = false ->
  resolve q (corner1 g) = (r1, c1) -> resolve q (corner2 g) = (r2, c2) ->
  1 <= r1 -> 1 <= r2 -> 1 <= c1 <= LAST_COLUMN -> 1 <= c2 <= LAST_COLUMN ->
  (if c <=? c2 then c2 + k else c2) <= LAST_COLUMN -> c1 <= c2 ->
  displace_range (DCol s c k) q g =
    (Some (mkp r1 (if c <=? c1 then c1 + k else c1) (corner1 g)),
     Some (mkp r2 (if c <=? c2 then c2 + k else c2) (corner2 g))).
Proof.
  intros Hk Hs Hf H1 H2 Hr1 Hr2 Hc1 Hc2 Hle H12. unfold displace_range. rewrite Hf.
  destruct (ins_col_ref_follows s c k q (corner1 g) (is_full_row g) r1 c1 Hk Hs H1 Hr1 Hc1) as [_ [E1 _]].
  destruct (ins_col_ref_follows s c k q (corner2 g) (is_full_row g) r2 c2 Hk Hs H2 Hr2 Hc2) as [_ [E2 _]].
  rewrite E1, E2; [reflexivity|exact Hle|]. revert Hle. zb.
Qed.

(* "A:A" (all rows) is exempt from row displacement, "1:1" from column displacement *)
Theorem full_row_range_exempt s r delta q g c1 c2 :
  is_full_row g = true ->
  snd (resolve q (corner1 g)) = c1 -> snd (resolve q (corner2 g)) = c2 ->
  1 <= c1 <= LAST_COLUMN -> 1 <= c2 <= LAST_COLUMN ->
  displace_range (DRow s r delta) q g =
    (Some (mkp 1 c1 (corner1 g)), Some (mkp LAST_ROW c2 (corner2 g))).
Proof.
  intros Hf H1 H2 Hc1 Hc2. unfold displace_range. rewrite Hf.
  unfold is_full_row in Hf.
  apply andb_true_iff in Hf as [Hf H4]. apply andb_true_iff in Hf as [Hf H3].
  apply andb_true_iff in Hf as [Ha1 Ha2]. apply Z.eqb_eq in H3, H4.
  unfold displace. unfold resolve in *. cbn [corner1 corner2 a_abs_row a_abs_col a_row a_col a_sheet fst snd] in *.
  rewrite Ha1, Ha2, H3, H4. cbn [displace_pos negb]. rewrite andb_false_r.
  rewrite H1, H2. rewrite (valid_col_true c1 Hc1), (valid_col_true c2 Hc2).
  unfold mkp. cbn [corner1 corner2 a_abs_row a_abs_col]. rewrite Ha1, Ha2. reflexivity.
Qed.

Theorem full_col_range_exempt s c delta q g r1 r2 :
  is_full_col g = true ->
  fst (resolve q (corner1 g)) = r1 -> fst (resolve q (corner2 g)) = r2 ->
  1 <= r1 -> 1 <= r2 ->
  displace_range (DCol s c delta) q g =
    (Some (mkp r1 1 (corner1 g)), Some (mkp r2 LAST_COLUMN (corner2 g))).
Proof.
  intros Hf H1 H2 Hr1 Hr2. unfold displace_range. rewrite Hf.
  unfold is_full_col in Hf.
  apply andb_true_iff in Hf as [Hf H4]. apply andb_true_iff in Hf as [Hf H3].
  apply andb_true_iff in Hf as [Ha1 Ha2]. apply Z.eqb_eq in H3, H4.
  unfold displace. unfold resolve in *. cbn [corner1 corner2 a_abs_row a_abs_col a_row a_col a_sheet fst snd] in *.
  rewrite Ha1, Ha2, H3, H4. cbn [displace_pos negb]. rewrite andb_false_r.
  rewrite H1, H2.
  replace (r1 <? 1) with false by (symmetry; apply Z.ltb_ge; lia).
  replace (r2 <? 1) with false by (symmetry; apply Z.ltb_ge; lia).
  unfold mkp. cbn [corner1 corner2 a_abs_row a_abs_col]. rewrite Ha1, Ha2. reflexivity.
Qed.

(* FINDING (row overflow): a reference pushed beyond the last ROW is not "#REF!": the printer
   emits a row number above LAST_ROW, which no longer reads back as a reference *)
Definition row_overflow_witness : aref :=
  {| a_sheet := 0; a_row := LAST_ROW; a_col := 1; a_abs_row := true; a_abs_col := false |}.

Theorem ins_row_overflow_not_ref_error :
  exists s r k q a,
    0 < k /\ grid (resolve q a) /\ a_sheet a = s /\
    LAST_ROW < fst (resolve q a) + k /\ r <= fst (resolve q a) /\
    displace (DRow s r k) false false q a <> None /\
    displace_text (DRow s r k) false false q a <> ref_error /\
    parse_reference_a1 (displace_text (DRow s r k) false false q a) = None.
Proof.
  exists 0, 2, 1, (1, 1), row_overflow_witness. vm_compute.
  repeat split; try discriminate; intro H; discriminate H.
Qed.

(* ===================================================================================== *)
(** * C13 — deletion                                                                      *)

Theorem del_row_ref s r k q a fc row col :
  0 < k -> 1 <= r -> a_sheet a = s -> resolve q a = (row, col) -> 1 <= row -> 1 <= col <= LAST_COLUMN ->
  (row < r ->
     cell_map (DRow s r (- k)) (row, col) = Some (row, col) /\
     displace (DRow s r (- k)) false fc q a = Some (mkp row col a)) /\
  (r <= row < r + k ->
     cell_map (DRow s r (- k)) (row, col) = None /\
     displace (DRow s r (- k)) false fc q a = None) /\
  (r + k <= row ->
     cell_map (DRow s r (- k)) (row, col) = Some (row - k, col) /\
     displace (DRow s r (- k)) false fc q a = Some (mkp (row - k) col a)).
Proof.
  intros Hk Hr Hs Hres Hrow Hcol.
  assert (Hd : displace (DRow s r (- k)) false fc q a =
               match shift_line row r (- k) with
               | None => None
               | Some row' => if row' <? 1 then None else Some (mkp row' col a) end).
  { unfold displace. rewrite Hres, Hs. cbn [displace_pos negb]. rewrite Z.eqb_refl. cbn [andb].
    destruct (shift_line row r (- k)); [|reflexivity].
    rewrite valid_col_true by exact Hcol. reflexivity. }
  rewrite Hd. rewrite shift_line_del by exact Hk. cbn [cell_map]. unfold line_map.
  replace (0 <? - k) with false by (symmetry; apply Z.ltb_ge; lia).
  replace (- - k) with k by lia.
  split; [|split]; intro H; split; zb.
Qed.

Theorem del_col_ref s c k q a fr row col :
  0 < k -> 1 <= c -> a_sheet a = s -> resolve q a = (row, col) -> 1 <= row -> 1 <= col <= LAST_COLUMN ->
  (col < c ->
     cell_map (DCol s c (- k)) (row, col) = Some (row, col) /\
     displace (DCol s c (- k)) fr false q a = Some (mkp row col a)) /\
  (c <= col < c + k ->
     cell_map (DCol s c (- k)) (row, col) = None /\
     displace (DCol s c (- k)) fr false q a = None) /\
  (c + k <= col ->
     cell_map (DCol s c (- k)) (row, col) = Some (row, col - k) /\
     displace (DCol s c (- k)) fr false q a = Some (mkp row (col - k) a)).
Proof.
  intros Hk Hc Hs Hres Hrow Hcol.
  assert (Hd : displace (DCol s c (- k)) fr false q a =
               match shift_line col c (- k) with
               | None => None
               | Some col' => if is_valid_column_number col' then Some (mkp row col' a) else None end).
  { unfold displace. rewrite Hres, Hs. cbn [displace_pos negb]. rewrite Z.eqb_refl. cbn [andb].
    destruct (shift_line col c (- k)); [|reflexivity].
    replace (row <? 1) with false by (symmetry; apply Z.ltb_ge; lia). reflexivity. }
  rewrite Hd. rewrite shift_line_del by exact Hk. cbn [cell_map]. unfold line_map.
  replace (0 <? - k) with false by (symmetry; apply Z.ltb_ge; lia).
  replace (- - k) with k by lia.
  split; [|split]; intro H; split.
  - zb.
  - replace (col <? c) with true by (symmetry; apply Z.ltb_lt; lia).
    rewrite valid_col_true by exact Hcol. reflexivity.
  - zb.
  - zb.
  - zb.
  - replace (col <? c) with false by (symmetry; apply Z.ltb_ge; lia).
    replace (col <? c + k) with false by (symmetry; apply Z.ltb_ge; lia).
    rewrite valid_col_true; [reflexivity|]. lia.
Qed.

(* ranges under deletion: corner by corner. A range spanning the band shrinks; a range with
   a corner inside the band gets "#REF!" for THAT corner only (the text is "#REF!:A4"), the
   other corner follows its cell *)
Theorem del_row_range s r k q g r1 c1 r2 c2 :
  0 < k -> 1 <= r -> g_sheet g = s -> is_full_row g = false ->
  resolve q (corner1 g) = (r1, c1) -> resolve q (corner2 g) = (r2, c2) ->
  1 <= r1 -> 1 <= r2 -> 1 <= c1 <= LAST_COLUMN -> 1 <= c2 <= LAST_COLUMN ->
  let f := fun x => if x <? r then Some x else if x <? r + k then None else Some (x - k) in
  displace_range (DRow s r (- k)) q g =
    (match f r1 with Some x => Some (mkp x c1 (corner1 g)) | None => None end,
     match f r2 with Some x => Some (mkp x c2 (corner2 g)) | None => None end).
Proof.
  intros Hk Hr Hs Hf H1 H2 Hr1 Hr2 Hc1 Hc2 f. subst f. unfold displace_range. rewrite Hf.
  destruct (del_row_ref s r k q (corner1 g) (is_full_col g) r1 c1 Hk Hr Hs H1 Hr1 Hc1) as [A1 [B1 C1]].
  destruct (del_row_ref s r k q (corner2 g) (is_full_col g) r2 c2 Hk Hr Hs H2 Hr2 Hc2) as [A2 [B2 C2]].
  f_equal.
  - destruct (Z.ltb_spec r1 r); [apply A1; lia|].
    destruct (Z.ltb_spec r1 (r + k)); [apply B1; lia|apply C1; lia].
  - destruct (Z.ltb_spec r2 r); [apply A2; lia|].
    destruct (Z.ltb_spec r2 (r + k)); [apply B2; lia|apply C2; lia].
Qed.

Corollary del_row_range_spanning_shrinks s r k q g r1 c1 r2 c2 :
  0 < k -> 1 <= r -> g_sheet g = s -> is_full_row g = false ->
  resolve q (corner1 g) = (r1, c1) -> resolve q (corner2 g) = (r2, c2) ->
  1 <= r1 -> 1 <= c1 <= LAST_COLUMN -> 1 <= c2 <= LAST_COLUMN ->
  r1 < r -> r + k <= r2 ->
  displace_range (DRow s r (- k)) q g =
    (Some (mkp r1 c1 (corner1 g)), Some (mkp (r2 - k) c2 (corner2 g))).
Proof.
  intros Hk Hr Hs Hf H1 H2 Hr1 Hc1 Hc2 Ha Hb.
  rewrite (del_row_range s r k q g r1 c1 r2 c2) by (try assumption; lia).
  replace (r1 <? r) with true by (symmetry; apply Z.ltb_lt; lia).
  replace (r2 <? r) with false by (symmetry; apply Z.ltb_ge; lia).
  replace (r2 <? r + k) with false by (symmetry; apply Z.ltb_ge; lia).
  reflexivity.
Qed.

(* "=SUM(A3:A6)" in B1, rows 2..3 deleted: the code prints "#REF!:A4" *)
Example del_corner_text :
  displace_range_text (DRow 0 2 (-2)) (1, 2)
    {| g_sheet := 0; g_row1 := 2; g_col1 := -1; g_abs_row1 := false; g_abs_col1 := false;
       g_row2 := 5; g_col2 := -1; g_abs_row2 := false; g_abs_col2 := false |}
  = [35; 82; 69; 70; 33; 58; 65; 52].
Proof. vm_compute. reflexivity. Qed.

(* ===================================================================================== *)
(** * C14 — insert then delete                                                            *)

Theorem ins_del_line x r k :
  0 < k -> exists y, line_map x r k = Some y /\ line_map y r (- k) = Some x.
Proof.
  intro Hk. unfold line_map.
  replace (0 <? k) with true by (symmetry; apply Z.ltb_lt; lia).
  replace (0 <? - k) with false by (symmetry; apply Z.ltb_ge; lia).
  replace (- - k) with k by lia.
  destruct (Z.leb_spec r x) as [Hx|Hx]; eexists; (split; [reflexivity|]); zb; f_equal; lia.
Qed.

Theorem ins_del_cell_map_rows s r k p :
  0 < k -> exists p', cell_map (DRow s r k) p = Some p' /\ cell_map (DRow s r (- k)) p' = Some p.
Proof.
  intro Hk. destruct p as [row col]. destruct (ins_del_line row r k Hk) as [y [H1 H2]].
  exists (y, col). cbn [cell_map]. rewrite H1, H2. split; reflexivity.
Qed.

Theorem ins_del_cell_map_cols s c k p :
  0 < k -> exists p', cell_map (DCol s c k) p = Some p' /\ cell_map (DCol s c (- k)) p' = Some p.
Proof.
  intro Hk. destruct p as [row col]. destruct (ins_del_line col c k Hk) as [y [H1 H2]].
  exists (row, y). cbn [cell_map]. rewrite H1, H2. split; reflexivity.
Qed.

(* the inserted band is empty: nothing is mapped into it, so the deletion removes nothing *)
Theorem ins_misses_band x r k y : 0 < k -> line_map x r k = Some y -> y < r \/ r + k <= y.
Proof.
  intros Hk. unfold line_map.
  replace (0 <? k) with true by (symmetry; apply Z.ltb_lt; lia).
  destruct (Z.leb_spec r x) as [Hx|Hx]; intro Hy; inversion Hy; lia.
Qed.

Definition then_disp (d1 d2 : disp) (same : bool) (q : pos) (a : aref) : option (pos * aref) :=
  match apply_disp d1 same q a with
  | None => None
  | Some (q1, a1) => apply_disp d2 same q1 a1
  end.

Lemma of_pref_resolve q a :
  of_pref (a_sheet a) q (mkp (fst (resolve q a)) (snd (resolve q a)) a) = a.
Proof.
  destruct a as [sa ar acl abr abc]. unfold of_pref, mkp, resolve.
  cbn [a_sheet a_row a_col a_abs_row a_abs_col p_row p_col p_abs_row p_abs_col fst snd].
  destruct abr, abc; f_equal; lia.
Qed.

(* one whole rewrite, spelled out: the re-typing in the moved cell is transparent, what
   counts is where the anchor goes and where the absolute target goes *)
Lemma apply_disp_full_spec d same q a q' :
  1 <= fst (resolve q a) <= LAST_ROW -> 1 <= snd (resolve q a) <= LAST_COLUMN ->
  anchor_map d same q = Some q' ->
  apply_disp_full d same q a =
  match displace_pos d false false (a_sheet a) (resolve q a) with
  | None => RwRefError
  | Some (row, col) =>
    if row <? 1 then RwRefError else
    if is_valid_column_number col then
      if row <=? LAST_ROW then RwRef q' (of_pref (a_sheet a) q' (mkp row col a)) else RwUnreadable
    else RwRefError
  end.
Proof.
  intros Ht1 Ht2 Hq. unfold apply_disp_full. rewrite Hq.
  destruct (rebase_keeps_target q q' a Ht1 Ht2) as [a' [Hreb [Hres [Har [Hac Hsh]]]]].
  rewrite Hreb. unfold displace. rewrite Hres, Hsh.
  destruct (displace_pos d false false (a_sheet a) (resolve q a)) as [[row col]|]; [|reflexivity].
  destruct (row <? 1); [reflexivity|].
  destruct (is_valid_column_number col); [|reflexivity].
  unfold readable. cbn [p_row]. rewrite Har, Hac. reflexivity.
Qed.

Lemma apply_disp_ok d same q a q' row col :
  1 <= fst (resolve q a) <= LAST_ROW -> 1 <= snd (resolve q a) <= LAST_COLUMN ->
  anchor_map d same q = Some q' ->
  displace_pos d false false (a_sheet a) (resolve q a) = Some (row, col) ->
  1 <= row <= LAST_ROW -> 1 <= col <= LAST_COLUMN ->
  apply_disp d same q a = Some (q', of_pref (a_sheet a) q' (mkp row col a)).
Proof.
  intros Ht1 Ht2 Hq Hd Hr Hc. unfold apply_disp.
  rewrite (apply_disp_full_spec d same q a q' Ht1 Ht2 Hq), Hd.
  replace (row <? 1) with false by (symmetry; apply Z.ltb_ge; lia).
  rewrite valid_col_true by exact Hc.
  replace (row <=? LAST_ROW) with true by (symmetry; apply Z.leb_le; lia). reflexivity.
Qed.

(* two edits that are inverse on the anchor and on the target give back the stored reference *)
Theorem then_disp_inverse d1 d2 same q a q1 t1 :
  1 <= fst (resolve q a) <= LAST_ROW -> 1 <= snd (resolve q a) <= LAST_COLUMN ->
  anchor_map d1 same q = Some q1 -> anchor_map d2 same q1 = Some q ->
  displace_pos d1 false false (a_sheet a) (resolve q a) = Some t1 ->
  displace_pos d2 false false (a_sheet a) t1 = Some (resolve q a) ->
  1 <= fst t1 <= LAST_ROW -> 1 <= snd t1 <= LAST_COLUMN ->
  then_disp d1 d2 same q a = Some (q, a).
Proof.
  intros Ht1 Ht2 Hq1 Hq2 Hd1 Hd2 Hr1 Hc1. destruct t1 as [row1 col1]. cbn [fst snd] in *.
  unfold then_disp.
  rewrite (apply_disp_ok d1 same q a q1 row1 col1) by assumption.
  set (a1 := of_pref (a_sheet a) q1 (mkp row1 col1 a)).
  assert (Hres1 : resolve q1 a1 = (row1, col1)) by (subst a1; rewrite resolve_of_pref; reflexivity).
  assert (Hs1 : a_sheet a1 = a_sheet a) by reflexivity.
  destruct (resolve q a) as [row col] eqn:Eres. cbn [fst snd] in *.
  rewrite (apply_disp_ok d2 same q1 a1 q row col); try (rewrite Hres1; cbn [fst snd]; assumption);
    try assumption.
  f_equal. f_equal. rewrite Hs1.
  replace (mkp row col a1) with (mkp row col a) by reflexivity.
  pose proof (of_pref_resolve q a) as H. rewrite Eres in H. exact H.
Qed.

Lemma displace_pos_pair d1 d2 s sa t t1 :
  disp_sheet d1 = Some s -> disp_sheet d2 = Some s ->
  cell_map d1 t = Some t1 -> cell_map d2 t1 = Some t ->
  exists t1', displace_pos d1 false false sa t = Some t1' /\
              displace_pos d2 false false sa t1' = Some t /\ (t1' = t1 \/ t1' = t).
Proof.
  intros H1 H2 Hc1 Hc2. destruct (Z.eq_dec sa s) as [E|E].
  - subst sa. exists t1. rewrite (displace_pos_is_cell_map d1 s t H1), (displace_pos_is_cell_map d2 s t1 H2).
    auto.
  - exists t. rewrite (displace_pos_other_sheet d1 sa s false false t H1 E),
      (displace_pos_other_sheet d2 sa s false false t H2 E). auto.
Qed.

Lemma anchor_map_pair d1 d2 same q q1 :
  cell_map d1 q = Some q1 -> cell_map d2 q1 = Some q ->
  exists q1', anchor_map d1 same q = Some q1' /\ anchor_map d2 same q1' = Some q.
Proof.
  intros H1 H2. destruct same; cbn [anchor_map]; [exists q1|exists q]; auto.
Qed.

(* rows: the whole rewrite (re-type in the moved cell, displace, read back; twice) gives back
   the stored reference and the anchor — for formulas on the edited sheet ([same = true]) or on
   another one, references to the edited sheet or to another one, all flag combinations,
   provided the inserted rows did not push the target beyond the last row *)
Theorem ins_del_ref_rows s r k same q a :
  0 < k ->
  1 <= fst (resolve q a) -> 1 <= snd (resolve q a) <= LAST_COLUMN ->
  (if r <=? fst (resolve q a) then fst (resolve q a) + k else fst (resolve q a)) <= LAST_ROW ->
  then_disp (DRow s r k) (DRow s r (- k)) same q a = Some (q, a).
Proof.
  intros Hk Ht1 Ht2 Hno.
  assert (Ht1' : 1 <= fst (resolve q a) <= LAST_ROW) by (revert Hno; zb).
  destruct (ins_del_cell_map_rows s r k q Hk) as [q1 [Hq1 Hq2]].
  destruct (anchor_map_pair _ _ same q q1 Hq1 Hq2) as [q1' [Ha1 Ha2]].
  destruct (ins_del_cell_map_rows s r k (resolve q a) Hk) as [t1 [Hc1 Hc2]].
  destruct (displace_pos_pair (DRow s r k) (DRow s r (- k)) s (a_sheet a) _ t1 eq_refl eq_refl Hc1 Hc2)
    as [t1' [Hd1 [Hd2 Hor]]].
  apply (then_disp_inverse _ _ same q a q1' t1'); try assumption.
  - destruct Hor as [E|E]; subst t1'; [|exact Ht1'].
    destruct (resolve q a) as [row col]. cbn [cell_map fst snd] in *. unfold line_map in Hc1.
    replace (0 <? k) with true in Hc1 by (symmetry; apply Z.ltb_lt; lia).
    destruct (Z.leb_spec r row); inversion Hc1; cbn [fst]; lia.
  - destruct Hor as [E|E]; subst t1'; [|exact Ht2].
    destruct (resolve q a) as [row col]. cbn [cell_map fst snd] in *.
    destruct (line_map row r k); inversion Hc1; cbn [snd]; lia.
Qed.

Theorem ins_del_ref_cols s c k same q a :
  0 < k ->
  1 <= fst (resolve q a) <= LAST_ROW -> 1 <= snd (resolve q a) ->
  (if c <=? snd (resolve q a) then snd (resolve q a) + k else snd (resolve q a)) <= LAST_COLUMN ->
  then_disp (DCol s c k) (DCol s c (- k)) same q a = Some (q, a).
Proof.
  intros Hk Ht1 Ht2 Hno.
  assert (Ht2' : 1 <= snd (resolve q a) <= LAST_COLUMN) by (revert Hno; zb).
  destruct (ins_del_cell_map_cols s c k q Hk) as [q1 [Hq1 Hq2]].
  destruct (anchor_map_pair _ _ same q q1 Hq1 Hq2) as [q1' [Ha1 Ha2]].
  destruct (ins_del_cell_map_cols s c k (resolve q a) Hk) as [t1 [Hc1 Hc2]].
  destruct (displace_pos_pair (DCol s c k) (DCol s c (- k)) s (a_sheet a) _ t1 eq_refl eq_refl Hc1 Hc2)
    as [t1' [Hd1 [Hd2 Hor]]].
  apply (then_disp_inverse _ _ same q a q1' t1'); try assumption.
  - destruct Hor as [E|E]; subst t1'; [|exact Ht1].
    destruct (resolve q a) as [row col]. cbn [cell_map fst snd] in *.
    destruct (line_map col c k); inversion Hc1; cbn [fst]; lia.
  - destruct Hor as [E|E]; subst t1'; [|exact Ht2'].
    destruct (resolve q a) as [row col]. cbn [cell_map fst snd] in *. unfold line_map in Hc1.
    replace (0 <? k) with true in Hc1 by (symmetry; apply Z.ltb_lt; lia).
    destruct (Z.leb_spec c col); inversion Hc1; cbn [snd]; lia.
Qed.

(* ===================================================================================== *)
(** * C15 — moves                                                                         *)

(* one line: a bijection of Z (hence of [1, last]) whose inverse is the opposite move *)
Theorem single_move_inverse i d x : single_move (i + d) (- d) (single_move i d x) = x.
Proof. unfold single_move at 2. zb; unfold single_move; zb. Qed.

Theorem single_move_inverse' i d y : single_move i d (single_move (i + d) (- d) y) = y.
Proof.
  pose proof (single_move_inverse (i + d) (- d) y) as H.
  replace (i + d + - d) with i in H by lia. replace (- - d) with d in H by lia. exact H.
Qed.

Theorem single_move_injective i d x y : single_move i d x = single_move i d y -> x = y.
Proof.
  intro H. rewrite <- (single_move_inverse i d x), <- (single_move_inverse i d y), H. reflexivity.
Qed.

Theorem single_move_range last i d x :
  1 <= i <= last -> 1 <= i + d <= last -> 1 <= x <= last -> 1 <= single_move i d x <= last.
Proof. intros Hi Hd Hx. unfold single_move. zb. Qed.

(* the move touches nothing outside [min i (i+d), max i (i+d)] *)
Theorem single_move_outside i d x :
  (x < i /\ x < i + d) \/ (i < x /\ i + d < x) -> single_move i d x = x.
Proof. intro H. unfold single_move. zb. Qed.

(* the loop of move_rows_action/move_columns_action IS the block permutation; the order
   (last line first when moving down, first line first when moving up) is what makes it so *)
Lemma block_move_step_down i n d x :
  0 <= n -> 0 < d -> block_move i (n + 1) d x = block_move i n d (single_move (i + n) d x).
Proof.
  intros Hn Hd. unfold single_move.
  destruct (Z.eqb_spec x (i + n)) as [E|E].
  - subst x. unfold block_move. zb.
  - replace (0 <? d) with true by (symmetry; apply Z.ltb_lt; lia).
    destruct (Z.ltb_spec (i + n) x) as [A|A]; destruct (Z.leb_spec x (i + n + d)) as [B|B];
      cbn [andb]; unfold block_move; zb.
Qed.

Lemma block_move_step_up i n d x :
  0 <= n -> d < 0 -> block_move i (n + 1) d x = block_move (i + 1) n d (single_move i d x).
Proof.
  intros Hn Hd. unfold single_move.
  destruct (Z.eqb_spec x i) as [E|E].
  - subst x. unfold block_move. zb.
  - replace (0 <? d) with false by (symmetry; apply Z.ltb_ge; lia).
    replace (d <? 0) with true by (symmetry; apply Z.ltb_lt; lia).
    destruct (Z.ltb_spec x i) as [A|A]; destruct (Z.leb_spec (i + d) x) as [B|B];
      cbn [andb]; unfold block_move; zb.
Qed.

Lemma block_move_empty i d x : block_move i 0 d x = x.
Proof. unfold block_move. zb. Qed.

Lemma block_move_zero i n x : 0 <= n -> block_move i n 0 x = x.
Proof. intro H. unfold block_move. zb. Qed.

Lemma iter_last_first_is_block i n d x :
  0 < d -> iter_last_first i n d x = block_move i (Z.of_nat n) d x.
Proof.
  intro Hd. revert x. induction n as [|n IH]; intro x.
  - cbn [iter_last_first]. change (Z.of_nat 0) with 0. rewrite block_move_empty. reflexivity.
  - cbn [iter_last_first]. rewrite IH.
    replace (Z.of_nat (S n)) with (Z.of_nat n + 1) by lia.
    rewrite block_move_step_down by lia. reflexivity.
Qed.

Lemma iter_first_first_is_block i n d x :
  d < 0 -> iter_first_first i n d x = block_move i (Z.of_nat n) d x.
Proof.
  intro Hd. revert i x. induction n as [|n IH]; intros i x.
  - cbn [iter_first_first]. change (Z.of_nat 0) with 0. rewrite block_move_empty. reflexivity.
  - cbn [iter_first_first]. rewrite IH.
    replace (Z.of_nat (S n)) with (Z.of_nat n + 1) by lia.
    rewrite block_move_step_up by lia. reflexivity.
Qed.

Lemma iter_first_first_zero i n x : iter_first_first i n 0 x = x.
Proof.
  revert i x. induction n as [|n IH]; intros i x; cbn [iter_first_first]; [reflexivity|].
  rewrite IH. unfold single_move. zb.
Qed.

Theorem iterate_is_block i n d x : iterate_moves i n d x = block_move i (Z.of_nat n) d x.
Proof.
  unfold iterate_moves. destruct (Z.ltb_spec 0 d) as [H|H].
  - apply iter_last_first_is_block. exact H.
  - destruct (Z.eq_dec d 0) as [E|E].
    + subst d. rewrite iter_first_first_zero, block_move_zero by lia. reflexivity.
    + apply iter_first_first_is_block. lia.
Qed.

(* the other loop order would NOT be the block move (so the order is load-bearing) *)
Example wrong_order_is_not_block :
  iter_first_first 1 2 1 1 <> block_move 1 2 1 1.
Proof. vm_compute. discriminate. Qed.

(* block moves: inverse (what undo applies), range, locality *)
Theorem block_move_inverse i n d x : 0 <= n -> block_move (i + d) n (- d) (block_move i n d x) = x.
Proof.
  intro Hn. unfold block_move at 2. zb; unfold block_move; zb.
Qed.

Theorem block_move_injective i n d x y : 0 <= n -> block_move i n d x = block_move i n d y -> x = y.
Proof.
  intros Hn H. rewrite <- (block_move_inverse i n d x Hn), <- (block_move_inverse i n d y Hn), H.
  reflexivity.
Qed.

Theorem block_move_range last i n d x :
  0 < n -> 1 <= i -> i + n - 1 <= last -> 1 <= i + d -> i + n - 1 + d <= last ->
  1 <= x <= last -> 1 <= block_move i n d x <= last.
Proof. intros. unfold block_move. zb. Qed.

Theorem block_move_cases i n d x :
  0 <= n ->
  (i <= x < i + n -> block_move i n d x = x + d) /\
  (0 < d -> i + n <= x < i + n + d -> block_move i n d x = x - n) /\
  (d < 0 -> i + d <= x < i -> block_move i n d x = x + n) /\
  (x < i -> x < i + d -> block_move i n d x = x) /\
  (i + n <= x -> i + n + d <= x -> block_move i n d x = x).
Proof. intro Hn. unfold block_move. repeat split; intros; zb. Qed.

(* references to single cells: through the code's sequence of RowMove displacements the
   target of a reference goes exactly where its cell goes *)
Lemma seq_last_first_rows s i n d row col :
  displace_pos_seq (move_disps_last_first true s i n d) s (row, col) =
  Some (iter_last_first i n d row, col).
Proof.
  revert row. induction n as [|n IH]; intro row; cbn [move_disps_last_first displace_pos_seq iter_last_first];
    [reflexivity|].
  cbn [displace_pos]. rewrite Z.eqb_refl. apply IH.
Qed.

Lemma seq_first_first_rows s i n d row col :
  displace_pos_seq (move_disps_first_first true s i n d) s (row, col) =
  Some (iter_first_first i n d row, col).
Proof.
  revert i row. induction n as [|n IH]; intros i row; cbn [move_disps_first_first displace_pos_seq iter_first_first];
    [reflexivity|].
  cbn [displace_pos]. rewrite Z.eqb_refl. apply IH.
Qed.

Lemma seq_last_first_cols s i n d row col :
  displace_pos_seq (move_disps_last_first false s i n d) s (row, col) =
  Some (row, iter_last_first i n d col).
Proof.
  revert col. induction n as [|n IH]; intro col; cbn [move_disps_last_first displace_pos_seq iter_last_first];
    [reflexivity|].
  cbn [displace_pos]. rewrite Z.eqb_refl. apply IH.
Qed.

Lemma seq_first_first_cols s i n d row col :
  displace_pos_seq (move_disps_first_first false s i n d) s (row, col) =
  Some (row, iter_first_first i n d col).
Proof.
  revert i col. induction n as [|n IH]; intros i col; cbn [move_disps_first_first displace_pos_seq iter_first_first];
    [reflexivity|].
  cbn [displace_pos]. rewrite Z.eqb_refl. apply IH.
Qed.

Theorem move_rows_refs_follow s i n d row col :
  displace_pos_seq (move_disps true s i n d) s (row, col) =
  Some (block_move i (Z.of_nat n) d row, col).
Proof.
  rewrite <- iterate_is_block. unfold move_disps, iterate_moves.
  destruct (0 <? d); [apply seq_last_first_rows|apply seq_first_first_rows].
Qed.

Theorem move_cols_refs_follow s i n d row col :
  displace_pos_seq (move_disps false s i n d) s (row, col) =
  Some (row, block_move i (Z.of_nat n) d col).
Proof.
  rewrite <- iterate_is_block. unfold move_disps, iterate_moves.
  destruct (0 <? d); [apply seq_last_first_cols|apply seq_first_first_cols].
Qed.

(* one step at the level of stored references: the printed reference is the moved cell *)
Theorem move_row_ref_follows s i d q a row col :
  a_sheet a = s -> resolve q a = (row, col) -> 1 <= single_move i d row -> 1 <= col <= LAST_COLUMN ->
  cell_map (DRowMove s i d) (row, col) = Some (single_move i d row, col) /\
  displace (DRowMove s i d) false false q a = Some (mkp (single_move i d row) col a).
Proof.
  intros Hs Hres Hr Hc. split; [reflexivity|].
  unfold displace. rewrite Hres, Hs. cbn [displace_pos]. rewrite Z.eqb_refl.
  replace (single_move i d row <? 1) with false by (symmetry; apply Z.ltb_ge; lia).
  rewrite valid_col_true by exact Hc. reflexivity.
Qed.

Theorem move_col_ref_follows s i d q a row col :
  a_sheet a = s -> resolve q a = (row, col) -> 1 <= row -> 1 <= single_move i d col <= LAST_COLUMN ->
  cell_map (DColMove s i d) (row, col) = Some (row, single_move i d col) /\
  displace (DColMove s i d) false false q a = Some (mkp row (single_move i d col) a).
Proof.
  intros Hs Hres Hr Hc. split; [reflexivity|].
  unfold displace. rewrite Hres, Hs. cbn [displace_pos]. rewrite Z.eqb_refl.
  replace (row <? 1) with false by (symmetry; apply Z.ltb_ge; lia).
  rewrite valid_col_true by exact Hc. reflexivity.
Qed.

(* a single move and the opposite move give back the stored reference (what undo relies on) *)
Theorem move_row_then_back s i d same q a :
  1 <= i <= LAST_ROW -> 1 <= i + d <= LAST_ROW ->
  1 <= fst (resolve q a) <= LAST_ROW -> 1 <= snd (resolve q a) <= LAST_COLUMN ->
  then_disp (DRowMove s i d) (DRowMove s (i + d) (- d)) same q a = Some (q, a).
Proof.
  intros Hi Hd Ht1 Ht2.
  assert (Hpair : forall p, exists p1, cell_map (DRowMove s i d) p = Some p1 /\
                  cell_map (DRowMove s (i + d) (- d)) p1 = Some p /\
                  (1 <= fst p <= LAST_ROW -> 1 <= fst p1 <= LAST_ROW) /\ snd p1 = snd p).
  { intros [row col]. exists (single_move i d row, col). cbn [cell_map fst snd].
    rewrite single_move_inverse. split; [reflexivity|]. split; [reflexivity|]. split; [|reflexivity].
    intro Hrow. apply single_move_range; assumption. }
  destruct (Hpair q) as [q1 [Hq1 [Hq2 _]]].
  destruct (anchor_map_pair _ _ same q q1 Hq1 Hq2) as [q1' [Ha1 Ha2]].
  destruct (Hpair (resolve q a)) as [t1 [Hc1 [Hc2 [Hf Hsn]]]].
  destruct (displace_pos_pair (DRowMove s i d) (DRowMove s (i + d) (- d)) s (a_sheet a) _ t1 eq_refl eq_refl Hc1 Hc2)
    as [t1' [Hd1 [Hd2 Hor]]].
  apply (then_disp_inverse _ _ same q a q1' t1'); try assumption;
    destruct Hor as [E|E]; subst t1'; try assumption; try (apply Hf; exact Ht1).
  rewrite Hsn. exact Ht2.
Qed.

(* ranges: when both corners lie in the same region (moved block / shifted band / outside
   both) the whole range is translated rigidly: every cell of it keeps its place inside it *)
Definition same_region (i n d r1 r2 : Z) : Prop :=
  (i <= r1 /\ r2 < i + n) \/
  (0 < d /\ i + n <= r1 /\ r2 < i + n + d) \/
  (d < 0 /\ i + d <= r1 /\ r2 < i) \/
  (r2 < i /\ r2 < i + d) \/
  (i + n <= r1 /\ i + n + d <= r1).

Theorem block_move_range_rigid i n d r1 r2 x :
  0 <= n -> r1 <= r2 -> same_region i n d r1 r2 -> r1 <= x <= r2 ->
  block_move i n d x - block_move i n d r1 = x - r1 /\
  block_move i n d r1 <= block_move i n d x <= block_move i n d r2.
Proof.
  intros Hn H12 Hreg Hx. unfold same_region in Hreg. unfold block_move.
  destruct Hreg as [H|[H|[H|[H|H]]]]; zb.
Qed.

(* ... and a range straddling a region border is NOT translated rigidly (the statement of C15
   excludes such ranges for this reason) *)
Example straddling_range_stretches :
  block_move 3 1 2 3 - block_move 3 1 2 2 <> 3 - 2.
Proof. vm_compute. discriminate. Qed.

(* ---- the hidden-line adjustment of UserModel ----------------------------------------- *)

Lemma count_hidden_ok hidden last lo len :
  1 <= lo -> lo + Z.of_nat len - 1 <= last ->
  exists c, count_hidden hidden last lo len = Ok c /\ 0 <= c <= Z.of_nat len.
Proof.
  revert lo. induction len as [|len IH]; intros lo H1 H2.
  - exists 0. cbn [count_hidden]. split; [reflexivity|lia].
  - cbn [count_hidden].
    replace ((1 <=? lo) && (lo <=? last)) with true by (symmetry; apply andb_true_iff; split; apply Z.leb_le; lia).
    destruct (IH (lo + 1) ltac:(lia) ltac:(lia)) as [c [Hc Hb]]. rewrite Hc.
    eexists; split; [reflexivity|]. destruct (hidden lo); lia.
Qed.

Lemma count_hidden_none hidden last lo len :
  (forall x, hidden x = false) -> 1 <= lo -> lo + Z.of_nat len - 1 <= last ->
  count_hidden hidden last lo len = Ok 0.
Proof.
  intro Hh. revert lo. induction len as [|len IH]; intros lo H1 H2; cbn [count_hidden]; [reflexivity|].
  replace ((1 <=? lo) && (lo <=? last)) with true by (symmetry; apply andb_true_iff; split; apply Z.leb_le; lia).
  rewrite IH by lia. rewrite Hh. reflexivity.
Qed.

Lemma count_hidden_err hidden last lo len :
  (0 < len)%nat -> last < lo + Z.of_nat len - 1 -> count_hidden hidden last lo len = Err.
Proof.
  revert lo. induction len as [|len IH]; intros lo Hl H; [lia|].
  cbn [count_hidden]. destruct ((1 <=? lo) && (lo <=? last)) eqn:E; [|reflexivity].
  destruct len as [|len'].
  - apply andb_true_iff in E as [_ E]. apply Z.leb_le in E. lia.
  - rewrite IH by lia. reflexivity.
Qed.

Lemma count_hidden_snoc hidden last lo len :
  count_hidden hidden last lo (S len) =
  match count_hidden hidden last lo len with
  | Ok c => if (1 <=? lo + Z.of_nat len) && (lo + Z.of_nat len <=? last)
            then Ok (c + (if hidden (lo + Z.of_nat len) then 1 else 0)) else Err
  | Err => Err
  | Panic => Panic
  end.
Proof.
  revert lo. induction len as [|len IH]; intro lo.
  - cbn [count_hidden]. replace (lo + Z.of_nat 0) with lo by lia.
    destruct ((1 <=? lo) && (lo <=? last)); reflexivity.
  - change (count_hidden hidden last lo (S (S len))) with
      (if (1 <=? lo) && (lo <=? last) then
         match count_hidden hidden last (lo + 1) (S len) with
         | Ok c => Ok (c + (if hidden lo then 1 else 0)) | Err => Err | Panic => Panic end
       else Err).
    rewrite IH. cbn [count_hidden].
    replace (lo + 1 + Z.of_nat len) with (lo + Z.of_nat (S len)) by lia.
    destruct ((1 <=? lo) && (lo <=? last)); [|reflexivity].
    destruct (count_hidden hidden last (lo + 1) len); try reflexivity.
    destruct ((1 <=? lo + Z.of_nat (S len)) && (lo + Z.of_nat (S len) <=? last)); [|reflexivity].
    f_equal. lia.
Qed.

(* no hidden line in sight: the delta is the one requested *)
Theorem hidden_adjust_none hidden last i n d :
  (forall x, hidden x = false) -> 0 < n -> d <> 0 -> 1 <= i -> i + n - 1 <= last -> 1 <= i + d ->
  i + n + d <= last ->
  hidden_adjust hidden last i n d = Ok d.
Proof.
  intros Hh Hn Hd Hi Hil Hid Hl. unfold hidden_adjust.
  destruct (Z.ltb_spec 0 d) as [A|A].
  - rewrite count_hidden_none by (try assumption; lia). f_equal. lia.
  - rewrite count_hidden_none by (try assumption; lia). f_equal. lia.
Qed.

(* the adjusted delta never points the other way and never shrinks *)
Theorem hidden_adjust_sign hidden last i n d d' :
  0 < n -> hidden_adjust hidden last i n d = Ok d' ->
  (0 < d -> d <= d' <= 2 * d + 1) /\ (d < 0 -> 2 * d <= d' <= d).
Proof.
  intros Hn H. unfold hidden_adjust in H. destruct (Z.ltb_spec 0 d) as [A|A].
  - destruct (count_hidden hidden last (i + n) (Z.to_nat (d + 1))) as [c| |] eqn:E; inversion H; subst.
    split; [|lia]. intros _.
    assert (Hb : 0 <= c <= d + 1).
    { destruct (Z_le_gt_dec (i + n + Z.of_nat (Z.to_nat (d + 1)) - 1) last) as [L|L].
      - destruct (Z_le_gt_dec 1 (i + n)) as [L1|L1].
        + destruct (count_hidden_ok hidden last (i + n) (Z.to_nat (d + 1)) L1 L) as [c' [Hc Hb]].
          rewrite Hc in E. inversion E; subst. lia.
        + exfalso. destruct (Z.to_nat (d + 1)) eqn:En; [lia|]. cbn [count_hidden] in E.
          replace (1 <=? i + n) with false in E by (symmetry; apply Z.leb_gt; lia). discriminate.
      - rewrite count_hidden_err in E by lia. discriminate. }
    lia.
  - destruct (count_hidden hidden last (i + d) (Z.to_nat (- d))) as [c| |] eqn:E; inversion H; subst.
    split; [lia|]. intro Hneg.
    assert (Hb : 0 <= c <= - d).
    { destruct (Z_le_gt_dec (i + d + Z.of_nat (Z.to_nat (- d)) - 1) last) as [L|L].
      - destruct (Z_le_gt_dec 1 (i + d)) as [L1|L1].
        + destruct (count_hidden_ok hidden last (i + d) (Z.to_nat (- d)) L1 L) as [c' [Hc Hb]].
          rewrite Hc in E. inversion E; subst. lia.
        + exfalso. destruct (Z.to_nat (- d)) eqn:En; [lia|]. cbn [count_hidden] in E.
          replace (1 <=? i + d) with false in E by (symmetry; apply Z.leb_gt; lia). discriminate.
      - rewrite count_hidden_err in E by lia. discriminate. }
    lia.
Qed.

(* the inclusive bound, exactly: moving down, the code inspects one line more than the landing
   zone; when that line exists the result is the exclusive-bound result plus one if it is hidden *)
Theorem hidden_adjust_inclusive hidden last i n d :
  0 < d ->
  hidden_adjust hidden last i n d =
  match hidden_adjust_excl hidden last i n d with
  | Ok e => if (1 <=? i + n + d) && (i + n + d <=? last)
            then Ok (e + (if hidden (i + n + d) then 1 else 0)) else Err
  | Err => Err
  | Panic => Panic
  end.
Proof.
  intro Hd. unfold hidden_adjust, hidden_adjust_excl.
  replace (0 <? d) with true by (symmetry; apply Z.ltb_lt; lia).
  replace (Z.to_nat (d + 1)) with (S (Z.to_nat d)) by lia.
  rewrite count_hidden_snoc. replace (i + n + Z.of_nat (Z.to_nat d)) with (i + n + d) by lia.
  destruct (count_hidden hidden last (i + n) (Z.to_nat d)); try reflexivity.
  destruct ((1 <=? i + n + d) && (i + n + d <=? last)); [|reflexivity]. f_equal. lia.
Qed.

(* moving up there is no such extra line *)
Theorem hidden_adjust_up_exact hidden last i n d :
  d < 0 -> hidden_adjust hidden last i n d = hidden_adjust_excl hidden last i n d.
Proof.
  intro Hd. unfold hidden_adjust, hidden_adjust_excl.
  replace (0 <? d) with false by (symmetry; apply Z.ltb_ge; lia). reflexivity.
Qed.

(* FINDING: a move that Model::move_rows_action accepts — the block ends exactly on the last
   line — is rejected by UserModel for every workbook, because the extra line is last + 1 *)
Theorem hidden_adjust_rejects_move_to_last_line hidden last i n d :
  0 < d -> 0 < n -> 1 <= i -> i + n - 1 + d = last ->
  move_valid last i n d = true /\ hidden_adjust hidden last i n d = Err.
Proof.
  intros Hd Hn Hi Hl. split.
  - unfold move_valid. repeat (apply andb_true_iff; split); apply Z.leb_le; lia.
  - unfold hidden_adjust. replace (0 <? d) with true by (symmetry; apply Z.ltb_lt; lia).
    rewrite count_hidden_err; [reflexivity|lia|lia].
Qed.

(* when the extra line is hidden and it is the only hidden one, the block travels one line
   further than asked; the two results differ only in where that hidden line sits: all other
   lines keep their relative order *)
Theorem extra_hidden_line_is_invisible i n d x y :
  0 < n -> 0 < d -> x <> i + n + d -> y <> i + n + d ->
  (block_move i n d x < block_move i n d y <-> block_move i n (d + 1) x < block_move i n (d + 1) y).
Proof. intros Hn Hd Hx Hy. unfold block_move. zb. Qed.

(* ===================================================================================== *)
(** * The whole rewrite of one reference (move_cell + displace_cells + re-parse)           *)

Definition follows (q' : pos) (a a' : aref) (target : pos) : Prop :=
  resolve q' a' = target /\ a_abs_row a' = a_abs_row a /\ a_abs_col a' = a_abs_col a /\
  a_sheet a' = a_sheet a.

Lemma follows_of_pref q' a row col : follows q' a (of_pref (a_sheet a) q' (mkp row col a)) (row, col).
Proof. unfold follows. rewrite resolve_of_pref. cbn. auto. Qed.

(* C12 rows: the new stored reference, read from the MOVED anchor, points at [cell_map p];
   beyond the last row it is NOT "#REF!" but an unreadable text (finding) *)
Theorem ins_row_rewrite s r k same q q' a row col :
  0 < k -> a_sheet a = s -> resolve q a = (row, col) ->
  1 <= row <= LAST_ROW -> 1 <= col <= LAST_COLUMN ->
  anchor_map (DRow s r k) same q = Some q' ->
  let row' := if r <=? row then row + k else row in
  cell_map (DRow s r k) (row, col) = Some (row', col) /\
  (row' <= LAST_ROW ->
     exists a', apply_disp_full (DRow s r k) same q a = RwRef q' a' /\ follows q' a a' (row', col)) /\
  (LAST_ROW < row' -> apply_disp_full (DRow s r k) same q a = RwUnreadable).
Proof.
  intros Hk Hs Hres Hrow Hcol Hq row'.
  assert (Hcm : cell_map (DRow s r k) (row, col) = Some (row', col)).
  { subst row'. cbn [cell_map]. unfold line_map. zb. }
  assert (Hspec := apply_disp_full_spec (DRow s r k) same q a q').
  rewrite Hres in Hspec. cbn [fst snd] in Hspec. specialize (Hspec Hrow Hcol Hq).
  rewrite Hs in Hspec at 1. rewrite (displace_pos_is_cell_map (DRow s r k) s _ eq_refl), Hcm in Hspec.
  replace (row' <? 1) with false in Hspec by (symmetry; subst row'; zb).
  rewrite valid_col_true in Hspec by exact Hcol.
  split; [exact Hcm|]. split; intro H.
  - replace (row' <=? LAST_ROW) with true in Hspec by (symmetry; apply Z.leb_le; lia).
    eexists; split; [exact Hspec|]. apply follows_of_pref.
  - replace (row' <=? LAST_ROW) with false in Hspec by (symmetry; apply Z.leb_gt; lia). exact Hspec.
Qed.

(* C12 columns: the same, and "#REF!" exactly beyond the last column *)
Theorem ins_col_rewrite s c k same q q' a row col :
  0 < k -> a_sheet a = s -> resolve q a = (row, col) ->
  1 <= row <= LAST_ROW -> 1 <= col <= LAST_COLUMN ->
  anchor_map (DCol s c k) same q = Some q' ->
  let col' := if c <=? col then col + k else col in
  cell_map (DCol s c k) (row, col) = Some (row, col') /\
  (col' <= LAST_COLUMN ->
     exists a', apply_disp_full (DCol s c k) same q a = RwRef q' a' /\ follows q' a a' (row, col')) /\
  (LAST_COLUMN < col' -> apply_disp_full (DCol s c k) same q a = RwRefError).
Proof.
  intros Hk Hs Hres Hrow Hcol Hq col'.
  assert (Hcm : cell_map (DCol s c k) (row, col) = Some (row, col')).
  { subst col'. cbn [cell_map]. unfold line_map. zb. }
  assert (Hspec := apply_disp_full_spec (DCol s c k) same q a q').
  rewrite Hres in Hspec. cbn [fst snd] in Hspec. specialize (Hspec Hrow Hcol Hq).
  rewrite Hs in Hspec at 1. rewrite (displace_pos_is_cell_map (DCol s c k) s _ eq_refl), Hcm in Hspec.
  replace (row <? 1) with false in Hspec by (symmetry; apply Z.ltb_ge; lia).
  replace (row <=? LAST_ROW) with true in Hspec by (symmetry; apply Z.leb_le; lia).
  split; [exact Hcm|]. split; intro H.
  - rewrite valid_col_true in Hspec by (subst col'; revert H; zb).
    eexists; split; [exact Hspec|]. apply follows_of_pref.
  - rewrite valid_col_false in Hspec by (right; exact H). exact Hspec.
Qed.

(* C13 rows/columns: outside the band the reference follows its cell, inside it is "#REF!" *)
Theorem del_row_rewrite s r k same q q' a row col :
  0 < k -> 1 <= r -> a_sheet a = s -> resolve q a = (row, col) ->
  1 <= row <= LAST_ROW -> 1 <= col <= LAST_COLUMN ->
  anchor_map (DRow s r (- k)) same q = Some q' ->
  (r <= row < r + k ->
     cell_map (DRow s r (- k)) (row, col) = None /\
     apply_disp_full (DRow s r (- k)) same q a = RwRefError) /\
  (row < r \/ r + k <= row ->
     exists t, cell_map (DRow s r (- k)) (row, col) = Some t /\
     t = ((if row <? r then row else row - k), col) /\
     exists a', apply_disp_full (DRow s r (- k)) same q a = RwRef q' a' /\ follows q' a a' t).
Proof.
  intros Hk Hr Hs Hres Hrow Hcol Hq.
  assert (Hspec := apply_disp_full_spec (DRow s r (- k)) same q a q').
  rewrite Hres in Hspec. cbn [fst snd] in Hspec. specialize (Hspec Hrow Hcol Hq).
  rewrite Hs in Hspec at 1. rewrite (displace_pos_is_cell_map (DRow s r (- k)) s _ eq_refl) in Hspec.
  cbn [cell_map] in *. unfold line_map in *.
  replace (0 <? - k) with false in * by (symmetry; apply Z.ltb_ge; lia).
  replace (- - k) with k in * by lia.
  split; intro H.
  - replace (row <? r) with false in * by (symmetry; apply Z.ltb_ge; lia).
    replace (row <? r + k) with true in * by (symmetry; apply Z.ltb_lt; lia). auto.
  - destruct (Z.ltb_spec row r) as [A|A].
    + eexists; split; [reflexivity|]. split; [reflexivity|].
      replace (row <? 1) with false in Hspec by (symmetry; apply Z.ltb_ge; lia).
      rewrite valid_col_true in Hspec by exact Hcol.
      replace (row <=? LAST_ROW) with true in Hspec by (symmetry; apply Z.leb_le; lia).
      eexists; split; [exact Hspec|]. apply follows_of_pref.
    + replace (row <? r + k) with false in * by (symmetry; apply Z.ltb_ge; lia).
      eexists; split; [reflexivity|]. split; [reflexivity|].
      replace (row - k <? 1) with false in Hspec by (symmetry; apply Z.ltb_ge; lia).
      rewrite valid_col_true in Hspec by exact Hcol.
      replace (row - k <=? LAST_ROW) with true in Hspec by (symmetry; apply Z.leb_le; lia).
      eexists; split; [exact Hspec|]. apply follows_of_pref.
Qed.

Theorem del_col_rewrite s c k same q q' a row col :
  0 < k -> 1 <= c -> a_sheet a = s -> resolve q a = (row, col) ->
  1 <= row <= LAST_ROW -> 1 <= col <= LAST_COLUMN ->
  anchor_map (DCol s c (- k)) same q = Some q' ->
  (c <= col < c + k ->
     cell_map (DCol s c (- k)) (row, col) = None /\
     apply_disp_full (DCol s c (- k)) same q a = RwRefError) /\
  (col < c \/ c + k <= col ->
     exists t, cell_map (DCol s c (- k)) (row, col) = Some t /\
     t = (row, (if col <? c then col else col - k)) /\
     exists a', apply_disp_full (DCol s c (- k)) same q a = RwRef q' a' /\ follows q' a a' t).
Proof.
  intros Hk Hc Hs Hres Hrow Hcol Hq.
  assert (Hspec := apply_disp_full_spec (DCol s c (- k)) same q a q').
  rewrite Hres in Hspec. cbn [fst snd] in Hspec. specialize (Hspec Hrow Hcol Hq).
  rewrite Hs in Hspec at 1. rewrite (displace_pos_is_cell_map (DCol s c (- k)) s _ eq_refl) in Hspec.
  cbn [cell_map] in *. unfold line_map in *.
  replace (0 <? - k) with false in * by (symmetry; apply Z.ltb_ge; lia).
  replace (- - k) with k in * by lia.
  split; intro H.
  - replace (col <? c) with false in * by (symmetry; apply Z.ltb_ge; lia).
    replace (col <? c + k) with true in * by (symmetry; apply Z.ltb_lt; lia). auto.
  - destruct (Z.ltb_spec col c) as [A|A].
    + eexists; split; [reflexivity|]. split; [reflexivity|].
      replace (row <? 1) with false in Hspec by (symmetry; apply Z.ltb_ge; lia).
      replace (row <=? LAST_ROW) with true in Hspec by (symmetry; apply Z.leb_le; lia).
      rewrite valid_col_true in Hspec by exact Hcol.
      eexists; split; [exact Hspec|]. apply follows_of_pref.
    + replace (col <? c + k) with false in * by (symmetry; apply Z.ltb_ge; lia).
      eexists; split; [reflexivity|]. split; [reflexivity|].
      replace (row <? 1) with false in Hspec by (symmetry; apply Z.ltb_ge; lia).
      replace (row <=? LAST_ROW) with true in Hspec by (symmetry; apply Z.leb_le; lia).
      rewrite valid_col_true in Hspec by lia.
      eexists; split; [exact Hspec|]. apply follows_of_pref.
Qed.

(* C15: one line move, whole rewrite *)
Theorem move_row_rewrite s i d same q q' a row col :
  1 <= i <= LAST_ROW -> 1 <= i + d <= LAST_ROW ->
  a_sheet a = s -> resolve q a = (row, col) ->
  1 <= row <= LAST_ROW -> 1 <= col <= LAST_COLUMN ->
  anchor_map (DRowMove s i d) same q = Some q' ->
  exists a', apply_disp_full (DRowMove s i d) same q a = RwRef q' a' /\
             follows q' a a' (single_move i d row, col).
Proof.
  intros Hi Hd Hs Hres Hrow Hcol Hq.
  assert (Hspec := apply_disp_full_spec (DRowMove s i d) same q a q').
  rewrite Hres in Hspec. cbn [fst snd] in Hspec. specialize (Hspec Hrow Hcol Hq).
  rewrite Hs in Hspec at 1. cbn [displace_pos] in Hspec. rewrite Z.eqb_refl in Hspec.
  pose proof (single_move_range LAST_ROW i d row Hi Hd Hrow) as Hb.
  replace (single_move i d row <? 1) with false in Hspec by (symmetry; apply Z.ltb_ge; lia).
  rewrite valid_col_true in Hspec by exact Hcol.
  replace (single_move i d row <=? LAST_ROW) with true in Hspec by (symmetry; apply Z.leb_le; lia).
  eexists; split; [exact Hspec|]. apply follows_of_pref.
Qed.

Theorem move_col_rewrite s i d same q q' a row col :
  1 <= i <= LAST_COLUMN -> 1 <= i + d <= LAST_COLUMN ->
  a_sheet a = s -> resolve q a = (row, col) ->
  1 <= row <= LAST_ROW -> 1 <= col <= LAST_COLUMN ->
  anchor_map (DColMove s i d) same q = Some q' ->
  exists a', apply_disp_full (DColMove s i d) same q a = RwRef q' a' /\
             follows q' a a' (row, single_move i d col).
Proof.
  intros Hi Hd Hs Hres Hrow Hcol Hq.
  assert (Hspec := apply_disp_full_spec (DColMove s i d) same q a q').
  rewrite Hres in Hspec. cbn [fst snd] in Hspec. specialize (Hspec Hrow Hcol Hq).
  rewrite Hs in Hspec at 1. cbn [displace_pos] in Hspec. rewrite Z.eqb_refl in Hspec.
  pose proof (single_move_range LAST_COLUMN i d col Hi Hd Hcol) as Hb.
  replace (row <? 1) with false in Hspec by (symmetry; apply Z.ltb_ge; lia).
  rewrite valid_col_true in Hspec by exact Hb.
  replace (row <=? LAST_ROW) with true in Hspec by (symmetry; apply Z.leb_le; lia).
  eexists; split; [exact Hspec|]. apply follows_of_pref.
Qed.

Theorem move_col_then_back s i d same q a :
  1 <= i <= LAST_COLUMN -> 1 <= i + d <= LAST_COLUMN ->
  1 <= fst (resolve q a) <= LAST_ROW -> 1 <= snd (resolve q a) <= LAST_COLUMN ->
  then_disp (DColMove s i d) (DColMove s (i + d) (- d)) same q a = Some (q, a).
Proof.
  intros Hi Hd Ht1 Ht2.
  assert (Hpair : forall p, exists p1, cell_map (DColMove s i d) p = Some p1 /\
                  cell_map (DColMove s (i + d) (- d)) p1 = Some p /\
                  (1 <= snd p <= LAST_COLUMN -> 1 <= snd p1 <= LAST_COLUMN) /\ fst p1 = fst p).
  { intros [row col]. exists (row, single_move i d col). cbn [cell_map fst snd].
    rewrite single_move_inverse. split; [reflexivity|]. split; [reflexivity|]. split; [|reflexivity].
    intro Hcol. apply single_move_range; assumption. }
  destruct (Hpair q) as [q1 [Hq1 [Hq2 _]]].
  destruct (anchor_map_pair _ _ same q q1 Hq1 Hq2) as [q1' [Ha1 Ha2]].
  destruct (Hpair (resolve q a)) as [t1 [Hc1 [Hc2 [Hf Hsn]]]].
  destruct (displace_pos_pair (DColMove s i d) (DColMove s (i + d) (- d)) s (a_sheet a) _ t1 eq_refl eq_refl Hc1 Hc2)
    as [t1' [Hd1 [Hd2 Hor]]].
  apply (then_disp_inverse _ _ same q a q1' t1'); try assumption;
    destruct Hor as [E|E]; subst t1'; try assumption; try (apply Hf; exact Ht2).
  rewrite Hsn. exact Ht1.
Qed.

(* ===================================================================================== *)
(** * Witnesses (findings) and non-vacuity                                                 *)

(* C12, rows: "=B$1048576" in A1, one row inserted at row 2: the statement asks for "#REF!";
   the rewrite yields the text "B$1048577", which is neither "#REF!" nor a reference *)
Theorem ins_row_overflow_refuted :
  exists s r k same q a,
    0 < k /\ grid q /\ grid (resolve q a) /\ a_sheet a = s /\
    r <= fst (resolve q a) /\ LAST_ROW < fst (resolve q a) + k /\
    apply_disp_full (DRow s r k) same q a = RwUnreadable /\
    apply_disp_full (DRow s r k) same q a <> RwRefError /\
    displace_text (DRow s r k) false false q a = [66; 36; 49; 48; 52; 56; 53; 55; 55] /\
    parse_reference_a1 (displace_text (DRow s r k) false false q a) = None.
Proof.
  exists 0, 2, 1, true, (1, 1), row_overflow_witness. vm_compute.
  repeat split; first [reflexivity | discriminate | (intro H; discriminate H)].
Qed.

(* the same edit on columns does give "#REF!" *)
Example ins_col_overflow_is_ref_error :
  apply_disp_full (DCol 0 2 1) true (1, 1)
    {| a_sheet := 0; a_row := 1; a_col := LAST_COLUMN; a_abs_row := false; a_abs_col := true |} = RwRefError.
Proof. vm_compute. reflexivity. Qed.

(* the premises of the rewrite theorems are satisfiable, and the conclusions are what one
   expects on a concrete sheet: "=B$5" in C7, two rows inserted at row 3 -> "=B$7" in C9 *)
Example ins_row_rewrite_example :
  apply_disp_full (DRow 0 3 2) true (7, 3)
    {| a_sheet := 0; a_row := 5; a_col := -1; a_abs_row := true; a_abs_col := false |} =
  RwRef (9, 3) {| a_sheet := 0; a_row := 7; a_col := -1; a_abs_row := true; a_abs_col := false |}.
Proof. vm_compute. reflexivity. Qed.

(* "=B5" (relative) in C7, rows 4..5 deleted -> "#REF!"; "=B6" -> "=B4" seen from C5 *)
Example del_row_rewrite_example :
  apply_disp_full (DRow 0 4 (-2)) true (7, 3)
    {| a_sheet := 0; a_row := -2; a_col := -1; a_abs_row := false; a_abs_col := false |} = RwRefError /\
  apply_disp_full (DRow 0 4 (-2)) true (7, 3)
    {| a_sheet := 0; a_row := -1; a_col := -1; a_abs_row := false; a_abs_col := false |} =
  RwRef (5, 3) {| a_sheet := 0; a_row := -1; a_col := -1; a_abs_row := false; a_abs_col := false |}.
Proof. vm_compute. split; reflexivity. Qed.

Example then_disp_example :
  then_disp (DRow 0 3 2) (DRow 0 3 (-2)) true (7, 3)
    {| a_sheet := 0; a_row := -2; a_col := 4; a_abs_row := false; a_abs_col := true |} =
  Some ((7, 3), {| a_sheet := 0; a_row := -2; a_col := 4; a_abs_row := false; a_abs_col := true |}).
Proof. vm_compute. reflexivity. Qed.

(* rows 2..3 moved down by 2: 1 2 3 4 5 6 -> 1 4 5 2 3 6 *)
Example block_move_example :
  map (iterate_moves 2 2 2) [1; 2; 3; 4; 5; 6] = [1; 4; 5; 2; 3; 6] /\
  map (block_move 2 2 2) [1; 2; 3; 4; 5; 6] = [1; 4; 5; 2; 3; 6].
Proof. vm_compute. split; reflexivity. Qed.

(* hidden lines: moving row 3 down by 1 when row 5 (one past the landing zone) is hidden uses
   delta 2; with the exclusive bound it would use delta 1 *)
Example hidden_adjust_example :
  hidden_adjust (fun x => x =? 5) LAST_ROW 3 1 1 = Ok 2 /\
  hidden_adjust_excl (fun x => x =? 5) LAST_ROW 3 1 1 = Ok 1 /\
  hidden_adjust (fun _ => false) LAST_ROW (LAST_ROW - 1) 1 1 = Err /\
  move_valid LAST_ROW (LAST_ROW - 1) 1 1 = true.
Proof. vm_compute. repeat split; reflexivity. Qed.

(* the block move at the level of stored references: the code's sequence of single moves,
   each re-typing, displacing and re-parsing, sends a reference to [block_move] of its target *)
Lemma apply_disp_seq_rows s ds same q a :
  Forall (fun d => exists i dd, d = DRowMove s i dd /\ 1 <= i <= LAST_ROW /\ 1 <= i + dd <= LAST_ROW) ds ->
  a_sheet a = s ->
  1 <= fst (resolve q a) <= LAST_ROW -> 1 <= snd (resolve q a) <= LAST_COLUMN ->
  exists q' a' t,
    apply_disp_seq ds same q a = RwRef q' a' /\ follows q' a a' t /\
    displace_pos_seq ds s (resolve q a) = Some t /\
    (if same then displace_pos_seq ds s q = Some q' else q' = q).
Proof.
  intro HF. revert q a. induction HF as [|d ds [i [dd [Hd [Hi Hid]]]] HF IH]; intros q a Hs Hr Hc.
  - exists q, a, (resolve q a). cbn [apply_disp_seq displace_pos_seq]. unfold follows.
    repeat split; try reflexivity. destruct same; reflexivity.
  - subst d. destruct (resolve q a) as [row col] eqn:Eres. cbn [fst snd] in Hr, Hc.
    assert (Hq : exists q1, anchor_map (DRowMove s i dd) same q = Some q1 /\
                 (if same then displace_pos (DRowMove s i dd) false false s q = Some q1 else q1 = q)).
    { destruct same; cbn [anchor_map].
      - destruct q as [qr qc]. eexists; split; [reflexivity|]. cbn [displace_pos cell_map]. rewrite Z.eqb_refl. reflexivity.
      - eexists; split; reflexivity. }
    destruct Hq as [q1 [Hq1 Hq1']].
    destruct (move_row_rewrite s i dd same q q1 a row col Hi Hid Hs Eres Hr Hc Hq1) as [a1 [Ha1 Hf1]].
    destruct Hf1 as [Hres1 [Har1 [Hac1 Hsh1]]].
    pose proof (single_move_range LAST_ROW i dd row Hi Hid Hr) as Hb.
    destruct (IH q1 a1) as [q' [a' [t [Hseq [Hfol [Hpos Hanch]]]]]].
    + rewrite Hsh1. exact Hs.
    + rewrite Hres1. cbn [fst]. exact Hb.
    + rewrite Hres1. cbn [snd]. exact Hc.
    + exists q', a', t. cbn [apply_disp_seq displace_pos_seq]. rewrite Ha1. split; [exact Hseq|]. split.
      * destruct Hfol as [A [B [C D]]]. unfold follows. rewrite B, C, D, Har1, Hac1, Hsh1. auto.
      * split.
        -- cbn [displace_pos]. rewrite Z.eqb_refl. rewrite Hres1 in Hpos. exact Hpos.
        -- destruct same; [|subst q1; exact Hanch]. rewrite Hq1'. exact Hanch.
Qed.

Lemma move_disps_rows_valid s i n d :
  1 <= i -> i + Z.of_nat n - 1 <= LAST_ROW -> 1 <= i + d -> i + Z.of_nat n - 1 + d <= LAST_ROW ->
  Forall (fun x => exists j dd, x = DRowMove s j dd /\ 1 <= j <= LAST_ROW /\ 1 <= j + dd <= LAST_ROW)
         (move_disps true s i n d).
Proof.
  intros H1 H2 H3 H4. unfold move_disps. destruct (0 <? d).
  - clear - H1 H2 H3 H4. induction n as [|n IH]; cbn [move_disps_last_first]; constructor.
    + exists (i + Z.of_nat n), d. split; [reflexivity|]. lia.
    + apply IH; lia.
  - clear - H1 H2 H3 H4. revert i H1 H2 H3 H4. induction n as [|n IH]; intros i H1 H2 H3 H4;
      cbn [move_disps_first_first]; constructor.
    + exists i, d. split; [reflexivity|]. lia.
    + apply IH; lia.
Qed.

Theorem move_rows_rewrite s i n d same q a row col :
  1 <= i -> i + Z.of_nat n - 1 <= LAST_ROW -> 1 <= i + d -> i + Z.of_nat n - 1 + d <= LAST_ROW ->
  a_sheet a = s -> resolve q a = (row, col) -> 1 <= row <= LAST_ROW -> 1 <= col <= LAST_COLUMN ->
  exists q' a',
    apply_disp_seq (move_disps true s i n d) same q a = RwRef q' a' /\
    follows q' a a' (block_move i (Z.of_nat n) d row, col) /\
    q' = (if same then (block_move i (Z.of_nat n) d (fst q), snd q) else q).
Proof.
  intros H1 H2 H3 H4 Hs Hres Hr Hc.
  pose proof (move_disps_rows_valid s i n d H1 H2 H3 H4) as HF.
  destruct (apply_disp_seq_rows s _ same q a HF Hs) as [q' [a' [t [Hseq [Hfol [Hpos Hanch]]]]]];
    try (rewrite Hres; cbn [fst snd]; assumption).
  exists q', a'. split; [exact Hseq|].
  rewrite Hres, move_rows_refs_follow in Hpos. inversion Hpos; subst t. split; [exact Hfol|].
  destruct same; [|exact Hanch]. destruct q as [qr qc]. rewrite move_rows_refs_follow in Hanch.
  inversion Hanch. reflexivity.
Qed.

(* ===================================================================================== *)
(** * Argument validation (F27 repaired: insertions validate their index like deletions)    *)

Theorem edit_valid_insert last r k :
  0 < k -> (edit_valid last r k = true <-> 1 <= r <= last).
Proof.
  intro Hk. unfold edit_valid. replace (0 <? k) with true by (symmetry; apply Z.ltb_lt; lia).
  rewrite andb_true_iff, !Z.leb_le. tauto.
Qed.

(* every accepted insertion has its index on the grid and a positive count *)
Theorem accepted_insert_on_grid last r delta :
  0 <= delta -> edit_valid last r delta = true -> 0 < delta /\ 1 <= r <= last.
Proof.
  intros Hd H. unfold edit_valid in H. destruct (Z.ltb_spec 0 delta) as [A|A].
  - apply andb_true_iff in H as [H1 H2]. apply Z.leb_le in H1, H2. lia.
  - replace (delta <? 0) with false in H by (symmetry; apply Z.ltb_ge; lia). discriminate.
Qed.

Theorem accepted_delete_on_grid last r k :
  0 < k -> edit_valid last r (- k) = true -> 1 <= r /\ r + k - 1 <= last.
Proof.
  intros Hk H. unfold edit_valid in H.
  replace (0 <? - k) with false in H by (symmetry; apply Z.ltb_ge; lia).
  replace (- k <? 0) with true in H by (symmetry; apply Z.ltb_lt; lia).
  apply andb_true_iff in H as [H H3]. apply andb_true_iff in H as [H1 H2].
  apply Z.leb_le in H1, H2, H3. lia.
Qed.

(* the former witnesses of F27 are now refused *)
Example insert_below_one_refused :
  edit_valid LAST_ROW 0 2 = false /\ edit_valid LAST_ROW (-3) 1 = false /\
  edit_valid LAST_COLUMN 0 1 = false /\ edit_valid LAST_ROW (LAST_ROW + 1) 1 = false /\
  edit_valid LAST_ROW 1 1 = true /\ edit_valid LAST_ROW LAST_ROW 7 = true.
Proof. vm_compute. repeat split; reflexivity. Qed.

(* an accepted insertion never produces a row below 1: with the index on the grid the
   [row < 1] test of stringify_reference cannot fire on a grid target *)
Theorem accepted_insert_keeps_rows_positive last r k row :
  edit_valid last r k = true -> 0 < k -> 1 <= row -> 1 <= (if r <=? row then row + k else row).
Proof. intros _ Hk Hr. zb. Qed.
