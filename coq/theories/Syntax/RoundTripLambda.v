(* Syntax/RoundTripLambda.v — round-trip proof, part 6: LAMBDA definitions ([parse_lambda]). *)
From IronCalc Require Import Base.Prelude Codec.RefA1 Syntax.Token Syntax.Ast Syntax.Printer Syntax.Parser
  Syntax.Shape Syntax.RoundTripLevels Syntax.RoundTripNodes.
Local Open Scope nat_scope.

Lemma strip_prefix_app p s : strip_prefix p (p ++ s) = Some s.
Proof. induction p as [|a p IH]; [reflexivity|]. cbn [app strip_prefix]. rewrite Z.eqb_refl. exact IH. Qed.

Lemma trim_none p s : strip_prefix p s = None -> trim_start p s = s.
Proof. intro H. unfold trim_start. destruct (length s); cbn [trim_start_fuel]; [reflexivity|]. rewrite H. reflexivity. Qed.

Lemma trim_app p s : p <> [] -> strip_prefix p s = None -> trim_start p (p ++ s) = s.
Proof.
  intros Hp H. unfold trim_start. destruct p as [|a p']; [congruence|].
  cbn [app length]. cbn [trim_start_fuel]. change (a :: p' ++ s) with ((a :: p') ++ s). rewrite strip_prefix_app.
  destruct (length (p' ++ s)); cbn [trim_start_fuel]; [reflexivity|]. rewrite H. reflexivity.
Qed.

Lemma join_cons_nonempty (s : token) x l : l <> [] -> join s (x :: l) = x ++ s :: join s l.
Proof. destruct l; [congruence|reflexivity]. Qed.

Section Lambda.
  Variable m : pmode.
  Variable nm : names.
  Variable env : penv.
  Variable rec : list token -> presult.
  Notation sepk := (sep_token (parse_arg_sep m)).

  (* an identifier in operand position is read as a variable *)
  Hypothesis rec_ident : forall n rest, ident_free nm env n = true -> follow 8 rest ->
    rec (TIdent n :: rest) = Some (EVar (trim_start t_xlpm n) None, rest).

  Lemma sepk_follow tk : follow 8 (sepk :: tk).
  Proof. apply follow_cons_none. unfold parse_arg_sep. destruct (pm_dot m); reflexivity. Qed.

  Lemma lambda_param_step p f acc tk :
    param_ok m nm env p = true ->
    lambda_loop m rec (S f) acc (print_param m p ++ sepk :: tk) = lambda_loop m rec f (acc ++ [p]) tk.
  Proof.
    destruct p as [n id o]. unfold param_ok, param_ident, print_param. cbn [lp_name lp_id lp_opt].
    destruct id; [discriminate|]. intro H.
    apply andb_true_iff in H as [H Hpm]. apply andb_true_iff in H as [Hfree Hop].
    destruct (strip_prefix t_xlop n) eqn:Eop; [discriminate|]. destruct (strip_prefix t_xlpm n) eqn:Epm; [discriminate|].
    destruct (pm_xlsx m); destruct o.
    - (* xlsx, optional: _xlop.n *)
      cbn [app lambda_loop]. rewrite (rec_ident _ _ Hfree (sepk_follow tk)).
      assert (E : trim_start t_xlpm (t_xlop ++ n) = t_xlop ++ n) by (apply trim_none; reflexivity).
      rewrite E. rewrite is_sep_sep_token. rewrite strip_prefix_app. reflexivity.
    - (* xlsx: _xlpm.n *)
      cbn [app lambda_loop]. rewrite (rec_ident _ _ Hfree (sepk_follow tk)).
      rewrite (trim_app t_xlpm n ltac:(discriminate) Epm). rewrite is_sep_sep_token. rewrite Eop. reflexivity.
    - (* [n] *)
      cbn [app lambda_loop].
      rewrite (rec_ident n (TRBracket :: sepk :: tk) Hfree ltac:(apply follow_cons_none; reflexivity)).
      rewrite (trim_none _ _ Epm). rewrite is_sep_sep_token. rewrite Eop. reflexivity.
    - (* n *)
      cbn [app lambda_loop]. rewrite (rec_ident _ _ Hfree (sepk_follow tk)).
      rewrite (trim_none _ _ Epm). rewrite is_sep_sep_token. rewrite Eop. reflexivity.
  Qed.

  Section Body.
    Variable body : ast.
    Variable bt : list token.       (* the printed body *)
    Hypothesis body_head : exists t r, bt = t :: r /\ t <> TLBracket.
    Hypothesis rec_body : forall rest, follow 8 rest -> rec (bt ++ rest) = Some (body, rest).

    Fixpoint lam_tokens (ps : list lparam) (rest : list token) : list token :=
      match ps with
      | [] => bt ++ TRParen :: rest
      | p :: ps' => print_param m p ++ sepk :: lam_tokens ps' rest
      end.

    Lemma lambda_loop_ok : forall ps acc f rest,
      length ps < f -> forallb (param_ok m nm env) ps = true ->
      lambda_loop m rec f acc (lam_tokens ps rest) = Some (acc ++ ps, body, rest).
    Proof.
      induction ps as [|p ps IH]; intros acc f rest Hf Hok.
      - destruct f; [cbn in Hf; lia|]. cbn [lam_tokens]. destruct body_head as (t & r & E & Hnb).
        cbn [lambda_loop].
        assert (E1 : match bt ++ TRParen :: rest with TLBracket :: r0 => (true, r0) | _ => (false, bt ++ TRParen :: rest) end
                     = (false, bt ++ TRParen :: rest)).
        { rewrite E. cbn [app]. destruct t; try reflexivity. congruence. }
        rewrite E1. rewrite (rec_body (TRParen :: rest) ltac:(apply follow_cons_none; reflexivity)).
        rewrite app_nil_r. unfold parse_arg_sep. destruct (pm_dot m); reflexivity.
      - destruct f; [cbn in Hf; lia|]. cbn [forallb] in Hok. apply andb_true_iff in Hok as [Hp Hok].
        cbn [lam_tokens]. rewrite (lambda_param_step p f acc _ Hp).
        rewrite IH by (cbn [length] in Hf; try lia; assumption). rewrite <- app_assoc. reflexivity.
    Qed.

    Lemma join_items ps rest :
      join sepk (map (print_param m) ps ++ [bt]) ++ TRParen :: rest = lam_tokens ps rest.
    Proof.
      induction ps as [|p ps IH]; [reflexivity|].
      cbn [map app lam_tokens]. rewrite join_cons_nonempty by (destruct (map (print_param m) ps); discriminate).
      rewrite <- app_assoc. cbn [app]. rewrite IH. reflexivity.
    Qed.

    Lemma lam_tokens_not_rparen ps rest :
      (exists t r, bt = t :: r /\ is_rparen t = false) ->
      match lam_tokens ps rest with TRParen :: _ => False | _ => True end.
    Proof.
      intros (t & r & E & Hr). destruct ps as [|p ps]; cbn [lam_tokens].
      - rewrite E. cbn [app]. destruct t; try exact I. discriminate.
      - unfold print_param. destruct (pm_xlsx m); [exact I|]. destruct (lp_opt p); exact I.
    Qed.
  End Body.
End Lambda.
