(* Syntax/RoundTripNodes.v — round-trip proof, part 2: parentheses, binary nodes, separators
   (part 1: Syntax/RoundTripLevels.v; the theorem: Syntax/RoundTrip.v).

   [roundtrip]: for every tree [e] that the parser can return ([image]), that lies in the proved
   fragment ([fragment]: no array literal, no LAMBDA), contains no [bad_pair] ([no_bad]), whose
   user-defined function names are in lower case ([lower_stable]),
       parse_fuel f (print e) = Some (e, [])      for every fuel f >= size e + 2,
   in every display form (any locale, any language) and in the stored R1C1 form
   ([pm_xlsx m = false]).  With [glue_free] the lexer glue is the identity, which gives the
   statement about what the lexer reads from the printed text ([roundtrip_glued]). *)
From IronCalc Require Import Base.Prelude Codec.RefA1 Syntax.Token Syntax.Ast Syntax.Printer Syntax.Parser
  Syntax.Shape Syntax.RoundTripLevels.

Local Open Scope nat_scope.

Lemma app_cons_assoc {A} (a : list A) x b c : (a ++ x :: b) ++ c = a ++ x :: b ++ c.
Proof. rewrite <- app_assoc. reflexivity. Qed.

Section Main.
  Variable m : pmode.
  Variable nm : names.
  Variable env : penv.
  Hypothesis Hx : pm_xlsx m = false.

  Notation pr := (print m nm).
  Notation pexpr := (p_expr m nm env).

  (* ---- parentheses ------------------------------------------------------------------------ *)
  Lemma Parses_paren rec n ts c :
    (forall rest, follow 8 rest -> rec (ts ++ rest) = Some (c, rest)) ->
    Parses m nm env rec n (TLParen :: ts ++ [TRParen]) c 0.
  Proof.
    intro Hrec. apply Parses_of_primary.
    - intro rest. split; exact I.
    - intros f rest _ _. cbn [app p_primary]. rewrite app_cons_assoc. cbn [app].
      rewrite Hrec by (apply follow_cons_none; reflexivity). reflexivity.
  Qed.

  (* ---- a binary node ---------------------------------------------------------------------- *)
  Lemma Parses_binary rec j b op nl nr tl tr l r :
    1 <= j -> j <= 5 ->
    binop_at j op = Some b -> cont_level op = Some (3 + j) ->
    Parses m nm env rec nl tl l (3 + j) ->
    Parses m nm env rec nr tr r (3 + (j - 1)) ->
    Parses m nm env rec (S (nl + nr)) (tl ++ op :: tr) (mk_bin b l r) (3 + j).
  Proof.
    intros Hj1 Hj5 Hop Hcl Pl Pr.
    (* the continuation form at the node's own level *)
    assert (B : forall F f1 rest x, f1 + S (nl + nr) <= F -> follow (2 + j) rest ->
              loop_bin (p_bin m nm env rec (j - 1) F) j f1 (mk_bin b l r) rest = Some x ->
              p_bin m nm env rec j F ((tl ++ op :: tr) ++ rest) = Some x).
    { intros F f1 rest x HF Hfo HL. rewrite app_cons_assoc.
      eapply (ps_bin _ _ _ _ _ _ _ _ Pl j Hj1 Hj5 (le_n _)) with (f1 := S f1); [lia| |].
      - cbn [follow]. rewrite Hcl. lia.
      - cbn [loop_bin]. rewrite Hop.
        assert (Hfo' : follow (3 + (j - 1)) rest) by (eapply follow_mono; [|exact Hfo]; lia).
        rewrite (Parses_closed _ _ _ _ _ _ _ _ Pr (j - 1) ltac:(lia) (le_n _) F rest ltac:(lia) Hfo').
        exact HL. }
    assert (C : forall F rest, S (nl + nr) < F -> follow (3 + j) rest ->
              p_bin m nm env rec j F ((tl ++ op :: tr) ++ rest) = Some (mk_bin b l r, rest)).
    { intros F rest HF Hfo. eapply B with (f1 := 1); [lia| |].
      - eapply follow_mono; [|exact Hfo]; lia.
      - apply loop_bin_stop; [lia|]. apply follow_binop; [lia|exact Hfo]. }
    constructor; try (intro; exfalso; lia).
    intros j' Hj'1 Hj'5 Hk F f1 rest x HF Hfo HL.
    destruct (Nat.eq_dec j' j) as [->|Hne]; [eapply B; eauto|].
    destruct (lift_bin m nm env rec (S (nl + nr)) (tl ++ op :: tr) (mk_bin b l r) j C (j' - j - 1)) as [B' _].
    cbn zeta in B'. replace (j + S (j' - j - 1)) with j' in B' by lia.
    destruct f1 as [|f1]; [discriminate|]. eapply B'; eauto; lia.
  Qed.

  (* ---- argument lists ----------------------------------------------------------------------- *)
  Definition start_tok (t : token) : Prop :=
    is_rparen t = false /\ is_sep SepComma t = false /\ is_sep SepSemicolon t = false.

  Lemma start_tok_sep t : start_tok t -> is_sep (parse_arg_sep m) t = false.
  Proof. intros (_ & H1 & H2). unfold parse_arg_sep. destruct (pm_dot m); assumption. Qed.

  Lemma is_sep_sep_token s : is_sep s (sep_token s) = true.
  Proof. destruct s; reflexivity. Qed.

  Lemma arg_sep_same : arg_sep m = parse_arg_sep m.
  Proof. reflexivity. Qed.

  Lemma sep_cont s : s = SepComma \/ s = SepSemicolon -> cont_level (sep_token s) = None /\ is_rparen (sep_token s) = false.
  Proof. intros [->| ->]; split; reflexivity. Qed.

  Lemma arg_sep_cases : parse_arg_sep m = SepComma \/ parse_arg_sep m = SepSemicolon.
  Proof. unfold parse_arg_sep. destruct (pm_dot m); auto. Qed.

End Main.
