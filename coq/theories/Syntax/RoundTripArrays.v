(* Syntax/RoundTripArrays.v — round-trip proof, part 5: array literals ([parse_array_row] and the
   row loop of [parse_primary]).  Every element is read by [parse_expr] and converted back. *)
From IronCalc Require Import Base.Prelude Codec.RefA1 Syntax.Token Syntax.Ast Syntax.Printer Syntax.Parser
  Syntax.Shape Syntax.RoundTripLevels Syntax.RoundTripNodes.
Local Open Scope nat_scope.

(* [a.join(sep)] followed by something, as a head and a flat tail *)
Lemma join_flat (s : token) (x : list token) (xs : list (list token)) (rest : list token) :
  join s (x :: xs) ++ rest = x ++ flat_map (fun y => s :: y) xs ++ rest.
Proof.
  revert x. induction xs as [|y ys IH]; intro x.
  - reflexivity.
  - change (join s (x :: y :: ys)) with (x ++ s :: join s (y :: ys)).
    rewrite <- app_assoc. cbn [app flat_map]. rewrite IH. rewrite <- app_assoc. reflexivity.
Qed.

(* the tree [parse_expr] makes of an array element *)
Definition ast_of_aelem (a : aelem) : ast :=
  match a with
  | ABool b => EBool b
  | ANum false n => ENum n
  | ANum true n => ENeg (ENum n)
  | AStr s => EStr s
  | AErr k => EErr k
  | AEmpty => ENum [48%Z]
  end.

Section Arrays.
  Variable m : pmode.
  Variable nm : names.
  Variable env : penv.
  Variable rec : list token -> presult.
  Variable pol : policy.
  Hypothesis Hneg_num : forall n, pol_neg pol (ENum n) = false.

  Notation colsep := (sep_token (parse_arg_sep m)).

  Lemma print_col_sep_same : print_col_sep m = parse_arg_sep m.
  Proof. reflexivity. Qed.

  Lemma print_ast_of_aelem a : gprint m nm pol (ast_of_aelem a) = print_aelem nm a.
  Proof. destruct a as [b|[|] n|s|k|]; try reflexivity. cbn [ast_of_aelem gprint]. rewrite Hneg_num. reflexivity. Qed.

  Lemma to_aelem_of a : aelem_ok nm a = true -> to_aelem (ast_of_aelem a) = Some a.
  Proof. destruct a as [b|[|] n|s|k|]; try reflexivity. discriminate. Qed.

  (* every well-formed element is read back by [rec] (proved by the main induction) *)
  Hypothesis rec_elem : forall a rest, aelem_ok nm a = true -> follow 8 rest ->
    rec (print_aelem nm a ++ rest) = Some (ast_of_aelem a, rest).

  Section Row.
    Variable rest : list token.
    Hypothesis rest_follow : follow 8 rest.
    Hypothesis rest_not_sep : match rest with t :: _ => is_sep (parse_arg_sep m) t = false | [] => True end.

    Definition row_tail (tl : list aelem) : list token :=
      flat_map (fun y => colsep :: y) (map (print_aelem nm) tl) ++ rest.

    Lemma row_tail_cons a tl : row_tail (a :: tl) = colsep :: print_aelem nm a ++ row_tail tl.
    Proof. unfold row_tail. cbn [map flat_map]. rewrite <- app_assoc. reflexivity. Qed.

    Lemma row_tail_follow tl : follow 8 (row_tail tl).
    Proof.
      destruct tl as [|a tl]; [exact rest_follow|]. rewrite row_tail_cons. apply follow_cons_none.
      unfold parse_arg_sep. destruct (pm_dot m); reflexivity.
    Qed.

    Lemma row_loop_ok : forall tl acc f,
      length tl < f -> forallb (aelem_ok nm) tl = true ->
      row_loop m rec f acc (row_tail tl) = Some (acc ++ tl, rest).
    Proof.
      induction tl as [|a tl IH]; intros acc f Hf Hok.
      - destruct f; [cbn in Hf; lia|]. unfold row_tail. cbn [map flat_map app row_loop]. rewrite app_nil_r.
        destruct rest as [|t r]; [reflexivity|]. rewrite rest_not_sep. reflexivity.
      - destruct f; [cbn in Hf; lia|]. cbn [forallb] in Hok. apply andb_true_iff in Hok as [Ha Hok].
        rewrite row_tail_cons. cbn [row_loop]. rewrite is_sep_sep_token.
        rewrite (rec_elem a (row_tail tl) Ha (row_tail_follow tl)). rewrite (to_aelem_of a Ha).
        rewrite IH by (cbn [length] in Hf; try lia; assumption). rewrite <- app_assoc. reflexivity.
    Qed.

    Lemma parse_array_row_ok a tl f :
      length tl < f -> forallb (aelem_ok nm) (a :: tl) = true ->
      parse_array_row m rec f (join (sep_token (print_col_sep m)) (map (print_aelem nm) (a :: tl)) ++ rest)
      = Some (a :: tl, rest).
    Proof.
      intros Hf Hok. cbn [forallb] in Hok. apply andb_true_iff in Hok as [Ha Hok].
      rewrite print_col_sep_same. cbn [map]. rewrite join_flat. fold (row_tail tl).
      unfold parse_array_row. rewrite (rec_elem a (row_tail tl) Ha (row_tail_follow tl)). rewrite (to_aelem_of a Ha).
      apply (row_loop_ok tl [a] f Hf Hok).
    Qed.
  End Row.

  (* ---- the rows ------------------------------------------------------------------------------ *)
  Section Rows.
    Variable rest : list token.
    Notation rowsep := (sep_token (print_row_sep m)).
    Notation row_tokens := (fun row => join (sep_token (print_col_sep m)) (map (print_aelem nm) row)).

    Definition rows_tail (rs : list (list aelem)) : list token :=
      flat_map (fun y => rowsep :: y) (map row_tokens rs) ++ TRBrace :: rest.

    Lemma rows_tail_cons r rs : rows_tail (r :: rs) = rowsep :: row_tokens r ++ rows_tail rs.
    Proof. unfold rows_tail. cbn [map flat_map]. rewrite <- app_assoc. reflexivity. Qed.

    Lemma rows_tail_follow rs : pm_dot m = true \/ rs = [] -> follow 8 (rows_tail rs).
    Proof.
      intros H. destruct rs as [|r rs]; [apply follow_cons_none; reflexivity|]. rewrite rows_tail_cons.
      destruct H as [H|H]; [|discriminate]. apply follow_cons_none. unfold print_row_sep. rewrite H. reflexivity.
    Qed.

    Lemma rows_tail_not_colsep rs : pm_dot m = true \/ rs = [] ->
      match rows_tail rs with t :: _ => is_sep (parse_arg_sep m) t = false | [] => True end.
    Proof.
      intros H. destruct rs as [|r rs].
      - unfold rows_tail. cbn [map flat_map app]. unfold parse_arg_sep. destruct (pm_dot m); reflexivity.
      - rewrite rows_tail_cons. destruct H as [H|H]; [|discriminate].
        unfold print_row_sep, parse_arg_sep. rewrite H. reflexivity.
    Qed.

    Definition row_ok (len : nat) (r : list aelem) : Prop :=
      length r = len /\ 1 <= len /\ forallb (aelem_ok nm) r = true.

    Lemma rows_loop_ok len : forall rs acc f,
      pm_dot m = true \/ rs = [] ->
      length rs + len < f -> Forall (row_ok len) rs ->
      rows_loop m rec f len acc (rows_tail rs) = Some (acc ++ rs, TRBrace :: rest).
    Proof.
      induction rs as [|r rs IH]; intros acc f Hdot Hf Hok.
      - destruct f; [lia|]. unfold rows_tail. cbn [map flat_map app rows_loop]. rewrite app_nil_r.
        unfold parse_row_sep. destruct (pm_dot m); reflexivity.
      - destruct Hdot as [Hdot|Hdot]; [|discriminate].
        destruct f; [lia|]. inversion Hok as [|? ? (Hlen & Hpos & Hr) Hrs]; subst.
        rewrite rows_tail_cons. cbn [rows_loop].
        assert (Hs : is_sep (parse_row_sep m) rowsep = true).
        { unfold parse_row_sep, print_row_sep. rewrite Hdot. reflexivity. }
        rewrite Hs. destruct r as [|a tl]; [cbn [length] in Hpos; lia|].
        rewrite (parse_array_row_ok (rows_tail rs) (rows_tail_follow rs (or_introl Hdot))
                   (rows_tail_not_colsep rs (or_introl Hdot)) a tl f) by (cbn [length] in *; try lia; assumption).
        rewrite Nat.eqb_refl.
        rewrite IH; [rewrite <- app_assoc; reflexivity|left; exact Hdot|cbn [length] in *; lia|assumption].
    Qed.

    Lemma array_primary_ok r0 rs f :
      pm_dot m = true \/ rs = [] ->
      S (length rs + length r0) < f -> Forall (row_ok (length r0)) (r0 :: rs) ->
      p_primary m nm env rec f (TLBrace :: join rowsep (map row_tokens (r0 :: rs)) ++ TRBrace :: rest)
      = Some (EArray (r0 :: rs), rest).
    Proof.
      intros Hdot Hf Hok. inversion Hok as [|? ? (Hlen & Hpos & Hr) Hrs]; subst.
      cbn [p_primary]. cbn [map]. rewrite join_flat. fold (rows_tail rs).
      destruct r0 as [|a tl]; [cbn [length] in Hpos; lia|].
      rewrite (parse_array_row_ok (rows_tail rs) (rows_tail_follow rs Hdot) (rows_tail_not_colsep rs Hdot) a tl f)
        by (cbn [length] in *; try lia; assumption).
      rewrite (rows_loop_ok (length (a :: tl)) rs [a :: tl] f Hdot) by (try lia; assumption).
      reflexivity.
    Qed.
  End Rows.
End Arrays.
