(* Syntax/RoundTripLevels.v — first half of the round-trip proof: follow sets, loops, [Parses] and the lifting lemmas (the theorem itself is in Syntax/RoundTrip.v).

   Main result ([roundtrip]): for every tree [e] that the parser can return ([image]), that lies
   in the proved fragment ([fragment]: no array literal, no LAMBDA), contains no [bad_pair]
   ([no_bad]), whose user-defined function names are in lower case ([lower_stable]) and whose
   printed tokens the lexer reads back one by one ([glue_free]),
       parse_fuel f (print e) = Some (e, [])      for every fuel f >= size e + 2,
   in the display forms (every locale and language) and in the stored R1C1 form.

   Method: structural induction on [e] with the "level / follow set" generalisation.  [Parses]
   packages, for a token list [ts] and a tree [c], what every grammar level from [kmin] upwards
   does on [ts ++ rest]:
     - the four tight levels (primary, implicit, range, power) return [c] and leave [rest],
       provided [rest] does not start with a token those levels continue on ([follow]); the power
       level is stated up to its postfix-% loop ([percents c rest]) so that "x%%" and "-x%" go
       through;
     - the five binary levels are stated in continuation form: whatever the level's loop makes of
       the tree [c] and [rest] is what the level makes of [ts ++ rest] — this is what copes with
       left-associative chains without a follow condition at the level itself.
   The obligations that cannot be discharged are exactly [bad_child]: they are the table
   [Shape.bad_pair], refuted one by one in Syntax/Refuted.v. *)
From IronCalc Require Import Base.Prelude Codec.RefA1 Syntax.Token Syntax.Ast Syntax.Printer Syntax.Parser Syntax.Shape.

Local Open Scope nat_scope.

(* ---- follow sets --------------------------------------------------------------------------- *)
(* the level at which a token continues an expression that is already complete *)
Definition cont_level (t : token) : option nat :=
  match t with
  | TLParen => Some 0 | TSpill => Some 1 | TColon => Some 2 | TPercent => Some 3
  | TPower => Some 4 | TProduct _ => Some 5 | TAddition _ => Some 6 | TAnd => Some 7 | TCompare _ => Some 8
  | _ => None
  end.

Definition follow (k : nat) (rest : list token) : Prop :=
  match rest with
  | [] => True
  | t :: _ => match cont_level t with Some j => k < j | None => True end
  end.

Lemma follow_mono k k' rest : k' <= k -> follow k rest -> follow k' rest.
Proof. destruct rest as [|t r]; cbn [follow]; [auto|]. destruct (cont_level t); [lia|auto]. Qed.

Lemma follow_binop j rest :
  1 <= j -> follow (3 + j) rest -> match rest with t :: _ => binop_at j t = None | [] => True end.
Proof.
  intros Hj H. destruct rest as [|t r]; [exact I|]. cbn [follow] in H.
  destruct t; cbn [cont_level] in H; cbn [binop_at];
    try (destruct j as [|[|[|[|[|[|j]]]]]]; reflexivity);
    destruct j as [|[|[|[|[|[|j]]]]]]; try reflexivity; try lia.
Qed.

Lemma follow_cons_none k t r : cont_level t = None -> follow k (t :: r).
Proof. intro H. cbn [follow]. rewrite H. exact I. Qed.

(* ---- loops ------------------------------------------------------------------------------- *)
Section Loops.
  Variable sub : list token -> presult.

  Lemma loop_bin_mono j f1 : forall f2 t ts x,
    f1 <= f2 -> loop_bin sub j f1 t ts = Some x -> loop_bin sub j f2 t ts = Some x.
  Proof.
    induction f1 as [|f1 IH]; intros f2 t ts x Hle H; [discriminate|].
    destruct f2 as [|f2]; [lia|]. cbn [loop_bin] in *.
    destruct ts as [|tk r]; [exact H|].
    destruct (binop_at j tk); [|exact H].
    destruct (sub r) as [[p r']|]; [|discriminate]. apply IH; [lia|exact H].
  Qed.

  Lemma loop_bin_stop j f t rest :
    1 <= f -> match rest with tk :: _ => binop_at j tk = None | [] => True end ->
    loop_bin sub j f t rest = Some (t, rest).
  Proof.
    intros Hf H. destruct f; [lia|]. cbn [loop_bin]. destruct rest as [|tk r]; [reflexivity|].
    rewrite H. reflexivity.
  Qed.
End Loops.

Lemma percents_stop c rest : follow 3 rest -> percents c rest = (c, rest).
Proof.
  destruct rest as [|t r]; [reflexivity|]. cbn [follow]. destruct t; cbn [cont_level percents]; try reflexivity. lia.
Qed.

Definition not_sign (ts : list token) : Prop :=
  match ts with TAddition _ :: _ => False | _ => True end.
Definition not_at (ts : list token) : Prop :=
  match ts with TAt :: _ => False | _ => True end.

Lemma skip_signs_none b ts : not_sign ts -> skip_signs b ts = (b, ts).
Proof. destruct ts as [|t r]; [reflexivity|]. destruct t; cbn [not_sign skip_signs]; try reflexivity. tauto. Qed.

(* ---- what a token list does at every level -------------------------------------------------- *)
Section Levels.
  Variable m : pmode.
  Variable nm : names.
  Variable env : penv.
  Variable rec : list token -> presult.

  Notation p_primary' := (p_primary m nm env rec).
  Notation p_implicit' := (p_implicit m nm env rec).
  Notation p_range' := (p_range m nm env rec).
  Notation p_power' := (p_power m nm env rec).
  Notation p_bin' := (p_bin m nm env rec).

  Record Parses (n : nat) (ts : list token) (c : ast) (kmin : nat) : Prop := {
    ps_primary : kmin <= 0 -> forall f rest, n < f -> follow 0 rest -> p_primary' f (ts ++ rest) = Some (c, rest);
    ps_implicit : kmin <= 1 -> forall f rest, n < f -> follow 1 rest -> p_implicit' f (ts ++ rest) = Some (c, rest);
    ps_range : kmin <= 2 -> forall f rest, n < f -> follow 2 rest -> p_range' f (ts ++ rest) = Some (c, rest);
    ps_power : kmin <= 3 -> forall f rest, n < f -> follow 2 rest -> p_power' f (ts ++ rest) = Some (percents c rest);
    ps_bin : forall j, 1 <= j -> j <= 5 -> kmin <= 3 + j -> forall F f1 rest x,
        f1 + n <= F -> follow (2 + j) rest ->
        loop_bin (p_bin' (j - 1) F) j f1 c rest = Some x -> p_bin' j F (ts ++ rest) = Some x;
  }.

  Lemma Parses_weaken n ts c k1 k2 : k1 <= k2 -> Parses n ts c k1 -> Parses n ts c k2.
  Proof. intros H [A0 A1 A2 A3 B]. constructor; intros; [apply A0|apply A1|apply A2|apply A3|eapply B]; eauto; lia. Qed.

  Lemma Parses_weaken_n n n' ts c k : n <= n' -> Parses n ts c k -> Parses n' ts c k.
  Proof.
    intros H [A0 A1 A2 A3 B]. constructor; intros.
    - apply A0; auto; lia.
    - apply A1; auto; lia.
    - apply A2; auto; lia.
    - apply A3; auto; lia.
    - eapply B; eauto; lia.
  Qed.

  (* closed form at the binary levels (level 0 of [p_bin] is the power level) *)
  Lemma Parses_closed n ts c kmin : Parses n ts c kmin ->
    forall j, j <= 5 -> kmin <= 3 + j -> forall F rest, n < F -> follow (3 + j) rest ->
    p_bin' j F (ts ++ rest) = Some (c, rest).
  Proof.
    intros P j Hj Hk F rest HF Hfo. destruct j as [|j].
    - cbn [p_bin]. assert (Hf2 : follow 2 rest) by (eapply follow_mono; [|exact Hfo]; lia).
      rewrite (ps_power _ _ _ _ P ltac:(lia) F rest HF Hf2).
      rewrite percents_stop by exact Hfo. reflexivity.
    - eapply (ps_bin _ _ _ _ P (S j)) with (f1 := 1); try lia.
      + eapply follow_mono; [|exact Hfo]; lia.
      + apply loop_bin_stop; [lia|]. apply follow_binop; [lia|exact Hfo].
  Qed.

  (* from a closed form at level j0 to the continuation forms of all looser levels *)
  Lemma lift_bin n ts c j0 :
    (forall F rest, n < F -> follow (3 + j0) rest -> p_bin' j0 F (ts ++ rest) = Some (c, rest)) ->
    forall d, let j := j0 + S d in
    (forall F f1 rest x, f1 + n <= F -> 1 <= f1 -> follow (2 + j) rest ->
       loop_bin (p_bin' (j - 1) F) j f1 c rest = Some x -> p_bin' j F (ts ++ rest) = Some x)
    /\ (forall F rest, n < F -> follow (3 + j) rest -> p_bin' j F (ts ++ rest) = Some (c, rest)).
  Proof.
    intros H0 d. induction d as [|d [IHB IHC]]; cbn zeta.
    - assert (B : forall F f1 rest x, f1 + n <= F -> 1 <= f1 -> follow (2 + (j0 + 1)) rest ->
         loop_bin (p_bin' (j0 + 1 - 1) F) (j0 + 1) f1 c rest = Some x -> p_bin' (j0 + 1) F (ts ++ rest) = Some x).
      { intros F f1 rest x HF Hf1 Hfo HL. replace (j0 + 1) with (S j0) in * by lia. cbn [p_bin].
        replace (S j0 - 1) with j0 in HL by lia.
        assert (Hf2 : follow (3 + j0) rest) by (eapply follow_mono; [|exact Hfo]; lia).
        rewrite (H0 F rest ltac:(lia) Hf2).
        eapply loop_bin_mono; [|exact HL]. lia. }
      split; [exact B|].
      intros F rest HF Hfo. eapply B with (f1 := 1); try lia.
      + eapply follow_mono; [|exact Hfo]; lia.
      + apply loop_bin_stop; [lia|]. apply follow_binop; [lia|]. replace (3 + (j0 + 1)) with (3 + (j0 + 1)) by lia. exact Hfo.
    - set (j := j0 + S d) in *.
      assert (B : forall F f1 rest x, f1 + n <= F -> 1 <= f1 -> follow (2 + (j0 + S (S d))) rest ->
         loop_bin (p_bin' (j0 + S (S d) - 1) F) (j0 + S (S d)) f1 c rest = Some x -> p_bin' (j0 + S (S d)) F (ts ++ rest) = Some x).
      { intros F f1 rest x HF Hf1 Hfo HL. replace (j0 + S (S d)) with (S j) in * by (unfold j; lia). cbn [p_bin].
        replace (S j - 1) with j in HL by lia.
        assert (Hf2 : follow (3 + j) rest) by (eapply follow_mono; [|exact Hfo]; lia).
        rewrite (IHC F rest ltac:(lia) Hf2).
        eapply loop_bin_mono; [|exact HL]. lia. }
      split; [exact B|].
      intros F rest HF Hfo. eapply B with (f1 := 1); try lia.
      + eapply follow_mono; [|exact Hfo]; lia.
      + apply loop_bin_stop; [lia|]. apply follow_binop; [lia|exact Hfo].
  Qed.

  (* a token list that is complete at the power level is complete at every binary level *)
  Lemma Parses_of_tight n ts c kmin :
    kmin <= 3 ->
    (kmin <= 0 -> forall f rest, n < f -> follow 0 rest -> p_primary' f (ts ++ rest) = Some (c, rest)) ->
    (kmin <= 1 -> forall f rest, n < f -> follow 1 rest -> p_implicit' f (ts ++ rest) = Some (c, rest)) ->
    (kmin <= 2 -> forall f rest, n < f -> follow 2 rest -> p_range' f (ts ++ rest) = Some (c, rest)) ->
    (forall f rest, n < f -> follow 2 rest -> p_power' f (ts ++ rest) = Some (percents c rest)) ->
    Parses n ts c kmin.
  Proof.
    intros Hk A0 A1 A2 A3. constructor; auto.
    intros j Hj1 Hj5 _ F f1 rest x HF Hfo HL.
    assert (H0 : forall F rest, n < F -> follow (3 + 0) rest -> p_bin' 0 F (ts ++ rest) = Some (c, rest)).
    { intros F' rest' HF' Hfo'. cbn [p_bin]. assert (Hf2 : follow 2 rest') by (eapply follow_mono; [|exact Hfo']; lia).
      rewrite (A3 F' rest' HF' Hf2).
      rewrite percents_stop by exact Hfo'. reflexivity. }
    destruct j as [|j]; [lia|].
    destruct (lift_bin n ts c 0 H0 j) as [B _]. cbn zeta in B. cbn [Nat.add] in B.
    destruct f1 as [|f1]; [discriminate|].
    eapply B; eauto; lia.
  Qed.

  (* the three steps primary -> implicit -> range -> power *)
  Lemma lift_implicit ts c f rest :
    not_at (ts ++ rest) -> follow 1 rest ->
    p_primary' f (ts ++ rest) = Some (c, rest) -> p_implicit' f (ts ++ rest) = Some (c, rest).
  Proof.
    intros Hat Hfo H. unfold p_implicit. destruct (ts ++ rest) as [|t r] eqn:E.
    - rewrite H. destruct rest as [|t' r']; [reflexivity|]. cbn [follow] in Hfo.
      destruct t'; cbn [cont_level] in Hfo; try reflexivity; lia.
    - destruct t; cbn [not_at] in Hat; try tauto; rewrite H;
        (destruct rest as [|t' r']; [reflexivity|]; cbn [follow] in Hfo;
         destruct t'; cbn [cont_level] in Hfo; try reflexivity; lia).
  Qed.

  Lemma lift_range ts c f rest :
    follow 2 rest -> p_implicit' f (ts ++ rest) = Some (c, rest) -> p_range' f (ts ++ rest) = Some (c, rest).
  Proof.
    intros Hfo H. unfold p_range. rewrite H. destruct rest as [|t' r']; [reflexivity|]. cbn [follow] in Hfo.
    destruct t'; cbn [cont_level] in Hfo; try reflexivity; lia.
  Qed.

  Lemma lift_power ts c f rest :
    not_sign (ts ++ rest) -> p_range' f (ts ++ rest) = Some (c, rest) ->
    p_power' f (ts ++ rest) = Some (percents c rest).
  Proof. intros Hs H. unfold p_power. rewrite skip_signs_none by exact Hs. rewrite H. reflexivity. Qed.

  (* a primary is complete at every level *)
  Lemma Parses_of_primary n ts c :
    (forall rest, not_at (ts ++ rest) /\ not_sign (ts ++ rest)) ->
    (forall f rest, n < f -> follow 0 rest -> p_primary' f (ts ++ rest) = Some (c, rest)) ->
    Parses n ts c 0.
  Proof.
    intros Hh A0.
    assert (A1 : forall f rest, n < f -> follow 1 rest -> p_implicit' f (ts ++ rest) = Some (c, rest)).
    { intros f rest Hf Hfo. apply lift_implicit; [apply Hh|exact Hfo|]. apply A0; [exact Hf|]. eapply follow_mono; [|exact Hfo]; lia. }
    assert (A2 : forall f rest, n < f -> follow 2 rest -> p_range' f (ts ++ rest) = Some (c, rest)).
    { intros f rest Hf Hfo. apply lift_range; [exact Hfo|]. apply A1; [exact Hf|]. eapply follow_mono; [|exact Hfo]; lia. }
    apply Parses_of_tight; auto.
    intros f rest Hf Hfo. apply lift_power; [apply Hh|]. apply A2; auto.
  Qed.
End Levels.
