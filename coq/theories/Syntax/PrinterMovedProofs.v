(* Syntax/PrinterMovedProofs.v — proofs about Syntax/PrinterMoved.v (C16). *)
From IronCalc Require Import Base.Prelude Codec.RefA1 Syntax.Token Syntax.Ast Syntax.Printer Syntax.Parser
  Syntax.Shape Syntax.RoundTrip Syntax.FuelProofs Syntax.PrinterMoved.

(* ---- references: where the moved reference points, read from the target cell ------------------------ *)
(* the cell a stored reference denotes when its formula sits in the target cell *)
Definition tgt_row (mc : mctx) (p : pref) : Z := if p_abs_row p then p_row p else p_row p + (mc_row mc + mc_drow mc).
Definition tgt_col (mc : mctx) (p : pref) : Z := if p_abs_col p then p_col p else p_col p + (mc_col mc + mc_dcol mc).

Theorem cut_ref_in_area mc s idx p :
  pref_in_area mc idx p = true ->
  let '(s', p') := move_ref mc s idx p in
  s' = s /\ p_abs_row p' = p_abs_row p /\ p_abs_col p' = p_abs_col p /\
  tgt_row mc (rebase mc p') = abs_row mc p + mc_drow mc /\
  tgt_col mc (rebase mc p') = abs_col mc p + mc_dcol mc.
Proof.
  intro H. unfold move_ref. rewrite H. unfold tgt_row, tgt_col, rebase, shift_pref, abs_row, abs_col. cbn.
  destruct (p_abs_row p), (p_abs_col p); repeat split; lia.
Qed.

Theorem cut_ref_outside mc s idx p :
  pref_in_area mc idx p = false ->
  let '(s', p') := move_ref mc s idx p in
  s' = qualify mc s /\ p_abs_row p' = p_abs_row p /\ p_abs_col p' = p_abs_col p /\
  tgt_row mc (rebase mc p') = abs_row mc p /\
  tgt_col mc (rebase mc p') = abs_col mc p.
Proof.
  intro H. unfold move_ref. rewrite H. unfold tgt_row, tgt_col, rebase, abs_row, abs_col. cbn.
  destruct (p_abs_row p), (p_abs_col p); repeat split; lia.
Qed.

(* a reference without a sheet name acquires the source sheet's name exactly when the paste goes to another sheet *)
Theorem qualify_spec mc s :
  qualify mc s = match s with
                 | Some n => Some n
                 | None => if text_eqb (mc_tgt_name mc) (mc_src_name mc) then None else Some (mc_src_name mc)
                 end.
Proof. unfold qualify. destruct s; [rewrite andb_false_r; reflexivity|]. rewrite andb_true_r. destruct (text_eqb _ _); reflexivity. Qed.

(* ranges move iff BOTH corners are inside the cut area *)
Theorem cut_range_moves_iff_both mc s idx p1 p2 :
  move_range mc s idx p1 p2 =
    if pref_in_area mc idx p1 && pref_in_area mc idx p2
    then (s, shift_pref mc p1, shift_pref mc p2) else (qualify mc s, p1, p2).
Proof. reflexivity. Qed.

Theorem cut_range_inside mc s idx p1 p2 :
  pref_in_area mc idx p1 = true -> pref_in_area mc idx p2 = true ->
  let '(s', q1, q2) := move_range mc s idx p1 p2 in
  s' = s /\
  tgt_row mc (rebase mc q1) = abs_row mc p1 + mc_drow mc /\ tgt_col mc (rebase mc q1) = abs_col mc p1 + mc_dcol mc /\
  tgt_row mc (rebase mc q2) = abs_row mc p2 + mc_drow mc /\ tgt_col mc (rebase mc q2) = abs_col mc p2 + mc_dcol mc.
Proof.
  intros H1 H2. unfold move_range. rewrite H1, H2. cbn [andb].
  unfold tgt_row, tgt_col, rebase, shift_pref, abs_row, abs_col. cbn.
  destruct (p_abs_row p1), (p_abs_col p1), (p_abs_row p2), (p_abs_col p2); repeat split; lia.
Qed.

Theorem cut_range_not_inside mc s idx p1 p2 :
  pref_in_area mc idx p1 && pref_in_area mc idx p2 = false ->
  let '(s', q1, q2) := move_range mc s idx p1 p2 in
  s' = qualify mc s /\
  tgt_row mc (rebase mc q1) = abs_row mc p1 /\ tgt_col mc (rebase mc q1) = abs_col mc p1 /\
  tgt_row mc (rebase mc q2) = abs_row mc p2 /\ tgt_col mc (rebase mc q2) = abs_col mc p2.
Proof.
  intros H. unfold move_range. rewrite H.
  unfold tgt_row, tgt_col, rebase, abs_row, abs_col. cbn.
  destruct (p_abs_row p1), (p_abs_col p1), (p_abs_row p2), (p_abs_col p2); repeat split; lia.
Qed.

(* in_area is the rectangle *)
Theorem ref_is_in_area_spec sheet row col a :
  ref_is_in_area sheet row col a = true <->
  ma_sheet a = sheet /\ ma_row a <= row <= ma_row a + ma_height a - 1 /\ ma_col a <= col <= ma_col a + ma_width a - 1.
Proof.
  unfold ref_is_in_area.
  destruct (ma_sheet a =? sheet) eqn:E1; cbn [negb].
  - apply Z.eqb_eq in E1.
    destruct (row <? ma_row a) eqn:E2; destruct (ma_row a + ma_height a - 1 <? row) eqn:E3; cbn [orb];
    destruct (col <? ma_col a) eqn:E4; destruct (ma_col a + ma_width a - 1 <? col) eqn:E5; cbn [orb];
    rewrite ?Z.ltb_lt, ?Z.ltb_ge in *; split; intro H; try discriminate; try reflexivity; try lia;
    repeat split; try lia.
  - apply Z.eqb_neq in E1. split; [discriminate|]. intros (H & _). congruence.
Qed.

(* ---- the text written from the source cell is the text of the rebased reference at the target cell ---- *)
Lemma print_pref_rebase mc dot p : print_pref (m_src mc dot) p = print_pref (m_tgt mc dot) (rebase mc p).
Proof.
  unfold print_pref, m_src, m_tgt, rebase. cbn.
  destruct (p_abs_row p), (p_abs_col p); cbn;
    repeat match goal with
    | |- context [?a - ?d + (?r + ?d)] => replace (a - d + (r + d)) with (a + r) by lia
    end; reflexivity.
Qed.

Lemma print_ref_rebase mc dot nm s p : print_ref (m_src mc dot) nm s p = print_ref (m_tgt mc dot) nm s (rebase mc p).
Proof. unfold print_ref. rewrite print_pref_rebase. reflexivity. Qed.

Lemma print_range_rebase mc dot nm s p q :
  print_range (m_src mc dot) nm s p q = print_range (m_tgt mc dot) nm s (rebase mc p) (rebase mc q).
Proof. unfold print_range. rewrite !print_pref_rebase. reflexivity. Qed.

Lemma map_ext_Forall' {A B} (f g : A -> B) l : Forall (fun x => f x = g x) l -> map f l = map g l.
Proof. induction 1 as [|x l Hx _ IH]; cbn [map]; [reflexivity|]. rewrite Hx, IH. reflexivity. Qed.

Lemma forallb_Forall_impl (P : ast -> bool) (Q : ast -> Prop) l :
  Forall (fun x => P x = true -> Q x) l -> forallb P l = true -> Forall Q l.
Proof.
  induction 1 as [|x l Hx _ IH]; cbn [forallb]; intro H; [constructor|].
  apply andb_true_iff in H as [H1 H2]. constructor; auto.
Qed.

Lemma join_one_sep (s1 s2 : token) (l : list (list token)) : (length l <= 1)%nat -> join s1 l = join s2 l.
Proof. destruct l as [|a [|b r]]; cbn [length join]; try reflexivity. lia. Qed.

Lemma moved_prod_left_move mc tidx e : moved_prod_left (move_ast mc tidx e) = moved_prod_left e.
Proof.
  destruct e; try reflexivity; cbn [move_ast];
    repeat match goal with |- context [match ?x with _ => _ end] => destruct x end; reflexivity.
Qed.
Lemma moved_prod_right_move mc tidx e : moved_prod_right (move_ast mc tidx e) = moved_prod_right e.
Proof.
  destruct e; try reflexivity; cbn [move_ast];
    repeat match goal with |- context [match ?x with _ => _ end] => destruct x end; reflexivity.
Qed.

(* on its class the moved printer IS the generic printer with [moved_policy], applied to the moved tree
   and read from the target cell *)
Theorem print_moved_is_gprint mc dot nm tidx e :
  moved_class dot nm e = true ->
  print_moved mc dot nm e = gprint (m_tgt mc dot) nm moved_policy (move_ast mc tidx e).
Proof.
  induction e using ast_rect'; cbn [moved_class]; intro Hc; cbn [print_moved move_ast gprint];
    try reflexivity;
    try (apply andb_true_iff in Hc as [Hc1 Hc2]; rewrite (IHe1 Hc1), (IHe2 Hc2); reflexivity);
    try (rewrite (IHe Hc); reflexivity);
    try discriminate.
  - (* EBool *) unfold moved_bool, bool_en_ok in *.
    destruct (bool_of_name nm t_true) as [[|]|] eqn:E1; try discriminate.
    destruct (bool_of_name nm t_false) as [[|]|] eqn:E2; try discriminate.
    destruct b; cbn zeta; [rewrite E1|rewrite E2]; reflexivity.
  - (* ERef *) destruct i as [idx|].
    + destruct (move_ref mc s idx p) as [s' p']. cbn [gprint]. apply print_ref_rebase.
    + cbn [gprint]. apply print_ref_rebase.
  - (* ERange *) destruct i as [idx|].
    + destruct (move_range mc s idx p q) as [[s' q1] q2]. cbn [gprint]. apply print_range_rebase.
    + cbn [gprint]. apply print_range_rebase.
  - (* EProd: the two wrapped operands *)
    apply andb_true_iff in Hc as [Hc1 Hc2]. rewrite (IHe1 Hc1), (IHe2 Hc2).
    unfold moved_policy at 1 3. cbn [pol_prod_l pol_prod_r].
    rewrite moved_prod_left_move, moved_prod_right_move.
    reflexivity.
  - (* EFun *)
    apply andb_true_iff in Hc as [Hd Hc].
    rewrite map_map.
    rewrite (map_ext_Forall' (print_moved mc dot nm) (fun x => gprint (m_tgt mc dot) nm moved_policy (move_ast mc tidx x)) args)
      by (eapply forallb_Forall_impl; [exact H|exact Hc]).
    unfold arg_sep. cbn [pm_dot m_tgt].
    destruct dot; [reflexivity|]. cbn [orb] in Hd. apply Nat.leb_le in Hd.
    rewrite (join_one_sep TComma (sep_token SepSemicolon)) by (rewrite map_length; exact Hd). reflexivity.
  - (* ENamedFun *)
    apply andb_true_iff in Hc as [Hc0 Hc]. apply andb_true_iff in Hc0 as [Hn Hd]. apply text_eqb_eq in Hn.
    rewrite map_map.
    rewrite (map_ext_Forall' (print_moved mc dot nm) (fun x => gprint (m_tgt mc dot) nm moved_policy (move_ast mc tidx x)) args)
      by (eapply forallb_Forall_impl; [exact H|exact Hc]).
    rewrite Hn. unfold arg_sep. cbn [pm_dot m_tgt].
    destruct dot; [reflexivity|]. cbn [orb] in Hd. apply Nat.leb_le in Hd.
    rewrite (join_one_sep TComma (sep_token SepSemicolon)) by (rewrite map_length; exact Hd). reflexivity.
Qed.

(* ---- C16_cut_print_partial: for the class, with no bad pair relative to [moved_policy], the pasted text
   parses at the target cell to the moved tree ---------------------------------------------------------- *)
Theorem cut_print_partial mc dot nm env tidx e :
  moved_class dot nm e = true ->
  image (m_tgt mc dot) nm env (move_ast mc tidx e) = true ->
  no_bad_with moved_policy false (move_ast mc tidx e) = true ->
  lower_stable nm (move_ast mc tidx e) = true ->
  parse (m_tgt mc dot) nm env (print_moved mc dot nm e) = Some (move_ast mc tidx e, []).
Proof.
  intros Hc Hi Hb Hl. rewrite (print_moved_is_gprint mc dot nm tidx e Hc). unfold parse.
  apply (roundtrip_policy (m_tgt mc dot) nm env moved_policy); try assumption; [reflexivity|].
  pose proof (size_le_tokens (m_tgt mc dot) nm env moved_policy (move_ast mc tidx e) false Hi) as B.
  unfold bounded in B. lia.
Qed.

(* ---- the external pass: which formula cells are skipped ------------------------------------------------- *)
Theorem external_skipped_spec a sheet row col :
  external_skipped a sheet row col = true <->
  sheet = ma_sheet a /\ ma_row a <= row < ma_row a + ma_height a /\ ma_col a <= col < ma_col a + ma_width a.
Proof.
  unfold external_skipped. rewrite !andb_true_iff, Z.eqb_eq, !Z.leb_le, !Z.ltb_lt. intuition lia.
Qed.

(* a formula cell on ANOTHER sheet is never skipped, whatever its coordinates *)
Theorem external_other_sheet_never_skipped a sheet row col :
  sheet <> ma_sheet a -> external_skipped a sheet row col = false.
Proof.
  intro H. unfold external_skipped. destruct (sheet =? ma_sheet a) eqn:E; [apply Z.eqb_eq in E; contradiction|reflexivity].
Qed.

(* the skipped cells are exactly the cells of the cut area (the ones [ref_is_in_area] moves) *)
Theorem external_skipped_is_in_area a sheet row col :
  external_skipped a sheet row col = ref_is_in_area sheet row col a.
Proof.
  apply Bool.eq_true_iff_eq. rewrite external_skipped_spec, ref_is_in_area_spec. intuition lia.
Qed.

(* ---- copy & paste: the same tree printed at another anchor ------------------------------------------- *)
(* extend_copied_value: parse at the source cell, [to_localized_string] at the target cell: relative
   references are offsets, so the tree IS the translation; reading the pasted text back at the target
   gives the same tree: C09 at the target anchor *)
Theorem copy_roundtrip m_target nm env e :
  image m_target nm env e = true -> no_bad (pm_xlsx m_target) e = true -> lower_stable nm e = true ->
  parse m_target nm env (print m_target nm e) = Some (e, []).
Proof. exact (roundtrip_parse m_target nm env e). Qed.

(* a relative reference that leaves the grid at the target prints "#REF!" (rows above 1, columns outside 1..16384) *)
Theorem copy_offgrid m nm s p :
  pm_rc m = false ->
  let row := if p_abs_row p then p_row p else p_row p + pm_row m in
  let col := if p_abs_col p then p_col p else p_col p + pm_col m in
  (row < 1 \/ col < 1 \/ LAST_COLUMN < col) -> print_ref m nm s p = err_tokens nm 0.
Proof.
  intros Hrc row col H. unfold print_ref, print_pref. rewrite Hrc. fold row. fold col.
  destruct (row <? 1) eqn:E1; [reflexivity|]. destruct (col <? 1) eqn:E2; [reflexivity|].
  destruct (LAST_COLUMN <? col) eqn:E3; [reflexivity|].
  apply Z.ltb_ge in E1. apply Z.ltb_ge in E2. apply Z.ltb_ge in E3. lia.
Qed.

Theorem copy_ongrid m nm s p :
  pm_rc m = false ->
  let row := if p_abs_row p then p_row p else p_row p + pm_row m in
  let col := if p_abs_col p then p_col p else p_col p + pm_col m in
  1 <= row -> 1 <= col <= LAST_COLUMN ->
  print_ref m nm s p = [TReference s {| p_row := row; p_col := col; p_abs_col := p_abs_col p; p_abs_row := p_abs_row p |}].
Proof.
  intros Hrc row col H1 H2. unfold print_ref, print_pref. rewrite Hrc. fold row. fold col.
  destruct (row <? 1) eqn:E1; [apply Z.ltb_lt in E1; lia|]. destruct (col <? 1) eqn:E2; [apply Z.ltb_lt in E2; lia|].
  destruct (LAST_COLUMN <? col) eqn:E3; [apply Z.ltb_lt in E3; lia|]. reflexivity.
Qed.

(* ... but not beyond the last ROW: there is no such test in stringify_reference (finding F41 of C12) *)
Theorem copy_row_overflow_refuted :
  let m := {| pm_rc := false; pm_xlsx := false; pm_dot := true; pm_row := LAST_ROW; pm_col := 1 |} in
  let p := {| p_row := 1; p_col := 0; p_abs_col := false; p_abs_row := false |} in
  forall nm, print_ref m nm None p = [TReference None {| p_row := LAST_ROW + 1; p_col := 1; p_abs_col := false; p_abs_row := false |}].
Proof. intros m p nm. reflexivity. Qed.

(* ---- C16_cut_print_refuted: witnesses ---------------------------------------------------------------- *)
Definition nm_en0 : names :=
  {| fn_name := fun _ => [70]; fn_lookup := fun _ => None;
     bool_of_name := fun t => if text_eqb t t_true then Some true else if text_eqb t t_false then Some false else None;
     fn_true := 0; fn_false := 1; nm_lower := fun t => t; nm_upper := fun t => t; err_tokens := fun k => [TError k] |}.
(* a language whose booleans are not TRUE / FALSE *)
Definition nm_es0 : names :=
  {| fn_name := fun _ => [70]; fn_lookup := fun _ => None;
     bool_of_name := fun t => if text_eqb t [86;69;82;68;65;68;69;82;79] then Some true else if text_eqb t [70;65;76;83;79] then Some false else None;
     fn_true := 0; fn_false := 1; nm_lower := fun t => t; nm_upper := fun t => t; err_tokens := fun k => [TError k] |}.
Definition env_m : penv := {| pe_sheets := [[83]]; pe_ctx_sheet := [83]; pe_defnames := []; pe_tables := [] |}.
(* cut A1 (a 1x1 area on sheet 0) and paste it at C4 of the same sheet *)
Definition mc0 : mctx :=
  {| mc_src_name := [83]; mc_row := 1; mc_col := 1;
     mc_area := {| ma_sheet := 0; ma_row := 1; ma_col := 1; ma_width := 1; ma_height := 1 |};
     mc_tgt_name := [83]; mc_drow := 3; mc_dcol := 2 |}.
Definition tidx0 (s : option text) (i : option Z) : option Z := i.
Definition k1 := ENum [49]. Definition k2 := ENum [50]. Definition k3 := ENum [51].

Definition cut_refutes (dot : bool) (nm : names) (w : ast) : Prop :=
  image (m_tgt mc0 dot) nm env_m (move_ast mc0 tidx0 w) = true /\
  parse (m_tgt mc0 dot) nm env_m (print_moved mc0 dot nm w) <> Some (move_ast mc0 tidx0 w, []).

Ltac refute := split; [vm_compute; reflexivity|vm_compute; discriminate].
(* =1-(2-3) pastes as =1-2-3 *)
Theorem cut_refuted_sub_sub : cut_refutes true nm_en0 (ESum SMinus k1 (ESum SMinus k2 k3)). Proof. refute. Qed.
(* =-(1+2) pastes as =-1+2 *)
Theorem cut_refuted_neg_sum : cut_refutes true nm_en0 (ENeg (ESum SAdd k1 k2)). Proof. refute. Qed.
(* =(1+2)^2 pastes as =1+2^2 *)
Theorem cut_refuted_pow_sum : cut_refutes true nm_en0 (EPow (ESum SAdd k1 k2) k2). Proof. refute. Qed.
(* =2^(3^2) pastes as =2^3^2 *)
Theorem cut_refuted_pow_pow : cut_refutes true nm_en0 (EPow k2 (EPow k3 k2)). Proof. refute. Qed.
(* =1&(2=3) pastes as =1&2=3 *)
Theorem cut_refuted_concat_cmp : cut_refutes true nm_en0 (EConcat k1 (ECmp CEq k2 k3)). Proof. refute. Qed.
(* =(1&2)+3 pastes as =1&2+3 *)
Theorem cut_refuted_sum_concat : cut_refutes true nm_en0 (ESum SAdd (EConcat k1 k2) k3). Proof. refute. Qed.
(* =(1+2)% pastes as =1+2% *)
Theorem cut_refuted_pct_sum : cut_refutes true nm_en0 (EPct (ESum SAdd k1 k2)). Proof. refute. Qed.
(* =(2*3)^2 pastes as =2*3^2 *)
Theorem cut_refuted_pow_prod : cut_refutes true nm_en0 (EPow (EProd PTimes k2 k3) k2). Proof. refute. Qed.
(* ={1,2;3,4} pastes as ={{1;2},{3;4}} *)
Theorem cut_refuted_array :
  cut_refutes true nm_en0 (EArray [[ANum false [49]; ANum false [50]]; [ANum false [51]; ANum false [52]]]).
Proof. refute. Qed.
(* any two-argument call in a ';' locale: f(1;2) pastes as f(1,2) *)
Theorem cut_refuted_arg_separator : cut_refutes false nm_en0 (ENamedFun None [102] [k1; k2]). Proof. refute. Qed.
(* a boolean in a language whose booleans are not TRUE/FALSE: VERDADERO pastes as TRUE (not a token in that language) *)
Theorem cut_refuted_boolean_english : cut_refutes true nm_es0 (EBool true). Proof. refute. Qed.
(* a user function with an upper-case letter round-trips here (the moved printer does NOT lower-case it),
   unlike [stringify] (F62): recorded for completeness *)
Example cut_named_function_kept :
  parse (m_tgt mc0 true) nm_en0 env_m (print_moved mc0 true nm_en0 (ENamedFun None [70;111] [k1])) = Some (ENamedFun None [70;111] [k1], []).
Proof. vm_compute. reflexivity. Qed.

(* non-vacuity of cut_print_partial: =A1*(B2+1)-SUMX($A$1:A1;B7) cut from A1 (area A1) and pasted at C4 *)
Example cut_print_partial_nonvacuous :
  let a1 := {| p_row := 0; p_col := 0; p_abs_col := false; p_abs_row := false |} in
  let b2 := {| p_row := 1; p_col := 1; p_abs_col := false; p_abs_row := false |} in
  let aa := {| p_row := 1; p_col := 1; p_abs_col := true; p_abs_row := true |} in
  let e := ESum SMinus (EProd PTimes (ERef None (Some 0) a1) (ESum SAdd (ERef None (Some 0) b2) k1))
                (ENamedFun None [102] [ERange None (Some 0) aa a1; ERef None (Some 0) b2]) in
  moved_class true nm_en0 e = true /\
  image (m_tgt mc0 true) nm_en0 env_m (move_ast mc0 tidx0 e) = true /\
  no_bad_with moved_policy false (move_ast mc0 tidx0 e) = true /\
  move_ast mc0 tidx0 e <> e /\
  parse (m_tgt mc0 true) nm_en0 env_m (print_moved mc0 true nm_en0 e) = Some (move_ast mc0 tidx0 e, []).
Proof. vm_compute. repeat split. discriminate. Qed.
