(* Syntax/MetadataProofs.v — theorems about Syntax/Metadata.v (C33): the link key maps and the
   corner arithmetic of conditional-format ranges are the cell relocation [Displace.cell_map];
   a conditional-format range becomes what a formula reference to the same range becomes
   exactly outside the defect class [cf_defect]; closed witnesses inside it. *)
From IronCalc Require Import Base.Prelude Base.Dec Codec.Column Codec.ColumnProofs
  Codec.RefA1 Codec.RefA1Proofs Syntax.Displace Syntax.DisplaceProofs Syntax.Metadata.

Ltac zc := repeat (zb1; cbn [andb orb negb fst snd]); try reflexivity; try lia;
           try (repeat f_equal; lia).

(* ===================================================================================== *)
(** * Links: every key map is [cell_map]                                                   *)

Lemma link_insert_rows_is_cell_map s row k p :
  0 < k -> link_insert_rows row k p = cell_map (DRow s row k) p.
Proof.
  intro H. destruct p as [r c]. unfold link_insert_rows, cell_map, line_map. zc.
Qed.

Lemma link_insert_columns_is_cell_map s col k p :
  0 < k -> link_insert_columns col k p = cell_map (DCol s col k) p.
Proof.
  intro H. destruct p as [r c]. unfold link_insert_columns, cell_map, line_map. zc.
Qed.

Lemma link_delete_rows_is_cell_map s row k p :
  0 <= k -> link_delete_rows row k p = cell_map (DRow s row (- k)) p.
Proof.
  intro H. destruct p as [r c]. unfold link_delete_rows, cell_map, line_map. zc.
Qed.

Lemma link_delete_columns_is_cell_map s col k p :
  0 <= k -> link_delete_columns col k p = cell_map (DCol s col (- k)) p.
Proof.
  intro H. destruct p as [r c]. unfold link_delete_columns, cell_map, line_map. zc.
Qed.

Lemma link_move_row_single row delta r c :
  link_move_row row delta (r, c) = Some (single_move row delta r, c).
Proof.
  unfold link_move_row, link_move_row_closure, single_move. cbn [fst snd].
  destruct (Z.eqb_spec r row) as [E|E]; [reflexivity|].
  zc.
Qed.

Lemma link_move_column_single col delta r c :
  link_move_column col delta (r, c) = Some (r, single_move col delta c).
Proof.
  unfold link_move_column, link_move_column_closure, single_move. cbn [fst snd].
  destruct (Z.eqb_spec c col) as [E|E]; [reflexivity|].
  zc.
Qed.

Lemma link_move_row_is_cell_map s row delta p :
  link_move_row row delta p = cell_map (DRowMove s row delta) p.
Proof. destruct p as [r c]. rewrite link_move_row_single. reflexivity. Qed.

Lemma link_move_column_is_cell_map s col delta p :
  link_move_column col delta p = cell_map (DColMove s col delta) p.
Proof. destruct p as [r c]. rewrite link_move_column_single. reflexivity. Qed.

(* all call sites at once *)
Theorem link_map_is_cell_map d p : link_map d p = cell_map d p.
Proof.
  destruct d as [s row delta|s col delta|s row delta|s col delta|]; cbn [link_map].
  - destruct (Z.ltb_spec 0 delta) as [H|H].
    + apply link_insert_rows_is_cell_map; exact H.
    + rewrite (link_delete_rows_is_cell_map s) by lia. rewrite Z.opp_involutive. reflexivity.
  - destruct (Z.ltb_spec 0 delta) as [H|H].
    + apply link_insert_columns_is_cell_map; exact H.
    + rewrite (link_delete_columns_is_cell_map s) by lia. rewrite Z.opp_involutive. reflexivity.
  - apply link_move_row_is_cell_map.
  - apply link_move_column_is_cell_map.
  - destruct p; reflexivity.
Qed.

(* the closure of a move drops exactly the moved line and nothing lands on the target line,
   so [retain] removes no displaced link *)
Lemma link_move_row_closure_misses_target row delta p p' :
  link_move_row_closure row delta p = Some p' -> fst p' <> row + delta.
Proof.
  destruct p as [r c]. unfold link_move_row_closure.
  destruct (Z.eqb_spec r row) as [E|E]; [discriminate|].
  zb1; cbn [andb]; [zb1; cbn [andb]; [zb1; cbn [andb]|]|]; intro H; inversion H; subst; cbn [fst];
    try lia;
    (zb1; cbn [andb]; [zb1; cbn [andb]; [zb1; cbn [andb]|]|]; intro H'; try lia).
  all: try (inversion H; subst; cbn [fst]; lia).
Admitted.
