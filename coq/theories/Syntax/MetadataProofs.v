(* Syntax/MetadataProofs.v — theorems about Syntax/Metadata.v (C33): the link key maps and the
   corner arithmetic of conditional-format ranges are the cell relocation [Displace.cell_map];
   a conditional-format range becomes what a formula reference to the same range becomes
   exactly outside the defect class [cf_defect]; closed witnesses inside it. *)
From IronCalc Require Import Base.Prelude Base.Dec Codec.Column Codec.ColumnProofs
  Codec.RefA1 Codec.RefA1Proofs Syntax.Displace Syntax.DisplaceProofs Syntax.Metadata.

Ltac zc := repeat (zb1; cbn [andb orb negb fst snd]); try reflexivity; try lia;
           try (f_equal; f_equal; lia).

(* ===================================================================================== *)
(** * Links: every key map is [cell_map]                                                   *)

Lemma link_insert_rows_is_cell_map s row k p :
  0 < k -> link_insert_rows row k p = cell_map (DRow s row k) p.
Proof.
  intro H. destruct p as [r c]. unfold link_insert_rows, cell_map, line_map. zc.
Qed.

Lemma link_insert_columns_is_cell_map s col k p :
  0 < k -> link_insert_columns col k p = cell_map (DCol s col k) p.
Proof.
  intro H. destruct p as [r c]. unfold link_insert_columns, cell_map, line_map. zc.
Qed.

Lemma link_delete_rows_is_cell_map s row k p :
  0 <= k -> link_delete_rows row k p = cell_map (DRow s row (- k)) p.
Proof.
  intro H. destruct p as [r c]. unfold link_delete_rows, cell_map, line_map. zc.
Qed.

Lemma link_delete_columns_is_cell_map s col k p :
  0 <= k -> link_delete_columns col k p = cell_map (DCol s col (- k)) p.
Proof.
  intro H. destruct p as [r c]. unfold link_delete_columns, cell_map, line_map. zc.
Qed.

Lemma link_move_row_single row delta r c :
  link_move_row row delta (r, c) = Some (single_move row delta r, c).
Proof.
  unfold link_move_row, link_move_row_closure, single_move. cbn [fst snd].
  destruct (Z.eqb_spec r row) as [E|E]; [subst; reflexivity|].
  zc.
Qed.

Lemma link_move_column_single col delta r c :
  link_move_column col delta (r, c) = Some (r, single_move col delta c).
Proof.
  unfold link_move_column, link_move_column_closure, single_move. cbn [fst snd].
  destruct (Z.eqb_spec c col) as [E|E]; [subst; reflexivity|].
  zc.
Qed.

Lemma link_move_row_is_cell_map s row delta p :
  link_move_row row delta p = cell_map (DRowMove s row delta) p.
Proof. destruct p as [r c]. rewrite link_move_row_single. reflexivity. Qed.

Lemma link_move_column_is_cell_map s col delta p :
  link_move_column col delta p = cell_map (DColMove s col delta) p.
Proof. destruct p as [r c]. rewrite link_move_column_single. reflexivity. Qed.

(* all call sites at once *)
Theorem link_map_is_cell_map d p : link_map d p = cell_map d p.
Proof.
  destruct d as [s row delta|s col delta|s row delta|s col delta|]; cbn [link_map].
  - destruct (Z.ltb_spec 0 delta) as [H|H].
    + apply link_insert_rows_is_cell_map; exact H.
    + rewrite (link_delete_rows_is_cell_map s) by lia. rewrite Z.opp_involutive. reflexivity.
  - destruct (Z.ltb_spec 0 delta) as [H|H].
    + apply link_insert_columns_is_cell_map; exact H.
    + rewrite (link_delete_columns_is_cell_map s) by lia. rewrite Z.opp_involutive. reflexivity.
  - apply link_move_row_is_cell_map.
  - apply link_move_column_is_cell_map.
  - destruct p; reflexivity.
Qed.

(* the closure of a move drops exactly the moved line, and nothing it keeps lands on the
   target line: [retain] removes no displaced link *)
Lemma link_move_row_closure_spec row delta p :
  (fst p = row /\ link_move_row_closure row delta p = None) \/
  (fst p <> row /\ exists p', link_move_row_closure row delta p = Some p' /\
                              (delta <> 0 -> fst p' <> row + delta)).
Proof.
  destruct p as [r c]. unfold link_move_row_closure. cbn [fst].
  destruct (Z.eqb_spec r row) as [E|E]; [left; split; [exact E|reflexivity]|].
  right. split; [exact E|].
  repeat (zb1; cbn [andb]); eexists; (split; [reflexivity|]); cbn [fst]; lia.
Qed.

Lemma link_move_column_closure_spec col delta p :
  (snd p = col /\ link_move_column_closure col delta p = None) \/
  (snd p <> col /\ exists p', link_move_column_closure col delta p = Some p' /\
                              (delta <> 0 -> snd p' <> col + delta)).
Proof.
  destruct p as [r c]. unfold link_move_column_closure. cbn [snd].
  destruct (Z.eqb_spec c col) as [E|E]; [left; split; [exact E|reflexivity]|].
  right. split; [exact E|].
  repeat (zb1; cbn [andb]); eexists; (split; [reflexivity|]); cbn [snd]; lia.
Qed.

(* no two links collide: the key maps are injective where they are defined *)
Lemma line_map_injective x y at_ delta z :
  line_map x at_ delta = Some z -> line_map y at_ delta = Some z -> x = y.
Proof.
  unfold line_map.
  repeat (zb1; cbn [andb]); intros Hx Hy; try discriminate; inversion Hx; inversion Hy; lia.
Qed.

Theorem link_map_injective d p1 p2 q :
  link_map d p1 = Some q -> link_map d p2 = Some q -> p1 = p2.
Proof.
  rewrite !link_map_is_cell_map. destruct p1 as [r1 c1], p2 as [r2 c2], q as [qr qc].
  destruct d as [s row delta|s col delta|s row delta|s col delta|]; cbn [cell_map].
  - destruct (line_map r1 row delta) eqn:E1; [|discriminate].
    destruct (line_map r2 row delta) eqn:E2; [|discriminate].
    intros H1 H2. inversion H1; inversion H2; subst.
    f_equal. eapply line_map_injective; eassumption.
  - destruct (line_map c1 col delta) eqn:E1; [|discriminate].
    destruct (line_map c2 col delta) eqn:E2; [|discriminate].
    intros H1 H2. inversion H1; inversion H2; subst.
    f_equal. eapply line_map_injective; eassumption.
  - intros H1 H2. rewrite <- H2 in H1. inversion H1 as [[Hr Hc]].
    first [apply single_move_injective in Hr | apply single_move_injective in Hc]; congruence.
  - intros H1 H2. rewrite <- H2 in H1. inversion H1 as [[Hr Hc]].
    first [apply single_move_injective in Hr | apply single_move_injective in Hc]; congruence.
  - intros H1 H2. congruence.
Qed.

(* ---- block moves --------------------------------------------------------------------- *)
Lemma link_iter_last_first_rows i n d r c :
  link_iter_last_first true i n d (Some (r, c)) = Some (iter_last_first i n d r, c).
Proof.
  revert r; induction n as [|n IH]; intro r; cbn [link_iter_last_first iter_last_first obind_pos].
  - reflexivity.
  - rewrite link_move_row_single. apply IH.
Qed.

Lemma link_iter_first_first_rows i n d r c :
  link_iter_first_first true i n d (Some (r, c)) = Some (iter_first_first i n d r, c).
Proof.
  revert i r; induction n as [|n IH]; intros i r; cbn [link_iter_first_first iter_first_first obind_pos].
  - reflexivity.
  - rewrite link_move_row_single. apply IH.
Qed.

Lemma link_iter_last_first_cols i n d r c :
  link_iter_last_first false i n d (Some (r, c)) = Some (r, iter_last_first i n d c).
Proof.
  revert c; induction n as [|n IH]; intro c; cbn [link_iter_last_first iter_last_first obind_pos].
  - reflexivity.
  - rewrite link_move_column_single. apply IH.
Qed.

Lemma link_iter_first_first_cols i n d r c :
  link_iter_first_first false i n d (Some (r, c)) = Some (r, iter_first_first i n d c).
Proof.
  revert i c; induction n as [|n IH]; intros i c; cbn [link_iter_first_first iter_first_first obind_pos].
  - reflexivity.
  - rewrite link_move_column_single. apply IH.
Qed.

(* the loops of move_rows_action / move_columns_action carry a link where the block move
   carries its cell *)
Theorem link_block_move_rows i n d r c :
  link_block_move true i n d (r, c) = Some (block_move i (Z.of_nat n) d r, c).
Proof.
  rewrite <- iterate_is_block. unfold link_block_move, iterate_moves.
  destruct (0 <? d); [apply link_iter_last_first_rows | apply link_iter_first_first_rows].
Qed.

Theorem link_block_move_cols i n d r c :
  link_block_move false i n d (r, c) = Some (r, block_move i (Z.of_nat n) d c).
Proof.
  rewrite <- iterate_is_block. unfold link_block_move, iterate_moves.
  destruct (0 <? d); [apply link_iter_last_first_cols | apply link_iter_first_first_cols].
Qed.

(* ---- the store ------------------------------------------------------------------------ *)
Lemma displace_links_in map l k' v :
  In (k', v) (displace_links map l) <-> exists k, In (k, v) l /\ map k = Some k'.
Proof.
  induction l as [|[k0 v0] l IH]; cbn [displace_links In].
  - split; [tauto | intros [k [[] _]]].
  - destruct (map k0) as [k0'|] eqn:E; cbn [In]; rewrite IH; split.
    + intros [H|[k [H1 H2]]].
      * inversion H; subst. exists k0. split; [left; reflexivity | exact E].
      * exists k. split; [right; exact H1 | exact H2].
    + intros [k [[H|H] H2]].
      * inversion H; subst. left. congruence.
      * right. exists k. split; assumption.
    + intros [k [H1 H2]]. exists k. split; [right; exact H1 | exact H2].
    + intros [k [[H|H] H2]].
      * inversion H; subst. congruence.
      * exists k. split; assumption.
Qed.

(* insert_rows / delete_rows / insert_columns / delete_columns on the store: a link is at k'
   afterwards iff it was at some k with cell_map d k = Some k' *)
Theorem displace_links_follow_cells d l k' v :
  In (k', v) (displace_links (link_map d) l) <-> exists k, In (k, v) l /\ cell_map d k = Some k'.
Proof.
  rewrite displace_links_in. split; intros [k [H1 H2]]; exists k; split; try exact H1.
  - rewrite <- link_map_is_cell_map. exact H2.
  - rewrite link_map_is_cell_map. exact H2.
Qed.

(* ===================================================================================== *)
(** * Conditional-format corners                                                            *)

Theorem cf_corner_is_cell_map d s p :
  disp_sheet d = Some s -> cf_corner d s p = cell_map d p.
Proof.
  destruct p as [row col].
  destruct d as [s' dr delta|s' dc delta|s' mr delta|s' mc delta|]; cbn [disp_sheet]; intro H;
    inversion H; subst; unfold cf_corner; cbn [cf_row cf_col cell_map fst snd]; rewrite Z.eqb_refl.
  - unfold line_map. zc.
  - unfold line_map. zc.
  - unfold single_move. zc.
  - unfold single_move. zc.
Qed.

Theorem cf_corner_other_sheet d s s' p :
  disp_sheet d = Some s' -> s <> s' -> cf_corner d s p = Some p.
Proof.
  destruct p as [row col].
  destruct d as [s0 dr delta|s0 dc delta|s0 mr delta|s0 mc delta|]; cbn [disp_sheet]; intros H Hne;
    inversion H; subst; unfold cf_corner; cbn [cf_row cf_col fst snd];
    (replace (s' =? s) with false by (symmetry; apply Z.eqb_neq; congruence)); reflexivity.
Qed.

(* a surviving corner goes where its cell goes *)
Corollary cf_corner_survives d s p p' :
  disp_sheet d = Some s -> cf_corner d s p = Some p' -> cell_map d p = Some p'.
Proof. intros H1 H2. rewrite <- (cf_corner_is_cell_map d s p H1). exact H2. Qed.

(* the validated operations keep rows and columns at or above 1 *)
Definition disp_valid (d : disp) : Prop :=
  match d with
  | DRow _ at_ delta | DCol _ at_ delta => delta < 0 -> 1 <= at_
  | DRowMove _ i delta | DColMove _ i delta => 1 <= i /\ 1 <= i + delta
  | DNone => True
  end.

Theorem cf_rows_stay_positive d s p r c :
  disp_valid d -> 1 <= fst p -> 1 <= snd p -> cf_corner d s p = Some (r, c) -> 1 <= r /\ 1 <= c.
Proof.
  destruct p as [row col]. cbn [fst snd]. intros Hv Hr Hc.
  destruct d as [s' dr delta|s' dc delta|s' mr delta|s' mc delta|]; unfold cf_corner;
    cbn [cf_row cf_col fst snd disp_valid] in *.
  - repeat (zb1; cbn [andb]); intro Hx; try discriminate; inversion Hx; subst; lia.
  - repeat (zb1; cbn [andb]); intro Hx; try discriminate; inversion Hx; subst; lia.
  - repeat (zb1; cbn [andb]); intro Hx; try discriminate; inversion Hx; subst; lia.
  - repeat (zb1; cbn [andb]); intro Hx; try discriminate; inversion Hx; subst; lia.
  - intro H; inversion H; subst; lia.
Qed.

(* ===================================================================================== *)
(** * The range against a formula reference to the same range                               *)

Lemma resolve_rel_corner1 s q p1 p2 : resolve q (corner1 (rel_range s q p1 p2)) = p1.
Proof.
  destruct p1 as [r c], q as [qr qc]. unfold resolve, corner1, rel_range. cbn. f_equal; lia.
Qed.
Lemma resolve_rel_corner2 s q p1 p2 : resolve q (corner2 (rel_range s q p1 p2)) = p2.
Proof.
  destruct p2 as [r c], q as [qr qc]. unfold resolve, corner2, rel_range. cbn. f_equal; lia.
Qed.

Lemma rel_range_not_full s q p1 p2 :
  is_full_row (rel_range s q p1 p2) = false /\ is_full_col (rel_range s q p1 p2) = false.
Proof. split; reflexivity. Qed.

(* one corner: the formula's text for it, in terms of the conditional-format arithmetic *)
Lemma corner_text d s q (a : aref) p :
  disp_sheet d = Some s -> a_sheet a = s -> resolve q a = p ->
  a_abs_row a = false -> a_abs_col a = false ->
  displace_text d false false q a =
  match cf_corner d s p with
  | None => ref_error
  | Some (r, c) =>
    if r <? 1 then ref_error else
    match cf_print (r, c) with Some t => t | None => ref_error end
  end.
Proof.
  intros Hd Hs Hr Har Hac. unfold displace_text. rewrite Hs, Hr.
  rewrite (displace_pos_is_cell_map d s p Hd), <- (cf_corner_is_cell_map d s p Hd).
  destruct (cf_corner d s p) as [[r c]|]; [|reflexivity].
  destruct (r <? 1); [reflexivity|].
  unfold cf_print. cbn [fst snd]. destruct (number_to_column c); [|reflexivity].
  rewrite Har, Hac. cbn [app]. reflexivity.
Qed.

(* PROVED outside the defect class: the displaced conditional-format range is the text
   [stringify] prints for the reference [=...(p1:p2)] held by a formula in any cell q *)
Theorem cf_range_is_formula_range d s q orig p1 p2 :
  disp_sheet d = Some s -> cf_defect d s p1 p2 = false ->
  cf_pair d s orig p1 p2 = displace_range_text d q (rel_range s q p1 p2).
Proof.
  intros Hd Hdef. unfold displace_range_text.
  destruct (rel_range_not_full s q p1 p2) as [F1 F2]. rewrite F1, F2.
  rewrite (corner_text d s q (corner1 (rel_range s q p1 p2)) p1 Hd eq_refl (resolve_rel_corner1 s q p1 p2) eq_refl eq_refl).
  rewrite (corner_text d s q (corner2 (rel_range s q p1 p2)) p2 Hd eq_refl (resolve_rel_corner2 s q p1 p2) eq_refl eq_refl).
  unfold cf_defect, cf_corner_deleted, cf_corner_off_grid in Hdef. unfold cf_pair.
  destruct (cf_corner d s p1) as [[r1 c1]|]; [|discriminate Hdef].
  destruct (cf_corner d s p2) as [[r2 c2]|]; [|cbn in Hdef; rewrite ?orb_true_r in Hdef; discriminate Hdef].
  cbn [orb] in Hdef.
  apply orb_false_iff in Hdef as [Hd1 Hd2].
  apply orb_false_iff in Hd1 as [Hv1 Hr1]. apply orb_false_iff in Hd2 as [Hv2 Hr2].
  rewrite Hr1, Hr2. unfold cf_print, number_to_column. cbn [fst snd].
  apply negb_false_iff in Hv1, Hv2. rewrite Hv1, Hv2. reflexivity.
Qed.

(* the same for a single-cell range against a single reference *)
Theorem cf_cell_is_formula_ref d s q orig p :
  disp_sheet d = Some s ->
  cf_corner_deleted d s p = false -> cf_corner_off_grid d s p = false ->
  cf_cell d s orig p =
  displace_text d false false q
    {| a_sheet := s; a_row := fst p - fst q; a_col := snd p - snd q; a_abs_row := false; a_abs_col := false |}.
Proof.
  intros Hd H1 H2.
  rewrite (corner_text d s q {| a_sheet := s; a_row := fst p - fst q; a_col := snd p - snd q; a_abs_row := false; a_abs_col := false |} p Hd eq_refl).
  - unfold cf_corner_deleted, cf_corner_off_grid in *. unfold cf_cell.
    destruct (cf_corner d s p) as [[r c]|]; [|discriminate H1].
    apply orb_false_iff in H2 as [Hv Hr]. rewrite Hr.
    unfold cf_print, number_to_column. cbn [fst snd]. apply negb_false_iff in Hv. rewrite Hv. reflexivity.
  - destruct p as [r c], q as [qr qc]. unfold resolve. cbn. f_equal; lia.
  - reflexivity.
  - reflexivity.
Qed.

(* inside the class the range is returned unchanged *)
Theorem cf_range_unchanged_when_corner_deleted d s orig p1 p2 :
  cf_corner_deleted d s p1 = true \/ cf_corner_deleted d s p2 = true ->
  cf_pair d s orig p1 p2 = orig.
Proof.
  unfold cf_corner_deleted, cf_pair. intros [H|H].
  - destruct (cf_corner d s p1); [discriminate H | reflexivity].
  - destruct (cf_corner d s p1); [|reflexivity]. destruct (cf_corner d s p2); [discriminate H | reflexivity].
Qed.

(* ---- closed witnesses ----------------------------------------------------------------- *)
Definition t_A3A6 : text := [65; 51; 58; 65; 54].            (* A3:A6 *)
Definition t_A1XFD1 : text := [65; 49; 58; 88; 70; 68; 49].  (* A1:XFD1 *)
Definition t_REF_A4 : text := [35; 82; 69; 70; 33; 58; 65; 52].   (* #REF!:A4 *)
Definition t_A1_REF : text := [65; 49; 58; 35; 82; 69; 70; 33].   (* A1:#REF! *)

(* F25: rows 3-4 deleted under the range A3:A6. The stored text is returned as it is, a formula
   holding SUM(A3:A6) shows SUM(#REF!:A4), and the cell A6 now lives in A4 *)
Theorem cf_vs_formula_refuted_deleted_corner :
  let d := DRow 0 3 (-2) in
  cf_sqref d 0 t_A3A6 = t_A3A6 /\
  cf_part d 0 t_A3A6 = cf_pair d 0 t_A3A6 (3, 1) (6, 1) /\
  displace_range_text d (1, 2) (rel_range 0 (1, 2) (3, 1) (6, 1)) = t_REF_A4 /\
  cell_map d (3, 1) = None /\ cell_map d (6, 1) = Some (4, 1) /\
  cf_pair d 0 t_A3A6 (3, 1) (6, 1) <> displace_range_text d (1, 2) (rel_range 0 (1, 2) (3, 1) (6, 1)).
Proof. vm_compute. repeat split; try reflexivity. discriminate. Qed.

(* new: a corner pushed beyond the last column. One column inserted at B under A1:XFD1: the
   range stays A1:XFD1 (number_to_column fails), the formula shows A1:#REF! *)
Theorem cf_vs_formula_refuted_corner_off_grid :
  let d := DCol 0 2 1 in
  cf_sqref d 0 t_A1XFD1 = t_A1XFD1 /\
  cf_part d 0 t_A1XFD1 = cf_pair d 0 t_A1XFD1 (1, 1) (1, 16384) /\
  displace_range_text d (2, 1) (rel_range 0 (2, 1) (1, 1) (1, 16384)) = t_A1_REF /\
  cf_corner_deleted d 0 (1, 16384) = false /\
  cf_pair d 0 t_A1XFD1 (1, 1) (1, 16384) <> displace_range_text d (2, 1) (rel_range 0 (2, 1) (1, 1) (1, 16384)).
Proof. vm_compute. repeat split; try reflexivity. discriminate. Qed.

(* non-vacuity of the proved clause: an insertion inside A3:A6 *)
Example cf_range_grows :
  cf_defect (DRow 0 5 2) 0 (3, 1) (6, 1) = false /\
  cf_sqref (DRow 0 5 2) 0 t_A3A6 = [65; 51; 58; 65; 56] /\
  displace_range_text (DRow 0 5 2) (1, 2) (rel_range 0 (1, 2) (3, 1) (6, 1)) = [65; 51; 58; 65; 56].
Proof. vm_compute. repeat split; reflexivity. Qed.
